CONSTANTS
  Keys = {"a", "b", "c"}
  Vals = {1, 2}
  KeyRank <- MCKeyRank
SPECIFICATION Spec
INVARIANTS Bijection LenIsLive
CHECK_DEADLOCK FALSE
