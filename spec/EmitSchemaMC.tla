------------------------------ MODULE EmitSchemaMC ------------------------------
(* Bounded universe for C12 (EmitSchema.tla): the catalogue of SemanticsMC (reused unchanged)  *)
(* plus the C12-specific schemas: cross-package references (closure, collisions of object      *)
(* names, foreign objects inside arrays / maps / unions), constants of every scalar kind,      *)
(* defaults next to constraints, nullable collections.                                          *)
(*                                                                                              *)
(* XMode = "index": one state per schema of AllCat, prints INDEX {id, leaf, pos, cons, schema, *)
(*                  foreign}.                                                                   *)
(* XMode = "sim":   tlc -simulate: every behaviour draws one schema of the LARGE catalogue      *)
(*                  (every leaf kind x every position, defaults x required-ness x nullability) *)
(*                  and prints its INDEX line; the thorough tier expands the drawn ids.        *)
(* XMode = "cases": one state per (schema in Ids, document in Docs(schema)) prints CASE {id,   *)
(*                  doc, f, p, accepts, eaccepts}; plus one state per schema printing EXPECT   *)
(*                  {id, expect, needed}: the document EmitExpect demands. The invariant also  *)
(*                  checks ExpectSound on every state (the specification's own consistency).   *)
EXTENDS SemanticsMC, EmitSchema

CONSTANTS XMode

FE(n, as, pkg) == [name |-> n, as |-> as, pkg |-> pkg]
XEntry(n, defs, cons, fs) == [schema |-> [defs |-> defs, root |-> "Root"], leaf |-> n, pos |-> "c12", cons |-> cons, foreign |-> fs]

\* schema transformations of the pipeline file (the object selector is spelled as the configuration spells it)
PSetEntry(obj)    == [k |-> "schema_set_entry_point", obj |-> obj, to |-> ""]
PRename(from, to) == [k |-> "rename_object", obj |-> from, to |-> to]
PEntry(n, passes, rootAs) ==
  XEntry(n, <<
    Def("Root", TStruct(<<F("v", TRef("Node")), FOpt("vs", TArr(TRef("Node"))), FOpt("m", TMap(TRef("Node"))),
                          FOpt("k", TRef("Kind")), FOpt("self", TRef("Root")), F("w", TStr(-1, -1))>>)),
    Def("Node", TStruct(<<F("n", TInt("int64", Ge(0), NoB)), FOpt("next", TRef("Node")), FOpt("k", TRef("Kind"))>>)),
    Def("Kind", TEnum(<<"x", "y">>))>>, TRUE, <<>>) @@ [passes |-> passes, rootAs |-> rootAs]

XChild == Def("XChild", TStruct(<<F("cid", TInt("int64", Ge(1), NoB)), FOpt("tag", TStr(-1, 2))>>))
XKind  == Def("XKind", TEnum(<<"x", "y">>))

BigInts(n) == XEntry(n, <<
    Def("Root", TStruct(<<FDef("d53", TInt("int64", NoB, NoB), JBig("9007199254740993")),
                          FDef("dmax", TInt("int64", NoB, NoB), JBig("9223372036854775807")),
                          Fld("od", TInt("int64", NoB, NoB), FALSE, FALSE, JBig("4611686018427387905")),
                          FDef("dneg", TInt("int64", NoB, NoB), JBig("-9007199254740993")),
                          F("c", TConst(JBig("9007199254740993"))), FOpt("cmax", TConst(JBig("9223372036854775807"))),
                          F("w", TStr(-1, -1))>>))>>, FALSE, <<>>)

XList == <<
  \* a reference to an object of another package
  XEntry("xpkg-ref", <<
    Def("Root", TStruct(<<F("w", TStr(-1, -1)), F("v", TRef("XChild")), FOpt("k", TRef("XKind"))>>)),
    XChild, XKind>>, TRUE,
    <<FE("XChild", "Child", "x"), FE("XKind", "Kind", "x")>>),
  \* foreign objects that reference further foreign objects: inlined until closure
  XEntry("xpkg-closure", <<
    Def("Root", TStruct(<<F("v", TRef("XMid"))>>)),
    Def("XMid", TStruct(<<F("leaf", TRef("XLeaf")), FOpt("k", TRef("XKind")), F("n", TStr(1, -1))>>)),
    Def("XLeaf", TStruct(<<F("n", TInt("int64", Ge(0), Le(2))), FOpt("t", TStr(-1, -1))>>)),
    XKind>>, TRUE,
    <<FE("XMid", "Mid", "x"), FE("XLeaf", "Leaf", "x"), FE("XKind", "Kind", "x")>>),
  \* a foreign object that references itself: the closure must still be finite
  XEntry("xpkg-recursive", <<
    Def("Root", TStruct(<<F("v", TRef("XNode"))>>)),
    Def("XNode", TStruct(<<F("n", TInt("int64", Ge(0), NoB)), FOpt("next", TRef("XNode")), FOpt("kids", TArr(TRef("XNode")))>>))>>, TRUE,
    <<FE("XNode", "Node", "x")>>),
  \* the foreign object carries the name of an object of the document's own package
  XEntry("xpkg-collision", <<
    Def("Root", TStruct(<<F("v", TRef("XChild")), F("own", TRef("Child"))>>)),
    Def("Child", TStruct(<<F("name", TStr(-1, -1))>>)),
    XChild>>, TRUE,
    <<FE("XChild", "Child", "x")>>),
  \* foreign objects inside collections and optional fields
  XEntry("xpkg-collections", <<
    Def("Root", TStruct(<<F("a", TArr(TRef("XChild"))), F("m", TMap(TRef("XChild"))), FOpt("o", TRef("XChild")),
                          F("own", TRef("Own"))>>)),
    Def("Own", TStruct(<<F("c", TRef("XChild"))>>)),
    XChild>>, TRUE,
    <<FE("XChild", "Child", "x")>>),
  \* a discriminated union whose branches live in the other package
  XEntry("xpkg-union", <<
    Def("Root", TStruct(<<F("du", TDUnion("kind", <<"XA", "XB">>))>>)),
    Def("XA", TStruct(<<F("kind", TConst(JStr("a"))), F("x", TInt("int64", Ge(0), NoB))>>)),
    Def("XB", TStruct(<<F("kind", TConst(JStr("b"))), F("y", TStr(-1, -1))>>))>>, TRUE,
    <<FE("XA", "A", "x"), FE("XB", "B", "x")>>),
  \* constants of every scalar kind, constants inside collections
  XEntry("constants", <<
    Def("Root", TStruct(<<F("cs", TConst(JStr("x"))), F("ci", TConst(JInt(2))), F("cb", TConst(JBool(TRUE))),
                          FOpt("cn", TConst(JNum(15))), F("ca", TArr(TConst(JStr("x")))), F("w", TStr(-1, -1))>>))>>, FALSE, <<>>),
  \* defaults next to constraints, defaults of enums, optional fields with defaults, integer enum defaults
  XEntry("defaults-constrained", <<
    Def("Root", TStruct(<<FDef("i", TInt("int64", Ge(0), Le(2)), JInt(1)), FDef("n", TNum("float64", Gt(0), NoB), JNum(15)),
                          FDef("s", TStr(1, 2), JStr("ab")), Fld("os", TStr(-1, -1), FALSE, FALSE, JStr("a")),
                          Fld("oe", TEnum(<<"a", "b">>), FALSE, FALSE, JStr("b")), FDef("ie", TIEnum(<<1, 2>>), JInt(2)),
                          Fld("ob", TBool, FALSE, FALSE, JBool(FALSE)), F("w", TStr(-1, -1))>>))>>, TRUE, <<>>),
  \* defaults of composite values: arrays, nested structs, references
  XEntry("defaults-composite", <<
    Def("Root", TStruct(<<FDef("a", TArr(TStr(-1, -1)), JArr(<<JStr("a")>>)),
                          FDef("inl", TStruct(<<F("z", TInt("int64", NoB, NoB))>>), JObj(<<P("z", JInt(1))>>)),
                          FDef("c", TRef("Child"), JObj(<<P("cid", JInt(2))>>)),
                          F("w", TStr(-1, -1))>>)),
    Child>>, TRUE, <<>>),
  \* nullable everything: nullable collections, nullable references, nullable enums and constrained scalars
  XEntry("nullables", <<
    Def("Root", TStruct(<<FNull("ns", TStr(1, -1)), FNull("ni", TInt("int64", Ge(0), NoB)), FNull("nr", TRef("Child")),
                          FNull("na", TArr(TStr(-1, -1))), FNull("nm", TMap(TStr(-1, -1))), FNull("ne", TEnum(<<"a", "b">>)),
                          FOptNull("on", TNum("float64", NoB, Lt(2))), F("an", TArr(TNullable(TStr(-1, -1)))), F("w", TStr(-1, -1))>>)),
    Child>>, TRUE, <<>>),
  \* ONE run over several packages that all refer to the same object of a further package: every emitted document
  \* (not only the first) must contain the inlined definitions
  XEntry("xpkg-shared-foreign", <<
    Def("Root", TStruct(<<F("v", TRef("XChild")), F("w", TStr(-1, -1))>>)),
    Def("PUser", TStruct(<<F("c", TRef("XChild")), FOpt("k", TRef("XKind"))>>)),
    Def("QOwner", TStruct(<<F("cs", TArr(TRef("XChild"))), F("k", TRef("XKind"))>>)),
    XChild, XKind>>, TRUE,
    <<FE("PUser", "User", "p"), FE("QOwner", "Owner", "q"), FE("XChild", "Child", "x"), FE("XKind", "Kind", "x")>>),
  \* unions whose scalar branches have the SAME kind and differ by constant or constraint
  XEntry("unions-same-kind", <<
    Def("Root", TStruct(<<F("ord", TUnion(<<TConst(JStr("asc")), TConst(JStr("desc"))>>)),
                          F("rng", TUnion(<<TInt("int64", NoB, Le(-1)), TInt("int64", Ge(2), NoB)>>)),
                          FOpt("len", TUnion(<<TStr(-1, 1), TStr(3, -1)>>)),
                          F("mix", TUnion(<<TConst(JInt(1)), TConst(JInt(2)), TStr(2, -1)>>)),
                          FOpt("fr", TUnion(<<TNum("float64", NoB, Lt(0)), TNum("float64", Gt(1), NoB)>>)),
                          F("w", TStr(-1, -1))>>))>>, TRUE, <<>>),
  \* integers beyond 2^53 (exact decimal text, see Semantics!JBig) as defaults and constants; two copies: the output
  \* options (compact / pretty) alternate with the schema id
  BigInts("bigints-a"), BigInts("bigints-b"),
  \* several fields (of one struct and of two structs) typed by the SAME foreign object with different defaults / none
  XEntry("xpkg-ref-defaults", <<
    Def("Root", TStruct(<<Fld("k1", TRef("XKind"), TRUE, FALSE, JStr("y")), Fld("k2", TRef("XKind"), TRUE, FALSE, JStr("x")),
                          F("k3", TRef("XKind")), FOpt("k4", TRef("XKind")), Fld("l1", TRef("XLimit"), FALSE, FALSE, JInt(1)),
                          F("l2", TRef("XLimit")), F("o", TRef("Own")), F("w", TStr(-1, -1))>>)),
    Def("Own", TStruct(<<F("k", TRef("XKind")), Fld("kd", TRef("XKind"), FALSE, FALSE, JStr("x")), Fld("l", TRef("XLimit"), TRUE, FALSE, JInt(2))>>)),
    XKind, Def("XLimit", TInt("int64", Ge(0), Le(2)))>>, TRUE,
    <<FE("XKind", "Kind", "x"), FE("XLimit", "Limit", "x")>>),
  \* fractional bounds (in tenths) on integers and numbers: both signs, all four operators
  XEntry("fractional-bounds", <<
    Def("Root", TStruct(<<F("ilt", TInt("int64", NoB, Lt10(25))), F("ige", TInt("int64", Ge10(5), NoB)),
                          F("ile", TInt("int64", NoB, Le10(-5))), F("igt", TInt("int64", Gt10(-25), NoB)),
                          FOpt("ile2", TInt("int64", NoB, Le10(15))), FOpt("igt2", TInt("int64", Gt10(5), NoB)),
                          FOpt("ige2", TInt("int64", Ge10(-15), NoB)), FOpt("ilt2", TInt("int64", NoB, Lt10(-5))),
                          F("nge", TNum("float64", Ge10(5), Lt10(25))), F("ai", TArr(TInt("int64", Ge10(5), Le10(15)))),
                          F("w", TStr(-1, -1))>>))>>, TRUE, <<>>),
  \* the same with inclusive bounds only (an OpenAPI 3.0 document can spell them)
  XEntry("fractional-bounds-inclusive", <<
    Def("Root", TStruct(<<F("ige", TInt("int64", Ge10(5), NoB)), F("ile", TInt("int64", NoB, Le10(-5))),
                          FOpt("ige2", TInt("int64", Ge10(-15), NoB)), FOpt("ile2", TInt("int64", NoB, Le10(15))),
                          F("n", TNum("float64", Ge10(5), Le10(15))), F("w", TStr(-1, -1))>>))>>, TRUE, <<>>),
  \* names of objects and of fields that differ ONLY by letter case or by separators: IR names are case- and
  \* separator-sensitive, every one of them is an object / a field of its own ("under its own name")
  XEntry("names-case-variants", <<
    Def("Root", TStruct(<<F("a", TRef("panelOptions")), F("b", TRef("PanelOptions")), FOpt("c", TRef("panel_options")),
                          F("ks", TArr(TRef("kind"))), FOpt("k", TRef("Kind")), F("w", TStr(-1, -1))>>)),
    Def("panelOptions", TStruct(<<F("fooBar", TStr(1, -1)), FOpt("FooBar", TInt("int64", Ge(0), NoB)), F("foo_bar", TBool)>>)),
    Def("PanelOptions", TStruct(<<F("n", TInt("int64", Ge(0), NoB))>>)),
    Def("panel_options", TStruct(<<FOpt("s", TStr(-1, 2))>>)),
    Def("kind", TEnum(<<"a", "b">>)), Def("Kind", TEnum(<<"x", "y">>))>>, TRUE, <<>>),
  \* the pipeline CONFIGURATION belongs to the universe: schema transformations (compiler passes of the pipeline file) that
  \* name objects - the entry point is set, an object (the entry point / a referenced object) is renamed, the selector
  \* spelled exactly, in lower case, in upper case (selectors of compiler passes match object names case-insensitively).
  \* `rootAs` is the name the root object carries after the passes.
  PEntry("pass-rename-entry-exact", <<PSetEntry("Root"), PRename("Root", "Board")>>, "Board"),
  PEntry("pass-rename-entry-lower", <<PSetEntry("Root"), PRename("root", "Board")>>, "Board"),
  PEntry("pass-rename-entry-upper", <<PSetEntry("Root"), PRename("ROOT", "Board")>>, "Board"),
  PEntry("pass-rename-child-lower", <<PSetEntry("Root"), PRename("node", "Item")>>, "Root"),
  PEntry("pass-rename-child-upper-then-entry", <<PSetEntry("Root"), PRename("NODE", "Item"), PRename("rooT", "Board")>>, "Board"),
  PEntry("pass-set-entry-only", <<PSetEntry("Root")>>, "Root")
>>

(* ------------------ thorough tier only: three packages, aliases, mutual recursion, defaults, grids ------------------ *)
TEntry(n, defs, cons, fs) == [schema |-> [defs |-> defs, root |-> "Root"], leaf |-> n, pos |-> "c12t", cons |-> cons, foreign |-> fs]
YLeaf == Def("YLeaf", TStruct(<<F("n", TInt("int64", Ge(0), Le(2))), FOpt("k", TRef("YKind"))>>))
YKind == Def("YKind", TEnum(<<"p", "q">>))
GridFields(t, d) == <<   \* required-ness x nullability x default, one field each
  Fld("rq", t, TRUE, FALSE, NoJ),   Fld("op", t, FALSE, FALSE, NoJ),  Fld("rn", t, TRUE, TRUE, NoJ),   Fld("on", t, FALSE, TRUE, NoJ),
  Fld("rqd", t, TRUE, FALSE, d),    Fld("opd", t, FALSE, FALSE, d),   Fld("rnd", t, TRUE, TRUE, d),    Fld("ond", t, FALSE, TRUE, d)>>
Grid(n, t, d, defs) == TEntry(n, <<Def("Root", TStruct(GridFields(t, d) \o <<F("w", TStr(-1, -1))>>))>> \o defs, TRUE, <<>>)

TList == <<
  \* a chain over three packages: main -> x -> y; the closure pulls in objects of a package main never names
  TEntry("xpkg3-chain", <<
    Def("Root", TStruct(<<F("v", TRef("XMid")), F("w", TStr(-1, -1))>>)),
    Def("XMid", TStruct(<<F("leaf", TRef("YLeaf")), F("n", TStr(1, -1)), FOpt("ls", TArr(TRef("YLeaf")))>>)),
    YLeaf, YKind>>, TRUE,
    <<FE("XMid", "Mid", "x"), FE("YLeaf", "Leaf", "y"), FE("YKind", "Kind", "y")>>),
  \* the same object name in two foreign packages, both referenced from the third
  TEntry("xpkg3-collision", <<
    Def("Root", TStruct(<<F("a", TRef("XChild")), F("b", TRef("YChild"))>>)),
    XChild,
    Def("YChild", TStruct(<<F("name", TStr(1, -1))>>))>>, TRUE,
    <<FE("XChild", "Child", "x"), FE("YChild", "Child", "y")>>),
  \* ... and in the document's own package as well
  TEntry("xpkg3-collision-own", <<
    Def("Root", TStruct(<<F("a", TRef("XChild")), F("b", TRef("YChild")), F("c", TRef("Child"))>>)),
    Def("Child", TStruct(<<F("flag", TBool)>>)),
    XChild,
    Def("YChild", TStruct(<<F("name", TStr(1, -1))>>))>>, TRUE,
    <<FE("XChild", "Child", "x"), FE("YChild", "Child", "y")>>),
  \* the collision is only reached through the closure (main names x.Mid, x names y.Mid's namesake)
  TEntry("xpkg3-collision-in-closure", <<
    Def("Root", TStruct(<<F("v", TRef("XMid"))>>)),
    Def("XMid", TStruct(<<F("inner", TRef("YMid")), F("n", TInt("int64", Ge(0), NoB))>>)),
    Def("YMid", TStruct(<<F("s", TStr(-1, 2))>>))>>, TRUE,
    <<FE("XMid", "Mid", "x"), FE("YMid", "Mid", "y")>>),
  \* references to enums, integer enums, constants and aliases (of scalars, references, arrays, maps) of another package
  TEntry("xpkg-enum-const-alias", <<
    Def("Root", TStruct(<<F("k", TRef("XKind")), FOpt("ik", TRef("XIKind")), F("al", TRef("XLimit")), F("ra", TRef("XRefAlias")),
                          F("la", TRef("XList")), FOpt("ma", TRef("XMap")), F("ks", TArr(TRef("XKind"))), F("w", TStr(-1, -1))>>)),
    XKind, Def("XIKind", TIEnum(<<1, 2>>)), Def("XLimit", TInt("int64", Ge(0), Le(2))),
    Def("XRefAlias", TRef("XChild")), Def("XList", TArr(TRef("XChild"))), Def("XMap", TMap(TStr(1, -1))), XChild>>, TRUE,
    <<FE("XKind", "Kind", "x"), FE("XIKind", "IKind", "x"), FE("XLimit", "Limit", "x"), FE("XRefAlias", "RefAlias", "x"),
      FE("XList", "List", "x"), FE("XMap", "Map", "x"), FE("XChild", "Child", "x")>>),
  TEntry("xpkg-constants", <<
    Def("Root", TStruct(<<F("c", TRef("XConst")), F("v", TRef("XHolder")), F("w", TStr(-1, -1))>>)),
    Def("XConst", TConst(JStr("x"))),
    Def("XHolder", TStruct(<<F("kind", TConst(JStr("h"))), F("ci", TConst(JInt(2)))>>))>>, FALSE,
    <<FE("XConst", "Const", "x"), FE("XHolder", "Holder", "x")>>),
  \* mutually recursive foreign objects, mutually recursive local objects
  TEntry("xpkg-mutual", <<
    Def("Root", TStruct(<<F("v", TRef("XA"))>>)),
    Def("XA", TStruct(<<F("n", TInt("int64", Ge(0), NoB)), FOpt("b", TRef("XB"))>>)),
    Def("XB", TStruct(<<F("s", TStr(1, -1)), FOpt("a", TRef("XA")), FOpt("as", TArr(TRef("XA")))>>))>>, TRUE,
    <<FE("XA", "A", "x"), FE("XB", "B", "x")>>),
  TEntry("mutual-local", <<
    Def("Root", TStruct(<<F("v", TRef("Ping")), FOpt("m", TMap(TRef("Pong")))>>)),
    Def("Ping", TStruct(<<F("n", TInt("int64", Ge(0), NoB)), FOpt("pong", TRef("Pong"))>>)),
    Def("Pong", TStruct(<<F("s", TStr(1, -1)), FOpt("ping", TRef("Ping")), FOpt("pings", TArr(TRef("Ping")))>>))>>, TRUE, <<>>),
  \* a foreign object used with a default / as nullable / inside a union of scalars and references
  TEntry("xpkg-default-nullable", <<
    Def("Root", TStruct(<<Fld("k", TRef("XKind"), TRUE, FALSE, JStr("y")), FNull("nc", TRef("XChild")), FOptNull("onk", TRef("XKind")),
                          F("an", TArr(TNullable(TRef("XChild")))), F("w", TStr(-1, -1))>>)),
    XKind, XChild>>, TRUE,
    <<FE("XKind", "Kind", "x"), FE("XChild", "Child", "x")>>),
  \* defaults of every value type
  TEntry("defaults-falsy", <<
    Def("Root", TStruct(<<FDef("z", TInt("int64", NoB, NoB), JInt(0)), FDef("f", TBool, JBool(FALSE)), FDef("e", TStr(-1, -1), JStr("")),
                          FDef("zn", TNum("float64", NoB, NoB), JNum(0)), Fld("oz", TInt("int64", Ge(0), NoB), FALSE, FALSE, JInt(0)),
                          Fld("of", TBool, FALSE, FALSE, JBool(FALSE)), FDef("ea", TArr(TStr(-1, -1)), JArr(<<>>)), F("w", TStr(-1, -1))>>))>>, TRUE, <<>>),
  TEntry("defaults-collections", <<
    Def("Root", TStruct(<<FDef("a", TArr(TInt("int64", NoB, NoB)), JArr(<<JInt(1), JInt(2)>>)),
                          FDef("m", TMap(TStr(-1, -1)), JObj(<<P("k1", JStr("a"))>>)),
                          Fld("oa", TArr(TStr(1, -1)), FALSE, FALSE, JArr(<<JStr("a")>>)),
                          FDef("aa", TArr(TArr(TStr(-1, -1))), JArr(<<JArr(<<JStr("a")>>)>>)), F("w", TStr(-1, -1))>>))>>, TRUE, <<>>),
  TEntry("defaults-enums-refs", <<
    Def("Root", TStruct(<<FDef("e", TEnum(<<"a", "b">>), JStr("b")), FDef("ie", TIEnum(<<1, 2>>), JInt(2)),
                          FDef("re", TRef("Kind"), JStr("b")), Fld("ore", TRef("Kind"), FALSE, FALSE, JStr("a")),
                          FDef("rs", TRef("Child"), JObj(<<P("cid", JInt(2))>>)), FDef("rl", TRef("Limit"), JInt(1)), F("w", TStr(-1, -1))>>)),
    Def("Kind", TEnum(<<"a", "b">>)), Def("Limit", TInt("int64", Ge(0), Le(2))), Child>>, TRUE, <<>>),
  TEntry("defaults-structs", <<
    Def("Root", TStruct(<<FDef("inl", TStruct(<<F("z", TInt("int64", NoB, NoB)), FOpt("s", TStr(-1, -1))>>), JObj(<<P("z", JInt(1)), P("s", JStr("a"))>>)),
                          F("nest", TStruct(<<FDef("d", TStr(-1, -1), JStr("ab")), FDef("n", TInt("int64", Ge(0), NoB), JInt(1))>>)),
                          F("w", TStr(-1, -1))>>))>>, TRUE, <<>>),
  \* required-ness x nullability x default, per kind of type
  Grid("grid-str", TStr(1, 2), JStr("ab"), <<>>),
  Grid("grid-int", TInt("int64", Ge(0), Lt(300)), JInt(1), <<>>),
  Grid("grid-num", TNum("float64", Gt(0), Le(2)), JNum(15), <<>>),
  Grid("grid-bool", TBool, JBool(TRUE), <<>>),
  Grid("grid-enum", TEnum(<<"a", "b">>), JStr("b"), <<>>),
  Grid("grid-ienum", TIEnum(<<1, 2>>), JInt(2), <<>>),
  Grid("grid-ref-enum", TRef("Kind"), JStr("b"), <<Def("Kind", TEnum(<<"a", "b">>))>>),
  Grid("grid-ref-struct", TRef("Child"), JObj(<<P("cid", JInt(2))>>), <<Child>>),
  Grid("grid-array", TArr(TStr(1, -1)), JArr(<<JStr("a")>>), <<>>),
  Grid("grid-map", TMap(TInt("int64", Ge(0), NoB)), JObj(<<P("k1", JInt(1))>>), <<>>),
  Grid("grid-time", TTime, JStr(Time1), <<>>),
  Grid("grid-any", TAny, JInt(1), <<>>),
  \* unions: with and without discriminator, nullable branches, arrays of unions of references
  TEntry("unions", <<
    Def("Root", TStruct(<<F("du", TDUnion("kind", <<"A", "B">>)), FOpt("odu", TDUnion("kind", <<"A", "B">>)), FNull("ndu", TDUnion("kind", <<"A", "B">>)),
                          F("adu", TArr(TDUnion("kind", <<"A", "B">>))), F("mdu", TMap(TDUnion("kind", <<"A", "B">>))),
                          F("us", TUnion(<<TStr(1, -1), TInt("int64", Ge(0), NoB), TBool>>)), FOpt("ous", TUnion(<<TStr(-1, -1), TNum("float64", NoB, NoB)>>)),
                          F("aus", TArr(TUnion(<<TStr(-1, -1), TBool>>)))>>)),
    Def("A", TStruct(<<F("kind", TConst(JStr("a"))), F("x", TInt("int64", Ge(0), NoB))>>)),
    Def("B", TStruct(<<F("kind", TConst(JStr("b"))), FOpt("y", TStr(-1, 2))>>))>>, TRUE, <<>>),
  \* intersections (allOf): `Both` and `Deep` are spelled in the inputs as the intersection of the objects listed in `inter`
  \* and an inline struct holding the remaining fields; the term is the merged struct (what the documents look like)
  TEntry("intersection", <<
    Def("Root", TStruct(<<F("v", TRef("Both")), FOpt("vs", TArr(TRef("Both"))), FOpt("d", TRef("Deep")), F("w", TStr(-1, -1))>>)),
    Def("Base", TStruct(<<F("a", TStr(1, -1)), FOpt("n", TInt("int64", Ge(0), NoB))>>)),
    Def("Extra", TStruct(<<FOpt("e", TEnum(<<"a", "b">>))>>)),
    Def("Both", TStruct(<<F("a", TStr(1, -1)), FOpt("n", TInt("int64", Ge(0), NoB)), F("b", TBool), FDef("dd", TStr(-1, -1), JStr("ab"))>>)),
    Def("Deep", TStruct(<<F("a", TStr(1, -1)), FOpt("n", TInt("int64", Ge(0), NoB)), FOpt("e", TEnum(<<"a", "b">>)), F("z", TInt("int64", NoB, Le(2)))>>))>>,
    TRUE, <<>>) @@ [inter |-> <<[name |-> "Both", of |-> <<"Base">>], [name |-> "Deep", of |-> <<"Base", "Extra">>]>>]
>>

AllCat == [i \in DOMAIN CoreCatalogue |-> CoreCatalogue[i] @@ [foreign |-> <<>>]] \o XList \o TList

(* ------------------ the large catalogue the thorough tier DRAWS from (tlc -simulate, seeded) ------------------ *)
\* every leaf kind (constraint kinds on ints and floats of several widths, inclusive and exclusive, one- and two-sided)
\* x every position (the positions of SemanticsMC plus aliases, nested anonymous structs, ...), plus
\* every defaultable leaf x required-ness x nullability with a default
ExtraLeaves == <<
  L("int-gt",     TInt("int64", Gt(0), NoB), TRUE),            L("int-lt",     TInt("int64", NoB, Lt(2)), TRUE),
  L("int-ge-lt",  TInt("int64", Ge(0), Lt(2)), TRUE),          L("int-gt-le",  TInt("int64", Gt(0), Le(2)), TRUE),
  L("num-lt",     TNum("float64", NoB, Lt(2)), TRUE),          L("num-ge-le",  TNum("float64", Ge(0), Le(2)), TRUE),
  L("num-gt-lt",  TNum("float64", Gt(0), Lt(2)), TRUE),        L("f32-ge-le",  TNum("float32", Ge(0), Le(2)), TRUE),
  L("f32-gt",     TNum("float32", Gt(0), NoB), TRUE),          L("uint8-le",   TInt("uint8", NoB, Le(2)), TRUE),
  L("int8-ge",    TInt("int8", Ge(0), NoB), TRUE),             L("uint32-ge-le", TInt("uint32", Ge(1), Le(2)), TRUE),
  L("enum3",      TEnum(<<"a", "b", "ab">>), FALSE),           L("ienum-0",    TIEnum(<<0, 2>>), FALSE),
  L("const-bool", TConst(JBool(TRUE)), FALSE),                 L("const-num",  TConst(JNum(15)), FALSE),
  L("const-int-0", TConst(JInt(0)), FALSE),                    L("const-empty", TConst(JStr("")), FALSE)
>>
AllLeaves == ConsLeaves \o PlainLeaves \o ExtraLeaves
ExtraPos == <<
  Pos("alias", "req", <<"alias">>),                 Pos("optional-alias", "opt", <<"alias">>),
  Pos("nullable-alias", "null", <<"alias">>),       Pos("array>alias", "req", <<"alias", "arr">>),
  Pos("map>alias", "req", <<"alias", "map">>),      Pos("alias>alias", "req", <<"alias", "alias">>),
  Pos("ref>alias", "req", <<"alias", "ref">>),      Pos("anon>anon", "req", <<"anon", "anon">>),
  Pos("ref>anon", "req", <<"anon", "ref">>),        Pos("anon>array", "req", <<"arr", "anon">>),
  Pos("anon>map", "req", <<"map", "anon">>),        Pos("map>anon", "req", <<"anon", "map">>),
  Pos("union-branch>array", "req", <<"arr", "union">>), Pos("optional-nullable>map", "optnull", <<"map">>),
  Pos("nullable-array>nullable", "null", <<"nullable", "arr">>), Pos("optional>anon>optional", "opt", <<"anonopt">>)
>>
AllPos == BasicPos \o DeepPos \o ExtraPos

XWrap(w, x, l) ==
  LET s == ToString(l) IN
  CASE w = "alias"   -> WT(TRef("T" \o s), <<Def("T" \o s, x)>>)
    [] w = "anonopt" -> WT(TStruct(<<FOpt("c", x), F("d", TBool)>>), <<>>)
    [] OTHER -> Wrap(w, x, l)
RECURSIVE XWrapAll(_, _, _)
XWrapAll(x, chain, l) ==
  IF l > Len(chain) THEN x
  ELSE LET w == XWrap(chain[l], x.t, l) IN XWrapAll(WT(w.t, x.defs \o w.defs), chain, l + 1)
ModFld(m, t, d) ==
  CASE m = "req" -> Fld("v", t, TRUE, FALSE, d)  [] m = "opt"     -> Fld("v", t, FALSE, FALSE, d)
    [] m = "null" -> Fld("v", t, TRUE, TRUE, d)  [] m = "optnull" -> Fld("v", t, FALSE, TRUE, d)
BigEntry(leaf, pos, d, tag) ==
  LET w == XWrapAll(WT(leaf.t, <<>>), pos.chain, 1) IN
  [schema |-> [defs |-> <<Def("Root", TStruct(<<F("w", TStr(-1, -1)), ModFld(pos.mod, w.t, d)>>))>> \o w.defs, root |-> "Root"],
   leaf |-> leaf.name, pos |-> tag \o pos.name, cons |-> leaf.cons, foreign |-> <<>>]
Defaultable == SelectSeq(AllLeaves, LAMBDA lf : lf.t.k \in {"int", "num", "str", "bool", "enum", "ienum"})
DefMods == <<Pos("top", "req", <<>>), Pos("optional", "opt", <<>>), Pos("nullable", "null", <<>>), Pos("optional-nullable", "optnull", <<>>)>>
NGrid == Len(AllLeaves) * Len(AllPos)
NDefs == Len(Defaultable) * Len(DefMods)
BigAt(i) ==
  IF i <= NGrid
  THEN BigEntry(AllLeaves[((i - 1) \div Len(AllPos)) + 1], AllPos[((i - 1) % Len(AllPos)) + 1], NoJ, "big:")
  ELSE LET j  == i - NGrid
           lf == Defaultable[((j - 1) \div Len(DefMods)) + 1]
       IN BigEntry(lf, DefMods[((j - 1) % Len(DefMods)) + 1], Base(<<>>, lf.t, 0), "bigdefault:")
NBig == NGrid + NDefs
EntryAt(i) == IF i <= Len(AllCat) THEN AllCat[i] ELSE BigAt(i - Len(AllCat))

\* probe documents for unions of scalars: every value of a small alphabet in the place of a top-level union field
\* (label "Probe": accepted or rejected as Accepts says - the emitted document must agree on BOTH sides)
ProbeVals == <<JInt(-1), JInt(0), JInt(1), JInt(2), JInt(300), JNum(15), JNum(5), JNum(-5), JStr(""), JStr("a"), JStr("ab"), JStr("abc"),
               JStr("asc"), JStr("desc"), JStr("zz"), JBool(TRUE)>>
Probes(schema, fuel) ==
  LET S == DefsFn(schema)
      t == S[schema.root]
      b == Base(S, t, fuel)
  IN IF t.k # "struct" THEN {} ELSE
     UNION {LET f == t.fields[fi] IN
            IF f.t.k = "union" /\ Has(b.ps, f.n)
            THEN {Var(JObj(ReplaceAt(b.ps, Idx(b.ps, f.n), P(f.n, ProbeVals[i]))), "Probe", <<f.n>>) : i \in DOMAIN ProbeVals}
            ELSE {}
            : fi \in DOMAIN t.fields}
XDocs(schema, fuel) == Docs(schema, fuel) \cup Probes(schema, fuel)

Collides(e) ==
  \E i, j \in DOMAIN e.schema.defs :
    i # j /\ OwnName(e.foreign, e.schema.defs[i].name) = OwnName(e.foreign, e.schema.defs[j].name)

XInit == CASE XMode = "index" -> si \in DOMAIN AllCat /\ dx = Marker
           [] XMode = "sim"   -> si = 0 /\ dx = Marker      \* the draw is the (random) first transition, see XNext
           [] OTHER -> si \in (Ids \cap 1..(Len(AllCat) + NBig)) /\ dx \in (XDocs(EntryAt(si).schema, Fuel) \cup {Marker})
\* tlc -simulate -seed N: every behaviour is ONE draw from the large catalogue
IndexLine(i) ==
  LET e == EntryAt(i) IN
  PrintT(<<"INDEX", ToJson([id |-> i, leaf |-> e.leaf, pos |-> e.pos, cons |-> e.cons, schema |-> e.schema, foreign |-> e.foreign,
                            inter |-> IF "inter" \in DOMAIN e THEN e.inter ELSE <<>>,
                            passes |-> IF "passes" \in DOMAIN e THEN e.passes ELSE <<>>,
                            rootAs |-> IF "rootAs" \in DOMAIN e THEN e.rootAs ELSE e.schema.root])>>)
XNext == CASE XMode = "sim" /\ si = 0 -> si' \in (Len(AllCat) + 1)..(Len(AllCat) + NBig) /\ dx' = dx
           \* printed from the ACTION: TLC evaluates it for the drawn state only (invariants are evaluated on every candidate)
           [] XMode = "sim" /\ si # 0 /\ dx = Marker -> IndexLine(si) /\ si' = si /\ dx' = [dx EXCEPT !.f = "drawn"]
           [] OTHER -> UNCHANGED vars
XSpec == XInit /\ [][XNext]_vars

EAcceptsExpected(e, d) ==
  LET exp == AsEmitted(EmitDoc(e.schema, e.foreign, ""), OwnName(e.foreign, e.schema.root))
      DD  == EDefsFn(exp.defs)
  IN EAccepts(DD, DD[exp.root], d)
Pkgs(e) == {e.foreign[i].pkg : i \in DOMAIN e.foreign}

XEmit ==
  XMode = "sim" \/
  LET e == EntryAt(si) IN
  IF XMode = "index"
  THEN IndexLine(si)
  ELSE IF dx = Marker
  THEN PrintT(<<"EXPECT", ToJson([id |-> si, schema |-> e.schema, expect |-> EmitDoc(e.schema, e.foreign, ""),
                                   xexpect |-> [p \in Pkgs(e) |-> EmitDoc(e.schema, e.foreign, p)]])>>)
  ELSE LET S == DefsFn(e.schema) IN
       /\ (Collides(e) \/ ExpectSound(e.schema, e.foreign, dx.d))
       /\ PrintT(<<"CASE", ToJson([id |-> si, doc |-> dx.d, f |-> dx.f, p |-> dx.p,
                                    accepts |-> Accepts(S, S[e.schema.root], dx.d),
                                    eaccepts |-> EAcceptsExpected(e, dx.d)])>>)
===============================================================================
