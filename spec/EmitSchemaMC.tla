------------------------------ MODULE EmitSchemaMC ------------------------------
(* Bounded universe for C12 (EmitSchema.tla): the catalogue of SemanticsMC (reused unchanged)  *)
(* plus the C12-specific schemas: cross-package references (closure, collisions of object      *)
(* names, foreign objects inside arrays / maps / unions), constants of every scalar kind,      *)
(* defaults next to constraints, nullable collections.                                          *)
(*                                                                                              *)
(* XMode = "index": one state per schema of AllCat, prints INDEX {id, leaf, pos, cons, schema, *)
(*                  foreign}.                                                                   *)
(* XMode = "cases": one state per (schema in Ids, document in Docs(schema)) prints CASE {id,   *)
(*                  doc, f, p, accepts, eaccepts}; plus one state per schema printing EXPECT   *)
(*                  {id, expect, needed}: the document EmitExpect demands. The invariant also  *)
(*                  checks ExpectSound on every state (the specification's own consistency).   *)
EXTENDS SemanticsMC, EmitSchema

CONSTANTS XMode

FE(n, as, pkg) == [name |-> n, as |-> as, pkg |-> pkg]
XEntry(n, defs, cons, fs) == [schema |-> [defs |-> defs, root |-> "Root"], leaf |-> n, pos |-> "c12", cons |-> cons, foreign |-> fs]

XChild == Def("XChild", TStruct(<<F("cid", TInt("int64", Ge(1), NoB)), FOpt("tag", TStr(-1, 2))>>))
XKind  == Def("XKind", TEnum(<<"x", "y">>))

XList == <<
  \* a reference to an object of another package
  XEntry("xpkg-ref", <<
    Def("Root", TStruct(<<F("w", TStr(-1, -1)), F("v", TRef("XChild")), FOpt("k", TRef("XKind"))>>)),
    XChild, XKind>>, TRUE,
    <<FE("XChild", "Child", "x"), FE("XKind", "Kind", "x")>>),
  \* foreign objects that reference further foreign objects: inlined until closure
  XEntry("xpkg-closure", <<
    Def("Root", TStruct(<<F("v", TRef("XMid"))>>)),
    Def("XMid", TStruct(<<F("leaf", TRef("XLeaf")), FOpt("k", TRef("XKind")), F("n", TStr(1, -1))>>)),
    Def("XLeaf", TStruct(<<F("n", TInt("int64", Ge(0), Le(2))), FOpt("t", TStr(-1, -1))>>)),
    XKind>>, TRUE,
    <<FE("XMid", "Mid", "x"), FE("XLeaf", "Leaf", "x"), FE("XKind", "Kind", "x")>>),
  \* a foreign object that references itself: the closure must still be finite
  XEntry("xpkg-recursive", <<
    Def("Root", TStruct(<<F("v", TRef("XNode"))>>)),
    Def("XNode", TStruct(<<F("n", TInt("int64", Ge(0), NoB)), FOpt("next", TRef("XNode")), FOpt("kids", TArr(TRef("XNode")))>>))>>, TRUE,
    <<FE("XNode", "Node", "x")>>),
  \* the foreign object carries the name of an object of the document's own package
  XEntry("xpkg-collision", <<
    Def("Root", TStruct(<<F("v", TRef("XChild")), F("own", TRef("Child"))>>)),
    Def("Child", TStruct(<<F("name", TStr(-1, -1))>>)),
    XChild>>, TRUE,
    <<FE("XChild", "Child", "x")>>),
  \* foreign objects inside collections and optional fields
  XEntry("xpkg-collections", <<
    Def("Root", TStruct(<<F("a", TArr(TRef("XChild"))), F("m", TMap(TRef("XChild"))), FOpt("o", TRef("XChild")),
                          F("own", TRef("Own"))>>)),
    Def("Own", TStruct(<<F("c", TRef("XChild"))>>)),
    XChild>>, TRUE,
    <<FE("XChild", "Child", "x")>>),
  \* a discriminated union whose branches live in the other package
  XEntry("xpkg-union", <<
    Def("Root", TStruct(<<F("du", TDUnion("kind", <<"XA", "XB">>))>>)),
    Def("XA", TStruct(<<F("kind", TConst(JStr("a"))), F("x", TInt("int64", Ge(0), NoB))>>)),
    Def("XB", TStruct(<<F("kind", TConst(JStr("b"))), F("y", TStr(-1, -1))>>))>>, TRUE,
    <<FE("XA", "A", "x"), FE("XB", "B", "x")>>),
  \* constants of every scalar kind, constants inside collections
  XEntry("constants", <<
    Def("Root", TStruct(<<F("cs", TConst(JStr("x"))), F("ci", TConst(JInt(2))), F("cb", TConst(JBool(TRUE))),
                          FOpt("cn", TConst(JNum(15))), F("ca", TArr(TConst(JStr("x")))), F("w", TStr(-1, -1))>>))>>, FALSE, <<>>),
  \* defaults next to constraints, defaults of enums, optional fields with defaults, integer enum defaults
  XEntry("defaults-constrained", <<
    Def("Root", TStruct(<<FDef("i", TInt("int64", Ge(0), Le(2)), JInt(1)), FDef("n", TNum("float64", Gt(0), NoB), JNum(15)),
                          FDef("s", TStr(1, 2), JStr("ab")), Fld("os", TStr(-1, -1), FALSE, FALSE, JStr("a")),
                          Fld("oe", TEnum(<<"a", "b">>), FALSE, FALSE, JStr("b")), FDef("ie", TIEnum(<<1, 2>>), JInt(2)),
                          Fld("ob", TBool, FALSE, FALSE, JBool(FALSE)), F("w", TStr(-1, -1))>>))>>, TRUE, <<>>),
  \* defaults of composite values: arrays, nested structs, references
  XEntry("defaults-composite", <<
    Def("Root", TStruct(<<FDef("a", TArr(TStr(-1, -1)), JArr(<<JStr("a")>>)),
                          FDef("inl", TStruct(<<F("z", TInt("int64", NoB, NoB))>>), JObj(<<P("z", JInt(1))>>)),
                          FDef("c", TRef("Child"), JObj(<<P("cid", JInt(2))>>)),
                          F("w", TStr(-1, -1))>>)),
    Child>>, TRUE, <<>>),
  \* nullable everything: nullable collections, nullable references, nullable enums and constrained scalars
  XEntry("nullables", <<
    Def("Root", TStruct(<<FNull("ns", TStr(1, -1)), FNull("ni", TInt("int64", Ge(0), NoB)), FNull("nr", TRef("Child")),
                          FNull("na", TArr(TStr(-1, -1))), FNull("nm", TMap(TStr(-1, -1))), FNull("ne", TEnum(<<"a", "b">>)),
                          FOptNull("on", TNum("float64", NoB, Lt(2))), F("an", TArr(TNullable(TStr(-1, -1)))), F("w", TStr(-1, -1))>>)),
    Child>>, TRUE, <<>>)
>>

AllCat == [i \in DOMAIN Catalogue |-> Catalogue[i] @@ [foreign |-> <<>>]] \o XList

Collides(e) ==
  \E i, j \in DOMAIN e.schema.defs :
    i # j /\ OwnName(e.foreign, e.schema.defs[i].name) = OwnName(e.foreign, e.schema.defs[j].name)

XInit == IF XMode = "index"
         THEN si \in DOMAIN AllCat /\ dx = Marker
         ELSE si \in (Ids \cap DOMAIN AllCat) /\ dx \in (Docs(AllCat[si].schema, Fuel) \cup {Marker})
XSpec == XInit /\ [][Next]_vars

EAcceptsExpected(e, d) ==
  LET exp == AsEmitted(EmitDoc(e.schema, e.foreign, ""), OwnName(e.foreign, e.schema.root))
      DD  == EDefsFn(exp.defs)
  IN EAccepts(DD, DD[exp.root], d)

XEmit ==
  LET e == AllCat[si] IN
  IF XMode = "index"
  THEN PrintT(<<"INDEX", ToJson([id |-> si, leaf |-> e.leaf, pos |-> e.pos, cons |-> e.cons, schema |-> e.schema,
                                  foreign |-> e.foreign])>>)
  ELSE IF dx = Marker
  THEN PrintT(<<"EXPECT", ToJson([id |-> si, expect |-> EmitDoc(e.schema, e.foreign, ""),
                                   pkgs |-> {e.foreign[i].pkg : i \in DOMAIN e.foreign},
                                   xexpect |-> [i \in DOMAIN e.foreign |-> [pkg |-> e.foreign[i].pkg,
                                                                          expect |-> EmitDoc(e.schema, e.foreign, e.foreign[i].pkg)]]])>>)
  ELSE LET S == DefsFn(e.schema) IN
       /\ (Collides(e) \/ ExpectSound(e.schema, e.foreign, dx.d))
       /\ PrintT(<<"CASE", ToJson([id |-> si, doc |-> dx.d, f |-> dx.f, p |-> dx.p,
                                    accepts |-> Accepts(S, S[e.schema.root], dx.d),
                                    eaccepts |-> EAcceptsExpected(e, dx.d)])>>)
===============================================================================
