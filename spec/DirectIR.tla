-------------------------------- MODULE DirectIR --------------------------------
(* Directly constructed intermediate representations for C02 ("all accepted      *)
(* input schemas AND directly constructed intermediate representations").        *)
(* Terms of IR.tla: the worker builds the real ast.Schemas from them             *)
(* (harness/cmd/worker/ir.go) and runs Pipeline.ContextForLanguage + the         *)
(* language's jennies exactly as codegen.Pipeline.Run does. They reach shapes no *)
(* parser produces from the three renderings: every scalar kind in every         *)
(* position, typed constants, maps with non-string keys, top-level objects of    *)
(* every kind, constant references, cross-package references, intersections and  *)
(* disjunctions given to the language chains as they are.                        *)
EXTENDS IR, FlagLattice, Json

VARIABLES si
MCFold == <<>>

VF(x)  == [t |-> "float64", s |-> x]
Sh(n, cons, schemas) == [name |-> n, constructs |-> cons, schemas |-> schemas]
One(objs) == <<SchemaOf("p", objs)>>
Root(fs)  == Obj("p", "Root", TStruct(fs))
Rq(n, t)  == Field(n, t, TRUE)
Op(n, t)  == Field(n, t, FALSE)
ChildO    == Obj("p", "Child", TStruct(<<Rq("cid", TScalar("int64"))>>))
ColorO    == Obj("p", "Color", TEnum(<<Member("red", VStr("red"), "string"), Member("green", VStr("green"), "string")>>))
Cons(op, v) == [op |-> op, args |-> <<v>>]
AO        == Obj("p", "A", TStruct(<<Rq("kind", TConst("string", VStr("a"))), Rq("x", TScalar("int64"))>>))
BO        == Obj("p", "B", TStruct(<<Rq("kind", TConst("string", VStr("b"))), Rq("y", TString)>>))
DateTime  == WithHints(TString, <<Hint("string_format_datetime", VBool(TRUE))>>)

IntKinds  == <<"int8", "int16", "int32", "int64", "uint8", "uint16", "uint32", "uint64">>
AllKinds  == IntKinds \o <<"float32", "float64", "string", "bool", "bytes", "any">>

Shapes == <<
  Sh("ir-scalar-kinds", {"scalar", "bytes"}, One(<<Root([i \in DOMAIN AllKinds |-> Rq("f" \o AllKinds[i], TScalar(AllKinds[i]))])>>)),
  Sh("ir-scalar-kinds-optional", {"scalar", "bytes", "optional"},
     One(<<Root([i \in DOMAIN AllKinds |-> Op("f" \o AllKinds[i], AsNullable(TScalar(AllKinds[i])))])>>)),
  Sh("ir-scalar-kinds-array", {"scalar", "bytes", "array"},
     One(<<Root([i \in DOMAIN AllKinds |-> Rq("f" \o AllKinds[i], TArray(TScalar(AllKinds[i])))])>>)),
  Sh("ir-scalar-kinds-map", {"scalar", "bytes", "map"},
     One(<<Root([i \in DOMAIN AllKinds |-> Rq("f" \o AllKinds[i], TMap(TString, TScalar(AllKinds[i])))])>>)),
  Sh("ir-int-kinds-bounds", {"scalar", "bounds"},
     One(<<Root([i \in DOMAIN IntKinds |-> Rq("f" \o IntKinds[i], TScalarC(IntKinds[i], VNil, <<Cons(">=", VInt("1")), Cons("<", VInt("100"))>>))])>>)),
  Sh("ir-int-kinds-defaults", {"scalar", "default"},
     One(<<Root([i \in DOMAIN IntKinds |-> Rq("f" \o IntKinds[i], WithDef(TScalar(IntKinds[i]), VInt("3")))])>>)),
  Sh("ir-defaults-typed", {"default"}, One(<<Root(<<
       Rq("s", WithDef(TString, VStr("ab"))), Rq("b", WithDef(TScalar("bool"), VBool(TRUE))),
       Rq("f", WithDef(TScalar("float64"), VF("1.5"))), Rq("f32", WithDef(TScalar("float32"), VF("2.5"))),
       Op("os", WithDef(AsNullable(TString), VStr("cd"))), Op("oi", WithDef(AsNullable(TScalar("int64")), VInt("4"))),
       Rq("l", WithDef(TArray(TString), [t |-> "[]interface {}", s |-> "[\"a\",\"b\"]"])),
       Rq("e", WithDef(TRef("p", "Color"), VStr("green"))),
       Rq("c", WithDef(TRef("p", "Child"), [t |-> "map[string]interface {}", s |-> "{\"cid\":1}"]))>>), ColorO, ChildO>>)),
  Sh("ir-const-scalars", {"constant"}, One(<<Root(<<
       Rq("cs", TConst("string", VStr("x"))), Rq("ci", TConst("int64", VInt("2"))), Rq("cb", TConst("bool", VBool(TRUE))),
       Rq("cf", TConst("float64", VF("1.5"))), Rq("cu", TConst("uint8", VInt("7"))), Op("oc", AsNullable(TConst("string", VStr("y"))))>>),
       Obj("p", "Version", TConst("string", VStr("v1"))), Obj("p", "Answer", TConst("int64", VInt("42"))),
       Obj("p", "Pi", TConst("float64", VF("3.5"))), Obj("p", "Yes", TConst("bool", VBool(TRUE)))>>)),
  Sh("ir-map-keys", {"map"}, One(<<Root(<<
       Rq("mi", TMap(TScalar("int64"), TString)), Rq("me", TMap(TRef("p", "Color"), TScalar("bool"))),
       Rq("mu", TMap(TScalar("uint8"), TRef("p", "Child")))>>), ColorO, ChildO>>)),
  Sh("ir-nullable-collections", {"nullable", "array", "map"}, One(<<Root(<<
       Op("na", AsNullable(TArray(TString))), Op("nm", AsNullable(TMap(TString, TScalar("int64")))),
       Op("nr", AsNullable(TRef("p", "Child"))), Op("ns", AsNullable(TStruct(<<Rq("z", TString)>>))),
       Rq("anr", TArray(AsNullable(TRef("p", "Child")))), Rq("mns", TMap(TString, AsNullable(TString)))>>), ChildO>>)),
  Sh("ir-top-level-kinds", {"alias", "bytes"}, One(<<Root(<<
       Rq("a", TRef("p", "Alias")), Rq("s", TRef("p", "Str")), Rq("l", TRef("p", "List")), Rq("m", TRef("p", "Dict")),
       Rq("e", TRef("p", "Color")), Rq("by", TRef("p", "Blob")), Rq("an", TRef("p", "Anything"))>>),
       ChildO, ColorO, Obj("p", "Alias", TRef("p", "Child")), Obj("p", "Str", TString), Obj("p", "List", TArray(TRef("p", "Child"))),
       Obj("p", "Dict", TMap(TString, TRef("p", "Child"))), Obj("p", "Blob", TScalar("bytes")), Obj("p", "Anything", TScalar("any"))>>)),
  Sh("ir-enum-int", {"enum-int"}, One(<<Root(<<Rq("lv", TRef("p", "Level")), Op("olv", AsNullable(TRef("p", "Level"))),
       Rq("dlv", WithDef(TRef("p", "Level"), VInt("2")))>>),
       Obj("p", "Level", TEnum(<<Member("low", VInt("1"), "int64"), Member("high", VInt("2"), "int64")>>))>>)),
  Sh("ir-constref", {"constant", "enum-str"}, One(<<Root(<<Rq("fixed", TConstRef("p", "Color", VStr("green"))), Rq("free", TRef("p", "Color"))>>), ColorO>>)),
  Sh("ir-cross-package", {"ref"}, <<SchemaOf("p", <<Root(<<Rq("t", TRef("q", "Thing")), Rq("ts", TArray(TRef("q", "Thing"))),
                                                         Rq("k", TRef("q", "Kind")), Op("ot", AsNullable(TRef("q", "Thing")))>>)>>),
                                    SchemaOf("q", <<Obj("q", "Thing", TStruct(<<Rq("n", TString)>>)),
                                                    Obj("q", "Kind", TEnum(<<Member("x", VStr("x"), "string"), Member("y", VStr("y"), "string")>>))>>)>>),
  \* the SAME bare name in two packages with different definitions, referenced from one place in both orders (audit class 1)
  Sh("ir-cross-package-same-name", {"ref"}, <<SchemaOf("p", <<Root(<<Rq("mine", TRef("p", "Thing")), Rq("theirs", TRef("q", "Thing")), Rq("theirs2", TRef("q", "Thing")),
                                                              Rq("mine2", TRef("p", "Thing")), Rq("k", TRef("q", "Kind")), Rq("pk", TRef("p", "Kind"))>>),
                                                          Obj("p", "Thing", TStruct(<<Rq("a", TScalar("int64"))>>)),
                                                          Obj("p", "Kind", TEnum(<<Member("one", VStr("one"), "string")>>))>>),
                                    SchemaOf("q", <<Obj("q", "Thing", TStruct(<<Rq("b", TString), Op("self", AsNullable(TRef("q", "Thing")))>>)),
                                                    Obj("q", "Kind", TEnum(<<Member("x", VStr("x"), "string"), Member("y", VStr("y"), "string")>>))>>)>>),
  Sh("ir-intersection", {"intersection"}, One(<<Root(<<Rq("i", TRef("p", "Ext"))>>), Obj("p", "Base", TStruct(<<Rq("b", TString)>>)),
       Obj("p", "Ext", TInter(<<TRef("p", "Base"), TStruct(<<Rq("x", TScalar("int64"))>>)>>))>>)),
  Sh("ir-disjunction-scalars", {"union-scalars"}, One(<<Root(<<Rq("u", TDisj(<<TString, TScalar("int64")>>, "", <<>>)),
       Op("ou", AsNullable(TDisj(<<TString, TScalar("bool"), TScalar("float64")>>, "", <<>>))),
       Rq("au", TArray(TDisj(<<TString, TScalar("int64")>>, "", <<>>)))>>)>>)),
  Sh("ir-disjunction-refs", {"dunion"}, One(<<Root(<<Rq("du", TDisj(<<TRef("p", "A"), TRef("p", "B")>>, "kind", <<MapTo("a", "A"), MapTo("b", "B")>>)),
       Rq("inferred", TDisj(<<TRef("p", "A"), TRef("p", "B")>>, "", <<>>))>>), AO, BO>>)),
  Sh("ir-disjunction-top-level", {"dunion"}, One(<<Root(<<Rq("v", TRef("p", "AOrB")), Rq("s", TRef("p", "StrOrInt"))>>), AO, BO,
       Obj("p", "AOrB", TDisj(<<TRef("p", "A"), TRef("p", "B")>>, "", <<>>)),
       Obj("p", "StrOrInt", TDisj(<<TString, TScalar("int64")>>, "", <<>>))>>)),
  Sh("ir-disjunction-with-null", {"nullable"}, One(<<Root(<<Rq("n", TDisj(<<TString, TNull>>, "", <<>>)),
       Rq("nr", TDisj(<<TRef("p", "Child"), TNull>>, "", <<>>))>>), ChildO>>)),
  Sh("ir-time", {"time"}, One(<<Root(<<Rq("t", DateTime), Op("ot", AsNullable(DateTime)), Rq("at", TArray(DateTime)),
       Rq("dt", WithDef(DateTime, VStr("2024-01-02T03:04:05Z")))>>)>>)),
  Sh("ir-anon-structs", {"anon-struct"}, One(<<Root(<<Rq("s", TStruct(<<Rq("a", TStruct(<<Rq("b", TString)>>))>>)),
       Rq("as", TArray(TStruct(<<Rq("q", TString)>>))), Rq("ms", TMap(TString, TStruct(<<Rq("r", TScalar("bool"))>>)))>>)>>)),
  Sh("ir-string-bounds", {"bounds"}, One(<<Root(<<Rq("s", TScalarC("string", VNil, <<Cons("minLength", VInt("1")), Cons("maxLength", VInt("3"))>>)),
       Rq("f", TScalarC("float64", VNil, <<Cons(">", VF("0.5")), Cons("<=", VF("9.5"))>>)),
       Rq("as", TArray(TScalarC("string", VNil, <<Cons("minLength", VInt("1"))>>)))>>)>>))
>>

Init == si \in DOMAIN Shapes
Next == UNCHANGED si
Spec == Init /\ [][Next]_si

Emit == PrintT(<<"IRSHAPE", ToJson([id |-> si, name |-> Shapes[si].name, constructs |-> Shapes[si].constructs,
                                   schemas |-> Shapes[si].schemas,
                                   expressible |-> [l \in Langs |-> Expressible(l, Shapes[si].constructs)]])>>)
===============================================================================
