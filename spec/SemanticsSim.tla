------------------------------ MODULE SemanticsSim ------------------------------
(* An UNBOUNDED catalogue for seeded draws (tlc -simulate, -seed = --seed): a schema is grown by wrapping a leaf in    *)
(* one more randomly chosen container per step (array, map, referenced / anonymous / recursive struct, union branch,   *)
(* named collection, nullable element, optional / nullable member), next to a randomly chosen sibling field. Every     *)
(* visited state prints one SIM line {leaf, pos, cons, schema}; the check feeds a seeded sample of the distinct        *)
(* schemas back into SemanticsDeepMC (extra.json), which enumerates their documents and expectations like any other.   *)
EXTENDS SemanticsDeepMC

CONSTANTS MaxLvl

VARIABLES cur,     \* [t, defs]: the type grown so far
          lvl, names, leafName, sib, fmod
svars == <<si, dx, cur, lvl, names, leafName, sib, fmod>>

SimLeaves == ConsLeaves \o PlainLeaves \o DoubleLeaves \o <<LBytes>>
SimWraps  == {"arr", "map", "ref", "refopt", "refnull", "anon", "union", "rec", "refarr", "refmap", "arrnull", "mapnull"}
SWrap(w, x, l) ==
  CASE w = "arrnull" -> WT(TArr(TNullable(x)), <<>>)
    [] w = "mapnull" -> WT(TMap(TNullable(x)), <<>>)
    [] OTHER -> Wrap(w, x, l)
SName(w) == CASE w = "arr" -> "array" [] w = "arrnull" -> "array>nullable" [] w = "mapnull" -> "map>nullable"
              [] w = "anon" -> "anon-struct" [] w = "union" -> "union-branch" [] w = "rec" -> "recursive"
              [] w = "refarr" -> "named-array" [] w = "refmap" -> "named-map" [] w = "refopt" -> "ref>optional"
              [] w = "refnull" -> "ref>nullable" [] OTHER -> w

SInit == /\ si = 0 /\ dx = Marker
         /\ \E i \in DOMAIN SimLeaves : cur = WT(SimLeaves[i].t, <<>>) /\ leafName = SimLeaves[i].name
         /\ \E j \in DOMAIN ConsLeaves : sib = j
         /\ fmod \in {"req", "opt", "null", "optnull"}
         /\ lvl = 0 /\ names = "sim"
SNext == /\ lvl < MaxLvl
         /\ \E w \in SimWraps :
              LET x == SWrap(w, cur.t, lvl + 1) IN
              /\ cur' = WT(x.t, cur.defs \o x.defs)
              /\ names' = SName(w) \o ">" \o names
         /\ lvl' = lvl + 1
         /\ UNCHANGED <<si, dx, leafName, sib, fmod>>
SSpec == SInit /\ [][SNext]_svars

SimSchema ==
  LET v == CASE fmod = "req" -> F("v", cur.t) [] fmod = "opt" -> FOpt("v", cur.t)
             [] fmod = "null" -> FNull("v", cur.t) [] OTHER -> FOptNull("v", cur.t)
  IN [defs |-> <<Def("Root", TStruct(<<F("w", TStr(-1, -1)), v, FOpt("u", ConsLeaves[sib].t)>>))>> \o cur.defs, root |-> "Root"]
SEmit == PrintT(<<"SIM", ToJson([leaf |-> leafName \o "&" \o ConsLeaves[sib].name, pos |-> fmod \o ":" \o names, lvl |-> lvl,
                                  cons |-> TRUE, schema |-> SimSchema])>>)
===============================================================================
