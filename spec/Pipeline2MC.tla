----------------------------- MODULE Pipeline2MC -----------------------------
(* Bounded universe for Pipeline2: 2 packages (+ two for the unrelated extra input), objects A/B (+ C by collision), *)
(* 3 object shapes, <= 2 inputs, 2 languages, <= 2 keys per map site except interpolate/consolidate (<= 3).          *)
EXTENDS Pipeline2

CONSTANTS Universe,        \* 0: full, 1: small, 2: the part that matters for order-sensitivity (witness generation)
          Slice, NSlices   \* the quick tier checks one slice of the configurations (chosen by VERIF_SEED)

MCRank == [x \in {"a", "b", "pa", "pb", "o", "p", "q", "r", "k1", "k2", "go", "ts", "kind", "type", "t1", "t2"} |->
             CASE x = "o" -> 0
               [] x \in {"a", "pa", "p", "k1", "go", "kind", "t1"} -> 1
               [] x \in {"b", "pb", "q", "k2", "ts", "type", "t2"} -> 2
               [] OTHER -> 3]

X  == [body |-> "x", cands |-> {}]
Y  == [body |-> "y", cands |-> {}]
C2 == [body |-> "x", cands |-> {"kind", "type"}]
ObjMaps == CASE Universe = 0 -> {("A" :> a) : a \in {X, Y, C2}} \cup {("B" :> X)} \cup {("A" :> a) @@ ("B" :> X) : a \in {X, Y, C2}}
             [] Universe = 1 -> {("A" :> a) : a \in {X, Y, C2}} \cup {("A" :> X) @@ ("B" :> X)}
             [] OTHER        -> {("A" :> a) : a \in {X, C2}}
Inputs1 == [pkg : {"p", "q"}, objs : ObjMaps, coll : {FALSE}] \cup {[pkg |-> "p", objs |-> ("A" :> X), coll |-> TRUE]}
MCInputSeqs == {<<i>> : i \in Inputs1} \cup {<<i, j>> : i \in Inputs1, j \in Inputs1}
\* the unrelated package: "r" is ordered after p and q, "o" before them (Consolidate orders packages by name); both define an
\* object A, like the packages that stay
MCExtra == {[pkg |-> "r", objs |-> ("A" :> Y), coll |-> FALSE], [pkg |-> "o", objs |-> ("A" :> Y), coll |-> FALSE]}

K1 == [key |-> "k1", val |-> "v1"]
K2 == [key |-> "k2", val |-> "v2"]
AllCfgs == [langs : (SUBSET {"go", "ts"}) \ {{}},
            builders : BOOLEAN,
            allowed : IF Universe = 0 THEN {"all", "A"} ELSE {"all"},
            defaults : {{}, {K1, K2}} \cup (IF Universe = 0 THEN {{K1}} ELSE {}),
            compose : {{}, {"t1", "t2"}},
            params : {"flat", "nested"}]
SliceOf(c) == (IF c.builders THEN 1 ELSE 0) + 2 * (IF c.params = "nested" THEN 1 ELSE 0)
MCCfgs == {c \in AllCfgs : NSlices = 1 \/ SliceOf(c) % NSlices = Slice}
MCLangs == {"go", "ts"}
================================================================================
