CONSTANTS
  Mode = "index"
  Ids = {}
  TwoIds = {}
  Fuel = 3
  MaxLvl = 5
SPECIFICATION SSpec
INVARIANTS SEmit
CHECK_DEADLOCK FALSE
