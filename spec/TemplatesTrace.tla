---------------------------- MODULE TemplatesTrace ----------------------------
(* Trace validation of template registration/override/rendering: every record is one REAL template set              *)
(* (template.New + ParseFS + ParseDirectories on the files of a history), with what Render and Exists gave for       *)
(* every query. TLC recomputes the requirement from the recorded files (Parse, Render, Exists of Templates.tla) and    *)
(* names the clause a record violates.                                                                               *)
EXTENDS Templates, Json

CONSTANTS Strict
Trace == ndJsonDeserialize("templates_trace.ndjson")
Queries == {"a", "b", "c", "d/x", "zz"}

VARIABLE l
TInit == l = 1
TNext == l <= Len(Trace) /\ l' = l + 1
TSpec == TInit /\ [][TNext]_l

Step == Trace[l - 1]
St(r) == Parse(Empty0, r.files)
NoCrash(r) == ~r.hang /\ r.got.panic = ""
SetOK(r) == r.got.failed = St(r).failed                                                    \* R2
ExistsOK(r) == \A q \in Queries : r.got.exists[q] = Exists(St(r), q)                        \* R3
VerdictOK(r) == \A q \in Queries : r.got.render[q].err = Render(St(r), q).err              \* R4 (unknown names), R5 (cycles)
OutputOK(r) == \A q \in Queries : (~r.got.render[q].err /\ ~Render(St(r), q).err)
                                     => r.got.render[q].out = Render(St(r), q).out           \* R1, R4
Violated(r) == IF ~NoCrash(r) THEN {"R5-crash-or-hang"}
               ELSE IF ~SetOK(r) THEN {"R2-set-error"}
               ELSE IF St(r).failed THEN {}
               ELSE (IF ExistsOK(r) THEN {} ELSE {"R3-exists"}) \cup (IF VerdictOK(r) THEN {} ELSE {"R4R5-verdict"})
                    \cup (IF OutputOK(r) THEN {} ELSE {"R1-output"})
Verdict == l = 1 \/ Violated(Step) = {} \/ (~Strict /\ PrintT(<<"FAIL", ToJson([l |-> l - 1, violated |-> Violated(Step)])>>))
Done == l = Len(Trace) + 1 => PrintT(<<"CONSUMED", l - 1>>)
===============================================================================
