CONSTANTS
  MaxLen = 1
  Slice = 0
  NSlices = 1
  WithMarker = FALSE
  Chains = FALSE
  Ext = FALSE
  Wiring = FALSE
  Layout = FALSE
  FirstFromR2 = FALSE
  FoldTable <- MCFoldTable
  SingularTable <- MCSingular
  LCamelTable <- MCLCamel
SPECIFICATION Spec17
INVARIANTS B0WellTyped ModelOK Emit17
CHECK_DEADLOCK FALSE
