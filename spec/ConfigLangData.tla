---- MODULE ConfigLangData ----
(* PLACEHOLDER. checks/c20.py regenerates this module at every run from /repo's  *)
(* current tree: DataKPublished from schemas/*.json, DataKLoader by reflection   *)
(* over codegen.Pipeline / yaml.Compiler / yaml.Veneers.  The tiny grammar below *)
(* only keeps the specification loadable on its own (e.g. in the Toolbox).       *)
EXTENDS TLC
Tiny == [root |-> "R",
         nodes |-> ("R" :> [kind |-> "map", open |-> FALSE, elem |-> "", keys |-> <<[k |-> "passes", c |-> "[]P"]>>]) @@
                   ("[]P" :> [kind |-> "list", open |-> FALSE, elem |-> "P", keys |-> <<>>]) @@
                   ("P" :> [kind |-> "map", open |-> FALSE, elem |-> "", keys |-> <<[k |-> "unspec", c |-> "U"], [k |-> "hints", c |-> "any"]>>]) @@
                   ("U" :> [kind |-> "map", open |-> FALSE, elem |-> "", keys |-> <<>>]) @@
                   ("any" :> [kind |-> "free", open |-> FALSE, elem |-> "", keys |-> <<>>])]
DataKPublished == [pipeline |-> Tiny, compiler |-> Tiny, veneers |-> Tiny]
DataKLoader == DataKPublished
====
