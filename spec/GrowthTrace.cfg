CONSTANTS
  Strict = FALSE
  FoldTable <- TrFold
  SingularTable <- TrSingular
  LCamelTable <- TrLCamel
  UCamelTable <- TrUCamel
SPECIFICATION TSpec
INVARIANTS Verdict Stat Done
CHECK_DEADLOCK FALSE
