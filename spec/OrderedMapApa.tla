---------------------------- MODULE OrderedMapApa ----------------------------
(* Apalache version of OrderedMapImpl: the representation invariant           *)
(* (records and order in bijection) is inductive, hence holds after ANY       *)
(* number of Set/Remove operations, not only within TLC's bound.              *)
EXTENDS Integers, Sequences, FiniteSets, Apalache

VARIABLES
  \* @type: Str -> Int;
  records,
  \* @type: Seq(Str);
  order

Keys == {"a", "b", "c", "d"}
Vals == {1, 2}

Init == records = SetAsFun({}) /\ order = <<>>

Set(k, v) ==
  /\ order' = IF k \in DOMAIN records THEN order ELSE Append(order, k)
  /\ records' = [x \in DOMAIN records \cup {k} |-> IF x = k THEN v ELSE records[x]]

\* @type: (Seq(Str), Str) => Seq(Str);
DropKey(s, k) ==
  LET \* @type: (Seq(Str), Str) => Seq(Str);
      step(acc, e) == IF e = k THEN acc ELSE Append(acc, e)
  IN ApaFoldSeqLeft(step, <<>>, s)

Remove(k) ==
  /\ records' = [x \in DOMAIN records \ {k} |-> records[x]]
  /\ order' = DropKey(order, k)

Next == \/ \E k \in Keys, v \in Vals : Set(k, v)
        \/ \E k \in Keys : Remove(k)

IndInv ==
  /\ DOMAIN records \subseteq Keys
  /\ \A k \in DOMAIN records : records[k] \in Vals
  /\ Len(order) <= 4
  /\ {order[i] : i \in DOMAIN order} = DOMAIN records
  /\ \A i, j \in DOMAIN order : order[i] = order[j] => i = j

IndInit ==
  /\ records = Gen(4)
  /\ order = Gen(4)
  /\ IndInv
===============================================================================
