------------------------------ MODULE SemanticsGenMC ------------------------------
(* Seeded random schemas for the THOROUGH tier of C10 / C11 (tlc -simulate, seed = --seed).   *)
(* A behaviour starts from a leaf type and wraps it once per step: array, map, nullable       *)
(* element, referenced struct (required / optional field / with a defaulted sibling and a     *)
(* constant), anonymous struct, discriminated union (branches declared in sorted and in        *)
(* unsorted order of the discriminator values, 2 and 3 branches), recursive struct, named      *)
(* alias of whatever has been built. Every visited state of depth >= MinN is one schema        *)
(* (GEN line): compositions up to MaxN wrappers deep, where the enumerated catalogues stop at  *)
(* 2-3. The check deduplicates them, writes them to gen_schemas.json and SemanticsDefaultsDeepMC       *)
(* computes their documents / DefaultDocs exactly as for catalogue entries.                    *)
EXTENDS SemanticsDefaults, Json

CONSTANTS MinN, MaxN
VARIABLES gt, gdefs, gn, gmod, gtrail
gvars == <<gt, gdefs, gn, gmod, gtrail>>

GInt == TInt("int64", NoB, NoB)
GStr == TStr(-1, -1)
GL(n, t) == [name |-> n, t |-> t]
GenLeaves == {
  GL("int64", GInt), GL("string", GStr), GL("float64", TNum("float64", NoB, NoB)), GL("bool", TBool),
  GL("enum", TEnum(<<"b", "a">>)), GL("time", TTime), GL("any", TAny), GL("const", TConst(JStr("x"))),
  GL("uint8", TInt("uint8", NoB, NoB)), GL("int32", TInt("int32", NoB, NoB)), GL("float32", TNum("float32", NoB, NoB)),
  GL("union", TUnion(<<GStr, GInt>>)), GL("int-ge", TInt("int64", Ge(0), NoB)), GL("str-min", TStr(1, -1))}

Wraps == {"arr", "map", "arr-nullable", "map-nullable", "ref", "ref-opt", "ref-def", "anon", "du-sorted", "du-unsorted", "du-3", "rec", "alias"}

DefNamed(defs, n) == (CHOOSE d \in Range(defs) : d.name = n).t
IsStructRef(t, defs) == t.k = "ref" /\ DefNamed(defs, t.name).k = "struct"
Applicable(w, t, defs) ==
  CASE w \in {"arr-nullable", "map-nullable"} -> IsStructRef(t, defs) \/ t.k \in {"int", "str", "num", "bool"}
    [] OTHER -> t.k # "nullable"

Wrapped(w, t, l) ==      \* <<type, new definitions>>
  LET s == ToString(l) IN
  CASE w = "arr"          -> <<TArr(t), <<>>>>
    [] w = "map"          -> <<TMap(t), <<>>>>
    [] w = "arr-nullable" -> <<TArr(TNullable(t)), <<>>>>
    [] w = "map-nullable" -> <<TMap(TNullable(t)), <<>>>>
    [] w = "ref"          -> <<TRef("C" \o s), <<Def("C" \o s, TStruct(<<F("c", t), FOpt("d", TBool)>>))>>>>
    [] w = "ref-opt"      -> <<TRef("C" \o s), <<Def("C" \o s, TStruct(<<FOpt("c", t), F("d", TBool)>>))>>>>
    [] w = "ref-def"      -> <<TRef("C" \o s), <<Def("C" \o s, TStruct(<<F("c", t), FOptDef("n", GInt, JInt(3)), FDef("s", GStr, JStr("ab")),
                                                                       F("k", TConst(JStr("k" \o s)))>>))>>>>
    [] w = "anon"         -> <<TStruct(<<F("c", t), FOpt("o", GStr)>>), <<>>>>
    [] w = "du-sorted"    -> <<TDUnion("kind", <<"A" \o s, "Z" \o s>>),
                               <<Def("A" \o s, TStruct(<<F("kind", TConst(JStr("a" \o s))), F("c", t)>>)),
                                 Def("Z" \o s, TStruct(<<F("kind", TConst(JStr("z" \o s))), F("s", GStr)>>))>>>>
    [] w = "du-unsorted"  -> <<TDUnion("kind", <<"Z" \o s, "A" \o s>>),
                               <<Def("Z" \o s, TStruct(<<F("kind", TConst(JStr("z" \o s))), F("c", t)>>)),
                                 Def("A" \o s, TStruct(<<F("kind", TConst(JStr("a" \o s))), FOpt("s", GStr)>>))>>>>
    [] w = "du-3"         -> <<TDUnion("kind", <<"M" \o s, "Z" \o s, "A" \o s>>),
                               <<Def("M" \o s, TStruct(<<F("kind", TConst(JStr("m" \o s))), F("b", TBool)>>)),
                                 Def("Z" \o s, TStruct(<<F("kind", TConst(JStr("z" \o s))), F("c", t)>>)),
                                 Def("A" \o s, TStruct(<<F("kind", TConst(JStr("a" \o s))), FOpt("c", t)>>))>>>>
    [] w = "rec"          -> <<TRef("N" \o s), <<Def("N" \o s, TStruct(<<F("c", t), FOpt("next", TRef("N" \o s))>>))>>>>
    [] w = "alias"        -> <<TRef("T" \o s), <<Def("T" \o s, t)>>>>

GInit == /\ \E lf \in GenLeaves : gt = lf.t /\ gtrail = lf.name
         /\ gdefs = <<>> /\ gn = 0 /\ gmod \in {"req", "opt"}
GNext == /\ gn < MaxN
         /\ \E w \in Wraps :
              /\ Applicable(w, gt, gdefs)
              /\ LET r == Wrapped(w, gt, gn + 1) IN gt' = r[1] /\ gdefs' = gdefs \o r[2]
              /\ gtrail' = w \o ">" \o gtrail
         /\ gn' = gn + 1 /\ UNCHANGED gmod
GSpec == GInit /\ [][GNext]_gvars

GenSchema == [defs |-> <<Def("Root", TStruct(<<F("w", GStr), IF gmod = "req" THEN F("v", gt) ELSE FOpt("v", gt)>>))>> \o gdefs, root |-> "Root"]
GEmit == gn < MinN \/ PrintT(<<"GEN", ToJson([schema |-> GenSchema, leaf |-> gtrail, pos |-> "generated:" \o gmod, cons |-> FALSE, spell |-> "plain"])>>)
===============================================================================
