----------------------------- MODULE HeapShapes -----------------------------
(* Shape universe for C18: which IR node type is copied (Roots: the types     *)
(* that have a DeepCopy method, found by reflection over the real code and    *)
(* handed in as a constant), which kind of type sits at each nesting level    *)
(* below it (chain: every type met while instantiating the root gets this     *)
(* chain of kinds, containers down to a leaf kind), what the `any` payloads   *)
(* hold, and how the optional parts are populated.  One TLC state = one shape *)
(* = one value the Go worker instantiates with its reflection-driven filler.  *)
EXTENDS Integers, Sequences, FiniteSets, TLC, Json

CONSTANTS Roots,      \* names of the node types with a DeepCopy method
          DeepRoots,  \* roots whose chains go to MaxDepth (the others: MaxDepth - 1, the root itself is one level)
          MaxDepth, NSlices, Slice,
          OuterNSlices, OuterSlice  \* additional slicing of the chains of length >= 2 for the roots outside DeepRoots

KindRank == [scalar |-> 0, ref |-> 1, constant_ref |-> 2, composable_slot |-> 3, enum |-> 4,
             array |-> 5, map |-> 6, struct |-> 7, disjunction |-> 8, intersection |-> 9]
Kinds      == DOMAIN KindRank
Containers == {"enum", "array", "map", "struct", "disjunction", "intersection"}

Chains(d) == UNION {{s \in [1..n -> Kinds] : \A i \in 1..(n - 1) : s[i] \in Containers} : n \in 1..d}
RECURSIVE SumRank(_)
SumRank(s) == IF s = <<>> THEN 0 ELSE KindRank[Head(s)] + SumRank(Tail(s))

\* `any` payloads: a scalar, a slice of scalars, a map of scalars, a slice holding a map holding a slice,
\* an IR node stored by value (cog keeps ast.DisjunctionType values in hints), exotic = typed slices/maps and a pointer
\* fill, applied to EVERY slot of the value:
\*   wellformed  exactly the pointer of the type's kind is set; slices non-empty with cap > len; maps non-empty
\*   saturated   every exported field of every struct is non-nil and non-empty
\*   sparse      optional pointers nil, slices and maps rotate through nil, empty and short
\*   nilled      every optional pointer, slice, map and `any` is nil
\*   emptied     every pointer non-nil (pointing to a value filled the same way), every slice EMPTY WITH SPARE
\*               CAPACITY (len 0 < cap), every map empty non-nil, every `any` holds an empty list
\*   wide        like wellformed with THREE distinct elements in every slice and map near the root (a routine that
\*               handles only the first - or first and last - element properly)
\*   zeroed      like wellformed (one element per slice) but every scalar slot holds its zero value (false, 0, "");
\*               combined with the falsy payloads false | zero (0, 0.0) | emptystr - the same one in every `any` slot -:
\*               a routine that treats falsy as absent or fills in a constant ([] and {}: fill emptied)
Combos == {<<"wellformed", "scalar">>, <<"wellformed", "slice">>, <<"wellformed", "map">>, <<"wellformed", "nested">>,
           <<"wellformed", "irnode">>, <<"wellformed", "exotic">>, <<"saturated", "nested">>, <<"sparse", "slice">>,
           <<"nilled", "scalar">>, <<"emptied", "slice">>, <<"wide", "slice">>,
           <<"zeroed", "false">>, <<"zeroed", "zero">>, <<"zeroed", "emptystr">>}

\* chains of this slice, by depth bound (computed once, before the product with roots and combos)
\* slices are taken on the chain read as a decimal number (balanced: consecutive numbers fall in consecutive slices;
\* with NSlices <= 60 every slice holds at least one chain of length <= 2, i.e. every root appears in every slice)
RECURSIVE PosVal(_)
PosVal(s) == IF s = <<>> THEN 0 ELSE PosVal(SubSeq(s, 1, Len(s) - 1)) * 10 + KindRank[s[Len(s)]]
SliceChains(d) == {c \in Chains(d) : PosVal(c) % NSlices = Slice}
\* Roots outside DeepRoots hold their types behind other nodes and hand them to Type.DeepCopy unseen: every kind
\* directly below them, and a slice of the longer chains (the type root itself gets every chain)
ChainsFor(r) == IF r \in DeepRoots THEN SliceChains(MaxDepth)
                ELSE {c \in SliceChains(MaxDepth - 1) : Len(c) = 1 \/ SumRank(c) % OuterNSlices = OuterSlice}
Shapes == UNION {{[root |-> r, chain |-> c, fill |-> fp[1], payload |-> fp[2]] : c \in ChainsFor(r), fp \in Combos} : r \in Roots}

VARIABLE shape
Init == shape \in Shapes
Next == UNCHANGED shape
Spec == Init /\ [][Next]_shape
Emit == PrintT(<<"SHAPE", ToJson(shape)>>)
=============================================================================
