---------------------------- MODULE KindRegistryMC ----------------------------
(* Every registry of the bounded universe: which of the three directories exist, up to two core and two composable kinds, *)
(* a stray plain file next to the kind directories, the configured version, an empty path. One state = one case.          *)
EXTENDS KindRegistry, Json

UpTo2(S) == {T \in SUBSET S : Cardinality(T) <= 2}
VARIABLE c
Init == c \in [pathempty : BOOLEAN, version : {"next", "v1"}, hascore : BOOLEAN, hascomposable : BOOLEAN, hascommon : BOOLEAN,
               stray : BOOLEAN, core : UpTo2(CoreKinds), composable : UpTo2(ComposableKinds)]
        /\ (~c.hascore => c.core = {}) /\ (~c.hascomposable => c.composable = {})
        /\ (c.pathempty => c.version = "next" /\ ~c.stray)
Next == UNCHANGED c
Spec == Init /\ [][Next]_c

\* laws: stray files and the common package never change what the kinds load as; an error never comes with schemas
StrayIrrelevant == Expected(c) = Expected([c EXCEPT !.stray = ~c.stray])
ErrHasNothing == Expected(c).err => Expected(c).schemas = {}
OnePackagePerKind == ~Expected(c).err => Cardinality({s.pkg : s \in Expected(c).schemas}) = Cardinality(Expected(c).schemas)
Emit == PrintT(<<"CASE", ToJson([cfg |-> c, expect |-> Expected(c)])>>)
================================================================================
