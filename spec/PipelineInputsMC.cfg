CONSTANTS
  MaxInputs = 2
  Slice = 0
  NSlices = 1
  VerRank <- MCVerRank
SPECIFICATION Spec
INVARIANTS Laws Emit
CHECK_DEADLOCK FALSE
