---------------------------- MODULE OrderedMapHist ----------------------------
(* History generator for C19: every sequence of state-changing operations up *)
(* to MaxLen over a small alphabet, together with the abstract state the     *)
(* specification reaches.  Each distinct state is one history; an invariant  *)
(* prints it as JSON and the Go harness replays it on the real map from      *)
(* New(), comparing every observer after the last operation (all prefixes    *)
(* are histories of their own, so every step is compared).                   *)
EXTENDS OrderedMap, TLC, Json

CONSTANTS MaxLen, Docs   \* Docs: sequence of documents (each a Seq of <<k,v>>) to unmarshal

VARIABLES hist,
          old      \* the receiver a filter/map left behind (initially an unrelated empty map): derived maps are
                   \* fresh values, so later operations on either map must not show in the other

\* the alphabet holds the EMPTY key and the value 0: a key or a value that is the zero value of its type is a key / a value like any other
KeyRankH      == [k \in {"", "b", "c"} |-> CASE k = "" -> 1 [] k = "b" -> 2 [] OTHER -> 3]
Asc(a, b)     == KeyRankH[a] < KeyRankH[b]
Desc(a, b)    == KeyRankH[a] > KeyRankH[b]
\* a deliberately coarse order (everything equal except c first): exercises stability
CFirst(a, b)  == a = "c" /\ b # "c"

Ops == [op : {"set"}, k : Keys, v : Vals]
       \cup [op : {"remove"}, k : Keys]
       \cup [op : {"sort"}, by : {"asc", "desc", "cfirst"}]
       \cup [op : {"unmarshal"}, doc : 1..Len(Docs)]
       \cup [op : {"filter"}, keep : Vals]     \* m := m.Filter(value = keep)
       \cup [op : {"map"}, k : Keys]           \* m := m.Map(value of key k flipped 0<->3)
       \cup [op : {"oldsort"}]                 \* sort the abandoned receiver (descending)
       \cup [op : {"oldset"}, k : {"c"}, v : {3}] \* set a key on the abandoned receiver

Flip(v) == 3 - v

Apply(s, o) ==
  CASE o.op = "set"       -> SetF(s, o.k, o.v)
    [] o.op = "remove"    -> RemoveF(s, o.k)
    [] o.op = "sort"      -> (CASE o.by = "asc"    -> SortByF(Asc, s)
                                [] o.by = "desc"   -> SortByF(Desc, s)
                                [] o.by = "cfirst" -> SortByF(CFirst, s))
    [] o.op = "unmarshal" -> UnmarshalF(s, Docs[o.doc])
    [] o.op = "filter"    -> FilterF(LAMBDA k, v : v = o.keep, s)
    [] o.op = "map"       -> MapF(LAMBDA k, v : IF k = o.k THEN Flip(v) ELSE v, s)
    [] o.op \in {"oldsort", "oldset"} -> s
ApplyOld(s, cur, o) ==
  CASE o.op \in {"filter", "map"} -> cur            \* the receiver stays behind, unchanged
    [] o.op = "oldsort" -> SortByF(Desc, s)
    [] o.op = "oldset"  -> SetF(s, o.k, o.v)
    [] OTHER -> s

HInit == m = <<>> /\ hist = <<>> /\ old = <<>>
HNext == /\ Len(hist) < MaxLen
         /\ \E o \in Ops : hist' = Append(hist, o) /\ m' = Apply(m, o) /\ old' = ApplyOld(old, m, o)
HSpec == HInit /\ [][HNext]_<<m, hist, old>>

\* design-level invariants hold along every history (incl. sort/filter/map/unmarshal)
HNoDup == NoDup(m)
HLenLive == Len(m) = Cardinality(KeysOf(m))

AsPairs(s) == [i \in 1..Len(s) |-> [k |-> s[i][1], v |-> s[i][2]]]
Emit == PrintT(<<"HIST", ToJson([hist |-> hist, m |-> AsPairs(m), old |-> AsPairs(old)])>>)
===============================================================================
