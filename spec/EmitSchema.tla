------------------------------ MODULE EmitSchema ------------------------------
(* C12: what the JSON Schema / OpenAPI documents cog emits must say (DESIGN 3.8, 6 "C12").   *)
(* Requirement level: every operator encodes a sentence of property C12, not the jennies.    *)
(*                                                                                            *)
(*   "every object and field of the IR appears under its own name"        EmitDoc, Diffs: names *)
(*   "every `$ref` resolves"                                              Dangling              *)
(*   "required-ness, constraints, enum values and defaults are carried    Diffs: required,      *)
(*    over unchanged"                                                     constraints, enum,    *)
(*                                                                        default               *)
(*   "every JSON document obtained by encoding a value of the generated   EAccepts on the       *)
(*    Go types validates against the emitted JSON Schema for that object" emitted description   *)
(*   "across schemas with cross-package references"                       foreign objects are   *)
(*                                                                        part of the document  *)
(*                                                                        until closure         *)
(*                                                                                            *)
(* Emitted-schema terms (E-terms): the normalised description of one JSON Schema / OpenAPI    *)
(* schema node. The harness parses the REAL emitted file into such a term; EmitExpect maps a  *)
(* source schema term (Semantics.tla) to the term the emitted node must be equivalent to on    *)
(* the facets the property names. Type keywords and nullability are NOT compared facet by     *)
(* facet (the property does not list them): they are judged through EAccepts only.             *)
(*                                                                                            *)
(* Cross-package schemas: `foreign` is a sequence of [name, as, pkg]: the definition `name`   *)
(* of the schema term lives in package `pkg` under the object name `as`. Definitions not      *)
(* listed live in the main package "" under their own name.                                   *)
EXTENDS Semantics

\* ------------------------------------------------------------------ E-terms
EAny        == [k |-> "any"]
EUnknown    == [k |-> "unknown"]                 \* the harness could not read the node
EType(ty, lo, hi, mn, mx, cst) ==                \* ty: string integer number boolean null none
  [k |-> "type", ty |-> ty, lo |-> lo, hi |-> hi, mn |-> mn, mx |-> mx, cst |-> cst]
EPlain(ty)  == EType(ty, NoB, NoB, -1, -1, NoJ)
EEnum(vals) == [k |-> "enum", vals |-> vals]     \* Seq(JV)
ERef(n)     == [k |-> "ref", name |-> n]
EArr(t)     == [k |-> "arr", t |-> t]
EMap(t)     == [k |-> "map", t |-> t]
EProp(n, t, req, def) == [n |-> n, t |-> t, req |-> req, def |-> def]
EObj(closed, props)   == [k |-> "obj", closed |-> closed, props |-> props]
EAnyOf(ts)  == [k |-> "anyOf", ts |-> ts]
EOneOf(ts)  == [k |-> "oneOf", ts |-> ts]
ENullable(t) == [k |-> "nullable", t |-> t]
EDef(n, t)  == [name |-> n, t |-> t]
\* an emitted document is [defs |-> Seq(EDef), root |-> name or ""]

\* ------------------------------------------------------------------ packages and own names
IsForeign(fs, n) == \E i \in DOMAIN fs : fs[i].name = n
FEntry(fs, n)    == fs[CHOOSE i \in DOMAIN fs : fs[i].name = n]
OwnName(fs, n)   == IF IsForeign(fs, n) THEN FEntry(fs, n).as ELSE n
PkgOf(fs, n)     == IF IsForeign(fs, n) THEN FEntry(fs, n).pkg ELSE ""

\* ------------------------------------------------------------------ EmitExpect
JType(v) == CASE v.j = "str" -> "string" [] v.j = "bool" -> "boolean"
              [] v.j = "num" -> (IF v.n % 10 = 0 THEN "integer" ELSE "number")
              [] v.j = "big" -> "integer" [] OTHER -> "none"

RECURSIVE EmitExpect(_, _)
EmitExpect(fs, t) ==
  CASE t.k = "any"      -> EAny
    [] t.k = "bool"     -> EPlain("boolean")
    [] t.k = "int"      -> EType("integer", t.lo, t.hi, -1, -1, NoJ)
    [] t.k = "num"      -> EType("number", t.lo, t.hi, -1, -1, NoJ)
    [] t.k = "str"      -> EType("string", NoB, NoB, t.mn, t.mx, NoJ)
    [] t.k = "time"     -> EPlain("string")
    [] t.k = "enum"     -> EEnum([i \in DOMAIN t.vals |-> JStr(t.vals[i])])
    [] t.k = "ienum"    -> EEnum([i \in DOMAIN t.vals |-> JInt(t.vals[i])])
    [] t.k = "const"    -> EType(JType(t.v), NoB, NoB, -1, -1, t.v)
    [] t.k = "nullable" -> ENullable(EmitExpect(fs, t.t))
    [] t.k = "arr"      -> EArr(EmitExpect(fs, t.t))
    [] t.k = "map"      -> EMap(EmitExpect(fs, t.t))
    [] t.k = "ref"      -> ERef(OwnName(fs, t.name))
    [] t.k = "union"    -> EAnyOf([i \in DOMAIN t.ts |-> EmitExpect(fs, t.ts[i])])
    [] t.k = "dunion"   -> EAnyOf([i \in DOMAIN t.refs |-> ERef(OwnName(fs, t.refs[i]))])
    [] t.k = "struct"   ->
         EObj(TRUE, [i \in DOMAIN t.fields |->
                       LET f == t.fields[i]
                           e == EmitExpect(fs, f.t)
                       IN EProp(f.n, IF f.null THEN ENullable(e) ELSE e, f.req, f.def)])
    [] OTHER -> EUnknown

\* objects a document of package p must contain: the package's own objects plus every foreign object
\* reachable from them ("foreign references are inlined into definitions until closure")
RECURSIVE Refs(_)
Refs(t) ==
  CASE t.k = "ref"    -> {t.name}
    [] t.k \in {"arr", "map", "nullable"} -> Refs(t.t)
    [] t.k = "union"  -> UNION {Refs(t.ts[i]) : i \in DOMAIN t.ts}
    [] t.k = "dunion" -> Range(t.refs)
    [] t.k = "struct" -> UNION {Refs(t.fields[i].t) : i \in DOMAIN t.fields}
    [] OTHER -> {}
RECURSIVE Closure(_, _)
Closure(S, ns) ==
  LET more == ns \cup UNION {Refs(S[n]) : n \in ns \cap DOMAIN S}
  IN IF more = ns THEN ns ELSE Closure(S, more)
Needed(schema, fs, p) ==
  LET S == DefsFn(schema) IN Closure(S, {n \in DOMAIN S : PkgOf(fs, n) = p})

\* the expected document of package p: a SEQUENCE of definitions (two needed objects may carry the same own
\* name - then no flat `definitions` map can hold both, and the property is violated for one of them)
EmitDoc(schema, fs, p) ==
  LET need == Needed(schema, fs, p)
      ds   == SelectSeq(schema.defs, LAMBDA d : d.name \in need)
  IN [i \in DOMAIN ds |-> [name |-> OwnName(fs, ds[i].name), t |-> EmitExpect(fs, ds[i].t), src |-> ds[i].name]]

\* ------------------------------------------------------------------ comparison: what is carried over
\* a difference is [c |-> clause, p |-> path, w |-> witness class]
\*   names        w: object | field | ref
\*   required     w: dropped (IR required, emitted optional) | added
\*   constraints  w: ge gt le lt minLength maxLength const | invented (emitted has one the IR has not)
\*   enum         w: values
\*   default      w: JSON kind of the IR's default (str num bool arr obj) | invented
\* paths: definition name, field names, "#" (array items), "*" (map values), "|i" (i-th union branch)
D(c, p, w) == [c |-> c, p |-> p, w |-> w]
Strip(x)   == IF x.k = "nullable" THEN x.t ELSE x
HasDef(ds, n) == \E i \in DOMAIN ds : ds[i].name = n
GetDef(ds, n) == ds[CHOOSE i \in DOMAIN ds : ds[i].name = n].t
HasProp(ps, n) == \E i \in DOMAIN ps : ps[i].n = n
GetProp(ps, n) == ps[CHOOSE i \in DOMAIN ps : ps[i].n = n]

TypeDiffs(e, m, p) ==
  LET mm == IF m.k = "type" THEN m ELSE EPlain("none") IN
       (IF e.lo = mm.lo THEN {} ELSE {D("constraints", p, IF e.lo.b = "none" THEN "invented" ELSE e.lo.b)})
  \cup (IF e.hi = mm.hi THEN {} ELSE {D("constraints", p, IF e.hi.b = "none" THEN "invented" ELSE e.hi.b)})
  \cup (IF e.mn = mm.mn THEN {} ELSE {D("constraints", p, IF e.mn = -1 THEN "invented" ELSE "minLength")})
  \cup (IF e.mx = mm.mx THEN {} ELSE {D("constraints", p, IF e.mx = -1 THEN "invented" ELSE "maxLength")})
  \cup (IF JsonEq(e.cst, mm.cst) THEN {} ELSE {D("constraints", p, IF e.cst.j = "none" THEN "invented" ELSE "const")})

RECURSIVE Diffs(_, _, _)
Diffs(e0, m0, p) ==
  LET e == Strip(e0)
      m == Strip(m0)
  IN
  CASE e.k = "obj"  ->
         UNION {LET f == e.props[i] IN
                IF m.k = "obj" /\ HasProp(m.props, f.n)
                THEN LET g == GetProp(m.props, f.n) IN
                          (IF f.req = g.req THEN {} ELSE {D("required", Append(p, f.n), IF f.req THEN "dropped" ELSE "added")})
                     \cup (IF JsonEq(f.def, g.def) THEN {}
                           ELSE {D("default", Append(p, f.n), IF f.def.j = "none" THEN "invented" ELSE f.def.j)})
                     \cup Diffs(f.t, g.t, Append(p, f.n))
                ELSE {D("names", Append(p, f.n), "field")}
                : i \in DOMAIN e.props}
    [] e.k = "type" -> TypeDiffs(e, m, p)
    [] e.k = "enum" -> IF m.k = "enum" /\ {Plain(e.vals[i]) : i \in DOMAIN e.vals} = {Plain(m.vals[i]) : i \in DOMAIN m.vals}
                       THEN {} ELSE {D("enum", p, "values")}
    [] e.k = "ref"  -> IF m.k = "ref" /\ m.name = e.name THEN {} ELSE {D("names", p, "ref")}
    [] e.k = "arr"  -> Diffs(e.t, IF m.k = "arr" THEN m.t ELSE EUnknown, Append(p, "#"))
    [] e.k = "map"  -> Diffs(e.t, IF m.k = "map" THEN m.t ELSE EUnknown, Append(p, "*"))
    [] e.k = "anyOf" ->
         UNION {Diffs(e.ts[i], IF m.k \in {"anyOf", "oneOf"} /\ Len(m.ts) = Len(e.ts) THEN m.ts[i] ELSE EUnknown,
                      Append(p, "|" \o ToString(i))) : i \in DOMAIN e.ts}
    [] OTHER -> {}

\* expected document (sequence of definitions) against the emitted document's definitions
DocDiffs(exp, emitted) ==
  UNION {LET e == exp[i] IN
         IF HasDef(emitted.defs, e.name) THEN Diffs(e.t, GetDef(emitted.defs, e.name), <<e.name>>)
         ELSE {D("names", <<e.name>>, "object")}
         : i \in DOMAIN exp}

\* "every `$ref` resolves": references of the emitted description that name no definition of the document
RECURSIVE ERefs(_)
ERefs(e) ==
  CASE e.k = "ref" -> {e.name}
    [] e.k \in {"arr", "map", "nullable"} -> ERefs(e.t)
    [] e.k \in {"anyOf", "oneOf"} -> UNION {ERefs(e.ts[i]) : i \in DOMAIN e.ts}
    [] e.k = "obj" -> UNION {ERefs(e.props[i].t) : i \in DOMAIN e.props}
    [] OTHER -> {}
Dangling(emitted) ==
  LET names == {emitted.defs[i].name : i \in DOMAIN emitted.defs} IN
  ((UNION {ERefs(emitted.defs[i].t) : i \in DOMAIN emitted.defs})
     \cup (IF emitted.root = "" THEN {} ELSE {emitted.root})) \ names

\* ------------------------------------------------------------------ Accepts over emitted-schema terms
\* (draft-07 / OpenAPI 3.0 semantics of the keywords the description keeps)
EDefsFn(ds) == [n \in {ds[i].name : i \in DOMAIN ds} |-> GetDef(ds, n)]
TypeOK(ty, v) ==
  CASE ty = "string"  -> v.j = "str"
    [] ty = "integer" -> (v.j = "num" /\ v.n % 10 = 0) \/ v.j = "big"
    [] ty = "number"  -> v.j \in {"num", "big"}
    [] ty = "boolean" -> v.j = "bool"
    [] ty = "null"    -> v.j = "null"
    [] OTHER -> TRUE
RECURSIVE EAccepts(_, _, _)
EAccepts(DD, e, v) ==
  CASE e.k \in {"any", "unknown"} -> TRUE
    [] e.k = "type" -> /\ TypeOK(e.ty, v)
                       /\ (v.j = "num" => InBounds(e, v.n))
                       /\ (v.j = "str" => LenOK(e, StrLen(v.s)))
                       /\ (e.cst.j = "none" \/ JsonEq(e.cst, v))
    [] e.k = "enum" -> \E i \in DOMAIN e.vals : JsonEq(e.vals[i], v)
    [] e.k = "ref"  -> e.name \in DOMAIN DD /\ EAccepts(DD, DD[e.name], v)
    [] e.k = "nullable" -> v.j = "null" \/ EAccepts(DD, e.t, v)
    [] e.k = "arr"  -> v.j = "arr" /\ \A i \in DOMAIN v.xs : EAccepts(DD, e.t, v.xs[i])
    [] e.k = "map"  -> v.j = "obj" /\ \A i \in DOMAIN v.ps : EAccepts(DD, e.t, v.ps[i].v)
    [] e.k = "obj"  ->
         /\ v.j = "obj"
         /\ \A i \in DOMAIN e.props :
              LET f == e.props[i] IN IF Has(v.ps, f.n) THEN EAccepts(DD, f.t, Get(v.ps, f.n)) ELSE ~f.req
         /\ (e.closed => \A i \in DOMAIN v.ps : HasProp(e.props, v.ps[i].k))
    [] e.k = "anyOf" -> \E i \in DOMAIN e.ts : EAccepts(DD, e.ts[i], v)
    [] e.k = "oneOf" -> Cardinality({i \in DOMAIN e.ts : EAccepts(DD, e.ts[i], v)}) = 1
    [] OTHER -> FALSE

\* the expected document as an emitted document (definitions keyed by own name; on a name collision the
\* first definition wins - DocDiffs is what reports the collision)
AsEmitted(exp, root) ==
  LET firsts == SelectSeq([i \in DOMAIN exp |-> [name |-> exp[i].name, t |-> exp[i].t, i |-> i]],
                          LAMBDA d : ~\E j \in 1..(d.i - 1) : exp[j].name = d.name)
  IN [defs |-> [i \in DOMAIN firsts |-> EDef(firsts[i].name, firsts[i].t)], root |-> root]

\* model-level soundness of this specification: a document the source schema accepts is accepted by the
\* document EmitExpect demands (checked by TLC over the whole bounded universe in EmitSchemaMC)
ExpectSound(schema, fs, d) ==
  LET S   == DefsFn(schema)
      exp == AsEmitted(EmitDoc(schema, fs, ""), OwnName(fs, schema.root))
      DD  == EDefsFn(exp.defs)
  IN Accepts(S, S[schema.root], d) => EAccepts(DD, DD[exp.root], d)
===============================================================================
