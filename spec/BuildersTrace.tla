------------------------------ MODULE BuildersTrace ------------------------------
(* Trace validation for C16/C17: every record is one REAL observation           *)
(*   {kind:"derive", S, B}                 B = BuilderGenerator.FromAST(S)       *)
(*   {kind:"step", s, pre, rule, post, err} post = Rewriter.ApplyTo after one    *)
(*                                          more rule (s indexes Tables.schemas) *)
(* judged by the predicates of Builders.tla:                                     *)
(*   derive  C16Violated(S, B)                                                   *)
(*   step    StepViolated(S, pre, rule, post): WellTyped, the rule's contract,   *)
(*           UnselectedUnchanged (a step the rewriter rejected changes nothing)  *)
(* Report mode prints one FAIL line per violating record; Strict stops.          *)
EXTENDS Builders, TLC, Json

CONSTANTS Strict
Trace  == ndJsonDeserialize("trace.ndjson")
Tables == JsonDeserialize("tables.json")
TrFold == Tables.fold
TrSingular == Tables.singular
TrLCamel == Tables.lcamel

VARIABLE l
TInit == l = 1
TNext == l <= Len(Trace) /\ l' = l + 1
TSpec == TInit /\ [][TNext]_l

Rec == Trace[l - 1]
Violated(r) ==
  IF r.kind = "derive" THEN {[clause |-> v.clause, witness |-> v.builder \o "." \o v.field] : v \in C16Violated(r.S, r.B)}
  ELSE IF r.err THEN {}
  ELSE StepViolated(Tables.schemas[r.s], r.pre, r.rule, r.post)
Skipped(r) == r.kind = "step" /\ ~r.err /\ ~Defined(Tables.schemas[r.s], r.pre, r.rule)
Inherited(r) == r.kind = "step" /\ ~r.err /\ WTV(Tables.schemas[r.s], r.pre) # {}

Verdict == l = 1 \/ Violated(Rec) = {} \/
           (~Strict /\ PrintT(<<"FAIL", ToJson([l |-> l - 1, violated |-> Violated(Rec)])>>))
Notes == l = 1 \/ (~Skipped(Rec) /\ ~Inherited(Rec)) \/
         PrintT(<<"NOTE", ToJson([l |-> l - 1, skipped |-> Skipped(Rec), inherited |-> Inherited(Rec)])>>)
Done == l = Len(Trace) + 1 => PrintT(<<"CONSUMED", l - 1>>)
===============================================================================
