---------------------------- MODULE FlagLatticeTrace ----------------------------
(* Trace validation for C02. Every record is one REAL run of cog's pipeline (or  *)
(* of the language jennies on a directly constructed IR) together with what the  *)
(* toolchains said about the files it wrote:                                      *)
(*   {case, lang, out, on, constructs, outcome, verdicts: {compile, import,       *)
(*    placeholder}, py: the harness's own set of violated clauses}                *)
(* TLC recomputes the property's two implications from the recorded facts         *)
(* (FlagLattice!Violated) and additionally checks that the recorded configuration *)
(* is a member of the lattice (a run outside the quantifier proves nothing).      *)
(* Report mode prints one FAIL line per violating record; Strict stops.           *)
EXTENDS FlagLattice, Json

CONSTANTS Strict
Trace == ndJsonDeserialize("trace.ndjson")

VARIABLE l
TInit == l = 1
TNext == l <= Len(Trace) /\ l' = l + 1
TSpec == TInit /\ [][TNext]_l

Step == Trace[l - 1]
ToSet(s) == {s[i] : i \in DOMAIN s}
Rec(r) == [lang |-> r.lang, out |-> ToSet(r.out), constructs |-> ToSet(r.constructs), outcome |-> r.outcome, verdicts |-> r.verdicts]
CfgOf(r) == [lang |-> r.lang, out |-> ToSet(r.out), on |-> ToSet(r.on)]

InLattice(r) == r.lang \in Langs /\ CfgOf(r) \in Lattice(r.lang)
WellTyped(r) == r.outcome \in {"files", "error", "panic"}
                /\ \A k \in {"compile", "import", "placeholder"} : r.verdicts[k] \in {"ok", "fail", "na"}
                \* verdicts of the toolchains only exist for runs that wrote files
                /\ (r.outcome # "files" => \A k2 \in {"compile", "import", "placeholder"} : r.verdicts[k2] = "na")

V(r) == Violated(Rec(r))
         \cup (IF InLattice(r) THEN {} ELSE {"outside-lattice"})
         \cup (IF WellTyped(r) THEN {} ELSE {"ill-typed-record"})

Verdict == l = 1 \/ V(Step) = {} \/
           (~Strict /\ PrintT(<<"FAIL", ToJson([l |-> l - 1, violated |-> V(Step)])>>))
Done == l = Len(Trace) + 1 => PrintT(<<"CONSUMED", l - 1>>)
===============================================================================
