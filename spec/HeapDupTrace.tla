---------------------------- MODULE HeapDupTrace ----------------------------
(* Trace validation for the duplicate rules of C18 (cases of HeapDup.tla).     *)
(* One record = one REAL application of a duplicate rule:                      *)
(*   case          the HeapDup case (rule, source shape, exclusion list, ...)  *)
(*   cells, o, k   the heap graph extracted by reflection from the source (o)  *)
(*                 and from the duplicate the real rule made of it (k), after  *)
(*                 undoing what the rule documents it sets (name, self         *)
(*                 reference, one trail entry); cells identified by address    *)
(*   path, keep    where the elements the rule may leave out live (labels from *)
(*                 the root) and which of them the SPEC says are kept (HeapDup *)
(*                 Kept, 1-based positions in source order); path = <<>> when  *)
(*                 nothing is left out                                         *)
(*   steps         every kind of write at every site of the duplicate, then at *)
(*                 every site of the source (Heap.tla mutation records)        *)
(*   leaks         OBSERVED: "k>o" a write through the duplicate changed a     *)
(*                 deep snapshot of the source, "o>k" the other way round      *)
(* Judged with the operators of Heap.tla:                                      *)
(*   Iso       the duplicate equals the source without the elements not kept   *)
(*   Disjoint  no cell reachable from both                                     *)
(*   Snapshot  no leak observed                                                *)
(*   Drift     (model against observation, never a verdict on cog) replaying   *)
(*             the recorded writes on the extracted heap predicts exactly the  *)
(*             observed leaks; Disjoint => none observed                       *)
EXTENDS Heap, Json

CONSTANTS Strict
Trace == ndJsonDeserialize("duptrace.ndjson")

VARIABLE l
TInit == l = 1
TNext == l <= Len(Trace) /\ l' = l + 1
TSpec == TInit /\ [][TNext]_l

Step == Trace[l - 1]

\* a and b are equal except that, at the end of path, b holds exactly the elements keep of a's slice, in order
RECURSIVE IsoKeep(_, _, _, _, _)
IsoKeep(h, a, b, path, keep) ==
  IF path = <<>>
  THEN IF keep = <<>> THEN Empty(h, b)
       ELSE /\ a.t = "slice" /\ b.t = "slice" /\ b.n = Len(keep)
            /\ \A i \in 1..Len(keep) :
                 keep[i] <= a.n /\ IsoV(h, Slots(h, a.c)[ToString(keep[i])], Slots(h, b.c)[ToString(i)])
  ELSE /\ IsRef(a) /\ a.t # "slice" /\ b.t = a.t
       /\ DOMAIN Slots(h, a.c) = DOMAIN Slots(h, b.c)
       /\ \A lb \in DOMAIN Slots(h, a.c) :
            IF lb = Head(path) THEN IsoKeep(h, Slots(h, a.c)[lb], Slots(h, b.c)[lb], Tail(path), keep)
            ELSE IsoV(h, Slots(h, a.c)[lb], Slots(h, b.c)[lb])

IsoR(r)      == IF r.path = <<>> THEN IsoV(r.cells, r.o, r.k) ELSE IsoKeep(r.cells, r.o, r.k, r.path, r.keep)
DisjointR(r) == Disjoint(r.cells, r.o, r.k)

Val(r, w) == IF w = "o" THEN r.o ELSE r.k
RECURSIVE LeaksFrom(_, _, _)
LeaksFrom(h, steps, r) ==
  IF steps = <<>> THEN {}
  ELSE LET st == Head(steps)
           h2 == ApplyMuts(h, st.muts)
       IN {st.a \o ">" \o w : w \in {x \in {"o", "k"} \ {st.a} : Snapshot(h2, Val(r, x)) # Snapshot(h, Val(r, x))}}
          \cup LeaksFrom(h2, Tail(steps), r)
Observed(r) == {r.leaks[i] : i \in 1..Len(r.leaks)}
DriftR(r)   == \/ LeaksFrom(r.cells, r.steps, r) # Observed(r)
               \/ (DisjointR(r) /\ Observed(r) # {})

Violated(r) == (IF IsoR(r) THEN {} ELSE {"Iso"})
          \cup (IF DisjointR(r) THEN {} ELSE {"Disjoint"})
          \cup (IF Observed(r) # {} THEN {"Snapshot"} ELSE {})
          \cup (IF DriftR(r) THEN {"Drift"} ELSE {})

Verdict == l = 1 \/ Violated(Step) = {} \/
           (~Strict /\ PrintT(<<"FAIL", ToJson([l |-> l - 1, violated |-> Violated(Step),
                                                nshared |-> Cardinality(SharedCells(Step.cells, Step.o, Step.k)),
                                                predicted |-> LeaksFrom(Step.cells, Step.steps, Step)])>>))
Done == l = Len(Trace) + 1 => PrintT(<<"CONSUMED", l - 1>>)
=============================================================================
