------------------------------ MODULE BuilderMachine ------------------------------
(* The builder state machine of DESIGN 3.8 (C09) and ConvertInv (C14).             *)
(* Requirement level: every operator encodes a sentence of C09 / C14, not the      *)
(* builder templates.                                                              *)
(*                                                                                  *)
(*  state      st = [obj  |-> the builder's internal object, a JV document,        *)
(*                   errs |-> set of option target paths whose nested builder       *)
(*                            failed]                                               *)
(*  Init       the freshly constructed default object D[root] (constructor          *)
(*             constants included), no errors                                       *)
(*  Call       (the OBJECT is only fixed for calls whose arguments satisfy the      *)
(*             schema; after a bad call the property only demands the report)       *)
(*             "calling one option with a value ... yields an object that differs   *)
(*             from the ... default object exactly at that option's target          *)
(*             field(s), which hold the given value": one assignment per option     *)
(*             path; a missing intermediate object on the path is created with ITS  *)
(*             OWN constructor defaults D[its type] (reading rule DESIGN 6.0).      *)
(*             "A constraint-violating argument or a failing nested builder is      *)
(*             always reported - by Build() in Go, by the option call in Python":   *)
(*               python: the call raises, the object is untouched (what can violate *)
(*                       is the argument itself: a nested python builder has no     *)
(*                       Build() that fails);                                       *)
(*               go:     a failing nested builder leaves the object untouched and   *)
(*                       is remembered in errs; a plain argument is stored and the  *)
(*                       violation is found by Build() on the final object.         *)
(*  Build      go: error iff errs # {} or the object violates a constraint;         *)
(*             python: never an error ("arguments that satisfy the schema never     *)
(*             fail": no error without a cause).                                    *)
(*                                                                                  *)
(* D is a function  type key -> default object  (the specification's DefaultDoc in  *)
(* BuilderMC, the REAL freshly constructed objects in BuilderTrace). Type keys:     *)
(* the name of a named struct; owner key \o "." \o field for an inline struct.      *)
(*                                                                                  *)
(* Builder terms (printed by BuilderMC, matched against cog's builder IR):          *)
(*   option  [name, args : Seq(type term), asgs : Seq(assignment)]                  *)
(*   asg     [path : Seq(field name), m : "direct" | "append" | "index",            *)
(*            src : index of the argument holding the value (0: the constant c),    *)
(*            key : index of the argument holding the map key (0 = none)]           *)
(*   call    [o : option index (0 = the constructor), as : Seq(JV)]                 *)
EXTENDS Semantics

Asg(path, m, src, key) == [path |-> path, m |-> m, src |-> src, key |-> key, c |-> NoJ]
\* a CONSTANT assignment riding on an option (veneer add_assignment): src = 0, c = the constant
AsgC(path, v) == [path |-> path, m |-> "direct", src |-> 0, key |-> 0, c |-> v]
ArgOf(a, as) == IF a.src = 0 THEN a.c ELSE as[a.src]
\* the constant a veneer rule spells as text, read with the type of the field it is assigned to ("false", "0", "" are values too)
ConstOfText(ft, s) ==
  CASE ft.k = "bool"          -> JBool(s = "true")
    [] ft.k \in {"int", "num"} -> IF s = "0" THEN JInt(0) ELSE IF s = "1" THEN JInt(1) ELSE JInt(2)
    [] OTHER                  -> JStr(s)
Opt(name, args, asgs)  == [name |-> name, args |-> args, asgs |-> asgs]

HasField(t, n) == \E f \in Range(t.fields) : f.n = n
FieldOf(t, n)  == CHOOSE f \in Range(t.fields) : f.n = n
IsConst(f)     == f.t.k = "const"
Member(o, k)   == IF o.j = "obj" /\ Has(o.ps, k) THEN Get(o.ps, k) ELSE NoJ      \* NoJ = absent
SetMember(o, k, v) == IF Has(o.ps, k) THEN JObj(ReplaceAt(o.ps, Idx(o.ps, k), P(k, v))) ELSE JObj(Append(o.ps, P(k, v)))

\* the struct reached through references / nullable, with its type key
RECURSIVE AsStruct(_, _, _)
AsStruct(S, key, t) ==
  CASE t.k = "ref"      -> AsStruct(S, t.name, S[t.name])
    [] t.k = "nullable" -> AsStruct(S, key, t.t)
    [] OTHER            -> [key |-> key, t |-> t]

\* type (and type key) of the field at the end of a path that starts in struct (key, t)
RECURSIVE TypeAt(_, _, _, _)
TypeAt(S, key, t, path) ==
  LET s == AsStruct(S, key, t)
      f == FieldOf(s.t, Head(path))
      k == s.key \o "." \o f.n
  IN IF Len(path) = 1 THEN [key |-> k, t |-> f.t] ELSE TypeAt(S, k, f.t, Tail(path))

RECURSIVE Unwrap(_, _)
Unwrap(S, t) == CASE t.k = "ref" -> Unwrap(S, S[t.name]) [] t.k = "nullable" -> Unwrap(S, t.t) [] OTHER -> t
ElemType(S, t) == Unwrap(S, t).t                   \* of an array / a map
\* the schema fixes the field's value: an inline constant, or a REQUIRED non-nullable reference to a named constant
\* (an optional reference to a constant may be left unset: it keeps its option)
IsConstF(S, f) == f.t.k = "const" \/ (f.req /\ ~f.null /\ f.t.k = "ref" /\ Unwrap(S, f.t).k = "const")
ConstVal(S, f) == Unwrap(S, f.t).v

\* does an argument of this type go through nested builders (struct-like somewhere inside)?
RECURSIVE IsBuilderArg(_, _)
IsBuilderArg(S, t) ==
  CASE t.k \in {"struct", "dunion"} -> TRUE
    [] t.k = "ref"                  -> IsBuilderArg(S, S[t.name])
    [] t.k \in {"arr", "map", "nullable"} -> IsBuilderArg(S, t.t)
    [] OTHER -> FALSE

DiscOf(S, t, v) ==    \* the branch of a discriminated union a value names
  CHOOSE r \in Range(t.refs) : \E f \in Range(S[r].fields) : f.n = t.disc /\ f.t.k = "const" /\ Member(v, t.disc) = f.t.v
HasDisc(S, t, v) ==
  \E r \in Range(t.refs) : \E f \in Range(S[r].fields) : f.n = t.disc /\ f.t.k = "const" /\ Member(v, t.disc) = f.t.v

\* type keys of a schema: named structs and the inline structs directly inside them
KT(k, t) == [key |-> k, t |-> t]
KeyTypes(schema) ==
  LET ds == {d \in Range(schema.defs) : d.t.k = "struct"} IN
  {KT(d.name, d.t) : d \in ds}
  \cup UNION {{KT(d.name \o "." \o f.n, f.t) : f \in {g \in Range(d.t.fields) : g.t.k = "struct"}} : d \in ds}
TypeOfKey(schema, key) == (CHOOSE x \in KeyTypes(schema) : x.key = key).t

(* --------------------- the value a (nested) builder produces ------------------- *)
\* a struct-typed argument is produced by a nested builder: it starts from that type's own default
\* object and receives one option call per member of the argument (constants have no option)
RECURSIVE Built(_, _, _, _, _), Overlay(_, _, _, _, _, _)
Overlay(S, D, key, t, acc, ps) ==
  IF ps = <<>> THEN acc
  ELSE LET m == Head(ps) IN
       IF ~HasField(t, m.k) \/ IsConstF(S, FieldOf(t, m.k)) THEN Overlay(S, D, key, t, acc, Tail(ps))
       ELSE Overlay(S, D, key, t,
                    SetMember(acc, m.k, Built(S, D, key \o "." \o m.k, FieldOf(t, m.k).t, m.v)), Tail(ps))
Built(S, D, key, t, v) ==
  CASE t.k = "ref"                      -> Built(S, D, t.name, S[t.name], v)
    [] t.k = "nullable" /\ v.j # "null" -> Built(S, D, key, t.t, v)
    [] t.k = "arr" /\ v.j = "arr"       -> JArr([i \in DOMAIN v.xs |-> Built(S, D, key, t.t, v.xs[i])])
    [] t.k = "map" /\ v.j = "obj"       -> JObj([i \in DOMAIN v.ps |-> P(v.ps[i].k, Built(S, D, key, t.t, v.ps[i].v))])
    [] t.k = "dunion" /\ v.j = "obj" /\ HasDisc(S, t, v) -> Built(S, D, DiscOf(S, t, v), S[DiscOf(S, t, v)], v)
    [] t.k = "struct" /\ v.j = "obj"    -> Overlay(S, D, key, t, D[key], v.ps)
    [] OTHER -> v

\* "a constraint-violating argument or a failing nested builder"
BadArg(S, t, built) == ValidateErrs(S, t, built, <<>>) # {}

(* ------------------------------- one assignment -------------------------------- *)
RECURSIVE ApplyAt(_, _, _, _, _, _, _, _, _)
ApplyAt(S, D, key, t, obj, path, m, val, mk) ==
  LET s == AsStruct(S, key, t)
      n == Head(path)
      f == FieldOf(s.t, n)
      ck == s.key \o "." \o n
  IN IF Len(path) = 1
     THEN CASE m = "direct" -> SetMember(obj, n, val)
            [] m = "append" -> LET cur == Member(obj, n) IN
                               SetMember(obj, n, JArr(Append(IF cur.j = "arr" THEN cur.xs ELSE <<>>, val)))
            [] m = "index"  -> LET cur == Member(obj, n) IN
                               SetMember(obj, n, SetMember(IF cur.j = "obj" THEN cur ELSE JObj(<<>>), mk.s, val))
     ELSE LET cur   == Member(obj, n)
              cs    == AsStruct(S, ck, f.t)
              child == IF cur.j = "obj" THEN cur ELSE D[cs.key]      \* nil intermediate: its own constructor defaults
          IN SetMember(obj, n, ApplyAt(S, D, ck, f.t, child, Tail(path), m, val, mk))

St(obj, errs) == [obj |-> obj, errs |-> errs]

\* L = "go" | "python"; (rk, rt) = root type key and struct type; as = argument values of the call
\* ats = the option's argument types: an option that appends ONE branch of a list's union takes that branch's type
RECURSIVE DoAsgs(_, _, _, _, _, _, _, _, _)
DoAsgs(L, S, D, rk, rt, st, asgs, as, ats) ==
  IF asgs = <<>> THEN [st |-> st, raised |-> FALSE, bad |-> FALSE]
  ELSE LET a   == Head(asgs)
           ty  == TypeAt(S, rk, rt, a.path)
           et  == IF a.m = "direct" THEN ty.t ELSE ElemType(S, ty.t)
           vt  == IF a.src > 0 /\ Unwrap(S, et).k = "dunion" /\ ats[a.src].k = "ref" /\ ats[a.src].name \in Range(Unwrap(S, et).refs)
                  THEN ats[a.src] ELSE et
           b   == Built(S, D, ty.key, vt, ArgOf(a, as))
           \* python reports by the option call: what can violate is the argument itself (a nested python builder has no
           \* Build() that fails: members it was never given are not arguments); go reports the nested Build() / the final Validate()
           bad == BadArg(S, vt, IF L = "python" THEN ArgOf(a, as) ELSE b)
           mk  == IF a.key = 0 THEN NoJ ELSE as[a.key]
       IN IF bad /\ L = "python" THEN [st |-> st, raised |-> TRUE, bad |-> TRUE]
          ELSE IF bad /\ IsBuilderArg(S, vt) THEN [st |-> St(st.obj, st.errs \cup {a.path}), raised |-> FALSE, bad |-> TRUE]
          ELSE LET rest == DoAsgs(L, S, D, rk, rt, St(ApplyAt(S, D, rk, rt, st.obj, a.path, a.m, b, mk), st.errs), Tail(asgs), as, ats)
               IN [st |-> rest.st, raised |-> rest.raised, bad |-> bad \/ rest.bad]

\* opts[0] does not exist: option 0 is the constructor (its assignments are in ctor)
Call(L, S, D, rk, rt, ctor, opts, st, c) ==
  DoAsgs(L, S, D, rk, rt, st, IF c.o = 0 THEN ctor.asgs ELSE opts[c.o].asgs, c.as, IF c.o = 0 THEN ctor.args ELSE opts[c.o].args)

InitSt(D, rk) == St(D[rk], {})

\* acc = [st, raised : Seq(BOOLEAN), bad : Seq(BOOLEAN)]; bad[i] = call i carried a constraint-violating argument or a
\* failing nested builder. The property fixes the OBJECT only for calls whose arguments satisfy the schema; after a bad call it
\* only demands the report.
RECURSIVE Run(_, _, _, _, _, _, _, _, _)
Run(L, S, D, rk, rt, ctor, opts, seq, acc) ==
  IF seq = <<>> THEN acc
  ELSE LET r == Call(L, S, D, rk, rt, ctor, opts, acc.st, Head(seq))
       IN Run(L, S, D, rk, rt, ctor, opts, Tail(seq),
              [st |-> r.st, raised |-> Append(acc.raised, r.raised), bad |-> Append(acc.bad, r.bad)])
InitAcc(D, rk) == [st |-> InitSt(D, rk), raised |-> <<>>, bad |-> <<>>]

BuildFails(L, S, rt, st) == L = "go" /\ (st.errs # {} \/ ValidateErrs(S, rt, st.obj, <<>>) # {})

\* "constructor constants are always present": every struct value inside the object carries its constants
RECURSIVE ConstsOK(_, _, _)
ConstsOK(S, t, v) ==
  CASE t.k = "ref"      -> ConstsOK(S, S[t.name], v)
    [] t.k = "nullable" -> v.j = "null" \/ ConstsOK(S, t.t, v)
    [] t.k = "arr" /\ v.j = "arr" -> \A i \in DOMAIN v.xs : ConstsOK(S, t.t, v.xs[i])
    [] t.k = "map" /\ v.j = "obj" -> \A i \in DOMAIN v.ps : ConstsOK(S, t.t, v.ps[i].v)
    [] t.k = "dunion" /\ v.j = "obj" -> \E r \in Range(t.refs) : ConstsOK(S, S[r], v)
    [] t.k = "struct" /\ v.j = "obj" ->
         \A f \in Range(t.fields) :
           IF IsConstF(S, f) THEN Member(v, f.n) = ConstVal(S, f)
           ELSE Member(v, f.n).j \in {"none", "null"} \/ ConstsOK(S, f.t, Member(v, f.n))
    [] OTHER -> TRUE

\* the comparison of objects: encoded JSON, where an absent / null collection and an empty one are one value
\* (the encoders drop empty optional collections: C01's subject, not the builders')
Abs(a) == IF a.j = "none" THEN JNull ELSE a
SameObj(a, b) == Eq(Abs(a), Abs(b))

(* ---------------------- arguments a typed builder API can carry ---------------- *)
RECURSIVE Expressible(_, _, _)
Expressible(S, t, v) ==
  CASE t.k = "any"      -> v.j # "null"
    [] t.k = "nullable" -> v.j # "null" /\ Expressible(S, t.t, v)
    [] t.k = "ref"      -> Expressible(S, S[t.name], v)
    [] t.k = "union"    -> \E i \in DOMAIN t.ts : Expressible(S, t.ts[i], v)
    [] WrongKind(t, v)  -> FALSE
    [] t.k = "int"      -> WidthOK(t.w, v.n)
    [] t.k = "time"     -> v.s \in {Time1, Time2}
    [] t.k = "enum"     -> v.s \in Range(t.vals)
    [] t.k = "ienum"    -> \E i \in DOMAIN t.vals : v.n = 10 * t.vals[i]
    [] t.k = "const"    -> v = t.v
    [] t.k = "arr"      -> \A i \in DOMAIN v.xs : Expressible(S, t.t, v.xs[i])
    [] t.k = "map"      -> \A i \in DOMAIN v.ps : Expressible(S, t.t, v.ps[i].v)
    [] t.k = "dunion"   -> HasDisc(S, t, v) /\ Expressible(S, S[DiscOf(S, t, v)], v)
    [] t.k = "struct"   -> \A i \in DOMAIN v.ps :
                             /\ HasField(t, v.ps[i].k)
                             /\ v.ps[i].v.j # "null"
                             /\ Expressible(S, FieldOf(t, v.ps[i].k).t, v.ps[i].v)
    [] OTHER -> TRUE

\* collections of collections: a 2 x 2 grid with the violating element at each (i, j) - off the diagonal too -, the all-valid
\* grid, and ragged valid shapes (1 x 3, 3 x 1)
IsColl(t) == t.k \in {"arr", "map"}
Mk(t, elems) == IF t.k = "arr" THEN JArr(elems) ELSE JObj([i \in DOMAIN elems |-> P("k" \o ToString(i), elems[i])])
GridVals(S, t, fuel) ==
  IF ~(IsColl(t) /\ IsColl(t.t)) THEN {}
  ELSE LET lt   == t.t.t
           ok   == Base(S, lt, fuel)
           bads == {x.d : x \in {y \in Variants(S, lt, fuel) : y.f = "BreakBound" /\ Expressible(S, lt, y.d)}}
           cell(i, j, bi, bj, bad) == IF i = bi /\ j = bj THEN bad ELSE ok
           grid(bi, bj, bad) == Mk(t, [i \in 1..2 |-> Mk(t.t, [j \in 1..2 |-> cell(i, j, bi, bj, bad)])])
       IN {grid(0, 0, ok), Mk(t, <<Mk(t.t, <<ok, ok, ok>>)>>), Mk(t, <<Mk(t.t, <<ok>>), Mk(t.t, <<ok>>), Mk(t.t, <<ok>>)>>)}
          \cup (IF bads = {} THEN {} ELSE LET bad == CHOOSE b \in bads : TRUE IN {grid(bi, bj, bad) : bi \in 1..2, bj \in 1..2})

\* valid values, constraint-violating values, failing nested builders: Base and its one-place variants
ArgVals(S, t, fuel) ==
  {x.d : x \in {y \in ({Var(Base(S, t, fuel), "base", <<>>)} \cup Variants(S, t, fuel)) : Expressible(S, t, y.d)}}
  \cup GridVals(S, Unwrap(S, t), fuel)

(* ---------------------------------- C14 ----------------------------------------- *)
\* ConvertInv: "builds an object equal to v in every field that differs from the builder's defaults"
Differs(t, D, key, v) == {f.n : f \in {g \in Range(t.fields) : ~SameObj(Member(v, g.n), Member(D[key], g.n))}}
RebuildDiff(t, D, key, v, r) == {n \in Differs(t, D, key, v) : ~SameObj(Member(r, n), Member(v, n))}
RebuildOK(t, D, key, v, r) == RebuildDiff(t, D, key, v, r) = {}

\* "every option and constructor argument needed to reproduce v appears exactly once". An option is needed
\* when a target of it differs from the builder's default (constants are not options; what a constructor
\* argument already sets needs no option). An append / index option is needed once per element / entry.
\* b = the builder term [ctor, opts]; counts = sequence of [n |-> option name, c |-> times it is called].
RECURSIVE AtPath(_, _)
AtPath(o, path) == IF path = <<>> THEN o ELSE AtPath(Member(o, Head(path)), Tail(path))
\* what the object holds at a path when the option is NOT called: the builder's default, where an intermediate object
\* that v has but the default lacks counts with ITS OWN default (another option on the same prefix creates it that way)
RECURSIVE BaseAt(_, _, _, _, _, _, _)
BaseAt(S, D, key, t, d, v, path) ==
  LET s  == AsStruct(S, key, t)
      n  == Head(path)
      ck == s.key \o "." \o n
      dn == Member(d, n)
      vn == Member(v, n)
  IN IF Len(path) = 1 THEN dn
     ELSE LET cs    == AsStruct(S, ck, FieldOf(s.t, n).t)
              child == IF dn.j = "obj" THEN dn ELSE IF vn.j = "obj" THEN D[cs.key] ELSE NoJ
          IN IF child.j # "obj" THEN NoJ ELSE BaseAt(S, D, ck, FieldOf(s.t, n).t, child, vn, Tail(path))
\* an option that also assigns constants can only be part of a reproduction of v when v holds those constants; it is
\* needed for what its ARGUMENTS set (another option may set what its constants set)
Applicable(o, v) == \A i \in DOMAIN o.asgs : o.asgs[i].src = 0 => SameObj(AtPath(v, o.asgs[i].path), o.asgs[i].c)
ArgTargetDiffers(S, t, D, key, o, v) ==
  \E i \in DOMAIN o.asgs : o.asgs[i].src > 0 /\ ~SameObj(AtPath(v, o.asgs[i].path), BaseAt(S, D, key, t, D[key], v, o.asgs[i].path))
OptNeeded(S, t, D, key, o, v) == Applicable(o, v) /\ ArgTargetDiffers(S, t, D, key, o, v)
\* values the builder API is meant for: a member that only an option with constants can set goes together with those constants
Coherent(S, t, D, key, b, v) == \A i \in DOMAIN b.opts : ArgTargetDiffers(S, t, D, key, b.opts[i], v) => Applicable(b.opts[i], v)
\* (S, key, t) = the struct the builder is for. An appending option whose argument is ONE branch of the list's union
\* (disjunction_as_options) is needed once per element of that branch.
Want(S, key, t, o, v) ==
  LET a  == o.asgs[1]
      x  == AtPath(v, a.path)
      et == Unwrap(S, ElemType(S, TypeAt(S, key, t, a.path).t))
      at == o.args[a.src]
  IN CASE a.m = "direct" -> 1
       [] a.m = "append" ->
            IF x.j # "arr" THEN 0
            ELSE IF et.k = "dunion" /\ at.k = "ref" /\ at.name \in Range(et.refs)
                 THEN Cardinality({i \in DOMAIN x.xs : HasDisc(S, et, x.xs[i]) /\ DiscOf(S, et, x.xs[i]) = at.name})
                 ELSE Len(x.xs)
       [] a.m = "index"  -> IF x.j = "obj" THEN Len(x.ps) ELSE 0
IsPromoted(b, o) == \E j \in DOMAIN b.ctor.asgs : b.ctor.asgs[j].path = o.asgs[1].path
NeededOpts(S, t, D, key, b, v) == {i \in DOMAIN b.opts : ~IsPromoted(b, b.opts[i]) /\ OptNeeded(S, t, D, key, b.opts[i], v)}
CountOf(counts, n) == IF \E i \in DOMAIN counts : counts[i].n = n THEN counts[CHOOSE i \in DOMAIN counts : counts[i].n = n].c ELSE 0
\* options with the same arguments and the same assignments (an option and its duplicate) are one way to set the target:
\* together they are needed Want times
RECURSIVE GroupCount(_, _, _, _)
GroupCount(b, counts, o, i) ==
  IF i > Len(b.opts) THEN 0
  ELSE (IF b.opts[i].args = o.args /\ b.opts[i].asgs = o.asgs THEN CountOf(counts, b.opts[i].name) ELSE 0) + GroupCount(b, counts, o, i + 1)
NotOnce(S, t, D, key, b, v, counts) ==
  {b.opts[i].name : i \in {j \in NeededOpts(S, t, D, key, b, v) : GroupCount(b, counts, b.opts[j], 1) # Want(S, key, t, b.opts[j], v)}}
  \cup (IF CountOf(counts, "#ctor") # Len(b.ctor.args) THEN {"#ctor"} ELSE {})
===============================================================================
