------------------------------ MODULE LangChainsMC ------------------------------
(* Input universe for C06/C05(b): every IR  p = {Root, S, E, (U)}  where the    *)
(* shape under test sits in a field of Root (required or optional) or is an     *)
(* object of its own, with nesting depth up to MaxDepth over                    *)
(*   array, map value, map key, struct field, union, union-with-null, allOf     *)
(* and the leaves string, int, anonymous enum, anonymous struct, references to  *)
(* a struct, an enum and a union object.  TLC checks that every input is well   *)
(* formed (references resolve) and prints it; the Go worker runs the REAL chain *)
(* of each of the seven languages on it.                                        *)
EXTENDS LangChains, TLC, Json

CONSTANTS MaxDepth, Slice, NSlices

VARIABLE c
MCFold == [x \in {} |-> x]

AnonEnum   == TEnum(<<Member("a", VStr("a"), "string"), Member("b", VStr("b"), "string")>>)
IntEnum    == TEnum(<<Member("0", VInt("0"), "int64"), Member("-1", VInt("-1"), "int64")>>)
AnonStruct == TStruct(<<Field("x", TString, TRUE), Field("y", TScalar("int64"), FALSE)>>)
\* string enum whose member NAMES are numerals (CUE spells "1" | "2" @cog(kind="enum") this way),
\* and a union of numeral string constants (becomes such an enum in some chains)
NumStrEnum == TEnum(<<Member("1", VStr("1"), "string"), Member("2", VStr("2"), "string")>>)
ConstUnion == TDisj(<<TConst("string", VStr("10")), TConst("string", VStr("20"))>>, "", <<>>)
\* a union of string constants that start with a sign (becomes an enum whose member names need sanitising)
SignUnion  == TDisj(<<TConst("string", VStr("-inf")), TConst("string", VStr("+inf")), TConst("string", VStr("zero"))>>, "", <<>>)

\* enums that mix words and numerals as member names, word first and numeral first (a check of the first member only is not enough)
MixedEnumW == TEnum(<<Member("auto", VStr("auto"), "string"), Member("5", VStr("5"), "string"), Member("30", VStr("30"), "string")>>)
MixedEnumN == TEnum(<<Member("0", VStr("0"), "string"), Member("unlimited", VStr("unlimited"), "string"), Member("3", VStr("3"), "string")>>)

Leaves == <<TString, TScalar("int64"), TRef("p", "S"), TRef("p", "E"), AnonEnum, AnonStruct, TRef("p", "U"), IntEnum,
            NumStrEnum, ConstUnion, TRef("p", "A2"), SignUnion, MixedEnumW, MixedEnumN, TRef("p", "Sg"), TRef("p", "AArr")>>

\* constructors applied to an inner type x (the position under test)
Ctors == <<"array", "mapval", "mapkey", "field", "optfield", "ornull", "orstring", "orref", "allof">>
Build(ct, x) ==
  CASE ct = "array"    -> TArray(x)
    [] ct = "mapval"   -> TMap(TString, x)
    [] ct = "mapkey"   -> TMap(x, TString)
    [] ct = "field"    -> TStruct(<<Field("g", x, TRUE)>>)
    [] ct = "optfield" -> TStruct(<<Field("g", x, FALSE)>>)
    [] ct = "ornull"   -> TDisj(<<x, TNull>>, "", <<>>)
    [] ct = "orstring" -> TDisj(<<x, TString>>, "", <<>>)
    [] ct = "orref"    -> TDisj(<<x, TRef("p", "S")>>, "", <<>>)
    [] ct = "allof"    -> TInter(<<x, TRef("p", "S")>>)

\* a shape is a sequence of constructor names (outermost first) ending in a leaf index
RECURSIVE Shapes(_)
Shapes(d) == IF d = 0 THEN {<<>>} ELSE Shapes(d - 1) \cup {<<ct>> \o s : ct \in Range(Ctors), s \in {x \in Shapes(d - 1) : Len(x) = d - 1}}
RECURSIVE TypeOf(_, _)
TypeOf(shape, leaf) == IF shape = <<>> THEN Leaves[leaf] ELSE Build(Head(shape), TypeOf(Tail(shape), leaf))

CtorIdx == [array |-> 1, mapval |-> 2, mapkey |-> 3, field |-> 4, optfield |-> 5, ornull |-> 6, orstring |-> 7, orref |-> 8, allof |-> 9]
RECURSIVE ShapeKey(_)
ShapeKey(s) == IF s = <<>> THEN 0 ELSE CtorIdx[Head(s)] + 5 * ShapeKey(Tail(s))
InSlice(s, leaf) == Len(s) < MaxDepth \/ (ShapeKey(s) + leaf) % NSlices = Slice

SObj == Obj("p", "S", TStruct(<<Field("kind", TConst("string", VStr("s")), TRUE), Field("v", TString, FALSE)>>))
S2Obj == Obj("p", "S2", TStruct(<<Field("kind", TConst("string", VStr("s2")), TRUE)>>))
\* the member "eon" camel-cases to "Eon": it begins with the enum's own name AND is the name of another object
EObj == Obj("p", "E", TEnum(<<Member("on", VStr("on"), "string"), Member("off", VStr(""), "string"), Member("eon", VStr("eon"), "string")>>))
EonObj == Obj("p", "Eon", TStruct(<<Field("v", TString, TRUE)>>))
UObj == Obj("p", "U", TDisj(<<TRef("p", "S"), TRef("p", "S2")>>, "", <<>>))
\* a named enum whose member names are nothing but a sign (the shortest names a sanitiser must handle)
SgObj == Obj("p", "Sg", TEnum(<<Member("+", VStr("+"), "string"), Member("-", VStr("-"), "string"), Member("x", VStr("x"), "string")>>))
\* an alias of an alias of a scalar (aliases are inlined by some chains)
A1Obj == Obj("p", "A1", TString)
A2Obj == Obj("p", "A2", TRef("p", "A1"))
\* a named array and an alias of it (chains that dissolve aliases rebuild the fields that used them: the field's own
\* required-ness and nullability must survive the rebuilding)
ArrObj == Obj("p", "Arr", TArray(TString))
AArrObj == Obj("p", "AArr", TRef("p", "Arr"))

Positions == {"field", "optfield", "object"}
\* the SAME type used twice in one struct, required then optional and the other way round (shapes of length <= 1 only): a pass that
\* remembers what it made of a type must still give each use its own required-ness / nullability
TwicePositions == {"twice", "twicerev"}
CaseIR(shape, leaf, pos) ==
  LET t == TypeOf(shape, leaf)
      root == CASE pos = "field"    -> Obj("p", "Root", TStruct(<<Field("f", t, TRUE)>>))
                [] pos = "optfield" -> Obj("p", "Root", TStruct(<<Field("f", t, FALSE)>>))
                [] pos = "twice"    -> Obj("p", "Root", TStruct(<<Field("f", t, TRUE), Field("g", t, FALSE)>>))
                [] pos = "twicerev" -> Obj("p", "Root", TStruct(<<Field("g", t, FALSE), Field("f", t, TRUE)>>))
                [] pos = "object"   -> Obj("p", "Root", t)
      \* a second package holding the SAME type under test (objects generated from it must exist in BOTH packages)
      mirror == Obj("q", "Mirror", TStruct(<<Field("m", t, TRUE)>>))
  IN <<SchemaOf("p", <<root, SObj, S2Obj, EObj, UObj, A1Obj, A2Obj, SgObj, EonObj, ArrObj, AArrObj>>), SchemaOf("q", <<mirror>>)>>

Cases == {[shape |-> s, leaf |-> l, pos |-> ps] :
            s \in {x \in Shapes(MaxDepth) : TRUE}, l \in DOMAIN Leaves, ps \in Positions}
         \cup {[shape |-> s, leaf |-> l, pos |-> ps] :
            s \in {x \in Shapes(MaxDepth) : Len(x) <= 1}, l \in DOMAIN Leaves, ps \in TwicePositions}

Init == c \in {x \in Cases : InSlice(x.shape, x.leaf)}
Next == UNCHANGED c
Spec == Init /\ [][Next]_c

WellFormed == AllRefsResolve(CaseIR(c.shape, c.leaf, c.pos)) /\ SelfRefsOK(CaseIR(c.shape, c.leaf, c.pos))
Emit == PrintT(<<"CASE", ToJson([shape |-> c.shape, leaf |-> c.leaf, pos |-> c.pos, schemas |-> CaseIR(c.shape, c.leaf, c.pos)])>>)
===============================================================================
