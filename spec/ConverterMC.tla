------------------------------ MODULE ConverterMC ------------------------------
(* Growth item 3 (DESIGN Appendix E): bounded universe for the converter IR.    *)
(* States are builder sets: derived from one schema set whose root object has    *)
(* every kind of field the converter distinguishes (arrays/maps of scalars and   *)
(* of built objects, references with and without builders, disjunctions, a       *)
(* disjunction struct, a composable slot, constants, defaults, date-time         *)
(* strings, optional references), rewritten by histories of veneer rules that    *)
(* change what a converter must map (append/index, unfolded booleans, duplicated *)
(* options, struct fields as arguments, list-of-disjunction, constructor         *)
(* arguments, several builders for one object).  Each distinct state is one      *)
(* history; the worker runs the REAL ConverterGenerator.FromBuilder on every     *)
(* builder of the real state for the go, java and php configurations.            *)
EXTENDS ConverterIR, TLC, Json

CONSTANTS MaxLen, Slice, NSlices
VARIABLES hist, cur, err, sum
vars == <<hist, cur, err, sum>>

CFoldTable == [Root |-> "root", Inner |-> "inner", U |-> "u", Panel |-> "panel", Options |-> "options", InnerB |-> "innerb"]
CSingular == [tags |-> "tag", labels |-> "label", items |-> "item", us |-> "u", minner |-> "minner"]
CLCamel   == [Inner |-> "inner", string |-> "string", bool |-> "bool"]
CUCamel   == [dataquery |-> "Dataquery"]

Cfg(kinds, protect) == [kinds |-> kinds, protect |-> protect, any |-> TRUE]
LangCfg == [go   |-> Cfg({"map", "array"}, FALSE),
            java |-> Cfg({"map", "array", "ref", "struct"}, TRUE),
            php  |-> Cfg({}, TRUE)]
Con(op, v) == [op |-> op, args |-> <<v>>]
DisjHint == [t |-> "ast.DisjunctionType", s |-> "", type |-> TDisj(<<TString, TScalar("bool")>>, "", <<>>)]
InnerT == TStruct(<<Field("x", TString, TRUE), Field("y", WithDef(TString, VStr("dflt")), TRUE), Field("kind", TConst("string", VStr("in")), TRUE)>>)
UT     == WithHints(TStruct(<<Field("str", AsNullable(TString), FALSE), Field("bool", AsNullable(TScalar("bool")), FALSE)>>),
                    <<Hint("disjunction_of_scalars", DisjHint)>>)
EnT    == TEnum(<<Member("A", VStr("a"), "string"), Member("B", VStr("b"), "string")>>)
RootT  == TStruct(<<
   Field("tags",   TArray(TString), TRUE),
   Field("labels", TMap(TString, TString), TRUE),
   Field("flag",   WithDef(TScalar("bool"), VBool(TRUE)), TRUE),
   Field("inner",  TRef("p", "Inner"), TRUE),
   Field("oinner", AsNullable(TRef("p", "Inner")), FALSE),
   Field("u",      TRef("p", "U"), FALSE),
   Field("name",   TScalarC("string", VNil, <<Con("minLength", VInt("1"))>>), TRUE),
   Field("d",      TDisj(<<TString, TRef("p", "Inner")>>, "", <<>>), FALSE),
   Field("items",  TArray(TRef("p", "Inner")), FALSE),
   Field("us",     TArray(TRef("p", "U")), FALSE),
   Field("minner", TMap(TString, TRef("p", "Inner")), FALSE),
   Field("slot",   TSlot("dataquery"), FALSE),
   Field("when",   WithHints(TString, <<Hint("string_format_datetime", VBool(TRUE))>>), FALSE),
   Field("count",  WithDef(TScalar("int64"), VInt("3")), FALSE),
   Field("en",     TRef("p", "En"), FALSE),
   Field("anyf",   TScalar("any"), FALSE)>>)
PanelT == TStruct(<<Field("type", TString, TRUE), Field("opts", TScalar("any"), FALSE)>>)
SC == <<SchemaOf("p", <<Obj("p", "Root", RootT), Obj("p", "Inner", InnerT), Obj("p", "U", UT), Obj("p", "En", EnT), Obj("p", "Panel", PanelT)>>),
        [SchemaOf("q", <<Obj("q", "Options", TStruct(<<Field("o1", TString, TRUE)>>))>>)
           EXCEPT !.meta = [kind |-> "composable", variant |-> "panelcfg", id |-> "qid"]]>>
B0 == Derive(SC)
DirOf(B) == [i \in DOMAIN B |-> [pkg |-> B[i].pkg, name |-> B[i].name, forpkg |-> B[i].for.selfpkg, forname |-> B[i].for.selfname, ctor |-> B[i].ctor]]

ON(obj, opts) == [k |-> "by_name", pkg |-> "p", object |-> obj, options |-> opts]
BO(n)    == [k |-> "by_object", pkg |-> "p", name |-> n]
BN(n)    == [k |-> "by_name", pkg |-> "p", name |-> n]
OR(r, sel) == [kind |-> "o", r |-> r, sel |-> sel, lang |-> "all"]
BR(r, sel) == [kind |-> "b", r |-> r, sel |-> sel, lang |-> "all"]
R(o) == ON("Root", <<o>>)
Prod == ON("Root", <<"tag", "item", "label", "on", "off", "dup", "x", "y", "str", "bool", "string">>)
RC == <<
  OR("unfold_boolean", R("flag")) @@ [true_as |-> "on", false_as |-> "off"],
  OR("duplicate", R("tags")) @@ [as |-> "dup"],
  OR("duplicate", R("inner")) @@ [as |-> "dup"],
  OR("array_to_append", R("tags")), OR("array_to_append", R("items")), OR("array_to_append", R("us")), OR("array_to_append", Prod),
  OR("map_to_index", R("labels")), OR("map_to_index", R("minner")),
  OR("struct_fields_as_arguments", R("inner")) @@ [fields |-> <<>>],
  OR("struct_fields_as_arguments", R("oinner")) @@ [fields |-> <<>>],
  OR("struct_fields_as_arguments", Prod) @@ [fields |-> <<>>],
  OR("struct_fields_as_options", R("inner")) @@ [fields |-> <<>>],
  OR("disjunction_as_options", R("u")) @@ [index |-> 0],
  OR("disjunction_as_options", R("d")) @@ [index |-> 0],
  OR("disjunction_as_options", R("us")) @@ [index |-> 0],
  OR("add_assignment", R("tags")) @@ [assign |-> [path |-> <<"name">>, method |-> "direct", value |-> [k |-> "const", val |-> VStr("forced")]]],
  OR("omit", R("inner")),
  BR("promote", BO("Root")) @@ [options |-> <<"name", "inner">>],
  BR("duplicate", BO("Inner")) @@ [as |-> "InnerB", exclude |-> <<>>],
  BR("omit", BO("Inner")),
  BR("merge_into", BN("Root")) @@ [source |-> "Inner", under |-> <<"oinner">>, exclude |-> <<>>, rename |-> <<>>],
  BR("initialize", BO("Root")) @@ [set |-> <<[path |-> <<"name">>, value |-> VStr("init")]>>],
  BR("compose", [k |-> "by_variant", pkg |-> "q", variant |-> "panelcfg"]) @@
      [srcpkg |-> "p", srcname |-> "Panel", discr |-> "type", exclude |-> <<>>,
       map |-> <<[key |-> "Options", path |-> <<"opts">>]>>, name |-> "", preserve |-> FALSE]
>>

Init == hist = <<>> /\ cur = B0 /\ err = FALSE /\ sum = 0
Phase(h, r) == IF h = <<>> THEN r
               ELSE IF Last(h).lang = "go" \/ (Last(h).kind = "o" /\ r.kind = "b") THEN [r EXCEPT !.lang = "go"] ELSE r
Next == /\ ~err /\ Len(hist) < MaxLen
        /\ \E i \in DOMAIN RC :
             /\ ~(hist # <<>> /\ Last(hist).lang = "go" /\ Last(hist).kind = "o" /\ RC[i].kind = "b")
             /\ (Len(hist) >= 2 => (i + sum) % NSlices = Slice)
             /\ LET r == Phase(hist, RC[i])
                    out == ApplyRule(SC, cur, r) IN
                  /\ Defined(SC, cur, r)
                  /\ hist' = Append(hist, r) /\ cur' = out.B /\ err' = out.err /\ sum' = sum + i
Spec == Init /\ [][Next]_vars

\* design level: in the required converter no option is mapped twice and every mapped option is an option of the builder
MappedOnce == \A l \in DOMAIN LangCfg : \A i \in DOMAIN cur :
                LET c == ConverterOf(LangCfg[l], SC, DirOf(cur), cur[i])
                    os == [x \in DOMAIN OptsOf(c) |-> OptsOf(c)[x].option]
                IN \A o \in Range(os) : o \in Range(cur[i].options) /\ Count(os, o) <= Count(cur[i].options, o)
Emit == IF hist = <<>> THEN PrintT(<<"SC", ToJson([S |-> SC, B0 |-> B0, cfg |-> LangCfg])>>)
        ELSE PrintT(<<"CASEC", ToJson([hist |-> hist, post |-> cur, err |-> err])>>)
===============================================================================
