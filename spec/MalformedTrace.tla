------------------------------ MODULE MalformedTrace ------------------------------
(* Trace validation for C04. Every record is one REAL whole-pipeline run of cog in  *)
(* a worker subprocess: {case, fam, class, stage, outcome, ms}. TLC re-judges the  *)
(* property's sentence on the recorded facts (Malformed!Violated): the outcome is   *)
(* `files` or `error`, reached within the time bound. Report mode prints one FAIL  *)
(* line per violating record; Strict stops (binding self-test).                     *)
EXTENDS Malformed, Json

CONSTANTS Strict
Trace == ndJsonDeserialize("trace.ndjson")

VARIABLE l
TInit == l = 1
TNext == l <= Len(Trace) /\ l' = l + 1
TSpec == TInit /\ [][TNext]_l

Step == Trace[l - 1]
KnownFamily(r) == r.fam \in {"jsonschema", "openapi", "cue", "pipeline", "passes", "veneers", "sequences", "parameters", "cycles", "cyclepasses", "cycleveneers", "veneerpaths", "ifexpr", "discriminators", "handtypes", "handtypeveneers", "drafts"}
V(r) == Violated(r) \cup (IF KnownFamily(r) THEN {} ELSE {"outside-universe"})

Verdict == l = 1 \/ V(Step) = {} \/
           (~Strict /\ PrintT(<<"FAIL", ToJson([l |-> l - 1, violated |-> V(Step)])>>))
Done == l = Len(Trace) + 1 => PrintT(<<"CONSUMED", l - 1>>)
===============================================================================
