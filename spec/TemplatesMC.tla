----------------------------- MODULE TemplatesMC -----------------------------
(* Histories of template files over three sources (embedded, two override directories), at most MaxFiles files.      *)
(* One state = one template set; the design check is Agree (fold = declaration) plus the laws below; every distinct   *)
(* set is printed with a history that produces it and what every query must give (replayed on the real package).      *)
EXTENDS Templates, Json

CONSTANTS MaxFiles, MaxSrc

FileNames == <<"a", "b", "d/x">>          \* in walk order
Rank(n) == CHOOSE i \in DOMAIN FileNames : FileNames[i] = n
Queries == {"a", "b", "c", "d/x", "zz"}

Lit(t) == [k |-> "lit", v |-> "<" \o t \o ">"]
Ws == [k |-> "ws", v |-> ""]
Call(k, n) == [k |-> k, v |-> n]
SrcTag(s) == CASE s = 0 -> "0" [] s = 1 -> "1" [] OTHER -> "2"
Tag(s, n) == n \o SrcTag(s)

BodyPool(t) == { <<>>, <<Ws>>, <<Lit(t)>>, <<Lit(t), Call("inc", "b")>>, <<Call("incif", "d/x"), Lit(t)>>,
                 <<Call("tmpl", "a")>>, <<Call("inc", "c"), Ws>>, <<Call("incif", "zz"), Call("incif", "c")>> }
DefBodies(t) == { <<>>, <<Lit(t \o "d")>>, <<Call("inc", "a")>> }
DefNames == {"a", "b", "c"}
DefsPool(t) == {<<>>}
               \cup {<<[name |-> n, body |-> b]>> : n \in DefNames, b \in DefBodies(t)}
               \cup { <<[name |-> "c", body |-> <<Lit(t \o "d")>>], [name |-> "c", body |-> <<Lit(t \o "e")>>]>>,     \* R2
                      <<[name |-> "c", body |-> <<>>], [name |-> "c", body |-> <<Lit(t \o "e")>>]>>,
                      <<[name |-> "c", body |-> <<Lit(t \o "d")>>], [name |-> "b", body |-> <<Ws>>]>> }
FileNameSet == {FileNames[i] : i \in DOMAIN FileNames}
FilesNamed(s, n) == {[src |-> s, name |-> n, body |-> b, defs |-> d] : b \in BodyPool(Tag(s, n)), d \in DefsPool(Tag(s, n))}
FilesOf(s) == UNION {FilesNamed(s, n) : n \in FileNameSet}

VARIABLES st, hist, src, last
vars == <<st, hist, src, last>>
View == <<st, src, last>>

Init == st = Empty0 /\ hist = <<>> /\ src = 0 /\ last = 0
AddFile == /\ Len(hist) < MaxFiles
           /\ \E f \in FilesOf(src) :
                /\ Rank(f.name) > last            \* one directory is walked in lexical order, a path occurs once
                /\ st' = ParseFile(st, f)
                /\ hist' = Append(hist, f)
                /\ last' = Rank(f.name)
           /\ UNCHANGED src
NextSource == src < MaxSrc /\ src' = src + 1 /\ last' = 0 /\ UNCHANGED <<st, hist>>
Next == AddFile \/ NextSource
Spec == Init /\ [][Next]_vars

FoldIsDeclaration == Agree(st, hist)
(* laws a user relies on, stated on the registry *)
EmptyNeverHides == \A i \in DOMAIN hist : ~st.failed =>
                      (~IsEmpty(hist[i].body) => ~IsEmpty(st.reg[hist[i].name]))
LastFileWins == (~st.failed /\ hist # <<>> /\ ~IsEmpty(hist[Len(hist)].body)
                 /\ ~\E j \in DOMAIN hist[Len(hist)].defs : hist[Len(hist)].defs[j].name = hist[Len(hist)].name)
                => st.reg[hist[Len(hist)].name] = hist[Len(hist)].body
Terminates == \A n \in Queries : Render(st, n).err \in BOOLEAN        \* Render is total: every query has a verdict

Expect == [failed |-> st.failed,
           render |-> [n \in Queries |-> Render(st, n)],
           exists |-> [n \in Queries |-> Exists(st, n)]]
Emit == hist = <<>> \/ PrintT(<<"CASE", ToJson([files |-> hist, expect |-> Expect])>>)
================================================================================
