SPECIFICATION Spec
CONSTANTS
  Mode = "index"
  Ids = {}
  Fuel = 2
  MaxLen = 3
  Langs = {"go", "python"}
INVARIANT Emit
CHECK_DEADLOCK FALSE
