SPECIFICATION Spec
CONSTANTS
  Mode = "index"
  Ids = {}
  Fuel = 2
  MaxLen = 3
  Langs = {"go", "python"}
  Win = 0
  From = 0
INVARIANT Emit
CHECK_DEADLOCK FALSE
