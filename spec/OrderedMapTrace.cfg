CONSTANTS
  Keys = {"k00"}
  Vals = {1, 2}
  TraceFile = "c19_trace.ndjson"
  Strict = FALSE
SPECIFICATION TSpec
INVARIANTS Verdict Done
CHECK_DEADLOCK FALSE
