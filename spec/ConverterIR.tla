------------------------------- MODULE ConverterIR -------------------------------
(* Growth item 3 (DESIGN Appendix E): the converter IR, the IR half of C14.     *)
(* languages.ConverterGenerator.FromBuilder turns one builder into the plan of   *)
(* a converter (object -> builder calls).  Requirement, stated on the IR:         *)
(*  - ConstructorArgs: one direct mapping per constructor assignment fed by an    *)
(*    argument (input.<path>, typed like the path's last item);                   *)
(*  - OneMappingPerOption: every option is mapped exactly once, except options    *)
(*    all of whose assignments were already mapped by earlier options (no path    *)
(*    is mapped twice);                                                           *)
(*  - Grouping: an option with one append (index) assignment is repeated over the *)
(*    array (map); options appending one branch of a disjunction struct to the    *)
(*    same list share ONE repeated mapping;                                       *)
(*  - Guards: derived from the option's assignment paths - every nullable path    *)
(*    item non-nil (language NullableConfig), constants equal, arrays and strings *)
(*    non-empty, scalars different from their default, envelope fields non-nil;   *)
(*  - Arguments: one per assignment that is not a constant, by the kind of the    *)
(*    assigned type: runtime (composable slot), disjunction, array, map, builder  *)
(*    (a builder exists for the referred object; a choice guarded by constructor  *)
(*    constants when several do), direct otherwise.                               *)
(* ConverterOf is the requirement as a function; ConverterViolated compares a     *)
(* real converter with it clause by clause (order of mappings is not compared).   *)
EXTENDS Builders

CONSTANT UCamelTable
UCamel(s) == IF s \in DOMAIN UCamelTable THEN UCamelTable[s] ELSE s
Num == <<"1", "2", "3", "4", "5", "6", "7", "8", "9">>

RootVar(n, t) == [id |-> n, type |-> t, index |-> IdxNone, hint |-> TNone, root |-> TRUE]
InputRoot(b)  == <<RootVar("input", TRef(b.for.selfpkg, b.for.selfname))>>
Guard(p, op, v) == [path |-> p, op |-> op, value |-> v]
Direct(p, t)  == [path |-> p, type |-> t]
VOne == [t |-> "int", s |-> "1"]

AllIds(p) == [i \in DOMAIN p |-> p[i].id]
AKey(a) == [ids |-> AllIds(a.path),
            const |-> IF a.value.k = "const" THEN a.value.val ELSE VNil,
            env |-> IF a.value.k = "envelope" THEN [i \in DOMAIN a.value.values |-> AllIds(a.value.values[i].path)] ELSE <<>>]

(* ------------------------------- guards -------------------------------- *)
IsPlainString(t) == t.k = "scalar" /\ t.sk = "string" /\ ~\E i \in DOMAIN t.hints : t.hints[i].key = "string_format_datetime"
NotNilGuards(cfg, root, p) == {Guard(root \o Prefix(p, i), "!=", VNil) : i \in {j \in DOMAIN p : TypeNullable(cfg, p[j].type)}}
AssignGuards(cfg, root, a) ==
  NotNilGuards(cfg, root, a.path) \cup
  (IF a.method = "index" THEN {}
   ELSE IF a.value.k = "const" THEN {Guard(root \o a.path, "==", a.value.val)}
   ELSE LET t == Last(a.path).type IN
        (IF IsType(t) /\ t.k = "array" THEN {Guard(root \o a.path, "minLength", VOne)} ELSE {})
        \cup (IF IsType(t) /\ IsPlainString(t) THEN {Guard(root \o a.path, "!=", VStr(""))} ELSE {})
        \cup (IF IsType(t) /\ t.k = "scalar" /\ t.def # VNil THEN {Guard(root \o a.path, "!=", t.def)} ELSE {})
        \cup (IF a.method # "append" /\ a.value.k = "envelope"
              THEN {Guard(root \o a.path \o a.value.values[i].path, "!=", VNil) : i \in DOMAIN a.value.values} ELSE {}))
GuardsFor(cfg, root, as) == UNION {AssignGuards(cfg, root, as[i]) : i \in DOMAIN as}
GuardKind(g) == IF g.op = "==" THEN "constant" ELSE IF g.op = "minLength" THEN "non-empty-array"
                ELSE IF g.value = VNil THEN "not-nil" ELSE IF g.value = VStr("") THEN "non-empty-string" ELSE "non-default"

(* ------------------------------ arguments ------------------------------ *)
\* dir: the builders of the run, reduced to [pkg, name, forpkg, forname, ctor]
BuildersOf(dir, t) == IF t.k = "ref" THEN SelectSeq(dir, LAMBDA d : d.forpkg = t.pkg /\ d.forname = t.name) ELSE <<>>
ConstAssigns(d) == SelectSeq(d.ctor.assigns, LAMBDA a : a.value.k = "const")
RECURSIVE ArgFor(_, _, _, _, _)
ArgFor(cfg, dir, name, path, t) ==
  CASE t.k = "slot" -> [k |-> "runtime", func |-> "Convert" \o UCamel(t.variant) \o "ToCode", args |-> <<Direct(path, t)>>, guards |-> {}]
    [] t.k = "disj" -> [k |-> "disjunction", guards |-> {},
                        branches |-> [i \in DOMAIN t.branches |-> [type |-> t.branches[i], of |-> Direct(path, t),
                                                                    arg |-> ArgFor(cfg, dir, name, path, t.branches[i])]]]
    [] t.k = "array" -> LET va == <<RootVar(name, t.elem)>> IN
                        [k |-> "array", for |-> path, fortype |-> t, forarg |-> ArgFor(cfg, dir, name \o "Value", va, t.elem),
                         valueas |-> va, valuetype |-> t.elem, guards |-> {}]
    [] t.k = "map" -> LET va == <<RootVar(name, t.elem)>> IN
                      [k |-> "map", for |-> path, fortype |-> t, forarg |-> ArgFor(cfg, dir, name \o "Value", va, t.elem),
                       valueas |-> va, indextype |-> t.idx, valuetype |-> t.elem, guards |-> {}]
    [] OTHER -> LET bs == BuildersOf(dir, t) IN
                IF Len(bs) > 1 /\ \A i \in DOMAIN bs : ConstAssigns(bs[i]) # <<>>
                THEN [k |-> "choice", guards |-> {},
                      choices |-> [i \in DOMAIN bs |-> [guards |-> GuardsFor(cfg, path, ConstAssigns(bs[i])), path |-> path, type |-> t,
                                                        pkg |-> bs[i].pkg, name |-> bs[i].name]]]
                ELSE IF Len(bs) > 0 THEN [k |-> "builder", path |-> path, type |-> t, pkg |-> bs[1].pkg, name |-> bs[1].name, guards |-> {}]
                ELSE [k |-> "direct", path |-> path, type |-> t, guards |-> {}]

\* the assignment hands one branch of a struct generated from a disjunction over
FromDisjStruct(S, a) ==
  a.value.k = "envelope" /\
  LET et == a.value.type
      t1 == IF et.k = "ref" THEN (IF HasObject(S, et.pkg, et.name) THEN ObjectAt(S, et.pkg, et.name).type ELSE TNone) ELSE et
  IN IsType(t1) /\ t1.k = "struct" /\ \E i \in DOMAIN t1.hints : t1.hints[i].key \in {"disjunction_of_scalars", "disjunction_of_refs"}

NoRepeat == [for |-> <<>>, as |-> "", index |-> ""]
RepeatOf(root, rem) ==
  IF Len(rem) = 1 /\ rem[1].method = "append" THEN [for |-> root \o rem[1].path, as |-> "item", index |-> ""]
  ELSE IF Len(rem) = 1 /\ rem[1].method = "index"
       THEN [for |-> root \o SubSeq(rem[1].path, 1, Len(rem[1].path) - 1), as |-> "value", index |-> "key"]
  ELSE NoRepeat

ArgsTail(cfg, S, dir, name, vp, vt, a) ==
  IF FromDisjStruct(S, a)
  THEN LET ev == a.value.values IN
       <<[ArgFor(cfg, dir, name, vp \o ev[1].path, Last(ev[1].path).type)
            EXCEPT !.guards = {Guard(vp \o ev[i].path, "!=", VNil) : i \in DOMAIN ev}]>>
  ELSE IF a.value.k = "envelope"
  THEN [x \in DOMAIN a.value.values |-> ArgFor(cfg, dir, name, vp \o a.value.values[x].path, Last(a.value.values[x].path).type)]
  ELSE <<ArgFor(cfg, dir, name, vp, vt)>>
ArgsOfAssign(cfg, S, dir, root, rep, a, i) ==
  IF a.value.k = "const" THEN <<>> ELSE
  LET name == "arg" \o Num[i]
      vt == Last(a.path).type
  IN IF rep.for # <<>> /\ vt.k = "array"
     THEN ArgsTail(cfg, S, dir, name, <<RootVar(rep.as, vt.elem)>>, vt.elem, a)
     ELSE IF rep.for # <<>> /\ a.method = "index"
     THEN <<ArgFor(cfg, dir, rep.index, <<RootVar(rep.index, vt)>>, Last(a.path).index.arg.type),
            ArgFor(cfg, dir, name, <<RootVar(rep.as, vt)>>, vt)>>
     ELSE ArgsTail(cfg, S, dir, name, root \o a.path, vt, a)

Remaining(gen, o) == SelectSeq(o.assigns, LAMBDA a : AKey(a) \notin gen)
OptMapping(cfg, S, dir, root, rep, gen, o) ==
  LET rem == Remaining(gen, o) IN
  [option |-> o, guards |-> GuardsFor(cfg, root, o.assigns),
   args |-> Flatten([i \in DOMAIN rem |-> ArgsOfAssign(cfg, S, dir, root, rep, rem[i], i)])]

\* options in order; st = [gen : mapped assignment keys, maps : mappings so far, lod : <<[key, opts]>> groups]
RECURSIVE ConvFold(_, _, _, _, _, _)
ConvFold(cfg, S, dir, root, opts, st) ==
  IF opts = <<>> THEN st ELSE
  LET o == Head(opts)
      rem == Remaining(st.gen, o)
      rep == RepeatOf(root, rem)
  IN IF rem = <<>> THEN ConvFold(cfg, S, dir, root, Tail(opts), st)
     ELSE IF rep.for # <<>> /\ FromDisjStruct(S, rem[1])
     THEN LET key == AllIds(rem[1].path)
              hit == {i \in DOMAIN st.lod : st.lod[i].key = key}
          IN ConvFold(cfg, S, dir, root, Tail(opts),
                      [st EXCEPT !.lod = IF hit = {} THEN Append(@, [key |-> key, opts |-> <<o>>])
                                         ELSE [@ EXCEPT ![CHOOSE i \in hit : TRUE].opts = Append(@, o)]])
     ELSE ConvFold(cfg, S, dir, root, Tail(opts),
                   [st EXCEPT !.gen = @ \cup {AKey(rem[i]) : i \in DOMAIN rem},
                              !.maps = Append(@, [for |-> rep.for, as |-> rep.as, index |-> rep.index,
                                                  options |-> <<OptMapping(cfg, S, dir, root, rep, st.gen, o)>>])])
RECURSIVE GroupFold(_, _, _, _, _, _, _, _)
GroupFold(cfg, S, dir, root, rep, opts, gen, acc) ==
  IF opts = <<>> THEN [gen |-> gen, options |-> acc] ELSE
  LET o == Head(opts)
      rem == Remaining(gen, o)
  IN IF rem = <<>> THEN GroupFold(cfg, S, dir, root, rep, Tail(opts), gen, acc)
     ELSE GroupFold(cfg, S, dir, root, rep, Tail(opts), gen \cup {AKey(rem[i]) : i \in DOMAIN rem},
                    Append(acc, OptMapping(cfg, S, dir, root, rep, gen, o)))
RECURSIVE LodFold(_, _, _, _, _, _, _)
LodFold(cfg, S, dir, root, groups, gen, acc) ==
  IF groups = <<>> THEN acc ELSE
  LET g == Head(groups)
      rep == [for |-> root \o g.opts[1].assigns[1].path, as |-> "item", index |-> ""]
      res == GroupFold(cfg, S, dir, root, rep, g.opts, gen, <<>>)
  IN LodFold(cfg, S, dir, root, Tail(groups), res.gen, Append(acc, [for |-> rep.for, as |-> rep.as, index |-> rep.index, options |-> res.options]))

ConverterOf(cfg, S, dir, b) ==
  LET root == InputRoot(b)
      argAssigns == SelectSeq(b.ctor.assigns, LAMBDA a : a.value.k = "arg")
      st == ConvFold(cfg, S, dir, root, b.options, [gen |-> {}, maps |-> <<>>, lod |-> <<>>])
      maps == st.maps \o LodFold(cfg, S, dir, root, st.lod, st.gen, <<>>)
  IN [pkg |-> b.pkg, builder |-> b.name, input |-> [arg |-> "input", pkg |-> b.for.selfpkg, name |-> b.for.selfname],
      ctorargs |-> [i \in DOMAIN argAssigns |-> Direct(root \o argAssigns[i].path, Last(argAssigns[i].path).type)],
      mappings |-> SelectSeq(maps, LAMBDA m : m.options # <<>>)]

(* ------------------- comparison with a real converter ------------------ *)
\* guards come as sequences from the real code: their order is not part of the requirement
GuardSet(gs) == Range(gs)
RECURSIVE NormArg(_)
NormArg(a) ==
  LET a1 == [a EXCEPT !.guards = GuardSet(@)] IN
  CASE a.k = "array" \/ a.k = "map" -> [a1 EXCEPT !.forarg = NormArg(@)]
    [] a.k = "disjunction" -> [a1 EXCEPT !.branches = [i \in DOMAIN @ |-> [@[i] EXCEPT !.arg = NormArg(@)]]]
    [] a.k = "choice" -> [a1 EXCEPT !.choices = [i \in DOMAIN @ |-> [@[i] EXCEPT !.guards = GuardSet(@)]]]
    [] OTHER -> a1
NormOpt(om) == [option |-> om.option, guards |-> GuardSet(om.guards), args |-> [i \in DOMAIN om.args |-> NormArg(om.args[i])]]
NormMap(m) == [m EXCEPT !.options = [i \in DOMAIN @ |-> NormOpt(@[i])]]
NormConv(c) == [c EXCEPT !.mappings = [i \in DOMAIN @ |-> NormMap(@[i])]]

OptsOf(c) == Flatten([i \in DOMAIN c.mappings |-> [j \in DOMAIN c.mappings[i].options |-> c.mappings[i].options[j]]])
MapOf(c, o) == c.mappings[CHOOSE i \in DOMAIN c.mappings : \E j \in DOMAIN c.mappings[i].options : c.mappings[i].options[j].option = o]
OptIn(c, o) == LET m == MapOf(c, o) IN m.options[CHOOSE j \in DOMAIN m.options : m.options[j].option = o]
OptionClass(o) ==
  IF o.assigns = <<>> THEN "no-assignment"
  ELSE IF Len(o.assigns) > 1 THEN "several-assignments"
  ELSE LET a == o.assigns[1] IN
       (IF a.value.k = "const" THEN "constant" ELSE IF a.value.k = "envelope" THEN "envelope" ELSE "argument")
       \o "-" \o a.method
RECURSIVE ArgKinds(_)
ArgKinds(args) == IF args = <<>> THEN "" ELSE args[1].k \o (IF Len(args) > 1 THEN "," ELSE "") \o ArgKinds(Tail(args))

ConverterViolated(cfg, S, dir, b, conv) ==
  LET want == ConverterOf(cfg, S, dir, b)
      got == NormConv(conv)
      V3(cl, w) == {[clause |-> cl, class |-> w]}
      wo == [i \in DOMAIN OptsOf(want) |-> OptsOf(want)[i].option]
      go == [i \in DOMAIN OptsOf(got) |-> OptsOf(got)[i].option]
      both == {o \in Range(wo) : o \in Range(go) /\ Count(wo, o) = 1 /\ Count(go, o) = 1}
  IN IF [got EXCEPT !.mappings = <<>>] = [want EXCEPT !.mappings = <<>>] /\ BagEq(got.mappings, want.mappings) THEN {} ELSE
     (IF [got EXCEPT !.mappings = <<>>, !.ctorargs = <<>>] # [want EXCEPT !.mappings = <<>>, !.ctorargs = <<>>] THEN V3("Header", "package-builder-or-input") ELSE {})
     \cup (IF got.ctorargs # want.ctorargs THEN V3("ConstructorArgs", IF Len(got.ctorargs) # Len(want.ctorargs) THEN "count" ELSE "path-or-type") ELSE {})
     \cup UNION {IF Count(go, o) > Count(wo, o)
                 THEN V3("OneMappingPerOption", IF o \in Range(b.options) THEN (IF Count(wo, o) = 0 THEN "already-mapped-path-mapped-again:" ELSE "mapped-twice:") \o OptionClass(o)
                                                ELSE "not-an-option-of-the-builder")
                 ELSE {} : o \in Range(go)}
     \cup UNION {IF Count(go, o) < Count(wo, o) THEN V3("OneMappingPerOption", "not-mapped:" \o OptionClass(o)) ELSE {} : o \in Range(wo)}
     \cup UNION {LET mw == MapOf(want, o) mg == MapOf(got, o) IN
                 (IF mw.for # mg.for \/ mw.as # mg.as \/ mw.index # mg.index
                  THEN V3("Grouping", "repeat:" \o OptionClass(o))
                  ELSE IF {x.option : x \in Range(mw.options)} # {x.option : x \in Range(mg.options)}
                  THEN V3("Grouping", (IF Len(mw.options) > 1 THEN "list-of-disjunction-not-grouped:" ELSE "grouped-with-others:") \o OptionClass(o))
                  ELSE {})
                 \cup (LET gw == OptIn(want, o).guards gg == OptIn(got, o).guards IN
                       {[clause |-> "Guards", class |-> "missing:" \o GuardKind(g)] : g \in gw \ gg}
                       \cup {[clause |-> "Guards", class |-> "spurious:" \o GuardKind(g)] : g \in gg \ gw})
                 \cup (LET aw == OptIn(want, o).args ag == OptIn(got, o).args IN
                       IF aw = ag THEN {}
                       ELSE IF ArgKinds(aw) # ArgKinds(ag) THEN V3("Arguments", "kind:want[" \o ArgKinds(aw) \o "]got[" \o ArgKinds(ag) \o "]")
                       ELSE V3("Arguments", "content:" \o ArgKinds(aw)))
                 : o \in both}

\* vacuity: what the required converter of this builder exercises
RECURSIVE KindsIn(_)
KindsIn(a) == {"arg:" \o a.k} \cup (IF a.guards # {} THEN {"arg-guards"} ELSE {})
              \cup (IF a.k = "array" \/ a.k = "map" THEN KindsIn(a.forarg) ELSE {})
              \cup (IF a.k = "disjunction" THEN UNION {KindsIn(a.branches[i].arg) : i \in DOMAIN a.branches} ELSE {})
ConverterStats(cfg, S, dir, b, conv) ==
  LET want == ConverterOf(cfg, S, dir, b)
      oms == OptsOf(want)
  IN UNION {UNION {KindsIn(oms[i].args[j]) : j \in DOMAIN oms[i].args} \cup {"guard:" \o GuardKind(g) : g \in oms[i].guards} : i \in DOMAIN oms}
     \cup (IF want.ctorargs # <<>> THEN {"constructor-args"} ELSE {})
     \cup (IF Len(oms) < Len(b.options) THEN {"option-without-mapping"} ELSE {})
     \cup {IF m.index # "" THEN "repeat-index" ELSE IF m.for # <<>> THEN "repeat-append" ELSE "plain" : m \in Range(want.mappings)}
     \cup (IF \E m \in Range(want.mappings) : Len(m.options) > 1 THEN {"grouped-list-of-disjunction"} ELSE {})
===============================================================================
