------------------------------- MODULE ConverterIR -------------------------------
(* placeholder, filled below *)
EXTENDS Builders
ConverterViolated(cfg, S, B, b, conv) == {}
ConverterStats(cfg, S, B, b, conv) == {}
===============================================================================
