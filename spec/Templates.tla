------------------------------ MODULE Templates ------------------------------
(* Growth item 7 (DESIGN Appendix E): template registration and override resolution (internal/jennies/template).     *)
(*                                                                                                                  *)
(* Every language's jennies render through ONE template set that is filled in this order:                           *)
(*     source 0   the templates embedded in the binary            (template.ParseFS, walk in lexical order)          *)
(*     source k   the k-th `overrides_templates` directory         (template.ParseDirectories, lexical order each)    *)
(* A file registers the template named by its path below the source root, and every {{ define "n" }} inside it      *)
(* registers n. Jennies ask `blockExists n` / `includeIfExists n` for optional hooks (custom unmarshal, variants,   *)
(* extra docs: blocks.go) and `include n` for the rest.                                                             *)
(*                                                                                                                  *)
(* Requirement (what a user who writes an override directory relies on):                                            *)
(*   R1  the LAST non-empty definition of a name, in source order then file order, is the one that renders;          *)
(*       an empty (white-space only) definition never hides a non-empty one, whichever comes first;                  *)
(*   R2  two non-empty definitions of one name inside ONE file are an error of the whole set;                        *)
(*   R3  a name exists iff some file or define names it (also when every definition is empty);                       *)
(*   R4  rendering a name is the concatenation of its items, `includeIfExists` of an unknown name renders nothing,    *)
(*       `include`/`template` of an unknown name is an error;                                                        *)
(*   R5  rendering ALWAYS terminates: a cycle through include/includeIfExists/template is reported as an error        *)
(*       (recursionMaxNums for include, text/template's own depth bound for {{template}}), never a stack overflow.    *)
(*   R6  the spelling of the override directory (absolute, relative, trailing slash, leading ./) does not matter.     *)
(*                                                                                                                  *)
(* The registry is written the way text/template keeps it (AddParseTree/associate, parse.Tree.add), as a fold over   *)
(* the files - `Parse` below - and, independently, as the declarative reading R1-R3 - `Declared` -; TLC checks that   *)
(* the two agree on every history (TemplatesMC.tla) and the real package is replayed on those histories.             *)
EXTENDS Naturals, Sequences, FiniteSets, TLC

\* A body is a sequence of items [k, v]:  k = "lit" (v the text), "ws" (white space), "inc"/"incif"/"tmpl" (v the name).
IsEmpty(body) == \A i \in DOMAIN body : body[i].k = "ws"
\* A file: [name, body, defs], defs a sequence of [name, body] in the order they are written in the file.

Undef == [undef |-> TRUE]
NoReg == [n \in {} |-> <<>>]
Put(reg, n, b) == [x \in DOMAIN reg \cup {n} |-> IF x = n THEN b ELSE reg[x]]

(* parse.Tree.add: the trees of ONE file. Definitions are added while the file is read, the file's own tree last.    *)
(* A tree replaces an absent or empty one; a second NON-EMPTY tree of the same name is an error.                      *)
FileTrees(f) == f.defs \o <<[name |-> f.name, body |-> f.body]>>
RECURSIVE AddTrees(_, _)
AddTrees(set, trees) ==
    IF trees = <<>> THEN set
    ELSE LET t == Head(trees) IN
         IF set.err THEN set
         ELSE IF t.name \notin DOMAIN set.reg \/ IsEmpty(set.reg[t.name])
              THEN AddTrees([err |-> FALSE, reg |-> Put(set.reg, t.name, t.body)], Tail(trees))
              ELSE IF ~IsEmpty(t.body) THEN [err |-> TRUE, reg |-> set.reg]
                   ELSE AddTrees(set, Tail(trees))
TreeSet(f) == AddTrees([err |-> FALSE, reg |-> NoReg], FileTrees(f))

(* Template.associate: an EMPTY tree does not replace an existing template; anything else does.                       *)
Assoc(reg, n, b) == IF n \in DOMAIN reg /\ IsEmpty(b) THEN reg ELSE Put(reg, n, b)
RECURSIVE AssocAll(_, _, _)
AssocAll(reg, ts, names) ==
    IF names = {} THEN reg
    ELSE LET n == CHOOSE x \in names : TRUE IN AssocAll(Assoc(reg, n, ts[n]), ts, names \ {n})

\* one ParseFile step of the set: st = [failed, reg]
ParseFile(st, f) ==
    IF st.failed THEN st
    ELSE LET ts == TreeSet(f) IN
         IF ts.err THEN [failed |-> TRUE, reg |-> st.reg]
         ELSE [failed |-> FALSE, reg |-> AssocAll(st.reg, ts.reg, DOMAIN ts.reg)]
RECURSIVE Parse(_, _)
Parse(st, files) == IF files = <<>> THEN st ELSE Parse(ParseFile(st, Head(files)), Tail(files))
Empty0 == [failed |-> FALSE, reg |-> NoReg]

--------------------------------------------------------------------------------
(* The declarative reading R1-R3 of a history of files.                                                             *)
RECURSIVE Flatten(_)
Flatten(files) == IF files = <<>> THEN <<>> ELSE FileTrees(Head(files)) \o Flatten(Tail(files))
DupInFile(f) == \E i, j \in DOMAIN FileTrees(f) : i < j /\ FileTrees(f)[i].name = FileTrees(f)[j].name
                                                  /\ ~IsEmpty(FileTrees(f)[i].body) /\ ~IsEmpty(FileTrees(f)[j].body)
DeclFailed(files) == \E i \in DOMAIN files : DupInFile(files[i])
DeclNames(files) == {Flatten(files)[i].name : i \in DOMAIN Flatten(files)}
(* within ONE file the first non-empty definition is the file's (R2 makes it the only one); across files the last   *)
DeclBody(files, n) ==
    LET fl == Flatten(files)
        ne == {i \in DOMAIN fl : fl[i].name = n /\ ~IsEmpty(fl[i].body)}
        all == {i \in DOMAIN fl : fl[i].name = n}
    IN IF ne # {} THEN fl[CHOOSE i \in ne : \A j \in ne : j <= i].body
       ELSE fl[CHOOSE i \in all : \A j \in all : i <= j].body
Declared(files) == IF DeclFailed(files) THEN [failed |-> TRUE]
                   ELSE [failed |-> FALSE, reg |-> [n \in DeclNames(files) |-> DeclBody(files, n)]]
\* the fold and the declaration agree (up to WHICH empty body is kept: both render as white space)
SameBody(a, b) == (IsEmpty(a) /\ IsEmpty(b)) \/ a = b
Agree(st, files) ==
    LET d == Declared(files) IN
    /\ st.failed = d.failed
    /\ ~st.failed => /\ DOMAIN st.reg = DOMAIN d.reg
                     /\ \A n \in DOMAIN st.reg : SameBody(st.reg[n], d.reg[n])

--------------------------------------------------------------------------------
(* Rendering (R4, R5).                                                                                               *)
Calls(reg, n) == IF n \notin DOMAIN reg THEN {}
                 ELSE {reg[n][i].v : i \in {j \in DOMAIN reg[n] :
                          reg[n][j].k \in {"inc", "tmpl"} \/ (reg[n][j].k = "incif" /\ reg[n][j].v \in DOMAIN reg)}}
RECURSIVE Closure(_, _, _)
Closure(reg, S, k) == IF k = 0 THEN S ELSE Closure(reg, S \cup UNION {Calls(reg, x) : x \in S}, k - 1)
Bound(reg) == Cardinality(DOMAIN reg) + 2
Reach(reg, n) == Closure(reg, {n}, Bound(reg))
OnCycle(reg, x) == x \in Closure(reg, Calls(reg, x), Bound(reg))
RenderFails(reg, n) == \E x \in Reach(reg, n) : x \notin DOMAIN reg \/ OnCycle(reg, x)
RECURSIVE Out(_, _), OutItems(_, _)
OutItems(reg, items) ==
    IF items = <<>> THEN ""
    ELSE LET it == Head(items)
             s == CASE it.k = "lit" -> it.v
                    [] it.k = "ws" -> " "
                    [] it.k = "incif" -> IF it.v \in DOMAIN reg THEN Out(reg, it.v) ELSE ""
                    [] OTHER -> Out(reg, it.v)
         IN s \o OutItems(reg, Tail(items))
Out(reg, n) == OutItems(reg, reg[n])
\* what Render(n) must give: [err |-> TRUE] or [err |-> FALSE, out |-> text]
Render(st, n) == IF st.failed \/ RenderFails(st.reg, n) THEN [err |-> TRUE, out |-> ""]
                 ELSE [err |-> FALSE, out |-> Out(st.reg, n)]
Exists(st, n) == ~st.failed /\ n \in DOMAIN st.reg
================================================================================
