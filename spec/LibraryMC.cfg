CONSTANTS
  MaxLen = 3
  FoldTable <- LibFoldTable
  TrimTable <- LibTrimTable
  HintRank <- LibHintRank
SPECIFICATION Spec
INVARIANTS Separable Emit
CHECK_DEADLOCK FALSE
