------------------------------- MODULE ChainModel -------------------------------
(* Constructive, requirement-level model of cog's built-in compiler passes and  *)
(* of the per-language chains (DESIGN.md 3.4, second bullet; property C06).     *)
(*                                                                              *)
(* Every pass is a function  Schemas -> Schemas  over the IR.tla representation *)
(* stating what the pass is MEANT to do, in EVERY type position (array          *)
(* elements, map keys and values, struct fields, union branches, intersection   *)
(* branches where the real pass goes there).  A chain is a sequence of pass     *)
(* NAMES; ApplyChain folds the passes over the schemas.  With the order read    *)
(* from the code (ChainModelReal.tla, generated at check time) TLC decides      *)
(* whether IDEAL passes in the REAL order reach the language's normal form.     *)
(*                                                                              *)
(* Names of objects a pass creates are structured strings built from the path   *)
(* of the position ("Root.f", "Root.f[]", "Root.f|2", "Root.f#Enum") or from    *)
(* the content of the union ("sOrint64"): no string function is needed,         *)
(* references resolve by equality, so AllRefsResolve and the clauses of         *)
(* LangChains.tla judge the model's states exactly as they judge real ones.     *)
(* (Strings rather than tuples: TLC refuses to compare a string with a tuple,   *)
(* and IR.tla compares names with "".)                                          *)
(*                                                                              *)
(* Member-name facts (pfx, numeric, empty, sign: LangChains.tla) are attached   *)
(* to every enum member by Prep and changed by the passes that establish them.  *)
EXTENDS LangChains, TLC

CONSTANTS NumericNames,   \* member names strconv.Atoi accepts (string facts TLA+ cannot compute)
          SignedNames     \* member names starting with '-' or '+'

(* ------------------------------- helpers ------------------------------- *)
(* TLC note: the arguments of an operator declared RECURSIVE are re-evaluated  *)
(* at every use inside its body (they are not cached), so such operators bind  *)
(* their arguments with LET first and a chain is unrolled without recursion.   *)
(* TLC note 2: [x \in D |-> e] is a LAZY function in TLC: every application    *)
(* re-evaluates e.  Passes compose, so each function built here is evaluated   *)
(* eagerly (TLCEval) and the generic walker of IR.tla is restated with eager   *)
(* constructors (same meaning).                                                *)
E(f) == TLCEval(f)
RECURSIVE WalkE(_, _)
WalkE(F(_), tArg) ==
  LET t == tArg IN
  IF ~IsType(t) THEN t ELSE
  LET t1 == CASE t.k = "array"  -> [t EXCEPT !.elem = WalkE(F, t.elem)]
              [] t.k = "map"    -> [t EXCEPT !.idx = WalkE(F, t.idx), !.elem = WalkE(F, t.elem)]
              [] t.k = "struct" -> [t EXCEPT !.fields = E([i \in DOMAIN t.fields |->
                                      [t.fields[i] EXCEPT !.type = WalkE(F, t.fields[i].type)]])]
              [] t.k = "disj"   -> [t EXCEPT !.branches = E([i \in DOMAIN t.branches |-> WalkE(F, t.branches[i])])]
              [] t.k = "inter"  -> [t EXCEPT !.branches = E([i \in DOMAIN t.branches |-> WalkE(F, t.branches[i])])]
              [] OTHER          -> t
      t2 == [t1 EXCEPT !.hints = E([i \in DOMAIN t1.hints |->
                 IF "type" \in DOMAIN t1.hints[i].val
                 THEN [t1.hints[i] EXCEPT !.val = [t1.hints[i].val EXCEPT !.type = WalkE(F, t1.hints[i].val.type)]]
                 ELSE t1.hints[i]])]
  IN F(t2)

RECURSIVE FlatSeq(_)
FlatSeq(ss) == IF ss = <<>> THEN <<>> ELSE Head(ss) \o FlatSeq(Tail(ss))

RECURSIVE DedupSeq(_, _)
DedupSeq(s, seen) ==
  IF s = <<>> THEN <<>>
  ELSE IF Head(s) \in seen THEN DedupSeq(Tail(s), seen)
  ELSE <<Head(s)>> \o DedupSeq(Tail(s), seen \cup {Head(s)})

RECURSIVE DedupObjs(_, _)
DedupObjs(os, seen) ==
  IF os = <<>> THEN <<>>
  ELSE IF Head(os).name \in seen THEN DedupObjs(Tail(os), seen)
  ELSE <<Head(os)>> \o DedupObjs(Tail(os), seen \cup {Head(os).name})

Fuel == 6    \* bound on chains of references followed (no cycle of aliases in any universe used)

\* follow references to objects down to the first type that is not a reference
RECURSIVE ResolveN(_, _, _)
ResolveN(S, t, n) ==
  LET t0 == t IN
  IF t0.k = "ref" /\ n > 0 /\ HasObject(S, t0.pkg, t0.name)
  THEN LET nx == ObjectAt(S, t0.pkg, t0.name).type IN ResolveN(S, nx, n - 1) ELSE t0
Resolve(S, t) == ResolveN(S, t, Fuel)

IsConcrete(t) == t.k = "scalar" /\ t.val # VNil
NumericKinds  == {"int8", "int16", "int32", "int64", "uint8", "uint16", "uint32", "uint64", "float32", "float64"}
EnumKinds     == NumericKinds \cup {"string"}

MkMember(n, v, sk) == [name |-> n, val |-> v, sk |-> sk, pfx |-> FALSE,
                       numeric |-> n \in NumericNames, empty |-> n = "", sign |-> n \in SignedNames]
\* input IRs carry plain members: attach the facts of their names
Prep(S) ==
  E([i \in DOMAIN S |-> [S[i] EXCEPT !.objects = E([j \in DOMAIN S[i].objects |->
     [S[i].objects[j] EXCEPT !.type = WalkE(LAMBDA t :
          IF t.k = "enum" THEN [t EXCEPT !.members = E([m \in DOMAIN t.members |->
                                   MkMember(t.members[m].name, t.members[m].val, t.members[m].sk)])] ELSE t,
        S[i].objects[j].type)]])]])

IdxStr(i) == ToString(i)

(* ---- walker with a path and object creation: F(node, path, position) ---- *)
(* returns [t |-> the node's replacement, objs |-> objects to add]; children  *)
(* are rewritten first, so created objects already hold rewritten types.      *)
(* position: "object" (the type of an object), "elem", "idx", "field",        *)
(* "branch" (union), "ibranch" (intersection)                                 *)
R(t, objs) == [t |-> t, objs |-> objs]
RECURSIVE WalkP(_, _, _, _)
WalkP(F(_, _, _), tArg, pArg, pos) ==
  LET t == tArg
      p == pArg IN
  IF ~IsType(t) THEN R(t, <<>>) ELSE
  CASE t.k = "array" ->
         LET r == WalkP(F, t.elem, p \o "[]", "elem")
             f == F([t EXCEPT !.elem = r.t], p, pos)
         IN R(f.t, r.objs \o f.objs)
    [] t.k = "map" ->
         LET ri == WalkP(F, t.idx, p \o "{k}", "idx")
             re == WalkP(F, t.elem, p \o "{v}", "elem")
             f  == F([t EXCEPT !.idx = ri.t, !.elem = re.t], p, pos)
         IN R(f.t, ri.objs \o re.objs \o f.objs)
    [] t.k = "struct" ->
         LET rs == E([i \in DOMAIN t.fields |-> WalkP(F, t.fields[i].type, p \o "." \o t.fields[i].name, "field")])
             f  == F([t EXCEPT !.fields = E([i \in DOMAIN t.fields |-> [t.fields[i] EXCEPT !.type = rs[i].t]])], p, pos)
         IN R(f.t, FlatSeq(E([i \in DOMAIN rs |-> rs[i].objs])) \o f.objs)
    [] t.k = "disj" ->
         LET rs == E([i \in DOMAIN t.branches |-> WalkP(F, t.branches[i], p \o "|" \o IdxStr(i), "branch")])
             f  == F([t EXCEPT !.branches = E([i \in DOMAIN t.branches |-> rs[i].t])], p, pos)
         IN R(f.t, FlatSeq(E([i \in DOMAIN rs |-> rs[i].objs])) \o f.objs)
    [] t.k = "inter" ->
         LET rs == E([i \in DOMAIN t.branches |-> WalkP(F, t.branches[i], p \o "&" \o IdxStr(i), "ibranch")])
             f  == F([t EXCEPT !.branches = E([i \in DOMAIN t.branches |-> rs[i].t])], p, pos)
         IN R(f.t, FlatSeq(E([i \in DOMAIN rs |-> rs[i].objs])) \o f.objs)
    [] OTHER -> F(t, p, pos)

\* a creating pass over all schemas: G(schema, node, path, position)
MapCreating(S, G(_, _, _, _)) ==
  E([i \in DOMAIN S |->
     LET sc == S[i]
         rs == E([j \in DOMAIN sc.objects |->
                  WalkP(LAMBDA t, p, pos : G(sc, t, p, pos), sc.objects[j].type, sc.objects[j].name, "object")])
         created == FlatSeq(E([j \in DOMAIN rs |-> rs[j].objs]))
         old == E([j \in DOMAIN sc.objects |-> [sc.objects[j] EXCEPT !.type = rs[j].t]])
     IN [sc EXCEPT !.objects = old \o DedupObjs(created, {sc.objects[j].name : j \in DOMAIN sc.objects})]])

\* a rewriting pass over all schemas (objects and entry point type): G(schema, node)
MapNodes(S, G(_, _)) ==
  E([i \in DOMAIN S |->
     [S[i] EXCEPT !.objects = E([j \in DOMAIN S[i].objects |->
                                 [S[i].objects[j] EXCEPT !.type = WalkE(LAMBDA n : G(S[i], n), S[i].objects[j].type)]]),
                  !.entrytype = WalkE(LAMBDA n : G(S[i], n), S[i].entrytype)]])

RefLike(t, ref) == [ref EXCEPT !.nullable = t.nullable, !.def = t.def]
Bare(t)         == [t EXCEPT !.nullable = FALSE, !.def = VNil]

(* ======================================================================= *)
(*                               the passes                                *)
(* ======================================================================= *)

(* AnonymousStructsToNamed: every struct that is neither the type of an       *)
(* object nor one of the structs an allOf composes becomes an object; the     *)
(* position keeps a reference that is as nullable/defaulted as the struct was *)
AnonStructsF(sc, t, p, pos) ==
  IF t.k = "struct" /\ pos \notin {"object", "ibranch"}
  THEN R(RefLike(t, TRef(sc.pkg, p)), <<Obj(sc.pkg, p, Bare(t))>>)
  ELSE R(t, <<>>)
AnonymousStructsToNamed(S) == MapCreating(S, AnonStructsF)

(* NotRequiredFieldAsNullableType: the type of every non-required field,      *)
(* wherever the struct sits, is nullable                                      *)
NotRequiredF(sc, t) ==
  IF t.k = "struct"
  THEN [t EXCEPT !.fields = E([i \in DOMAIN t.fields |->
          IF ~t.fields[i].required /\ IsType(t.fields[i].type)
          THEN [t.fields[i] EXCEPT !.type = AsNullable(@)] ELSE t.fields[i]])]
  ELSE t
NotRequiredFieldAsNullableType(S) == MapNodes(S, NotRequiredF)

(* DisjunctionWithNullToOptional: T | null  becomes  nullable T, innermost first *)
NullBranches(t) == {i \in DOMAIN t.branches : IsNullT(t.branches[i])}
IsTOrNull(t) == t.k = "disj" /\ Len(t.branches) = 2 /\ Cardinality(NullBranches(t)) = 1
WithNullF(sc, t) ==
  IF IsTOrNull(t)
  THEN LET b == t.branches[CHOOSE i \in DOMAIN t.branches : i \notin NullBranches(t)]
       IN [b EXCEPT !.nullable = TRUE, !.def = IF t.def # VNil THEN t.def ELSE @]
  ELSE t
DisjunctionWithNullToOptional(S) == MapNodes(S, WithNullF)

(* DisjunctionOfConstantsToEnum: a union whose branches all come down (through *)
(* references, nested unions and enums) to constants of one string/numeric     *)
(* kind is the enum of those constants                                         *)
RECURSIVE ConstMembers(_, _, _)
ConstMembers(S, tArg, n) ==
  LET t == tArg
      r == Resolve(S, t) IN
  IF IsConcrete(r) /\ r.sk \in EnumKinds THEN [ok |-> TRUE, ms |-> <<MkMember(r.val.s, r.val, r.sk)>>]
  ELSE IF r.k = "enum" THEN [ok |-> \A m \in DOMAIN r.members : r.members[m].sk \in EnumKinds, ms |-> r.members]
  ELSE IF r.k = "disj" /\ n > 0 /\ Len(r.branches) > 0
       THEN LET cs == E([i \in DOMAIN r.branches |-> ConstMembers(S, r.branches[i], n - 1)])
            IN [ok |-> \A i \in DOMAIN cs : cs[i].ok, ms |-> FlatSeq(E([i \in DOMAIN cs |-> cs[i].ms]))]
  ELSE [ok |-> FALSE, ms |-> <<>>]
IsConstUnion(S, t) ==
  t.k = "disj" /\ Len(t.branches) >= 2 /\
  LET c == ConstMembers(S, t, Fuel) IN c.ok /\ \A a, b \in DOMAIN c.ms : c.ms[a].sk = c.ms[b].sk
ConstEnumF(S, t) ==
  IF IsConstUnion(S, t)
  THEN [TEnum(ConstMembers(S, t, Fuel).ms) EXCEPT !.nullable = t.nullable, !.def = t.def]
  ELSE t
DisjunctionOfConstantsToEnum(S) == MapNodes(S, LAMBDA sc, t : ConstEnumF(S, t))

(* AnonymousEnumToExplicitType: every enum that is not the type of an object   *)
(* becomes an object, referenced from where it was                             *)
AnonEnumF(sc, t, p, pos) ==
  IF t.k = "enum" /\ pos # "object"
  THEN R(RefLike(t, TRef(sc.pkg, p \o "#Enum")), <<Obj(sc.pkg, p \o "#Enum", Bare(t))>>)
  ELSE R(t, <<>>)
AnonymousEnumToExplicitType(S) == MapCreating(S, AnonEnumF)

(* member-name passes act on the facts: a name prefixed with the object's name *)
(* is prefixed and neither numeric, empty nor signed                           *)
MapNamedEnumMembers(S, G(_)) ==
  E([i \in DOMAIN S |-> [S[i] EXCEPT !.objects = E([j \in DOMAIN S[i].objects |->
     IF S[i].objects[j].type.k = "enum"
     THEN [S[i].objects[j] EXCEPT !.type.members = E([m \in DOMAIN @ |-> G(@[m])])]
     ELSE S[i].objects[j]])]])
PrefixEnumValues(S) ==
  MapNamedEnumMembers(S, LAMBDA m : [m EXCEPT !.pfx = TRUE, !.numeric = FALSE, !.empty = FALSE, !.sign = FALSE])
(* RenameNumericEnumValues: members of named enums whose name is a numeral get *)
(* an alphanumeric name ("N1", "Negative1")                                    *)
RenameNumericEnumValues(S) ==
  MapNamedEnumMembers(S, LAMBDA m : IF m.numeric THEN [m EXCEPT !.numeric = FALSE, !.sign = FALSE] ELSE m)
(* SanitizeEnumMemberNames: no member of any enum keeps an empty name or a     *)
(* leading sign                                                                *)
SanitizeEnumMemberNames(S) ==
  MapNodes(S, LAMBDA sc, t :
     IF t.k = "enum" THEN [t EXCEPT !.members = E([m \in DOMAIN @ |-> [@[m] EXCEPT !.empty = FALSE, !.sign = FALSE]])] ELSE t)

(* FlattenDisjunctions: a union has no branch that is itself a union, inline or *)
(* through a reference (however long the chain of references and unions);      *)
(* equal branches are kept once; a nullable inner union makes the outer one    *)
(* nullable                                                                    *)
IsUnionBranch(S, b) == Resolve(S, b).k = "disj"
RECURSIVE FlatBranches(_, _, _)
FlatBranches(S, bsArg, n) ==
  LET bs == bsArg IN
  IF bs = <<>> THEN [bs |-> <<>>, nul |-> FALSE] ELSE
  LET b == Head(bs)
      tl == Tail(bs)
      rest == FlatBranches(S, tl, n)
      rb == Resolve(S, b)
  IN IF rb.k = "disj" /\ n > 0
     THEN LET ib == rb.branches
              inner == FlatBranches(S, ib, n - 1)
          IN [bs |-> inner.bs \o rest.bs, nul |-> b.nullable \/ rb.nullable \/ inner.nul \/ rest.nul]
     ELSE [bs |-> <<b>> \o rest.bs, nul |-> rest.nul]
FlattenF(S, t) ==
  IF t.k = "disj"
  THEN LET f == FlatBranches(S, t.branches, Fuel)
       IN [t EXCEPT !.branches = DedupSeq(f.bs, {}), !.nullable = @ \/ f.nul]
  ELSE t
FlattenDisjunctions(S) == MapNodes(S, LAMBDA sc, t : FlattenF(S, t))

(* DisjunctionOfAnonymousStructsToExplicit: struct branches of unions become   *)
(* objects                                                                     *)
StructBranchesF(sc, t, p, pos) ==
  IF t.k = "disj" /\ \E i \in DOMAIN t.branches : t.branches[i].k = "struct"
  THEN LET nm(i) == p \o "|" \o IdxStr(i) \o "#Branch"
       IN R([t EXCEPT !.branches = E([i \in DOMAIN t.branches |->
                 IF t.branches[i].k = "struct" THEN RefLike(t.branches[i], TRef(sc.pkg, nm(i))) ELSE t.branches[i]])],
            FlatSeq(E([i \in DOMAIN t.branches |->
                 IF t.branches[i].k = "struct" THEN <<Obj(sc.pkg, nm(i), Bare(t.branches[i]))>> ELSE <<>>])))
  ELSE R(t, <<>>)
DisjunctionOfAnonymousStructsToExplicit(S) == MapCreating(S, StructBranchesF)

(* DisjunctionInferMapping: a union of references to structs that share a field *)
(* holding a different constant in each gets that field as discriminator and   *)
(* the constant -> object mapping                                              *)
OnlyRefs(t) == Len(t.branches) > 0 /\ \A i \in DOMAIN t.branches : t.branches[i].k = "ref"
Unmapped(t) == t.discr = "" \/ t.mapping = <<>>
IsDiscrField(f) == (IsConcrete(f.type) /\ f.type.sk = "string") \/ f.type.k = "constref"
FieldNamed(st, n) == st.fields[CHOOSE i \in DOMAIN st.fields : st.fields[i].name = n]
HasDiscrField(st, n) == \E i \in DOMAIN st.fields : st.fields[i].name = n /\ IsDiscrField(st.fields[i])
\* the discriminators a union of references could use, in the field order of the first branch
DiscrCandidates(S, t) ==
  IF ~OnlyRefs(t) \/ \E i \in DOMAIN t.branches : Resolve(S, t.branches[i]).k # "struct" THEN <<>>
  ELSE LET first == Resolve(S, t.branches[1])
           names == E([i \in DOMAIN first.fields |-> first.fields[i].name])
       IN SelectSeq(names, LAMBDA n : (t.discr = "" \/ t.discr = n) /\
                                      \A i \in DOMAIN t.branches : HasDiscrField(Resolve(S, t.branches[i]), n))
CanInferMapping(S, t) == t.k = "disj" /\ OnlyRefs(t) /\ Unmapped(t) /\ DiscrCandidates(S, t) # <<>>
InferMappingF(S, t) ==
  IF CanInferMapping(S, t)
  THEN LET d == Head(DiscrCandidates(S, t))
       IN [t EXCEPT !.discr = d,
                    !.mapping = E([i \in DOMAIN t.branches |->
                                   MapTo(FieldNamed(Resolve(S, t.branches[i]), d).type.val.s, t.branches[i].name)])]
  ELSE t
DisjunctionInferMapping(S) == MapNodes(S, LAMBDA sc, t : InferMappingF(S, t))

(* UndiscriminatedDisjunctionToAny: a union of references that has no          *)
(* discriminator and mapping (and is not a union of scalars of one kind) is    *)
(* `any`, as nullable as the union was                                         *)
SameKindScalars(S, t) ==
  Len(t.branches) > 0 /\ Resolve(S, t.branches[1]).k = "scalar" /\
  \A i \in DOMAIN t.branches : Resolve(S, t.branches[i]).k = "scalar" /\ Resolve(S, t.branches[i]).sk = Resolve(S, t.branches[1]).sk
OnlyScalarArrayMap(t) == \A i \in DOMAIN t.branches : t.branches[i].k \in {"scalar", "array", "map"}
IsUndiscriminated(S, t) ==
  t.k = "disj" /\ OnlyRefs(t) /\ Unmapped(t) /\ ~SameKindScalars(S, t) /\ ~OnlyScalarArrayMap(t)
ToAnyF(S, t) == IF IsUndiscriminated(S, t) THEN [TScalar("any") EXCEPT !.nullable = t.nullable] ELSE t
UndiscriminatedDisjunctionToAny(S) == MapNodes(S, LAMBDA sc, t : ToAnyF(S, t))

(* DisjunctionToType: no union remains.  Scalars of one kind collapse to that  *)
(* kind; any other union becomes a struct object with one nullable, optional   *)
(* field per non-null branch (the same union gives the same object), and the   *)
(* position keeps a reference, nullable if the union was or had a null branch. *)
RECURSIVE TName(_)
TName(t) ==
  CASE t.k = "ref"    -> t.name
    [] t.k = "scalar" -> t.sk
    [] t.k = "array"  -> "ArrayOf" \o TName(t.elem)
    [] t.k = "map"    -> "MapOf" \o TName(t.idx) \o "To" \o TName(t.elem)
    [] OTHER          -> t.k
RECURSIVE JoinOr(_)
JoinOr(bs) == IF Len(bs) = 1 THEN TName(bs[1]) ELSE TName(Head(bs)) \o "Or" \o JoinOr(Tail(bs))
UnionObjectName(t) == IF t.branches = <<>> THEN "EmptyUnion" ELSE JoinOr(t.branches)
DisjHint(S, t) ==
  LET former == [t EXCEPT !.nullable = FALSE, !.def = VNil, !.hints = <<>>]
      v == [t |-> "ast.DisjunctionType", s |-> "", type |-> former]
  IN IF OnlyScalarArrayMap(t) THEN <<Hint("disjunction_of_scalars", v)>>
     ELSE IF OnlyRefs(t) /\ ~Unmapped(t) THEN <<Hint("disjunction_of_refs", v)>> ELSE <<>>
ToTypeF(S, sc, t, p, pos) ==
  IF t.k # "disj" THEN R(t, <<>>)
  ELSE IF SameKindScalars(S, t)
  THEN R([TScalar(Resolve(S, t.branches[1]).sk) EXCEPT !.nullable = t.nullable, !.def = t.def], <<>>)
  ELSE LET nonnull == SelectSeq(t.branches, LAMBDA b : ~IsNullT(b))
           fields == E([i \in DOMAIN nonnull |-> Field(TName(nonnull[i]), AsNullable(nonnull[i]), FALSE)])
           name == UnionObjectName(t)
           ref == [TRef(sc.pkg, name) EXCEPT !.nullable = t.nullable \/ NullBranches(t) # {}, !.hints = t.hints]
       IN R(ref, <<Obj(sc.pkg, name, [TStruct(fields) EXCEPT !.hints = t.hints \o DisjHint(S, t)])>>)
DisjunctionToType(S) == MapCreating(S, LAMBDA sc, t, p, pos : ToTypeF(S, sc, t, p, pos))

(* RemoveIntersections (Java has no type aliases): an object that is a plain   *)
(* reference to a struct object takes that struct's fields, the struct object  *)
(* disappears and everything that named it names the former alias; an object   *)
(* that is a plain reference to an array object disappears and every reference *)
(* to it becomes that array.  No reference is left behind in any position.     *)
AliasTarget(S, sc, o) ==
  IF o.type.k = "ref" /\ o.type.pkg = sc.pkg /\ HasObject(S, sc.pkg, o.type.name)
  THEN ObjectAt(S, sc.pkg, o.type.name).type ELSE TNone
IsStructAlias(S, sc, o) == AliasTarget(S, sc, o).k = "struct"
IsArrayAlias(S, sc, o)  == AliasTarget(S, sc, o).k = "array"
\* <<package, name of the struct object that disappears>> -> name of the alias taking its place (the last one)
Takeovers(S) ==
  UNION {{[pkg |-> S[i].pkg, name |-> S[i].objects[j].type.name,
           to |-> S[i].objects[CHOOSE k \in DOMAIN S[i].objects :
                      IsStructAlias(S, S[i], S[i].objects[k]) /\ S[i].objects[k].type.name = S[i].objects[j].type.name /\
                      \A k2 \in DOMAIN S[i].objects :
                         (IsStructAlias(S, S[i], S[i].objects[k2]) /\ S[i].objects[k2].type.name = S[i].objects[j].type.name) => k2 <= k].name]
          : j \in {x \in DOMAIN S[i].objects : IsStructAlias(S, S[i], S[i].objects[x])}} : i \in DOMAIN S}
ArrayAliases(S) ==
  UNION {{[pkg |-> S[i].pkg, name |-> S[i].objects[j].name, type |-> AliasTarget(S, S[i], S[i].objects[j])]
          : j \in {x \in DOMAIN S[i].objects : IsArrayAlias(S, S[i], S[i].objects[x])}} : i \in DOMAIN S}
RemoveAliasesOnce(S) ==
  LET tk == Takeovers(S)
      aa == ArrayAliases(S)
      Taken(p, n) == \E x \in tk : x.pkg = p /\ x.name = n
      NewName(p, n) == (CHOOSE x \in tk : x.pkg = p /\ x.name = n).to
      IsArr(p, n) == \E x \in aa : x.pkg = p /\ x.name = n
      ArrType(p, n) == (CHOOSE x \in aa : x.pkg = p /\ x.name = n).type
      Fix(sc, t) ==
        CASE t.k \in {"ref", "constref"} /\ Taken(t.pkg, t.name) -> [t EXCEPT !.name = NewName(t.pkg, t.name)]
          [] t.k = "ref" /\ IsArr(t.pkg, t.name) ->
               [ArrType(t.pkg, t.name) EXCEPT !.nullable = @ \/ t.nullable, !.def = IF t.def # VNil THEN t.def ELSE @]
          [] OTHER -> t
      \* mapping targets are bare names of objects of the packages of the union's reference branches
      FixMapping(sc, t) ==
        IF t.k = "disj"
        THEN [t EXCEPT !.mapping = E([m \in DOMAIN t.mapping |->
                 LET pk == {sc.pkg} \cup {t.branches[b].pkg : b \in {x \in DOMAIN t.branches : t.branches[x].k = "ref"}}
                 IN IF \E p \in pk : Taken(p, t.mapping[m].to)
                    THEN [t.mapping[m] EXCEPT !.to = NewName(CHOOSE p \in pk : Taken(p, t.mapping[m].to), t.mapping[m].to)]
                    ELSE t.mapping[m]])]
        ELSE t
      Step1 == E([i \in DOMAIN S |->
                  LET sc == S[i]
                      kept == SelectSeq(sc.objects, LAMBDA o : ~Taken(sc.pkg, o.name) /\ ~IsArr(sc.pkg, o.name))
                  IN [sc EXCEPT
                        !.objects = E([j \in DOMAIN kept |->
                            IF IsStructAlias(S, sc, kept[j])
                            THEN LET tgt == AliasTarget(S, sc, kept[j])
                                 IN [kept[j] EXCEPT !.type = [TStruct(tgt.fields) EXCEPT !.hints = tgt.hints]]
                            ELSE kept[j]]),
                        !.entry = IF @ # "" /\ Taken(sc.pkg, @) THEN NewName(sc.pkg, @) ELSE @]])
  IN IF tk = {} /\ aa = {} THEN S
     ELSE MapNodes(MapNodes(Step1, FixMapping), Fix)

\* an alias of an alias of a struct is an alias of a struct once the inner one is resolved: repeat
RECURSIVE RemoveAliasesN(_, _)
RemoveAliasesN(SArg, n) ==
  LET S == SArg
      nx == RemoveAliasesOnce(S)
  IN IF n = 0 \/ nx = S THEN S ELSE RemoveAliasesN(nx, n - 1)
RemoveIntersections(S) == RemoveAliasesN(S, Fuel)

(* InlineObjectsWithTypes(kinds): objects whose type comes down to one of the  *)
(* kinds (constants excepted) disappear; every reference to one of them, in    *)
(* any position and inside the inlined types themselves, becomes that type,    *)
(* as nullable/defaulted as the reference was                                  *)
IsInlined(S, K, p, n) ==
  HasObject(S, p, n) /\ LET o == ObjectAt(S, p, n) IN Resolve(S, o.type).k \in K /\ ~IsConcrete(o.type)
RECURSIVE InlineType(_, _, _, _)
InlineType(S, K, tArg, n) ==
  LET t == tArg IN
  WalkE(LAMBDA x :
         IF x.k = "ref" /\ n > 0 /\ IsInlined(S, K, x.pkg, x.name)
         THEN LET rx == Resolve(S, x)
                  r == InlineType(S, K, rx, n - 1)
              IN [r EXCEPT !.nullable = @ \/ x.nullable, !.def = IF x.def # VNil THEN x.def ELSE @]
         ELSE x, t)
InlineObjectsWithTypes(S, K) ==
  E([i \in DOMAIN S |->
     LET sc == S[i]
         kept == SelectSeq(sc.objects, LAMBDA o : ~IsInlined(S, K, sc.pkg, o.name))
     IN [sc EXCEPT !.objects = E([j \in DOMAIN kept |-> [kept[j] EXCEPT !.type = InlineType(S, K, @, Fuel)]]),
                   !.entrytype = InlineType(S, K, @, Fuel)]])

(* InferEntrypoint: a schema without entry point whose package name is (up to  *)
(* letter case) the name of one of its objects gets that object as entry point *)
EntryCandidates(sc) == {j \in DOMAIN sc.objects : SameFold(sc.pkg, sc.objects[j].name)}
InferEntrypoint(S) ==
  E([i \in DOMAIN S |->
     IF S[i].entry = "" /\ EntryCandidates(S[i]) # {}
     THEN LET j == CHOOSE x \in EntryCandidates(S[i]) : \A y \in EntryCandidates(S[i]) : y <= x
          IN [S[i] EXCEPT !.entry = S[i].objects[j].name, !.entrytype = TRef(S[i].pkg, S[i].objects[j].name)]
     ELSE S[i]])

(* ======================================================================= *)
(*                           chains of pass names                          *)
(* ======================================================================= *)
PassNames == {"AnonymousStructsToNamed", "NotRequiredFieldAsNullableType", "DisjunctionWithNullToOptional",
              "DisjunctionOfConstantsToEnum", "AnonymousEnumToExplicitType", "PrefixEnumValues", "FlattenDisjunctions",
              "DisjunctionOfAnonymousStructsToExplicit", "DisjunctionInferMapping", "UndiscriminatedDisjunctionToAny",
              "DisjunctionToType", "RemoveIntersections", "InlineObjectsWithTypes", "SanitizeEnumMemberNames",
              "RenameNumericEnumValues", "InferEntrypoint"}

\* K: the kinds InlineObjectsWithTypes is configured with in this chain
ApplyPass(name, K, S) ==
  CASE name = "AnonymousStructsToNamed"                 -> AnonymousStructsToNamed(S)
    [] name = "NotRequiredFieldAsNullableType"          -> NotRequiredFieldAsNullableType(S)
    [] name = "DisjunctionWithNullToOptional"           -> DisjunctionWithNullToOptional(S)
    [] name = "DisjunctionOfConstantsToEnum"            -> DisjunctionOfConstantsToEnum(S)
    [] name = "AnonymousEnumToExplicitType"             -> AnonymousEnumToExplicitType(S)
    [] name = "PrefixEnumValues"                        -> PrefixEnumValues(S)
    [] name = "FlattenDisjunctions"                     -> FlattenDisjunctions(S)
    [] name = "DisjunctionOfAnonymousStructsToExplicit" -> DisjunctionOfAnonymousStructsToExplicit(S)
    [] name = "DisjunctionInferMapping"                 -> DisjunctionInferMapping(S)
    [] name = "UndiscriminatedDisjunctionToAny"         -> UndiscriminatedDisjunctionToAny(S)
    [] name = "DisjunctionToType"                       -> DisjunctionToType(S)
    [] name = "RemoveIntersections"                     -> RemoveIntersections(S)
    [] name = "InlineObjectsWithTypes"                  -> InlineObjectsWithTypes(S, K)
    [] name = "SanitizeEnumMemberNames"                 -> SanitizeEnumMemberNames(S)
    [] name = "RenameNumericEnumValues"                 -> RenameNumericEnumValues(S)
    [] name = "InferEntrypoint"                         -> InferEntrypoint(S)

\* the states a chain goes through: <<S0, S1, ..., Sn>>  (unrolled: see the TLC note above; chains of up to
\* MaxChain passes)
MaxChain == 16
StepAt(ch, K, n, prev) == IF n <= Len(ch) THEN ApplyPass(ch[n], K, prev) ELSE prev
Steps(ch, K, S) ==
  LET s1 == StepAt(ch, K, 1, S)     s2 == StepAt(ch, K, 2, s1)    s3 == StepAt(ch, K, 3, s2)    s4 == StepAt(ch, K, 4, s3)
      s5 == StepAt(ch, K, 5, s4)    s6 == StepAt(ch, K, 6, s5)    s7 == StepAt(ch, K, 7, s6)    s8 == StepAt(ch, K, 8, s7)
      s9 == StepAt(ch, K, 9, s8)    s10 == StepAt(ch, K, 10, s9)  s11 == StepAt(ch, K, 11, s10) s12 == StepAt(ch, K, 12, s11)
      s13 == StepAt(ch, K, 13, s12) s14 == StepAt(ch, K, 14, s13) s15 == StepAt(ch, K, 15, s14) s16 == StepAt(ch, K, 16, s15)
  IN SubSeq(<<S, s1, s2, s3, s4, s5, s6, s7, s8, s9, s10, s11, s12, s13, s14, s15, s16>>, 1, Len(ch) + 1)
ApplyChain(ch, K, S) == LET st == Steps(ch, K, S) IN st[Len(st)]

(* ======================================================================= *)
(*            what each pass establishes, and what it relies on            *)
(* ======================================================================= *)
\* clauses beyond those of the property: "the pass has nothing left to do"
AnyNode(S, P(_, _)) == \E i \in DOMAIN S : \E j \in DOMAIN S[i].objects :
                          \E t \in SubTypesNH(S[i].objects[j].type) : P(S[i], t)
HoldsX(c, S) ==
  CASE c = "NoConstUnion"      -> ~AnyNode(S, LAMBDA sc, t : IsConstUnion(S, t))
    [] c = "NoNestedUnion"     -> ~AnyNode(S, LAMBDA sc, t : t.k = "disj" /\ \E b \in DOMAIN t.branches : IsUnionBranch(S, t.branches[b]))
    [] c = "NoStructBranch"    -> ~AnyNode(S, LAMBDA sc, t : t.k = "disj" /\ \E b \in DOMAIN t.branches : t.branches[b].k = "struct")
    [] c = "MappingInferred"   -> ~AnyNode(S, LAMBDA sc, t : CanInferMapping(S, t))
    [] c = "NoUndiscriminated" -> ~AnyNode(S, LAMBDA sc, t : IsUndiscriminated(S, t))
    [] c = "NoStructAlias"     -> Takeovers(S) = {} /\ ArrayAliases(S) = {}
    [] c = "EntryInferred"     -> \A i \in DOMAIN S : S[i].entry = "" => EntryCandidates(S[i]) = {}
    [] c = "AllSanitised"      -> ~AnyNode(S, LAMBDA sc, t : t.k = "enum" /\ \E m \in DOMAIN t.members : t.members[m].empty \/ t.members[m].sign)
    [] OTHER                   -> Holds(c, S)
\* the inlining clause depends on the configured kinds
Inlined(S, K) == \A i \in DOMAIN S : \A j \in DOMAIN S[i].objects :
                    ~IsInlined(S, K, S[i].pkg, S[i].objects[j].name) /\
                    \A t \in SubTypesNH(S[i].objects[j].type) : t.k = "ref" => ~IsInlined(S, K, t.pkg, t.name)
HoldsK(c, K, S) == IF c = "Inlined" THEN Inlined(S, K) ELSE HoldsX(c, S)

Establishes(name) ==
  CASE name = "AnonymousStructsToNamed"                 -> {"StructsNamed"}
    [] name = "NotRequiredFieldAsNullableType"          -> {"NonRequiredIsNullable"}
    [] name = "DisjunctionWithNullToOptional"           -> {"NoTOrNull"}
    [] name = "DisjunctionOfConstantsToEnum"            -> {"NoConstUnion"}
    [] name = "AnonymousEnumToExplicitType"             -> {"EnumsNamed"}
    [] name = "PrefixEnumValues"                        -> {"GoPrefixed"}
    [] name = "FlattenDisjunctions"                     -> {"NoNestedUnion"}
    [] name = "DisjunctionOfAnonymousStructsToExplicit" -> {"NoStructBranch"}
    [] name = "DisjunctionInferMapping"                 -> {"MappingInferred"}
    [] name = "UndiscriminatedDisjunctionToAny"         -> {"NoUndiscriminated"}
    [] name = "DisjunctionToType"                       -> {"NoUnion"}
    [] name = "RemoveIntersections"                     -> {"NoStructAlias"}
    [] name = "InlineObjectsWithTypes"                  -> {"Inlined"}
    [] name = "SanitizeEnumMemberNames"                 -> {"PhpSanitised", "AllSanitised"}
    [] name = "RenameNumericEnumValues"                 -> {"NotNumeric"}
    [] name = "InferEntrypoint"                         -> {"EntryInferred"}
    [] OTHER                                            -> {}
\* what a pass relies on (its doc comment / the errors it raises):
\*   DisjunctionInferMapping "assumes a disjunction of references to structs": unions are flat;
\*   UndiscriminatedDisjunctionToAny "should run after DisjunctionInferMapping";
\*   DisjunctionToType fails ("discriminator not set") on a union of references without mapping
Requires(name) ==
  CASE name = "DisjunctionInferMapping"         -> {"NoNestedUnion"}
    [] name = "UndiscriminatedDisjunctionToAny" -> {"MappingInferred"}
    [] name = "DisjunctionToType"               -> {"NoUndiscriminated"}
    [] OTHER                                    -> {}

EstablishedUpTo(ch, n) == UNION {Establishes(ch[k]) : k \in 1..n}

\* summary used for the comparison with the real result (MODEL-DRIFT): number of objects per type kind
Kinds == {"scalar", "ref", "constref", "array", "map", "struct", "enum", "disj", "inter", "slot"}
ObjKinds(S) == FlatSeq(E([i \in DOMAIN S |-> E([j \in DOMAIN S[i].objects |-> S[i].objects[j].type.k])]))
KindSummary(S) == LET ks == ObjKinds(S) IN E([k \in Kinds |-> Cardinality({n \in DOMAIN ks : ks[n] = k})])

\* one evaluation of the chain gives everything the check needs: faults (the invariants), the passes that
\* changed the state at their place, the violated clauses and object kinds of the final state
ChainReport(L, ch, K, S) ==
  LET st == Steps(ch, K, S)
      final == st[Len(st)]
      faults ==
        {[kind |-> "final", pass |-> "", clause |-> c] : c \in ViolatedClauses(L, final)}
        \cup (IF AllRefsResolve(final) THEN {} ELSE {[kind |-> "final", pass |-> "", clause |-> "AllRefsResolve"]})
        \cup (IF NoDupObjects(final) /\ SelfRefsOK(final) THEN {} ELSE {[kind |-> "final", pass |-> "", clause |-> "ObjectsWellFormed"]})
        \cup UNION {{[kind |-> "pre", pass |-> ch[n], clause |-> c] : c \in {x \in Requires(ch[n]) : ~HoldsK(x, K, st[n])}}
                    : n \in DOMAIN ch}
        \* a pass establishes its clauses ("post") and keeps those established before it ("destroyed": held before
        \* the pass, not after; a clause stays lost for the rest of the chain and is charged to the pass that lost it)
        \cup UNION {{[kind |-> "post", pass |-> ch[n], clause |-> c]
                       : c \in {x \in Establishes(ch[n]) : ~HoldsK(x, K, st[n + 1])}}
                    : n \in DOMAIN ch}
        \cup UNION {{[kind |-> "destroyed", pass |-> ch[n], clause |-> c]
                       : c \in {x \in EstablishedUpTo(ch, n - 1) \ Establishes(ch[n]) : ~HoldsK(x, K, st[n + 1]) /\ HoldsK(x, K, st[n])}}
                    : n \in DOMAIN ch}
        \cup {[kind |-> "refs", pass |-> ch[n], clause |-> "AllRefsResolve"]
                 : n \in {m \in DOMAIN ch : ~AllRefsResolve(st[m + 1]) /\ AllRefsResolve(st[m])}}
  IN [faults |-> faults,
      changing |-> {ch[n] : n \in {m \in DOMAIN ch : st[m + 1] # st[m]}},
      viol |-> ViolatedClauses(L, final),
      kinds |-> KindSummary(final)]
\* the invariants of ChainModelMC, as one predicate
ChainOK(L, ch, K, S) == ChainReport(L, ch, K, S).faults = {}
===============================================================================
