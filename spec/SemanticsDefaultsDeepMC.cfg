CONSTANTS
  Mode = "index"
  Ids = {1}
  Fuel = 3
  Deep = TRUE
SPECIFICATION XSpec
INVARIANTS XEmit
CHECK_DEADLOCK FALSE
