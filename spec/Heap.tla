-------------------------------- MODULE Heap --------------------------------
(* C18 - copies of the intermediate representation are faithful and           *)
(* independent.  Requirement-level model of Go values as a heap graph.        *)
(*                                                                            *)
(* A heap maps cell identities to cells.  A cell is one unit of storage that  *)
(* Go code can reach and write through:                                       *)
(*   "inl"  a struct stored inline (in a variable, a field, an array slot or  *)
(*          a map entry); it has no identity of its own: its id is derived    *)
(*          from its container, so it is shared iff the container is shared   *)
(*   "arr"  the backing array of a slice (cap slots, the first len observable *)
(*          through a given slice header)                                     *)
(*   "map"  a Go map                                                          *)
(*   "obj"  the target of a pointer                                           *)
(* Edges are slot values.  Every value is a record with the same four fields  *)
(* so that TLC can always compare two of them:                                *)
(*   [t |-> "s",     v |-> scalar as text]                                    *)
(*   [t |-> "nil"]                      nil pointer / slice / map / interface *)
(*   [t |-> "slice", c |-> arr cell, n |-> len]        (a slice header)       *)
(*   [t |-> "map" | "ptr" | "inl", c |-> cell]                                *)
(* An interface (`any`) slot simply holds the value of its payload: a shallow *)
(* copy of an interface therefore shares the payload's array or map.          *)
(*                                                                            *)
(* The property (properties.jsonl C18), sentence by sentence:                 *)
(*   Iso       "yields a value equal to the original in every declared field" *)
(*   Disjoint  "the copy shares no mutable structure with the original"       *)
(*   Snapshot  "no transformation applied to the copy can change the original"*)
(* This module holds the operators; HeapMC explores them over small heaps     *)
(* (design level), HeapTrace evaluates the same operators on heap graphs      *)
(* extracted by reflection from the real DeepCopy methods.                    *)
EXTENDS Integers, Sequences, FiniteSets, TLC

Scalar(x)    == [t |-> "s",   c |-> "", n |-> 0, v |-> x]
Nil          == [t |-> "nil", c |-> "", n |-> 0, v |-> ""]
Ref(t, c, n) == [t |-> t,     c |-> c,  n |-> n, v |-> ""]
IsRef(v)     == v.t \in {"slice", "map", "ptr", "inl"}

Slots(h, c) == h[c].slots

\* labels of the target cell that a holder of value v can observe: a slice header sees the first
\* len slots of its backing array, everything else sees the whole cell
Obs(h, v) == IF v.t = "slice" THEN {ToString(i) : i \in 1..v.n}
             ELSE IF IsRef(v) THEN DOMAIN Slots(h, v.c) ELSE {}

\* Stated equivalences of nil-ness (DESIGN 6.0), per kind of slot:
\*   slice and map FIELDS   nil and empty are the same value (cog's own copy routines turn one into the
\*                          other: make(.., 0, n) / append(nil, ..), and no declared field is read otherwise)
\*   pointers               exact: a non-nil pointer to an empty struct is not nil (Option.Default)
\*   interface (any) slots  exact: an interface holding an empty slice or map is not a nil interface
\*                          ("the default is the empty list" vs "no default"); such a value carries v = "boxed"
Empty(h, v) == \/ v.t = "nil"
               \/ v.t = "slice" /\ v.n = 0
               \/ v.t = "map" /\ DOMAIN Slots(h, v.c) = {}

\* ---- cells reachable from a value (the IR is acyclic: trees, at most DAGs) ----
\* A slice header of length 0 observes nothing of its backing array, but an append through it writes
\* into the array: an array with capacity is structure of the value whatever the length of the header
\* (two holders of the same spare capacity overwrite each other's appends).  Only a slice without
\* any capacity has no array (c = ""): it is the same value as nil (DESIGN 6.0).
RECURSIVE ReachV(_, _)
ReachV(h, v) == IF ~IsRef(v) \/ v.c = "" THEN {}
                ELSE {v.c} \cup UNION {ReachV(h, Slots(h, v.c)[l]) : l \in Obs(h, v)}

\* everything beyond the root value can be written through: backing arrays, maps, pointer targets
\* (and the inline structs stored in them)
MutableReach(h, v) == ReachV(h, v)

\* ---- sentence 1: equal in every declared field ----
RECURSIVE IsoV(_, _, _)
IsoV(h, a, b) ==
  IF a.t = "s" THEN b.t = "s" /\ a.v = b.v
  ELSE IF Empty(h, a) THEN Empty(h, b) /\ a.v = b.v
  ELSE IF a.t = "slice" THEN /\ b.t = "slice" /\ a.n = b.n
                             /\ \A i \in 1..a.n : IsoV(h, Slots(h, a.c)[ToString(i)], Slots(h, b.c)[ToString(i)])
  ELSE /\ b.t = a.t                                   \* map, ptr, inl: same labels, equal under every label
       /\ DOMAIN Slots(h, a.c) = DOMAIN Slots(h, b.c)
       /\ \A l \in DOMAIN Slots(h, a.c) : IsoV(h, Slots(h, a.c)[l], Slots(h, b.c)[l])

\* the labels under which a and b differ at the top (for reports): declared fields of the root
DiffLabels(h, a, b) ==
  IF ~(IsRef(a) /\ IsRef(b) /\ a.t = b.t /\ a.t # "slice") THEN {}
  ELSE {l \in DOMAIN Slots(h, a.c) :
          l \notin DOMAIN Slots(h, b.c) \/ ~IsoV(h, Slots(h, a.c)[l], Slots(h, b.c)[l])}

\* ---- sentence 2, first half: no shared mutable structure ----
SharedCells(h, a, b) == MutableReach(h, a) \cap MutableReach(h, b)
Disjoint(h, a, b)    == SharedCells(h, a, b) = {}

\* ---- sentence 2, second half: what an observer of the original can see ----
RECURSIVE ObsSlots(_, _)
ObsSlots(h, v) == IF ~IsRef(v) THEN {}
                  ELSE {<<v.c, l>> : l \in Obs(h, v)} \cup UNION {ObsSlots(h, Slots(h, v.c)[l]) : l \in Obs(h, v)}
Snapshot(h, v) == {<<p[1], p[2], Slots(h, p[1])[p[2]]>> : p \in ObsSlots(h, v)}

\* ---- mutations ----
\* a mutation is [a, op, c, l, hc, hl]: actor a (the root it is performed through: "o" original, "k" copy,
\* "k2" second copy) writes slot l of cell c; AppendWithinCap additionally bumps the length of the slice
\* header stored in slot hl of cell hc.  Each actor writes its own marker, so that two actors writing the
\* same slot is observable.
Mut(a, op, c, l, hc, hl) == [a |-> a, op |-> op, c |-> c, l |-> l, hc |-> hc, hl |-> hl]
MutOps == {"SetField", "SetElem", "AppendWithinCap", "MapInsert", "MapDelete", "SetThroughPointer"}
Marker(a) == Scalar("MUT-" \o a)

Write(h, c, l, x) == [h EXCEPT ![c].slots = (l :> x) @@ @]
ApplyMut(h, m) ==
  IF m.op = "MapDelete" THEN [h EXCEPT ![m.c].slots = [k \in (DOMAIN @) \ {m.l} |-> @[k]]]
  ELSE IF m.op = "AppendWithinCap"
       THEN [Write(h, m.c, m.l, Marker(m.a)) EXCEPT ![m.hc].slots[m.hl].n = @ + 1]
  ELSE Write(h, m.c, m.l, Marker(m.a))

RECURSIVE ApplyMuts(_, _)
ApplyMuts(h, ms) == IF ms = <<>> THEN h ELSE ApplyMuts(ApplyMut(h, Head(ms)), Tail(ms))

\* where a value k can be mutated in heap h (by actor a)
RECURSIVE InlChain(_, _)          \* k itself and the structs nested in it by value
InlChain(h, v) == IF v.t # "inl" THEN {}
                  ELSE {v.c} \cup UNION {InlChain(h, Slots(h, v.c)[l]) : l \in DOMAIN Slots(h, v.c)}
Holders(h, k) == ObsSlots(h, k)   \* every observable slot <<cell, label>> of the copy
ScalarSlots(h, c) == {l \in DOMAIN Slots(h, c) : Slots(h, c)[l].t = "s"}

Sites(h, k, a) ==
  LET reach == ReachV(h, k)
      ofkind(kd) == {c \in reach : h[c].kind = kd}
  IN
  UNION {{Mut(a, "SetField", c, l, "", "") : l \in ScalarSlots(h, c)} : c \in InlChain(h, k)}
  \cup UNION {{Mut(a, "SetThroughPointer", c, l, "", "") : l \in ScalarSlots(h, c)} : c \in ofkind("obj")}
  \cup UNION {LET v == Slots(h, p[1])[p[2]] IN
              IF v.t # "slice" \/ v.c = "" THEN {}
              ELSE {Mut(a, "SetElem", v.c, ToString(i), "", "") : i \in {j \in 1..v.n : Slots(h, v.c)[ToString(j)].t = "s"}}
                   \cup (IF v.n < h[v.c].cap THEN {Mut(a, "AppendWithinCap", v.c, ToString(v.n + 1), p[1], p[2])} ELSE {})
              : p \in Holders(h, k)}
  \cup UNION {{Mut(a, "SetElem", c, l, "", "") : l \in ScalarSlots(h, c)}
              \cup {Mut(a, "MapDelete", c, l, "", "") : l \in DOMAIN Slots(h, c)}
              \cup (IF "new" \in DOMAIN Slots(h, c) THEN {} ELSE {Mut(a, "MapInsert", c, "new", "", "")})
              : c \in ofkind("map")}
=============================================================================
