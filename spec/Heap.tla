-------------------------------- MODULE Heap --------------------------------
(* C18 - copies of the intermediate representation are faithful and           *)
(* independent.  Requirement-level model of Go values as a heap graph.        *)
(*                                                                            *)
(* A heap maps cell identities to cells.  A cell is one unit of storage that  *)
(* Go code can reach and write through:                                       *)
(*   "inl"  a struct stored inline (in a variable, a field, an array slot or  *)
(*          a map entry); it has no identity of its own: its id is derived    *)
(*          from its container, so it is shared iff the container is shared   *)
(*   "arr"  the backing array of a slice (cap slots, the first len observable *)
(*          through a given slice header)                                     *)
(*   "map"  a Go map                                                          *)
(*   "obj"  the target of a pointer                                           *)
(* Edges are slot values.  Every value is a record with the same four fields  *)
(* so that TLC can always compare two of them:                                *)
(*   [t |-> "s",     v |-> scalar as text]                                    *)
(*   [t |-> "nil"]                      nil pointer / slice / map / interface *)
(*   [t |-> "slice", c |-> arr cell, n |-> len]        (a slice header)       *)
(*   [t |-> "map" | "ptr" | "inl", c |-> cell]                                *)
(* An interface (`any`) slot simply holds the value of its payload: a shallow *)
(* copy of an interface therefore shares the payload's array or map.          *)
(*                                                                            *)
(* The property (properties.jsonl C18), sentence by sentence:                 *)
(*   Iso       "yields a value equal to the original in every declared field" *)
(*   Disjoint  "the copy shares no mutable structure with the original"       *)
(*   Snapshot  "no transformation applied to the copy can change the original"*)
(* This module holds the operators; HeapMC explores them over small heaps     *)
(* (design level), HeapTrace evaluates the same operators on heap graphs      *)
(* extracted by reflection from the real DeepCopy methods.                    *)
EXTENDS Integers, Sequences, FiniteSets, TLC

Scalar(x)    == [t |-> "s",   c |-> "", n |-> 0, v |-> x]
Nil          == [t |-> "nil", c |-> "", n |-> 0, v |-> ""]
Ref(t, c, n) == [t |-> t,     c |-> c,  n |-> n, v |-> ""]
IsRef(v)     == v.t \in {"slice", "map", "ptr", "inl"}

Slots(h, c) == h[c].slots

\* labels of the target cell that a holder of value v can observe: a slice header sees the first
\* len slots of its backing array, everything else sees the whole cell
Obs(h, v) == IF v.t = "slice" THEN {ToString(i) : i \in 1..v.n}
             ELSE IF IsRef(v) THEN DOMAIN Slots(h, v.c) ELSE {}

\* DESIGN 6.0: a nil and an empty slice/map are the same value
Empty(h, v) == \/ v.t = "nil"
               \/ v.t = "slice" /\ v.n = 0
               \/ v.t = "map" /\ DOMAIN Slots(h, v.c) = {}

\* ---- cells reachable from a value (the IR is acyclic: trees, at most DAGs) ----
\* A slice header of length 0 observes nothing of its backing array, and nothing written through
\* another header of that array can ever be observed through it: it is the same value as nil
\* (DESIGN 6.0) and its array is not counted as structure of the value (permissive reading; HeapMC
\* shows that sharing such an array is the one aliasing pattern no mutation of the copy reveals).
RECURSIVE ReachV(_, _)
ReachV(h, v) == IF ~IsRef(v) \/ (v.t = "slice" /\ v.n = 0) THEN {}
                ELSE {v.c} \cup UNION {ReachV(h, Slots(h, v.c)[l]) : l \in Obs(h, v)}

\* everything beyond the root value can be written through: backing arrays, maps, pointer targets
\* (and the inline structs stored in them)
MutableReach(h, v) == ReachV(h, v)

\* ---- sentence 1: equal in every declared field ----
RECURSIVE IsoV(_, _, _)
IsoV(h, a, b) ==
  IF a.t = "s" THEN b.t = "s" /\ a.v = b.v
  ELSE IF Empty(h, a) THEN Empty(h, b)
  ELSE IF a.t = "slice" THEN /\ b.t = "slice" /\ a.n = b.n
                             /\ \A i \in 1..a.n : IsoV(h, Slots(h, a.c)[ToString(i)], Slots(h, b.c)[ToString(i)])
  ELSE /\ b.t = a.t                                   \* map, ptr, inl: same labels, equal under every label
       /\ DOMAIN Slots(h, a.c) = DOMAIN Slots(h, b.c)
       /\ \A l \in DOMAIN Slots(h, a.c) : IsoV(h, Slots(h, a.c)[l], Slots(h, b.c)[l])

\* the labels under which a and b differ at the top (for reports): declared fields of the root
DiffLabels(h, a, b) ==
  IF ~(IsRef(a) /\ IsRef(b) /\ a.t = b.t /\ a.t # "slice") THEN {}
  ELSE {l \in DOMAIN Slots(h, a.c) :
          l \notin DOMAIN Slots(h, b.c) \/ ~IsoV(h, Slots(h, a.c)[l], Slots(h, b.c)[l])}

\* ---- sentence 2, first half: no shared mutable structure ----
SharedCells(h, a, b) == MutableReach(h, a) \cap MutableReach(h, b)
Disjoint(h, a, b)    == SharedCells(h, a, b) = {}

\* ---- sentence 2, second half: what an observer of the original can see ----
RECURSIVE ObsSlots(_, _)
ObsSlots(h, v) == IF ~IsRef(v) THEN {}
                  ELSE {<<v.c, l>> : l \in Obs(h, v)} \cup UNION {ObsSlots(h, Slots(h, v.c)[l]) : l \in Obs(h, v)}
Snapshot(h, v) == {<<p[1], p[2], Slots(h, p[1])[p[2]]>> : p \in ObsSlots(h, v)}

\* ---- mutations of the copy ----
\* a mutation is [op, c, l, hc, hl]: write slot l of cell c; AppendWithinCap additionally bumps the
\* length of the slice header stored in slot hl of cell hc
Mut(op, c, l, hc, hl) == [op |-> op, c |-> c, l |-> l, hc |-> hc, hl |-> hl]
MutOps == {"SetField", "SetElem", "AppendWithinCap", "MapInsert", "MapDelete", "SetThroughPointer"}
Marker == Scalar("MUT")

Write(h, c, l, x) == [h EXCEPT ![c].slots = (l :> x) @@ @]
ApplyMut(h, m) ==
  IF m.op = "MapDelete" THEN [h EXCEPT ![m.c].slots = [k \in (DOMAIN @) \ {m.l} |-> @[k]]]
  ELSE IF m.op = "AppendWithinCap"
       THEN [Write(h, m.c, m.l, Marker) EXCEPT ![m.hc].slots[m.hl].n = @ + 1]
  ELSE Write(h, m.c, m.l, Marker)

RECURSIVE ApplyMuts(_, _)
ApplyMuts(h, ms) == IF ms = <<>> THEN h ELSE ApplyMuts(ApplyMut(h, Head(ms)), Tail(ms))

\* where the copy k can be mutated in heap h
RECURSIVE InlChain(_, _)          \* k itself and the structs nested in it by value
InlChain(h, v) == IF v.t # "inl" THEN {}
                  ELSE {v.c} \cup UNION {InlChain(h, Slots(h, v.c)[l]) : l \in DOMAIN Slots(h, v.c)}
Holders(h, k) == ObsSlots(h, k)   \* every observable slot <<cell, label>> of the copy
ScalarSlots(h, c) == {l \in DOMAIN Slots(h, c) : Slots(h, c)[l].t = "s"}

Sites(h, k) ==
  LET reach == ReachV(h, k)
      ofkind(kd) == {c \in reach : h[c].kind = kd}
  IN
  UNION {{Mut("SetField", c, l, "", "") : l \in ScalarSlots(h, c)} : c \in InlChain(h, k)}
  \cup UNION {{Mut("SetThroughPointer", c, l, "", "") : l \in ScalarSlots(h, c)} : c \in ofkind("obj")}
  \cup UNION {LET v == Slots(h, p[1])[p[2]] IN
              IF v.t # "slice" THEN {}
              ELSE {Mut("SetElem", v.c, ToString(i), "", "") : i \in {j \in 1..v.n : Slots(h, v.c)[ToString(j)].t = "s"}}
                   \cup (IF v.n < h[v.c].cap THEN {Mut("AppendWithinCap", v.c, ToString(v.n + 1), p[1], p[2])} ELSE {})
              : p \in Holders(h, k)}
  \cup UNION {{Mut("SetElem", c, l, "", "") : l \in ScalarSlots(h, c)}
              \cup {Mut("MapDelete", c, l, "", "") : l \in DOMAIN Slots(h, c)}
              \cup (IF "new" \in DOMAIN Slots(h, c) THEN {} ELSE {Mut("MapInsert", c, "new", "", "")})
              : c \in ofkind("map")}
=============================================================================
