------------------------------ MODULE SemanticsDefaultsDeepMC ------------------------------
(* THOROUGH-tier universe of C10 / C11 (quick keeps SemanticsDefaultsMC).                    *)
(*                                                                                            *)
(* C10  DeepCatalogue (ids DeepBase + i):                                                     *)
(*   - 23 further value types: falsy / unicode / escaped / format-verb strings, integers      *)
(*     beyond 2^53 and beyond int32, integer-valued and zero floats, empty and non-empty map  *)
(*     defaults, empty and nested struct overrides, lists of floats / bools / enum members,   *)
(*     a default on an alias of an alias, on an enum referenced through a reference, on a     *)
(*     one-member enum, a constant that ALSO declares its value as default                    *)
(*   - 9 further positions for every value type: item of an array, value of a map, optional   *)
(*     reference, reference of a reference, required-nullable, optional-nullable, field of a  *)
(*     struct that is itself the (overridden) default of a field, optional field of a         *)
(*     referenced struct, anonymous struct in an anonymous struct                             *)
(*   - spellings: the same numeric default written 3 / 3.0 / 3e0 / -0.0 (entry field `spell`, *)
(*     applied by the renderer to the schema TEXT; the value and hence DefaultDoc is the same)*)
(* Strings / numbers that TLC cannot hold (non-ASCII, escapes, integers >= 2^31 / 10) are      *)
(* TOKENS: "@uni", "@esc", Tok(n) = 7770000 + n; checks/python_common.py maps them to the     *)
(* real value when a schema / document is rendered and back when a real outcome is recorded.  *)
(*                                                                                            *)
(* C11  fixed schemas (reserved words as field names / enum members, mixed containers 3 deep, *)
(*   unions inside maps inside arrays, 4-level optional nesting with recursion, every width)  *)
(*   and, with Deep = TRUE, for EVERY schema two more document families on top of Docs():     *)
(*   ReKey  - the base document with each map key replaced by a non-identifier key            *)
(*            ("a b", "a.b/c", "", "1", "class", "$ref", "@uni")                              *)
(*   ReNum  - the base document with every unbounded number at the boundary of its width      *)
(*            (int8 127/-128 ... int64 2^63-1, uint64 2^64-1, float32 2^24+1, float64 2^53)   *)
(*                                                                                            *)
(* Ids > GenBase: schemas drawn by the seeded simulation of SemanticsGenMC, read back from    *)
(* gen_schemas.json (every mode below works on them as on catalogue entries).                 *)
EXTENDS SemanticsDefaultsMC

CONSTANT Deep      \* TRUE: cases = Docs + ReKey + ReNum documents

DeepBase == 20000
GenBase  == 30000
FileSchemas == JsonDeserialize("gen_schemas.json")


(* ------------------------------- value types ----------------------------- *)
PlainNum == TNum("float64", NoB, NoB)
DOuter == Def("Outer", TStruct(<<FOptDef("inner", TRef("Child"), JObj(<<P("id", JInt(9))>>)), FOptDef("tag", PlainStr, JStr("t"))>>))
NewLeaves == <<
  DL("string-unicode",         PlainStr, JStr("@uni"), <<>>),
  DL("string-escapes",         PlainStr, JStr("@esc"), <<>>),
  DL("string-format-verbs",    PlainStr, JStr("100% {x} $y %s"), <<>>),
  DL("integer-beyond-int32",   PlainInt, JInt(Tok(7)), <<>>),
  DL("float-integral",         PlainNum, JNum(20), <<>>),
  \* (no map-valued defaults: the property's quantifier lists bool, integer, float, string, enum member, list, struct with
  \*  partial overrides, union branch; all three parsers drop the default of a map-typed field - observed, not judged)
  DL("alias-struct-override",  TRef("AC"), JObj(<<P("name", JStr("x"))>>), <<Def("AC", TRef("Child")), DChild>>),
  DL("struct-empty-override",  TRef("Child"), JObj(<<>>), <<DChild>>),
  DL("struct-override-nested", TRef("Outer"), JObj(<<P("inner", JObj(<<P("name", JStr("x"))>>))>>), <<DOuter, DChild>>),
  DL("list-float",             TArr(PlainNum), JArr(<<JNum(15), JNum(-25)>>), <<>>),
  DL("list-bool",              TArr(TBool), JArr(<<JBool(TRUE), JBool(FALSE)>>), <<>>),
  DL("list-enum",              TArr(TEnum(<<"a", "b">>)), JArr(<<JStr("b")>>), <<>>),
  DL("enum-alias-member",      TRef("E2"), JStr("b"), <<Def("E2", TRef("E")), DEnum>>),
  DL("alias-string",           TRef("A1"), JStr("ab"), <<Def("A1", PlainStr)>>),
  DL("enum-single-member",     TEnum(<<"only">>), JStr("only"), <<>>),
  DL("enum-reserved-member",   TEnum(<<"class", "None", "from">>), JStr("None"), <<>>),
  DL("constant-string-with-default",  TConst(JStr("x")), JStr("x"), <<>>),
  DL("constant-integer-with-default", TConst(JInt(2)), JInt(2), <<>>),
  DL("union-branch-bool",      TUnion(<<PlainStr, TBool>>), JBool(TRUE), <<>>),
  \* audit against notes/MUTATION_CLASSES.md (appended)
  \* 7: defaults AT the boundary of the field's width, both signs
  DL("integer-int64-max",      PlainInt, JInt(Tok(3)), <<>>),
  DL("integer-int64-min",      PlainInt, JInt(0 - Tok(3)), <<>>),
  DL("integer-int32-max",      TInt("int32", NoB, NoB), JInt(Tok(2)), <<>>),
  DL("integer-int32-min",      TInt("int32", NoB, NoB), JInt(0 - Tok(2)), <<>>),
  DL("integer-uint64-max",     TInt("uint64", NoB, NoB), JInt(Tok(4)), <<>>),
  DL("integer-int8-min",       TInt("int8", NoB, NoB), JInt(-128), <<>>),
  DL("float-2^53",             PlainNum, JNum(10 * Tok(8)), <<>>),
  \* 4 / 8: the default is the LAST of three members, one of them starting with a numeral; a list of lists
  DL("enum-member-last-of-3",  TEnum(<<"a", "1x", "zz">>), JStr("zz"), <<>>),
  DL("list-list-integer",      TArr(TArr(PlainInt)), JArr(<<JArr(<<JInt(1), JInt(2)>>), JArr(<<JInt(3)>>)>>), <<>>),
  \* 13: the default / constant sits behind alias chains of length 2 and 3, the aliases declared before AND after their target
  DL("alias3-integer",         TRef("A1"), JInt(3), <<Def("A1", TRef("A2")), Def("A2", TRef("A3")), Def("A3", PlainInt)>>),
  DL("alias2-integer-target-first", TRef("A1"), JInt(3), <<Def("A2", PlainInt), Def("A1", TRef("A2"))>>),
  DL("alias3-struct-override", TRef("AC"), JObj(<<P("name", JStr("x"))>>), <<Def("AC", TRef("AC2")), Def("AC2", TRef("AC3")), Def("AC3", TRef("Child")), DChild>>),
  DL("enum-alias2-member",     TRef("E3"), JStr("b"), <<Def("E3", TRef("E2")), Def("E2", TRef("E")), DEnum>>),
  DL("constant-alias2-string", TRef("K1"), NoJ, <<Def("K1", TRef("K2")), Def("K2", TConst(JStr("x")))>>),
  DL("constant-alias3-string", TRef("K1"), NoJ, <<Def("K3", TConst(JStr("x"))), Def("K2", TRef("K3")), Def("K1", TRef("K2"))>>),
  DL("constant-alias2-integer", TRef("K1"), NoJ, <<Def("K1", TRef("K2")), Def("K2", TConst(JInt(2)))>>)
>>

(* -------------------------------- positions ------------------------------ *)
NewPositions == <<"array-item", "map-value", "optional-ref", "ref>ref", "nullable", "optional-nullable",
                  "in-default-struct", "ref-optional", "anon>anon">>
DeepSchema(leaf, pos) ==
  LET plain == F("plain", PlainStr)
      c1(req) == Def("C1", TStruct(<<VField(leaf, req), F("d", TBool)>>))
      root(fs, more) == [defs |-> <<Def("Root", TStruct(fs))>> \o more \o leaf.defs, root |-> "Root"] IN
  CASE pos \in Range(DefPositions) -> DSchema(leaf, pos)
    [] pos = "array-item"        -> root(<<F("items", TArr(TRef("C1"))), plain>>, <<c1(TRUE)>>)
    [] pos = "map-value"         -> root(<<F("m", TMap(TRef("C1"))), plain>>, <<c1(TRUE)>>)
    [] pos = "optional-ref"      -> root(<<FOpt("c", TRef("C1")), plain>>, <<c1(TRUE)>>)
    [] pos = "ref>ref"           -> root(<<F("c", TRef("C2")), plain>>, <<Def("C2", TStruct(<<F("c1", TRef("C1")), FOpt("o", PlainStr)>>)), c1(TRUE)>>)
    [] pos = "nullable"          -> root(<<Fld("v", leaf.t, TRUE, TRUE, leaf.d), plain>>, <<>>)
    [] pos = "optional-nullable" -> root(<<Fld("v", leaf.t, FALSE, TRUE, leaf.d), plain>>, <<>>)
    \* the struct C1 is the default of Root.c (override d = TRUE); its field v declares the default under test
    [] pos = "in-default-struct" -> root(<<FDef("c", TRef("C1"), JObj(<<P("d", JBool(TRUE))>>)), plain>>,
                                         <<Def("C1", TStruct(<<VField(leaf, FALSE), FOptDef("d", TBool, JBool(FALSE))>>))>>)
    [] pos = "ref-optional"      -> root(<<F("c", TRef("C1")), plain>>, <<c1(FALSE)>>)
    [] pos = "anon>anon"         -> root(<<F("inl", TStruct(<<F("inl2", TStruct(<<VField(leaf, TRUE), F("d", TBool)>>)), FOpt("o", PlainStr)>>)), plain>>, <<>>)
ValidAt(leaf, pos) ==
  pos \notin {"nullable", "optional-nullable"} \/ (leaf.d.j # "none" /\ leaf.t.k \notin {"union", "dunion", "const"})
E5(schema, leaf, pos, spell) == [schema |-> schema, leaf |-> leaf, pos |-> pos, cons |-> FALSE, spell |-> spell]

\* sequence of all pairs <<l, p>> of two sequences, leaf-major
Pairs(ls, ps) == [i \in 1..(Len(ls) * Len(ps)) |-> <<ls[((i - 1) \div Len(ps)) + 1], ps[((i - 1) % Len(ps)) + 1]>>]
Entries(ls, ps) ==
  LET ok == SelectSeq(Pairs(ls, ps), LAMBDA x : ValidAt(x[1], x[2])) IN
  [i \in DOMAIN ok |-> E5(DeepSchema(ok[i][1], ok[i][2]), ok[i][1].name, ok[i][2], "plain")]

(* -------------------------------- spellings ------------------------------ *)
SpellLeafNames == {"integer", "integer-zero", "integer-negative", "float", "float-negative", "list-integer", "int-enum-member",
                   "constant-integer", "float-integral", "float-zero", "list-float", "integer-beyond-int32"}
SpellLeaves == SelectSeq(DefLeaves \o NewLeaves, LAMBDA l : l.name \in SpellLeafNames)
SpellEntries ==
  LET ps == SelectSeq(Pairs(SpellLeaves, DefPositions \o NewPositions), LAMBDA x : ValidAt(x[1], x[2]))
      one(sp) == [i \in DOMAIN ps |-> E5(DeepSchema(ps[i][1], ps[i][2]), ps[i][1].name, ps[i][2], sp)]
      zeros == SelectSeq(ps, LAMBDA x : x[1].name \in {"integer-zero", "float-zero"})
  IN one("dot0") \o one("exp") \o [i \in DOMAIN zeros |-> E5(DeepSchema(zeros[i][1], zeros[i][2]), zeros[i][1].name, zeros[i][2], "negzero")]

(* ------------------------- C11: fixed deep schemas ----------------------- *)
DFix(n, defs) == E5([defs |-> defs, root |-> "Root"], n, "fixed", "plain")
AllWidths == <<"int8", "int16", "int32", "int64", "uint8", "uint16", "uint32", "uint64">>
WInt(w) == TInt(w, NoB, NoB)
DeepFixed == <<
  \* Python keywords / builtins / Go keywords as wire names, required and optional, at the root, in a referenced struct held
  \* in an array and in a map, in a union branch; reserved words as enum members
  DFix("reserved-words", <<
    Def("Root", TStruct(<<
      F("class", PlainStr), FOpt("from", PlainStr), F("id", PlainInt), FOpt("type", TEnum(<<"class", "None", "from">>)),
      F("import", TRef("Inner")), FOpt("def", TBool), FOpt("None", PlainStr), FOpt("self", PlainInt), F("range", TArr(TRef("Inner"))),
      FOpt("map", TMap(TRef("Inner"))), FOpt("lambda", TDUnion("kind", <<"In", "Is">>)), FOpt("list", TArr(PlainStr)),
      FOpt("func", PlainStr), FOpt("return", PlainNum), FOptNull("pass", PlainStr)>>)),
    Def("Inner", TStruct(<<F("in", PlainStr), FOpt("is", PlainInt), FOpt("not", TBool), FOpt("global", PlainStr), FOpt("format", PlainStr),
                           FOpt("max", PlainInt), FOpt("str", PlainStr), FOpt("print", PlainStr), FOpt("go", PlainStr), FOpt("interface", PlainStr)>>)),
    Def("In", TStruct(<<F("kind", TConst(JStr("in"))), FOpt("with", PlainStr), F("yield", PlainInt)>>)),
    Def("Is", TStruct(<<F("kind", TConst(JStr("is"))), FOpt("filter", PlainStr)>>))>>),
  \* mixed containers three levels deep
  DFix("mixed-containers", <<
    Def("Root", TStruct(<<
      F("mam", TMap(TArr(TMap(TRef("Item"))))), FOpt("aam", TArr(TArr(TMap(PlainStr)))), FOpt("mu", TMap(TDUnion("kind", <<"Zebra", "Apple">>))),
      F("au", TArr(TUnion(<<PlainStr, PlainInt>>))), FOpt("amu", TArr(TMap(TDUnion("kind", <<"Zebra", "Apple">>)))),
      FOpt("ama", TArr(TMap(TArr(PlainInt)))), FOpt("mn", TMap(TNullable(TRef("Item")))), FOpt("mm", TMap(TMap(TRef("Item")))),
      FOpt("mmm", TMap(TMap(TMap(TRef("Item"))))), FOpt("aaa", TArr(TArr(TArr(TRef("Item"))))), FOpt("aas", TArr(TArr(TArr(PlainStr))))>>)),
    Def("Item", TStruct(<<F("n", PlainInt), FOpt("tags", TArr(PlainStr)), FOpt("attrs", TMap(PlainStr)), FOptNull("note", PlainStr)>>)),
    UZebra, UApple>>),
  \* four levels of optional nesting closing a cycle
  DFix("deep-nesting", <<
    Def("Root", TStruct(<<F("l1", TRef("L1")), FOpt("ol1", TRef("L1"))>>)),
    Def("L1", TStruct(<<F("a", PlainStr), FOpt("l2", TRef("L2"))>>)),
    Def("L2", TStruct(<<FOpt("b", PlainInt), FOpt("l3", TRef("L3")), FOpt("l3s", TArr(TRef("L3")))>>)),
    Def("L3", TStruct(<<F("c", TBool), FOpt("l4", TStruct(<<F("d", PlainNum), FOpt("back", TRef("L1")), FOpt("e", TEnum(<<"a", "b">>))>>))>>))>>),
  \* every width, alone, in arrays and in maps (ReNum puts each at its boundary)
  DFix("widths-containers", <<
    Def("Root", TStruct(
      [i \in 1..Len(AllWidths) |-> F("w" \o AllWidths[i], WInt(AllWidths[i]))]
      \o [i \in 1..Len(AllWidths) |-> FOpt("a" \o AllWidths[i], TArr(WInt(AllWidths[i])))]
      \o <<F("f32", TNum("float32", NoB, NoB)), F("f64", PlainNum), FOpt("af32", TArr(TNum("float32", NoB, NoB))),
           FOpt("mf64", TMap(PlainNum)), FOpt("mi64", TMap(PlainInt)), FOpt("mu64", TMap(WInt("uint64")))>>))>>),
  \* unions in unions' branches, in maps in arrays
  DFix("unions-mixed", <<
    Def("Root", TStruct(<<F("du", TDUnion("kind", <<"Wrap", "Apple">>)), FOpt("amu", TArr(TMap(TDUnion("kind", <<"Wrap", "Apple">>)))),
                          FOpt("us", TMap(TUnion(<<PlainStr, TBool, PlainNum>>)))>>)),
    Def("Wrap", TStruct(<<F("kind", TConst(JStr("wrap"))), F("inner", TDUnion("kind", <<"Zebra", "Apple">>)),
                          FOpt("many", TArr(TDUnion("kind", <<"Zebra", "Apple">>)))>>)),
    UZebra, UApple>>)
>>

DeepCatalogue ==
  Entries(NewLeaves, DefPositions \o NewPositions) \o Entries(DefLeaves, NewPositions) \o SpellEntries \o DeepFixed

(* ------------------------------ ids / entries ---------------------------- *)
InDeep(i)   == i > DeepBase /\ (i - DeepBase) \in DOMAIN DeepCatalogue
InGen(i)    == i > GenBase /\ (i - GenBase) \in DOMAIN FileSchemas
SpellOf(e)  == IF "spell" \in DOMAIN e THEN e.spell ELSE "plain"
EntryOf2(i) == IF i > GenBase THEN FileSchemas[i - GenBase] ELSE IF i > DeepBase THEN DeepCatalogue[i - DeepBase] ELSE EntryOf(i)
Known(i)    == IF i > GenBase THEN InGen(i) ELSE IF i > DeepBase THEN InDeep(i) ELSE i \in AllIds

(* --------------------- further document families (C11) ------------------- *)
KeyAlphabet == <<"a b", "a.b/c", "", "1", "class", "$ref", "@uni">>
NewKey(rank, k, i) == (IF rank <= 1 THEN k ELSE k \o "#" \o ToString(rank)) \o (IF i = 1 THEN "" ELSE ToString(i))
RECURSIVE ReKey(_, _, _, _)
ReKey(S, t, v, k) ==
  CASE t.k = "ref"                        -> ReKey(S, S[t.name], v, k)
    [] t.k = "nullable" /\ v.j # "null"   -> ReKey(S, t.t, v, k)
    [] t.k = "arr" /\ v.j = "arr"         -> JArr([i \in DOMAIN v.xs |-> ReKey(S, t.t, v.xs[i], k)])
    [] t.k = "map" /\ v.j = "obj"         -> JObj([i \in DOMAIN v.ps |-> P(NewKey(MapRank(S, t), k, i), ReKey(S, t.t, v.ps[i].v, k))])
    [] t.k = "struct" /\ v.j = "obj"      ->
         JObj([i \in DOMAIN v.ps |->
               LET fs == FieldsNamed(t, v.ps[i].k) IN
               IF fs = <<>> \/ v.ps[i].v.j = "null" THEN v.ps[i] ELSE P(v.ps[i].k, ReKey(S, fs[1].t, v.ps[i].v, k))])
    [] t.k = "dunion" /\ v.j = "obj" /\ (\E i \in DOMAIN t.refs : Accepts(S, S[t.refs[i]], v)) ->
         ReKey(S, S[t.refs[MinOf({i \in DOMAIN t.refs : Accepts(S, S[t.refs[i]], v)})]], v, k)
    [] OTHER -> v

Boundary(t, side) ==
  LET mx == side = "max" IN
  CASE t.w = "int8"    -> IF mx THEN 1270 ELSE -1280
    [] t.w = "uint8"   -> IF mx THEN 2550 ELSE 0
    [] t.w = "int16"   -> IF mx THEN 327670 ELSE -327680
    [] t.w = "uint16"  -> IF mx THEN 655350 ELSE 0
    [] t.w = "int32"   -> IF mx THEN 10 * Tok(2) ELSE -10 * Tok(2)
    [] t.w = "uint32"  -> IF mx THEN 10 * Tok(5) ELSE 0
    [] t.w = "int64"   -> IF mx THEN 10 * Tok(3) ELSE -10 * Tok(3)
    [] t.w = "uint64"  -> IF mx THEN 10 * Tok(4) ELSE 0
    [] t.w = "float32" -> IF mx THEN 10 * Tok(6) ELSE -15
    [] OTHER           -> IF mx THEN 10 * Tok(8) ELSE -10 * Tok(8)
RECURSIVE ReNum(_, _, _, _)
ReNum(S, t, v, side) ==
  CASE t.k \in {"int", "num"} /\ v.j = "num" /\ ~HasBound(t) -> JNum(Boundary(t, side))
    [] t.k = "ref"                        -> ReNum(S, S[t.name], v, side)
    [] t.k = "nullable" /\ v.j # "null"   -> ReNum(S, t.t, v, side)
    [] t.k = "arr" /\ v.j = "arr"         -> JArr([i \in DOMAIN v.xs |-> ReNum(S, t.t, v.xs[i], side)])
    [] t.k = "map" /\ v.j = "obj"         -> JObj([i \in DOMAIN v.ps |-> P(v.ps[i].k, ReNum(S, t.t, v.ps[i].v, side))])
    [] t.k = "struct" /\ v.j = "obj"      ->
         JObj([i \in DOMAIN v.ps |->
               LET fs == FieldsNamed(t, v.ps[i].k) IN
               IF fs = <<>> \/ v.ps[i].v.j = "null" THEN v.ps[i] ELSE P(v.ps[i].k, ReNum(S, fs[1].t, v.ps[i].v, side))])
    [] t.k = "dunion" /\ v.j = "obj" /\ (\E i \in DOMAIN t.refs : Accepts(S, S[t.refs[i]], v)) ->
         ReNum(S, S[t.refs[MinOf({i \in DOMAIN t.refs : Accepts(S, S[t.refs[i]], v)})]], v, side)
    [] OTHER -> v

DeepDocs(schema) ==
  LET S == DefsFn(schema)
      t == S[schema.root]
      b == Base(S, t, Fuel)
      keyed == {ReKey(S, t, b, KeyAlphabet[i]) : i \in DOMAIN KeyAlphabet}
      nums  == {ReNum(S, t, b, "max"), ReNum(S, t, b, "min")}
  IN Docs(schema, Fuel)
     \cup {Var(d, "alt", <<"*keys">>) : d \in keyed \ {b}}
     \cup {Var(d, "alt", <<"*numbers">>) : d \in nums \ {b}}

(* -------------------------------- the machine ---------------------------- *)
XInit ==
  CASE Mode = "index"    -> si \in {DeepBase + i : i \in DOMAIN DeepCatalogue} /\ dx = Marker
    [] Mode = "cases"    -> si \in {i \in Ids : Known(i)} /\ dx \in (IF Deep THEN DeepDocs(EntryOf2(si).schema) ELSE Docs(EntryOf2(si).schema, Fuel))
    [] Mode = "defaults" -> si \in {i \in Ids : Known(i)} /\ dx \in {ObjMarker(n) : n \in StructNames(EntryOf2(si).schema)}
XSpec == XInit /\ [][Next]_vars

XEmit ==
  LET e == EntryOf2(si) IN
  CASE Mode = "index"    -> PrintT(<<"INDEX", ToJson([id |-> si, leaf |-> e.leaf, pos |-> e.pos, cons |-> e.cons, spell |-> SpellOf(e), schema |-> e.schema])>>)
    [] Mode = "cases"    -> PrintT(<<"CASE", ToJson([id |-> si] @@ Expect(e.schema, dx))>>)
    [] Mode = "defaults" ->
         LET S == DefsFn(e.schema)
             o == dx.p[1] IN
         PrintT(<<"DEFAULT", ToJson([id |-> si, obj |-> o, doc |-> DefaultDoc(S, S[o]),
                                     full |-> IF o = e.schema.root THEN FullDefault(S, S[o], Fuel) ELSE NoJ])>>)
===============================================================================
