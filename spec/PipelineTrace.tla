----------------------------- MODULE PipelineTrace -----------------------------
(* Trace validation for C03/C07: every record is one REAL observation of the cog pipeline          *)
(*   kind "run":   PipelineFromFile(yaml).Run() (+ the `cog inspect` views) for a sequence of     *)
(*                 inputs, a configuration and a set of languages; nsched = how many map-order    *)
(*                 schedules produced exactly this outcome (one record per distinct outcome)      *)
(*   kind "merge": LoadSchemas of each input alone and of all of them together (same package)     *)
(*   kind "immut": snapshot of the shared schemas before/after one transformation chain           *)
(* The hyper-properties of Pipeline2 are evaluated over every PAIR of run records (record l       *)
(* against all earlier ones), the single-run properties on every merge / immut record.            *)
(* Report mode prints one FAIL line per violating record (or pair); Strict stops at the first.    *)
EXTENDS Naturals, Sequences, FiniteSets, TLC, Json

CONSTANTS Strict
Trace  == ndJsonDeserialize("pipeline_trace.ndjson")
Inputs == JsonDeserialize("pipeline_inputs.json")      \* input id -> [pkg |-> package it defines]

VARIABLE l
TInit == l = 1
TNext == l <= Len(Trace) /\ l' = l + 1
TSpec == TInit /\ [][TNext]_l

Range(s) == {s[i] : i \in DOMAIN s}
PkgOf(i) == Inputs[i].pkg
PkgsOfSeq(s) == {PkgOf(s[i]) : i \in DOMAIN s}
DistinctPkgs(s) == \A i, j \in DOMAIN s : i # j => PkgOf(s[i]) # PkgOf(s[j])
Without(s, k) == [i \in 1..(Len(s) - 1) |-> IF i < k THEN s[i] ELSE s[i + 1]]
(* b lists the same (pairwise distinct) inputs as a in another order ... *)
IsPerm(a, b) == Len(a) = Len(b) /\ a # b /\ Range(a) = Range(b) /\ Cardinality(Range(a)) = Len(a)
(* ... in which the inputs of every package keep their relative order: only inputs of DIFFERENT packages moved *)
OfPkg(s, p) == SelectSeq(s, LAMBDA i : PkgOf(i) = p)
SamePackageOrder(a, b) == \A p \in PkgsOfSeq(a) : OfPkg(a, p) = OfPkg(b, p)

IsRun(r) == r.kind = "run"
SameCfg(r, s) == r.cfg = s.cfg
SameLangs(r, s) == r.langs = s.langs

(* C03 Deterministic: equal inputs, configuration and languages => equal files and equal IR *)
Det(r, s) == (IsRun(r) /\ IsRun(s) /\ r.inputs = s.inputs /\ SameCfg(r, s) /\ SameLangs(r, s))
                => (r.err = s.err /\ r.files = s.files /\ r.ir = s.ir)

(* the files of a configured language; a language that produced nothing under its own directory has "none" *)
FilesOf(r, L) == IF L \in DOMAIN r.files THEN r.files[L] ELSE "none"

(* C07 LanguageIndependent: equal inputs and configuration, different language sets => every common language has equal files *)
LangIndep(r, s) == (IsRun(r) /\ IsRun(s) /\ r.inputs = s.inputs /\ SameCfg(r, s) /\ ~SameLangs(r, s))
                      => (r.err = s.err /\ (~r.err => \A L \in Range(r.langs) \cap Range(s.langs) : FilesOf(r, L) = FilesOf(s, L)))

(* C07 InputOrderIndependent: "reordering inputs that define different packages changes no generated file": the same inputs in
   another order, the inputs of each package in the same relative order => no file changes *)
InputOrder(r, s) == (IsRun(r) /\ IsRun(s) /\ SameCfg(r, s) /\ SameLangs(r, s) /\ IsPerm(r.inputs, s.inputs) /\ SamePackageOrder(r.inputs, s.inputs))
                       => (r.err = s.err /\ r.files = s.files)

(* C07 UnrelatedInputIrrelevant: s has one more input than r, of a package r does not define (nothing references it:
   inputs cannot reference other packages in this corpus) => the files specific to r's packages are unchanged *)
ExtraOf(r, s) == {k \in DOMAIN s.inputs : Len(s.inputs) = Len(r.inputs) + 1 /\ Without(s.inputs, k) = r.inputs
                                            /\ PkgOf(s.inputs[k]) \notin PkgsOfSeq(r.inputs)}
UnrelatedOne(r, s) == (IsRun(r) /\ IsRun(s) /\ SameCfg(r, s) /\ SameLangs(r, s) /\ ExtraOf(r, s) # {})
                        => (r.err = s.err /\ (~r.err => \A L \in DOMAIN r.pkgfiles : \A P \in DOMAIN r.pkgfiles[L] :
                                                 L \in DOMAIN s.pkgfiles /\ P \in DOMAIN s.pkgfiles[L] /\ s.pkgfiles[L][P] = r.pkgfiles[L][P]))
Unrelated(r, s) == UnrelatedOne(r, s) /\ UnrelatedOne(s, r)

PairViolated(r, s) == (IF Det(r, s) THEN {} ELSE {"Deterministic"})
                 \cup (IF LangIndep(r, s) THEN {} ELSE {"LanguageIndependent"})
                 \cup (IF InputOrder(r, s) THEN {} ELSE {"InputOrderIndependent"})
                 \cup (IF Unrelated(r, s) THEN {} ELSE {"UnrelatedInputIrrelevant"})

(* C07 MergeIsUnionOrConflict: parts[i] and whole.defs are sequences of <<name, definition hash>>; the hash is taken over  *)
(* the JSON encoding of the object, i.e. over every declared attribute of the definition (hints, nullable, default,       *)
(* constraints, comments, required, ... at any depth): a same-package redefinition that differs in any single one of them  *)
(* (the corpus enumerates them one at a time, in both input orders) must be a conflict, never "first input wins".          *)
DefSet(d) == {<<d[i][1], d[i][2]>> : i \in DOMAIN d}
Functional(D) == \A x, y \in D : x[1] = y[1] => x[2] = y[2]
MergeOK(r) == r.kind = "merge" =>
                 LET all == UNION {DefSet(r.parts[i]) : i \in DOMAIN r.parts} IN
                   IF r.whole.err THEN TRUE                             \* "or the run fails with a conflict error"
                   ELSE Functional(all) /\ DefSet(r.whole.defs) = all    \* the union, nothing dropped, nothing overwritten

(* C07 InputsNeverMutated *)
ImmutOK(r) == r.kind = "immut" => r.before = r.after

SingleViolated(r) == (IF MergeOK(r) THEN {} ELSE {"MergeIsUnionOrConflict"}) \cup (IF ImmutOK(r) THEN {} ELSE {"InputsNeverMutated"})

Step == Trace[l - 1]
Earlier == {k \in 1..(l - 2) : PairViolated(Trace[k], Step) # {}}
Bad == SingleViolated(Step) # {} \/ Earlier # {}
Verdict == l = 1 \/ ~Bad \/
           (~Strict /\ PrintT(<<"FAIL", ToJson([l |-> l - 1, single |-> SingleViolated(Step),
                                               pairs |-> {[k |-> k, violated |-> PairViolated(Trace[k], Step)] : k \in Earlier}])>>))
Done == l = Len(Trace) + 1 => PrintT(<<"CONSUMED", l - 1>>)
===============================================================================
