CONSTANTS
  MaxDepth = 2
  Slice = 0
  NSlices = 1
  FoldTable <- MCFold
SPECIFICATION Spec
INVARIANTS WellFormed Emit
CHECK_DEADLOCK FALSE
