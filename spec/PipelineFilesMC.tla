--------------------------- MODULE PipelineFilesMC ---------------------------
(* Every configuration of the bounded universe: language sets x directory patterns x repository-template sets x     *)
(* extra-file template sets x {types, types + API reference}. One state = one case, printed with its expected verdict. *)
EXTENDS PipelineFiles

MCTables == Tables
LangSets == {Range(MCTables.langsets[i]) : i \in DOMAIN MCTables.langsets}

VARIABLE c
Init == c \in [langs : LangSets, dir : DOMAIN MCTables.dirs, repo : DOMAIN MCTables.repo, extra : DOMAIN MCTables.extra, flags : DOMAIN MCTables.base]
Next == UNCHANGED c
Spec == Init /\ [][Next]_c

Laws == DisjointRootsLaw(c) /\ \A L \in c.langs : SubsetLaw(c, L)
Emit == PrintT(<<"CASE", ToJson([cfg |-> c, err |-> Expected(c).err, npaths |-> Cardinality(Expected(c).paths)])>>)
================================================================================
