CONSTANTS
  Strict = FALSE
SPECIFICATION TSpec
INVARIANTS Verdict Done
CHECK_DEADLOCK FALSE
