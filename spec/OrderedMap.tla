------------------------------ MODULE OrderedMap ------------------------------
(* Abstract specification of cog's insertion-ordered map (property C19).     *)
(* The state is a sequence of <<key, value>> pairs without duplicate keys:   *)
(* "a map that remembers first-insertion order".  Operation results are      *)
(* typed operators (GetF, HasF, ...), never state variables.                 *)
EXTENDS Naturals, Sequences, FiniteSets

CONSTANTS Keys,      \* key alphabet (strings)
          Vals       \* value alphabet (naturals)

VARIABLE m

KeysOf(s)   == {s[i][1] : i \in 1..Len(s)}
Pos(s, k)   == CHOOSE i \in 1..Len(s) : s[i][1] = k
NoDup(s)    == \A i, j \in 1..Len(s) : s[i][1] = s[j][1] => i = j

(* ---- state-changing operations, as functions of the abstract state ---- *)
SetF(s, k, v)  == IF k \in KeysOf(s) THEN [s EXCEPT ![Pos(s, k)] = <<k, v>>]
                                     ELSE Append(s, <<k, v>>)
RemoveF(s, k)  == SelectSeq(s, LAMBDA p : p[1] # k)

RECURSIVE SetAllF(_, _)
SetAllF(s, pairs) == IF pairs = <<>> THEN s
                     ELSE SetAllF(SetF(s, Head(pairs)[1], Head(pairs)[2]), Tail(pairs))
\* json.Unmarshal into an existing map: every pair of the document, in document
\* order, is Set (existing keys keep their position, new ones are appended)
UnmarshalF(s, doc) == SetAllF(s, doc)

\* stable insertion sort by key with a strict order Less(_,_)
RECURSIVE InsertSorted(_, _, _)
InsertSorted(Less(_, _), sorted, p) ==
  IF sorted = <<>> THEN <<p>>
  ELSE IF Less(p[1], Head(sorted)[1]) THEN <<p>> \o sorted
       ELSE <<Head(sorted)>> \o InsertSorted(Less, Tail(sorted), p)
RECURSIVE SortByF(_, _)
SortByF(Less(_, _), s) == IF s = <<>> THEN <<>>
                          ELSE InsertSorted(Less, SortByF(Less, SubSeq(s, 1, Len(s) - 1)), s[Len(s)])
\* (inserting the LAST element into the sorted prefix after all elements that are
\*  not greater keeps equal elements in their original order: stable)

(* ---- derived maps (fresh values; the receiver is unchanged) ---- *)
FilterF(P(_, _), s) == SelectSeq(s, LAMBDA p : P(p[1], p[2]))
MapF(F(_, _), s)    == [i \in 1..Len(s) |-> <<s[i][1], F(s[i][1], s[i][2])>>]

(* ---- observers ---- *)
LenF(s)       == Len(s)
HasF(s, k)    == k \in KeysOf(s)
GetF(s, k, zero) == IF k \in KeysOf(s) THEN s[Pos(s, k)][2] ELSE zero
ValuesF(s)    == [i \in 1..Len(s) |-> s[i][2]]
KeyOrderF(s)  == [i \in 1..Len(s) |-> s[i][1]]

(* ---- the design as a state machine ---- *)
Init == m = <<>>
Set(k, v)  == m' = SetF(m, k, v)
Remove(k)  == m' = RemoveF(m, k)
Next == \/ \E k \in Keys, v \in Vals : Set(k, v)
        \/ \E k \in Keys : Remove(k)
vars == <<m>>
Spec == Init /\ [][Next]_vars

TypeOK     == m \in Seq(Keys \X Vals)
NoDupKeys  == NoDup(m)
LenIsLiveKeys == Len(m) = Cardinality(KeysOf(m))

\* overwriting keeps the key's position; removal preserves the relative order of the rest
OverwriteKeepsPosition ==
  [][\A k \in KeysOf(m) \cap KeysOf(m') : Len(m') >= Len(m) => Pos(m', k) = Pos(m, k)]_vars
RemoveKeepsOrder ==
  [][\A a, b \in KeysOf(m) \cap KeysOf(m') :
        (Pos(m, a) < Pos(m, b)) <=> (Pos(m', a) < Pos(m', b))]_vars
===============================================================================
