------------------------------ MODULE TransformsMC ------------------------------
(* Bounded universe for Transforms.tla: every IR over a small alphabet and    *)
(* every parameterisation of every transformation.  Each distinct state is    *)
(* one edge (pre, action, post); Emit prints it and the Go worker replays it  *)
(* on the real compiler.Passes.Process (C15) and evaluates reference          *)
(* resolution on the real result (C05).                                       *)
EXTENDS Transforms, TLC, Json

CONSTANTS MaxObjs,      \* objects in package p (1..MaxObjs)
          MaxDepth,     \* transformations applied in sequence (1 for the exhaustive edge set)
          Slice, NSlices, \* multi-object IRs are cut into NSlices classes; this run takes class Slice
          SeqMode        \* TRUE: pairs "object-copying transformation, then any transformation" from one-object IRs
                         \* (aliasing between a copy and its source only shows on the next transformation)

VARIABLES pre, act, cur, depth,
          init0, hist    \* the IR the chain started from and the transformations applied so far: the
                         \* harness replays the WHOLE chain on the real code in one Passes.Process call
vars == <<pre, act, cur, depth, init0, hist>>

MCFoldTable == [Foo |-> "foo", foo |-> "foo", FOO |-> "foo", Bar |-> "bar", bar |-> "bar", Baz |-> "baz",
                spec |-> "spec", Spec |-> "spec", Metadata |-> "metadata", metadata |-> "metadata",
                a |-> "a", A |-> "a", B |-> "b", b |-> "b", x |-> "x", X |-> "x", n |-> "n", Dup |-> "dup", New |-> "new",
                Zed |-> "zed", zz |-> "zz", ID |-> "id", PreFoo |-> "prefoo", Prefoo |-> "prefoo",
                PreBar |-> "prebar", Prespec |-> "prespec", PreMetadata |-> "premetadata", p |-> "p", q |-> "q", P |-> "p"]
MCTrimTable == [x \in {" a ", "b "} |-> IF x = " a " THEN "a" ELSE "b"]
MCHintRank  == [h1 |-> 1, h2 |-> 2, skip_variant_plugin_registration |-> 3, h3 |-> 4]

(* ------------------------------ universe ------------------------------- *)
RefFooND == AsNullable(WithDef(TRef("p", "Foo"), VStr("d")))
TypePool == <<
  TString,
  TConst("string", VStr("x")),
  TRef("p", "Foo"),
  AsNullable(WithDef(TRef("p", "Bar"), VStr("d"))),
  TConstRef("p", "Foo", VStr("x")),
  TArray(TRef("p", "foo")),
  TMap(TRef("p", "Foo"), TRef("p", "Bar")),
  TStruct(<<FieldC("a", TString, TRUE, <<"fa">>), Field("B", RefFooND, FALSE)>>),
  TEnum(<<Member("A", VStr(" a "), "string"), Member("B", VStr("b "), "string")>>),   \* BOTH values need trimming
  TDisj(<<TRef("p", "Foo"), TRef("p", "Bar")>>, "kind", <<MapTo("x", "Foo"), MapTo("y", "Bar")>>),
  TRef("q", "Foo"),
  TStruct(<<Field("a", AsNullable(TConstRef("p", "Bar", VStr("x"))), TRUE),     \* required AND nullable (CUE `a: T | null`)
            Field("A", WithHints(TString, <<Hint("h1", VStr("v"))>>), FALSE)>>)
>>
PNames == {"Foo", "foo", "Bar", "spec", "Spec"}

QSchema == SchemaOf("q", <<Obj("q", "Foo", TStruct(<<Field("x", TRef("p", "Foo"), TRUE)>>)),
                           ObjC("q", "Metadata", TString, <<"m">>)>>)

NameIdx == [Foo |-> 0, foo |-> 1, Bar |-> 2, spec |-> 3, Spec |-> 4]
Slots == PNames \X (DOMAIN TypePool)                 \* <<name, index into TypePool>>
SlotKey(x) == NameIdx[x[1]] + 4 * x[2]
ObjOf(x) == ObjC("p", x[1], TypePool[x[2]], IF x[2] = 1 THEN <<"c0">> ELSE <<>>)
RECURSIVE SlotSeqs(_)
SlotSeqs(n) == IF n = 0 THEN {<<>>}
               ELSE LET shorter == SlotSeqs(n - 1)
                    IN shorter \cup {Append(s, o) : s \in {x \in shorter : Len(x) = n - 1}, o \in Slots}
DistinctNames(s) == \A i, j \in DOMAIN s : s[i][1] = s[j][1] => i = j
RECURSIVE SeqKey(_)
SeqKey(s) == IF s = <<>> THEN 0 ELSE Head(s)[2] + 3 * SeqKey(Tail(s))   \* type indices only: every slice sees every name combination
InSlice(s) == Len(s) = 1 \/ SeqKey(s) % NSlices = Slice
PSchemas == {[SchemaOf("p", [i \in DOMAIN s |-> ObjOf(s[i])]) EXCEPT !.entry = e, !.entrytype = IF e = "" THEN TNone ELSE TRef("p", e)] :
               <<s, e>> \in {<<s2, e2>> \in {x \in SlotSeqs(MaxObjs) : Len(x) >= 1 /\ DistinctNames(x) /\ InSlice(x)} \X {"", "Foo", "spec", "Spec"} :
                               e2 = "" \/ e2 = s2[1][1]}}
\* a package whose name differs from "p" only in letter case and holds the same object/field names: selection is
\* "package exact", so nothing aimed at p may touch it (one-object IRs only: it adds no states, only volume)
\* when p holds both Foo and Bar, q also holds a DISCRIMINATED union of references into p: a union whose branches live in
\* another package than the union itself (renaming a branch target must rewrite the mapping over there too)
QSchemaU == [QSchema EXCEPT !.objects = Append(@, Obj("q", "U",
               TDisj(<<TRef("p", "Foo"), TRef("p", "Bar")>>, "kind", <<MapTo("x", "Foo"), MapTo("y", "Bar")>>)))]
QFor(ps) == IF {"Foo", "Bar"} \subseteq {ps.objects[i].name : i \in DOMAIN ps.objects} THEN QSchemaU ELSE QSchema
UpperPSchema == SchemaOf("P", <<Obj("P", "Foo", TStruct(<<FieldC("a", AsNullable(TString), TRUE, <<"fa">>), Field("B", TRef("P", "Foo"), FALSE)>>))>>)
InitIRs == {IF Len(ps.objects) = 1 THEN <<ps, QSchema, UpperPSchema>> ELSE <<ps, QFor(ps)>> : ps \in PSchemas}

(* ---------------------------- parameterisations ------------------------ *)
ORefs  == {ObjRef("p", "Foo"), ObjRef("p", "foo"), ObjRef("p", "Bar"), ObjRef("q", "foo"), ObjRef("p", "Zed"), ObjRef("p", "spec")}
FRefs  == {FieldRef("p", "Foo", "a"), FieldRef("p", "foo", "A"), FieldRef("p", "bar", "B"), FieldRef("q", "Foo", "X"),
           FieldRef("p", "Foo", "zz"), FieldRef("p", "spec", "b")}
NoC    == [given |-> FALSE, c |-> <<>>]
SomeC  == [given |-> TRUE, c |-> <<"nc">>]
NewFields == <<FieldC("a", TRef("p", "Bar"), FALSE, <<"na">>), Field("n", TConstRef("p", "Bar", VStr("x")), TRUE)>>

Acts ==
     [a : {"rename_object"}, from : ORefs, to : {"Baz", "Foo"}]
\cup [a : {"omit"}, objects : {<<r>> : r \in ORefs} \cup {<<ObjRef("p", "foo"), ObjRef("q", "metadata")>>,
        <<ObjRef("p", "Foo"), ObjRef("q", "Foo")>>, <<ObjRef("q", "FOO"), ObjRef("p", "foo")>>, <<ObjRef("q", "Foo"), ObjRef("r", "Foo")>>}]
\cup [a : {"omit_fields"}, fields : {<<r>> : r \in FRefs} \cup {<<FieldRef("p", "Foo", "A"), FieldRef("p", "Foo", "b")>>,
        <<FieldRef("p", "Foo", "x"), FieldRef("q", "Foo", "x")>>, <<FieldRef("q", "Foo", "x"), FieldRef("r", "Foo", "x")>>}]
\cup [a : {"add_fields"}, to : ORefs, fields : {NewFields}]
\cup [a : {"add_object"}, object : {ObjRef("p", "New"), ObjRef("q", "New"), ObjRef("r", "New"), ObjRef("p", "Foo")},
      as : {TRef("p", "Foo")}, comments : {<<"oc">>}]
\cup [a : {"duplicate_object"}, object : ORefs, as : {ObjRef("p", "Dup"), ObjRef("q", "Dup"), ObjRef("r", "Dup")},
      omit : {<<>>, <<"A">>}]
\cup [a : {"retype_object"}, object : ORefs, as : {TArray(TRef("p", "Bar"))}, comments : {NoC, SomeC}]
\cup [a : {"retype_field"}, field : FRefs, as : {TArray(TRef("p", "Bar"))}, comments : {NoC, SomeC}]
\cup [a : {"fields_set_required"}, fields : {<<r>> : r \in FRefs} \cup {<<FieldRef("q", "Foo", "x"), FieldRef("r", "Foo", "x")>>}]
\cup [a : {"fields_set_not_required"}, fields : {<<r>> : r \in FRefs}]
\cup [a : {"fields_set_default"}, field : FRefs, value : {VStr("nd"), VStr("")}]    \* a default may be the empty string
\cup [a : {"replace_reference"}, from : {ObjRef("p", "Foo"), ObjRef("p", "foo"), ObjRef("p", "bar"), ObjRef("q", "Foo"), ObjRef("p", "Zed")},
      to : {ObjRef("p", "Bar"), ObjRef("q", "Foo")}]
\cup [a : {"constant_to_enum"}, objects : {<<r>> : r \in ORefs} \cup {<<ObjRef("p", "Foo"), ObjRef("r", "Foo")>>, <<ObjRef("r", "Foo"), ObjRef("p", "Foo")>>}]
\cup [a : {"trim_enum_values"}]
\cup [a : {"hint_object"}, object : ORefs, hints : {<<Hint("h1", VStr("nv")), Hint("h2", VBool(TRUE))>>, <<Hint("h3", VStr("z"))>>}]
\cup [a : {"schema_set_identifier"}, pkg : {"p", "r"}, id : {"ID"}]
\cup [a : {"schema_set_entry_point"}, pkg : {"p", "q", "r"}, entry : {"Bar"}]
\cup [a : {"prefix_objects_names"}, prefix : {"Pre", "", "Fo", "sp"}]   \* "Fo"/"sp": prefixes OF existing object names
\cup [a : {"append_comment_objects"}, comment : {"cmt"}]
\cup [a : {"unspec"}]
\cup [a : {"allowed_objects"}, objects : {<<r>> : r \in ORefs} \cup {<<ObjRef("p", "Foo"), ObjRef("q", "Foo")>>}]

InitAct == [a |-> "init"]

\* transformations that create or copy structure (object copies, shared `as` types, added fields)
Copying(a) == a.a \in {"duplicate_object", "add_object", "retype_object", "retype_field", "add_fields", "rename_object", "hint_object"}
Structured(S) == Len(S[1].objects) = 1 /\ S[1].objects[1].type.k \in {"struct", "enum", "disj"}
SeqSlice(S) == (NameIdx[S[1].objects[1].name] + (IF S[1].entry = "" THEN 0 ELSE 1)) % NSlices = Slice

Init == /\ pre \in (IF SeqMode THEN {x \in InitIRs : Structured(x) /\ SeqSlice(x)} ELSE InitIRs)
        /\ cur = pre /\ act = InitAct /\ depth = 0 /\ init0 = pre /\ hist = <<>>
Next == /\ depth < MaxDepth
        /\ (IF act.a = "init" THEN TRUE ELSE ~act.err)   \* a failed transformation ends the chain
        /\ \E a \in Acts :
              /\ (SeqMode /\ depth = 0) => Copying(a)
              /\ Defined(cur, a)
              /\ LET out == Apply(cur, a) IN
                   /\ pre' = cur
                   /\ act' = [a EXCEPT !.a = a.a] @@ [err |-> out.err]
                   /\ cur' = out.S
                   /\ depth' = depth + 1
                   /\ init0' = init0
                   /\ hist' = Append(hist, [a EXCEPT !.a = a.a] @@ [err |-> out.err])
Spec == Init /\ [][Next]_vars

(* -------------------------- design-level properties -------------------- *)
\* the requirement itself keeps references resolving under the name-changing
\* transformations and the filter, and never breaks the schema's shape
RefsPreserved == (act.a # "init" /\ NameChanging(act) /\ AllRefsResolve(pre)) => AllRefsResolve(cur)
ShapeOK == SelfRefsOK(cur) /\ NoDupObjects(cur)

Emit == act.a = "init" \/ PrintT(<<"EDGE", ToJson([pre |-> pre, act |-> act, post |-> cur, init |-> init0, hist |-> hist])>>)
===============================================================================
