------------------------------- MODULE HeapDup -------------------------------
(* C18, "in every duplicate rule": the universe of applications of cog's       *)
(* duplicate rules and what the property requires of each.                     *)
(*                                                                             *)
(* cog has three rules that duplicate a part of the intermediate               *)
(* representation: the schema transformation `duplicate_object` (an object,    *)
(* under another name, possibly in another package, possibly leaving fields    *)
(* out), the builder rule `duplicate` (a builder, under another name, possibly *)
(* leaving options out) and the option rule `duplicate` (an option, under      *)
(* another name).  A duplicate rule is a copy followed by the changes the rule *)
(* documents: the new name (and self reference), one trail entry, and the      *)
(* elements the configuration asks to leave out.  The property, read for such  *)
(* a rule:                                                                     *)
(*   Iso       the duplicate equals its source in every declared field, the    *)
(*             documented changes apart: what is kept is kept in the order of  *)
(*             the source, element by element equal (Kept below)               *)
(*   Disjoint  duplicate and source share no mutable structure - whatever the  *)
(*             configuration of the rule: nothing left out, something left     *)
(*             out, a list that leaves nothing out, everything left out        *)
(*   Snapshot  no transformation applied to the duplicate changes the source   *)
(*             (and none applied to the source changes the duplicate):         *)
(*             writes at every site (the plans of HeapMC) and the real         *)
(*             transformations of `follow`, aimed at one of the two by name    *)
(* One TLC state = one case; the Go worker realises it on the real rule.       *)
(* Which names the exclusion list folds is the rule's business (C15/C17), not  *)
(* this property's: the lists here name elements exactly or not at all.        *)
EXTENDS Integers, Sequences, FiniteSets, TLC, Json

CONSTANTS NSlices, Slice

KindRank == [scalar |-> 0, ref |-> 1, constant_ref |-> 2, composable_slot |-> 3, enum |-> 4,
             array |-> 5, map |-> 6, struct |-> 7, disjunction |-> 8, intersection |-> 9]
Kinds == DOMAIN KindRank

Rules == {"duplicate_object", "builder_duplicate", "option_duplicate"}

\* ---- what is duplicated: the kind chain of the types of the source (as in HeapShapes), how its slots are
\* populated and what its `any` slots hold
\* duplicate_object: an object of every kind, and a struct with fields of every kind; builders and options: the
\* kind of the types of their arguments, paths and of the object built
ObjectChains  == {<<k>> : k \in Kinds} \cup {<<"struct", k>> : k \in Kinds}
BuilderChains == {<<"struct">>, <<"scalar">>, <<"ref">>, <<"array", "scalar">>}
Combos == {<<"wellformed", "scalar">>, <<"wellformed", "slice">>, <<"wellformed", "map">>, <<"wellformed", "nested">>,
           <<"wellformed", "irnode">>, <<"saturated", "nested">>, <<"sparse", "slice">>, <<"nilled", "scalar">>,
           <<"emptied", "slice">>, <<"wide", "slice">>, <<"zeroed", "false">>}

\* ---- the exclusion list of the configuration: which elements (fields of the object, options of the builder)
\* it names.  "absent" names no element: the list is not empty and leaves nothing out.
Designators == {"first", "last", "absent", "all"}
ExclLists == {<<>>, <<"absent">>, <<"first">>, <<"last">>, <<"absent", "first">>, <<"first", "last">>, <<"all">>}
Excludable(rule) == rule # "option_duplicate"      \* the option rule has no exclusion list

MaxElems == 3                                      \* the fills give 0 .. 3 elements
Named(d, n) == IF n = 0 THEN {}
               ELSE CASE d = "first"  -> {1}
                      [] d = "last"   -> {n}
                      [] d = "all"    -> 1..n
                      [] d = "absent" -> {}
Excluded(ex, n) == UNION {Named(ex[i], n) : i \in 1..Len(ex)}
\* REQUIREMENT: of n elements the duplicate holds exactly those not named, in the order of the source
RECURSIVE Ascending(_, _)
Ascending(S, from) == IF S = {} THEN <<>>
                      ELSE LET m == CHOOSE x \in S : \A y \in S : x <= y IN <<m>> \o Ascending(S \ {m}, m)
Kept(ex, n) == Ascending((1..n) \ Excluded(ex, n), 0)
KeptTable(ex) == [i \in 1..(MaxElems + 1) |-> Kept(ex, i - 1)]    \* entry n + 1: what is kept of n elements

\* ---- where the duplicate goes (duplicate_object: the package of the source or another one)
Targets(rule) == IF rule = "duplicate_object" THEN {"same", "other"} ELSE {"same"}

\* ---- real transformations aimed by name at ONE of the two values after the rule (the other must not change):
\* schema transformations that take an object or a field reference.  needs: "object" (any kind), "struct" (the
\* target must be a struct), "field" (a struct with at least one kept field)
FollowPasses == {[pass |-> "hint_object", needs |-> "object"], [pass |-> "retype_object", needs |-> "object"],
                 [pass |-> "add_fields", needs |-> "struct"], [pass |-> "retype_field", needs |-> "field"],
                 [pass |-> "fields_set_required", needs |-> "field"], [pass |-> "fields_set_not_required", needs |-> "field"],
                 [pass |-> "fields_set_default", needs |-> "field"], [pass |-> "omit_fields", needs |-> "field"]}
Follow(rule, chain) ==
  IF rule # "duplicate_object" THEN {}
  ELSE {[pass |-> f.pass, needs |-> f.needs, through |-> a] :
          f \in {g \in FollowPasses : g.needs = "object" \/ chain[1] = "struct"}, a \in {"duplicate", "source"}}

ChainsOf(rule) == IF rule = "duplicate_object" THEN ObjectChains ELSE BuilderChains
RECURSIVE PosVal(_)
PosVal(s) == IF s = <<>> THEN 0 ELSE PosVal(SubSeq(s, 1, Len(s) - 1)) * 10 + KindRank[s[Len(s)]]

\* an exclusion list on a source without elements to exclude only matters as "empty list or not"
ExclFor(rule, chain) ==
  IF ~Excludable(rule) THEN {<<>>}
  ELSE IF rule = "duplicate_object" /\ chain[1] # "struct" THEN {<<>>, <<"absent">>}
  ELSE ExclLists

Cases == UNION {UNION {{[rule |-> r, chain |-> c, fill |-> fp[1], payload |-> fp[2], target |-> t, excl |-> ex,
                         keep |-> KeptTable(ex), follow |-> Follow(r, c)]
                        : fp \in Combos, t \in Targets(r), ex \in ExclFor(r, c)}
                       : c \in {x \in ChainsOf(r) : PosVal(x) % NSlices = Slice}} : r \in Rules}

\* sanity of the requirement itself (checked by TLC on the whole table)
KeptOK == \A ex \in ExclLists : \A n \in 0..MaxElems :
            LET k == Kept(ex, n) IN
            /\ \A i \in 1..Len(k) : k[i] \in 1..n /\ k[i] \notin Excluded(ex, n)
            /\ \A i \in 1..(Len(k) - 1) : k[i] < k[i + 1]
            /\ Len(k) = n - Cardinality(Excluded(ex, n))
            /\ (ex = <<>> \/ ex = <<"absent">>) => Len(k) = n
ASSUME KeptOK

VARIABLE case
Init == case \in Cases
Next == UNCHANGED case
Spec == Init /\ [][Next]_case
Emit == PrintT(<<"DUPCASE", ToJson(case)>>)
=============================================================================
