--------------------------- MODULE KindRegistryTrace ---------------------------
(* Trace validation of the kind-registry input: every record is one REAL Pipeline.LoadSchemas() on a registry tree written  *)
(* from a configuration of KindRegistryMC; TLC recomputes Expected(cfg) and names the clause a record violates.             *)
EXTENDS KindRegistry, Json

CONSTANTS Strict
Trace == ndJsonDeserialize("kindregistry_trace.ndjson")

VARIABLE l
TInit == l = 1
TNext == l <= Len(Trace) /\ l' = l + 1
TSpec == TInit /\ [][TNext]_l

Step == Trace[l - 1]
SetOf(s) == {s[i] : i \in DOMAIN s}
Cfg(r) == [r.cfg EXCEPT !.core = SetOf(@), !.composable = SetOf(@)]
KindOf(x) == [x EXCEPT !.objs = SetOf(@)]
CfgK(r) == [Cfg(r) EXCEPT !.core = {KindOf(k) : k \in @}, !.composable = {KindOf(k) : k \in @}]
Real(r) == {[pkg |-> r.real.pkgs[i].pkg, meta |-> r.real.pkgs[i].meta, objects |-> SetOf(r.real.pkgs[i].objects), entry |-> r.real.pkgs[i].entry] :
              i \in DOMAIN r.real.pkgs}
Exp(r) == Expected(CfgK(r))
OutcomeOK(r) == r.real.err = Exp(r).err
PackagesOK(r) == (~r.real.err /\ ~Exp(r).err) => {s.pkg : s \in Real(r)} = {s.pkg : s \in Exp(r).schemas}
MetaOK(r) == (~r.real.err /\ ~Exp(r).err /\ PackagesOK(r)) => {<<s.pkg, s.meta>> : s \in Real(r)} = {<<s.pkg, s.meta>> : s \in Exp(r).schemas}
ObjectsOK(r) == (~r.real.err /\ ~Exp(r).err /\ PackagesOK(r)) =>
                   {<<s.pkg, s.objects, s.entry>> : s \in Real(r)} = {<<s.pkg, s.objects, s.entry>> : s \in Exp(r).schemas}
Violated(r) == IF r.real.crash THEN {"Crash"}
               ELSE (IF OutcomeOK(r) THEN {} ELSE {"K1K6-outcome"}) \cup (IF PackagesOK(r) THEN {} ELSE {"K2-packages"})
                    \cup (IF MetaOK(r) THEN {} ELSE {"K3K4-metadata"}) \cup (IF ObjectsOK(r) THEN {} ELSE {"K2K5-objects"})
Verdict == l = 1 \/ Violated(Step) = {} \/ (~Strict /\ PrintT(<<"FAIL", ToJson([l |-> l - 1, violated |-> Violated(Step)])>>))
Done == l = Len(Trace) + 1 => PrintT(<<"CONSUMED", l - 1>>)
================================================================================
