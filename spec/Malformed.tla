-------------------------------- MODULE Malformed --------------------------------
(* C04 - no input or configuration makes cog panic or hang (DESIGN 6 C04).        *)
(*                                                                                *)
(*   "For any byte sequence offered as a JSON Schema, OpenAPI or CUE input, any   *)
(*    YAML offered as pipeline, schema-transformation or builder-transformation   *)
(*    configuration, and any combination of requested outputs, a run terminates   *)
(*    in bounded time and either returns generated files or returns an error. It  *)
(*    never panics, dereferences nil, fails a type assertion, indexes out of      *)
(*    range or overflows the stack."                                              *)
(*                                                                                *)
(* The requirement is one line (Outcome below). What the specification adds is    *)
(* the input universe: STRUCTURALLY malformed documents as abstract mutations of  *)
(* well-formed ones. A document is a JSON value (YAML configuration is written    *)
(* in YAML's JSON subset); a site is any object member or array element at any    *)
(* depth; every site is                                                           *)
(*     absent      removed,                                                       *)
(*     ill-typed   replaced by a value of another JSON kind,                      *)
(*     degenerate  replaced by a value of the same kind taken from the family's   *)
(*                 alphabet of degenerate spellings (empty, negative, dangling or *)
(*                 cyclic reference, tuple form, wrong keyword value, ...).       *)
(* CUE is text: its universe is an alphabet of well-formed and degenerate         *)
(* expressions placed at every structural position of a well-formed file.         *)
(* Documents are printed by MalformedMC as CASE lines; arbitrary byte sequences   *)
(* are outside what TLC can enumerate (DESIGN 8): the harness adds a seeded       *)
(* byte-level sample on top, labelled as sampling.                                *)
EXTENDS Semantics      \* JSON values: JNull JBool JNum JInt JStr JArr JObj P

\* ------------------------------------------------------------------ the requirement
\* outcome of one run: "files" | "error" | "panic" | "crash" (the process died: stack overflow, fatal error) | "timeout"
\* (the same input exceeded the bound twice) | "timeout-once" (exceeded once and was not run again: reading rule of
\* DESIGN 6.0, "only reported after the same input timed out twice" - neither a regular outcome nor a violation)
Outcome(r)   == r.outcome \in {"files", "error"}
BoundedMs    == 20000       \* CPU time of the process running the case (r.ms), so that the verdict does not depend on the load of the machine
Slack        == 1000        \* sampling period of the watchdog
InTime(r)    == r.ms <= BoundedMs + Slack
C04Holds(r)  == Outcome(r) /\ InTime(r)
Violated(r)  == (IF r.outcome \in {"panic", "crash"} THEN {"panic"} ELSE {})
                \cup (IF r.outcome = "timeout" \/ (r.outcome \in {"files", "error"} /\ ~InTime(r)) THEN {"hang"} ELSE {})
                \cup (IF r.outcome \notin {"files", "error", "panic", "crash", "timeout", "timeout-once"} THEN {"ill-typed-record"} ELSE {})

\* ------------------------------------------------------------------ sites and edits of a JSON value
\* a path is a sequence of steps [o |-> i] (i-th member of an object) / [a |-> i] (i-th element of an array)
RECURSIVE Sites(_)
Sites(v) ==
  CASE v.j = "obj" -> UNION {{<<[s |-> "o", i |-> i]>>} \cup {<<[s |-> "o", i |-> i]>> \o p : p \in Sites(v.ps[i].v)} : i \in DOMAIN v.ps}
    [] v.j = "arr" -> UNION {{<<[s |-> "a", i |-> i]>>} \cup {<<[s |-> "a", i |-> i]>> \o p : p \in Sites(v.xs[i])} : i \in DOMAIN v.xs}
    [] OTHER -> {}

RECURSIVE AtPath(_, _)
AtPath(v, p) == IF p = <<>> THEN v
                ELSE IF p[1].s = "o" THEN AtPath(v.ps[p[1].i].v, Tail(p)) ELSE AtPath(v.xs[p[1].i], Tail(p))

RECURSIVE Replace(_, _, _)
Replace(v, p, new) ==
  IF p = <<>> THEN new
  ELSE IF p[1].s = "o"
       THEN JObj(ReplaceAt(v.ps, p[1].i, P(v.ps[p[1].i].k, Replace(v.ps[p[1].i].v, Tail(p), new))))
       ELSE JArr(ReplaceAt(v.xs, p[1].i, Replace(v.xs[p[1].i], Tail(p), new)))

RECURSIVE Remove(_, _)
Remove(v, p) ==
  IF Len(p) = 1
  THEN IF p[1].s = "o" THEN JObj(RemoveAt(v.ps, p[1].i)) ELSE JArr(RemoveAt(v.xs, p[1].i))
  ELSE IF p[1].s = "o"
       THEN JObj(ReplaceAt(v.ps, p[1].i, P(v.ps[p[1].i].k, Remove(v.ps[p[1].i].v, Tail(p)))))
       ELSE JArr(ReplaceAt(v.xs, p[1].i, Remove(v.xs[p[1].i], Tail(p))))

\* the keyword a site belongs to: the key of the innermost object member on the path
RECURSIVE KeyPath(_, _)
KeyPath(v, p) ==
  IF p = <<>> THEN <<>>
  ELSE IF p[1].s = "o" THEN <<v.ps[p[1].i].k>> \o KeyPath(v.ps[p[1].i].v, Tail(p))
       ELSE <<"#" \o ToString(p[1].i - 1)>> \o KeyPath(v.xs[p[1].i], Tail(p))
Keyword(v, p) == LET kp == KeyPath(v, p)
                     named == {i \in DOMAIN kp : p[i].s = "o"}
                 IN IF named = {} THEN "#" ELSE kp[CHOOSE i \in named : \A j \in named : j <= i]

Kind(v) == v.j
\* mutation = absent | replacement by the n-th value of the family's alphabet
MutClass(orig, new) == IF Kind(orig) # Kind(new) THEN "ill-typed" ELSE "degenerate"

Mutants(doc, alphabet) ==
  {[path |-> p, mut |-> 0] : p \in Sites(doc)}
  \cup UNION {{[path |-> p, mut |-> n] : n \in {k \in DOMAIN alphabet : alphabet[k] # AtPath(doc, p)}} : p \in Sites(doc)}

Apply(doc, alphabet, m) == IF m.mut = 0 THEN Remove(doc, m.path) ELSE Replace(doc, m.path, alphabet[m.mut])
ClassOf(doc, alphabet, m) == IF m.mut = 0 THEN "absent" ELSE MutClass(AtPath(doc, m.path), alphabet[m.mut])
===============================================================================
