CONSTANTS
  Mode = "index"
  Ids = {1}
  Fuel = 3
SPECIFICATION DSpec
INVARIANTS DEmit
CHECK_DEADLOCK FALSE
