------------------------------ MODULE BuilderTrace ------------------------------
(* Trace validation for C09 and C14: TLC re-runs the builder machine on what the    *)
(* REAL generated builders / converters did.                                        *)
(*                                                                                   *)
(*  entries.json   sequence of [schema, builders]: the catalogue entries in use      *)
(*  defaults.json  sequence of sequences [key, obj]: the REAL freshly constructed    *)
(*                 default object of every builder type of one (package, language)   *)
(*  trace.ndjson   one record per real run:                                          *)
(*    kind "seq"   (C09) a call sequence: ei, di, lang, seq [o, as], real = [obj,    *)
(*                 hasObj, hasVerdict, built, hasBuilt, fails, raised, stable], judge = [build]           *)
(*                 (build = FALSE when a failed nested builder's target was assigned  *)
(*                 again later: the property does not say whether Build() must still  *)
(*                 report it)                                                          *)
(*    kind "fresh" (C09) the object of a builder that was given no option and the     *)
(*                 object's own default object: ei, di, key, typeDefault, fresh        *)
(*    kind "conv"  (C14) a value and what the compiled converter output rebuilt:      *)
(*                 ei, di, key, v, hasR, r                                             *)
(*    kind "node"  (C14) one builder call chain of a converter output: ei, di, key,   *)
(*                 v (the value the chain stands for), counts [n, c]                   *)
(* Report mode prints one FAIL line per violating record; Strict stops.               *)
EXTENDS BuilderMachine, Json

CONSTANTS Strict
Trace    == ndJsonDeserialize("trace.ndjson")
Entries  == JsonDeserialize("entries.json")
Defaults == JsonDeserialize("defaults.json")

VARIABLE l
TInit == l = 1
TNext == l <= Len(Trace) /\ l' = l + 1
TSpec == TInit /\ [][TNext]_l

Step == Trace[l - 1]
SOf(r) == DefsFn(Entries[r.ei].schema)
BOf(r) == LET bs == Entries[r.ei].builders IN [k \in {bs[i].key : i \in DOMAIN bs} |-> bs[CHOOSE i \in DOMAIN bs : bs[i].key = k]]
DOf(r) == LET ds == Defaults[r.di] IN [k \in {ds[i].key : i \in DOMAIN ds} |-> ds[CHOOSE i \in DOMAIN ds : ds[i].key = k].obj]

(* ------------------------------- C09 ---------------------------------- *)
Exp(r) == LET b == BOf(r)["Root"] S == SOf(r) IN
          Run(r.lang, S, DOf(r), "Root", S["Root"], b.ctor, b.opts, r.seq, InitAcc(DOf(r), "Root"))
SeqViolated(r) ==
  LET e     == Exp(r)
      fails == BuildFails(r.lang, SOf(r), SOf(r)["Root"], e.st)
      \* reported where the property says: python by the option call, go by Build()
      notReported ==
        \/ \E i \in DOMAIN r.real.raised : e.raised[i] /\ ~r.real.raised[i]
        \/ (r.judge.build /\ r.real.hasVerdict /\ fails /\ ~r.real.fails)
      spurious ==
        \/ \E i \in DOMAIN r.real.raised : ~e.raised[i] /\ r.real.raised[i]
        \/ (r.judge.build /\ r.real.hasVerdict /\ ~fails /\ r.real.fails)
      sameRaised == \A i \in DOMAIN r.real.raised : e.raised[i] = r.real.raised[i]
      \* the object differs from the default exactly at the options' targets (the expected object IS the default
      \* with exactly those assignments); judged for sequences whose arguments all satisfy the schema (after a
      \* constraint-violating argument / a failing nested builder the property only demands the report)
      allGood == \A i \in DOMAIN e.bad : ~e.bad[i]
      exact == (r.real.hasObj /\ sameRaised /\ allGood) =>
                 (SameObj(r.real.obj, e.st.obj) /\ (r.real.hasBuilt => SameObj(r.real.built, e.st.obj)))
      consts == r.real.hasObj => ConstsOK(SOf(r), SOf(r)["Root"], r.real.obj)
  IN   (IF notReported THEN {"NotReported"} ELSE {})
  \cup (IF spurious THEN {"SpuriousError"} ELSE {})
  \cup (IF exact THEN {} ELSE {"Exact"})
  \cup (IF consts THEN {} ELSE {"Consts"})
  \* Build() is a function of the builder's state and a fresh builder starts from the default whatever happened before:
  \* recorded by the driver (second Build(), the same calls on a second fresh builder, the fresh object over the process)
  \cup (IF r.real.stable THEN {} ELSE {"Stable"})

(* ------------------------------- C14 ---------------------------------- *)
ConvViolated(r) ==
  IF ~r.hasR THEN {"NoObject"}
  ELSE IF RebuildOK(TypeOfKey(Entries[r.ei].schema, r.key), DOf(r), r.key, r.v, r.r) THEN {} ELSE {"Rebuild"}
NodeViolated(r) ==
  IF NotOnce(SOf(r), TypeOfKey(Entries[r.ei].schema, r.key), DOf(r), r.key, BOf(r)[r.key], r.v, r.counts) = {} THEN {} ELSE {"Once"}

\* "the freshly constructed default object": a builder that was given no option holds the object's OWN default object plus
\* what its constructor is told to set (constants are in both; `initialize` veneers = rules of kind "init")
RECURSIVE ApplyInits(_, _, _, _, _, _)
ApplyInits(S, D, key, t, obj, rules) ==
  IF rules = <<>> THEN obj
  ELSE LET r == Head(rules) IN
       ApplyInits(S, D, key, t,
                  IF r.k = "init" /\ r.obj = key THEN ApplyAt(S, D, key, t, obj, Tail(r.fields), "direct", ConstOfText(Unwrap(S, TypeAt(S, key, t, Tail(r.fields)).t), r.fields[1]), NoJ) ELSE obj,
                  Tail(rules))
FreshViolated(r) ==
  IF SameObj(ApplyInits(SOf(r), DOf(r), r.key, TypeOfKey(Entries[r.ei].schema, r.key), r.typeDefault, Entries[r.ei].rules), r.fresh)
  THEN {} ELSE {"Fresh"}

Violated(r) == CASE r.kind = "seq" -> SeqViolated(r) [] r.kind = "fresh" -> FreshViolated(r) [] r.kind = "conv" -> ConvViolated(r) [] r.kind = "node" -> NodeViolated(r)

Verdict == l = 1 \/ Violated(Step) = {} \/
           (~Strict /\ PrintT(<<"FAIL", ToJson([l |-> l - 1, violated |-> Violated(Step)])>>))
Done == l = Len(Trace) + 1 => PrintT(<<"CONSUMED", l - 1>>)
===============================================================================
