------------------------------- MODULE HeapMC -------------------------------
(* Design-level exploration for C18.                                          *)
(*                                                                            *)
(* Over small template heaps that contain every kind of edge a Go IR value    *)
(* has (scalar field, slice with spare capacity, map, pointer to a struct     *)
(* holding a slice, struct nested by value holding a slice, `any` payload     *)
(* holding a slice, `any` payload holding a map holding a slice, two fields   *)
(* aliasing one array), TLC takes EVERY copy routine of the family            *)
(*   per reference slot: copy deeply | share the original's cell | forget it  *)
(*   per chosen scalar slot: keep | forget it                                 *)
(* and then every sequence of at most MaxMut mutations of the copy.           *)
(*                                                                            *)
(*  (a) Safe: a copy that satisfied Iso and Disjoint when it was made is      *)
(*      immune: Snapshot(original) never changes.  (Design-level proof, for   *)
(*      this bounded universe, that the two static clauses imply the third.)  *)
(*  (b) Reveal: for every copy routine with exactly ONE defect, the mutation  *)
(*      sequences that make the defect visible in the original are printed;   *)
(*      the check derives from them the MUTATION PLAN executed on real        *)
(*      copies, and verifies that every sharing defect has a revealing plan   *)
(*      (otherwise the dynamic clause could not be observed: inconclusive).   *)
EXTENDS Heap, Json

CONSTANTS MaxMut

\* ---- templates -----------------------------------------------------------
Cell(kind, cap, slots) == [kind |-> kind, cap |-> cap, slots |-> slots]
Inl(c) == Ref("inl", c, 0)

T1 == [ o    |-> Cell("inl", 0, [name |-> Scalar("n"), items |-> Ref("slice", "a1", 2), attrs |-> Ref("map", "m1", 0),
                                 next |-> Ref("ptr", "p1", 0), any |-> Ref("slice", "a3", 1), inner |-> Inl("oin")]),
        oin  |-> Cell("inl", 0, [label |-> Scalar("x"), tags |-> Ref("slice", "a4", 1)]),
        a1   |-> Cell("arr", 3, ("1" :> Scalar("i1")) @@ ("2" :> Scalar("i2"))),
        m1   |-> Cell("map", 0, [k |-> Scalar("v")]),
        p1   |-> Cell("obj", 0, [val |-> Scalar("pv"), list |-> Ref("slice", "a2", 1)]),
        a2   |-> Cell("arr", 1, ("1" :> Scalar("l1"))),
        a3   |-> Cell("arr", 2, ("1" :> Scalar("y1"))),
        a4   |-> Cell("arr", 2, ("1" :> Scalar("t1"))) ]

\* aliasing inside the original, nested `any` payload (map holding a slice), an empty slice with capacity
T2 == [ o    |-> Cell("inl", 0, [a |-> Ref("slice", "x", 1), b |-> Ref("slice", "x", 1), any |-> Ref("map", "m", 0),
                                 e |-> Ref("slice", "z", 0), none |-> Nil]),
        x    |-> Cell("arr", 1, ("1" :> Scalar("x1"))),
        m    |-> Cell("map", 0, [k |-> Ref("slice", "y", 1)]),
        y    |-> Cell("arr", 2, ("1" :> Scalar("y1"))),
        z    |-> Cell("arr", 1, <<>>) ]

Templates == <<T1, T2>>
\* inline cells are copied with their container, never chosen
InlineId == [o |-> "k", oin |-> "kin"]
\* scalar slots the copy routine may forget (one in the root, one behind a pointer)
Droppable == {<<"o", "name">>, <<"p1", "val">>}

\* ---- the family of copy routines -------------------------------------------
CopyId(c) == IF c \in DOMAIN InlineId THEN InlineId[c] ELSE c \o "'"
RefSlots(T) == {p \in UNION {{<<c, l>> : l \in DOMAIN T[c].slots} : c \in DOMAIN T} :
                  T[p[1]].slots[p[2]].t \in {"slice", "map", "ptr"}}
ChoiceSlots(T) == RefSlots(T) \cup (Droppable \cap UNION {{<<c, l>> : l \in DOMAIN T[c].slots} : c \in DOMAIN T})
Choices(T) == {ch \in [ChoiceSlots(T) -> {"deep", "share", "drop"}] :
                 \A p \in ChoiceSlots(T) : T[p[1]].slots[p[2]].t = "s" => ch[p] # "share"}

CopyVal(v, how) ==
  IF v.t = "s" THEN (IF how = "drop" THEN Scalar("") ELSE v)
  ELSE IF v.t = "nil" THEN v
  ELSE IF v.t = "inl" THEN [v EXCEPT !.c = CopyId(v.c)]
  ELSE IF how = "deep" THEN [v EXCEPT !.c = CopyId(v.c)]
  ELSE IF how = "share" THEN v
  ELSE Nil
How(T, ch, c, l) == IF <<c, l>> \in DOMAIN ch THEN ch[<<c, l>>] ELSE "deep"
\* the heap after copying: the original's cells plus one primed cell per original cell
Copied(T, ch) ==
  LET new == [c2 \in {CopyId(c) : c \in DOMAIN T} |->
                LET c == CHOOSE c \in DOMAIN T : CopyId(c) = c2 IN
                  [T[c] EXCEPT !.slots = [l \in DOMAIN T[c].slots |-> CopyVal(T[c].slots[l], How(T, ch, c, l))]]]
  IN new @@ T

O == Inl("o")
K == Inl("k")

VARIABLES h,      \* the heap
          hist,   \* mutations applied to the copy so far
          cfg     \* constant part of the behaviour: template number, choice, verdict of the static clauses
vars == <<h, hist, cfg>>

\* choices below a slot that is not copied deeply are irrelevant: fix them to "deep" (canonical form)
Canonical(T, ch) ==
  \A p \in DOMAIN ch : ch[p] # "deep" /\ T[p[1]].slots[p[2]].t # "s" =>
       \A q \in DOMAIN ch : q[1] \in ReachV(T, T[p[1]].slots[p[2]]) => ch[q] = "deep"

Init == \E i \in 1..Len(Templates) : \E ch \in Choices(Templates[i]) :
          /\ Canonical(Templates[i], ch)
          /\ h = Copied(Templates[i], ch)
          /\ hist = <<>>
          /\ cfg = [tpl  |-> i,
                    iso  |-> IsoV(Copied(Templates[i], ch), O, K),
                    disj |-> Disjoint(Copied(Templates[i], ch), O, K),
                    defects |-> {<<p[1], p[2], ch[p]>> : p \in {q \in DOMAIN ch : ch[q] # "deep"}}]

Next == /\ Len(hist) < MaxMut
        /\ \E m \in Sites(h, K) : h' = ApplyMut(h, m) /\ hist' = Append(hist, m)
        /\ UNCHANGED cfg
Spec == Init /\ [][Next]_vars

Snap0 == Snapshot(Templates[cfg.tpl], O)
Changed == Snapshot(h, O) # Snap0

\* (a) the static clauses imply the dynamic one
Safe == (cfg.iso /\ cfg.disj) => ~Changed
\* the static clauses classify the copy routines exactly: faithful <=> nothing forgotten, disjoint <=> nothing shared
\* (forgetting a nil or an empty slice is not a defect: DESIGN 6.0)
ClassifyOK == /\ cfg.disj <=> ~\E d \in cfg.defects : d[3] = "share" /\ ~(LET v == Templates[cfg.tpl][d[1]].slots[d[2]] IN v.t = "slice" /\ v.n = 0)
              /\ cfg.iso  <=> ~\E d \in cfg.defects : d[3] = "drop" /\ ~Empty(Templates[cfg.tpl], Templates[cfg.tpl][d[1]].slots[d[2]])
\* a copy may be observed to change the original only through a shared cell
OnlySharingLeaks == Changed => ~cfg.disj

\* (b) which mutation sequences reveal which single defect
Ops(s) == [i \in 1..Len(s) |-> s[i].op]
Reveal == (Cardinality(cfg.defects) = 1 /\ hist # <<>>) =>
            PrintT(<<"REVEAL", ToJson([tpl |-> cfg.tpl, defect |-> CHOOSE d \in cfg.defects : TRUE,
                                       ops |-> Ops(hist), changed |-> Changed, disj |-> cfg.disj, iso |-> cfg.iso,
                                       lastcell |-> hist[Len(hist)].c])>>)
=============================================================================
