------------------------------- MODULE HeapMC -------------------------------
(* Design-level exploration for C18.                                          *)
(*                                                                            *)
(* Over small template heaps that contain every kind of edge a Go IR value    *)
(* has (scalar field, slice with spare capacity, map, pointer to a struct     *)
(* holding a slice, struct nested by value holding a slice, `any` payload     *)
(* holding a slice, `any` payload holding a map holding a slice, two fields   *)
(* aliasing one array, an EMPTY slice with spare capacity), TLC takes every   *)
(* copy routine of the family                                                 *)
(*   per reference slot: copy deeply | share the original's cell | forget it  *)
(*   per chosen scalar slot: keep | forget it                                 *)
(* (at most MaxDefects slots not copied deeply), applies it TWICE to the same *)
(* original (copies k and k2, as cog does once per output language), and then *)
(* every sequence of at most MaxMut mutations, each performed through one of  *)
(* the three values (actor).  After every step the snapshots of the two       *)
(* values that were NOT mutated must be unchanged.                            *)
(*                                                                            *)
(*  (a) Safe: copies that satisfied Iso and Disjoint when they were made are  *)
(*      independent: no step through one value is visible in another.         *)
(*  (b) Reveal: for every copy routine with exactly ONE defect, the mutation  *)
(*      sequences that make the defect visible are printed; the check derives *)
(*      from them the MUTATION PLANS executed on real copies (a core set that *)
(*      covers every defect class, the rest in rotation) and verifies that    *)
(*      every sharing defect has a revealing plan.  E.g. sharing an empty     *)
(*      slice with spare capacity is only revealed by two values appending.   *)
EXTENDS Heap, Json

CONSTANTS MaxMut, MaxDefects

\* ---- templates -----------------------------------------------------------
Cell(kind, cap, slots) == [kind |-> kind, cap |-> cap, slots |-> slots]
Inl(c) == Ref("inl", c, 0)

T1 == [ o    |-> Cell("inl", 0, [name |-> Scalar("n"), items |-> Ref("slice", "a1", 2), attrs |-> Ref("map", "m1", 0),
                                 next |-> Ref("ptr", "p1", 0), any |-> Ref("slice", "a3", 1), inner |-> Inl("oin")]),
        oin  |-> Cell("inl", 0, [label |-> Scalar("x"), tags |-> Ref("slice", "a4", 1)]),
        a1   |-> Cell("arr", 3, ("1" :> Scalar("i1")) @@ ("2" :> Scalar("i2"))),
        m1   |-> Cell("map", 0, [k |-> Scalar("v")]),
        p1   |-> Cell("obj", 0, [val |-> Scalar("pv"), list |-> Ref("slice", "a2", 1)]),
        a2   |-> Cell("arr", 1, ("1" :> Scalar("l1"))),
        a3   |-> Cell("arr", 2, ("1" :> Scalar("y1"))),
        a4   |-> Cell("arr", 2, ("1" :> Scalar("t1"))) ]

\* aliasing inside the original, nested `any` payload (map holding a slice), an empty slice with capacity
T2 == [ o    |-> Cell("inl", 0, [a |-> Ref("slice", "x", 1), b |-> Ref("slice", "x", 1), any |-> Ref("map", "m", 0),
                                 e |-> Ref("slice", "z", 0), none |-> Nil]),
        x    |-> Cell("arr", 1, ("1" :> Scalar("x1"))),
        m    |-> Cell("map", 0, [k |-> Ref("slice", "y", 1)]),
        y    |-> Cell("arr", 2, ("1" :> Scalar("y1"))),
        z    |-> Cell("arr", 1, <<>>) ]

Templates == <<T1, T2>>
\* inline cells are copied with their container, never chosen
InlineId == [o |-> [k |-> "k", k2 |-> "k2"], oin |-> [k |-> "kin", k2 |-> "k2in"]]
\* scalar slots the copy routine may forget (one in the root, one behind a pointer)
Droppable == {<<"o", "name">>, <<"p1", "val">>}

\* ---- the family of copy routines -------------------------------------------
Suffix == [k |-> "'", k2 |-> "''"]
CopyId(c, w) == IF c \in DOMAIN InlineId THEN InlineId[c][w] ELSE c \o Suffix[w]
RefSlots(T) == {p \in UNION {{<<c, l>> : l \in DOMAIN T[c].slots} : c \in DOMAIN T} :
                  T[p[1]].slots[p[2]].t \in {"slice", "map", "ptr"}}
ChoiceSlots(T) == RefSlots(T) \cup (Droppable \cap UNION {{<<c, l>> : l \in DOMAIN T[c].slots} : c \in DOMAIN T})
Choices(T) == {ch \in [ChoiceSlots(T) -> {"deep", "share", "drop"}] :
                 \A p \in ChoiceSlots(T) : T[p[1]].slots[p[2]].t = "s" => ch[p] # "share"}

CopyVal(v, how, w) ==
  IF v.t = "s" THEN (IF how = "drop" THEN Scalar("") ELSE v)
  ELSE IF v.t = "nil" THEN v
  ELSE IF v.t = "inl" THEN [v EXCEPT !.c = CopyId(v.c, w)]
  ELSE IF how = "deep" THEN [v EXCEPT !.c = CopyId(v.c, w)]
  ELSE IF how = "share" THEN v
  ELSE Nil
How(T, ch, c, l) == IF <<c, l>> \in DOMAIN ch THEN ch[<<c, l>>] ELSE "deep"
\* the cells of copy w: one per original cell
CopyOf(T, ch, w) ==
  [c2 \in {CopyId(c, w) : c \in DOMAIN T} |->
     LET c == CHOOSE c \in DOMAIN T : CopyId(c, w) = c2 IN
       [T[c] EXCEPT !.slots = [l \in DOMAIN T[c].slots |-> CopyVal(T[c].slots[l], How(T, ch, c, l), w)]]]
\* the heap after copying twice with the same routine
Copied(T, ch) == CopyOf(T, ch, "k") @@ CopyOf(T, ch, "k2") @@ T

Root == [o |-> Inl("o"), k |-> Inl("k"), k2 |-> Inl("k2")]
Values == DOMAIN Root
O == Root["o"]
K == Root["k"]

VARIABLES h,      \* the heap
          hist,   \* mutations applied so far (each with its actor)
          leaks,  \* <<actor, victim>>: a step through actor changed the snapshot of victim
          cfg     \* constant part of the behaviour: template number, verdict of the static clauses, defects
vars == <<h, hist, leaks, cfg>>

\* choices below a slot that is not copied deeply are irrelevant: fix them to "deep" (canonical form)
Canonical(T, ch) ==
  \A p \in DOMAIN ch : ch[p] # "deep" /\ T[p[1]].slots[p[2]].t # "s" =>
       \A q \in DOMAIN ch : q[1] \in ReachV(T, T[p[1]].slots[p[2]]) => ch[q] = "deep"

NonDeep(ch) == {q \in DOMAIN ch : ch[q] # "deep"}
PairwiseDisjoint(hh) == /\ Disjoint(hh, Root["o"], Root["k"]) /\ Disjoint(hh, Root["o"], Root["k2"])
                        /\ Disjoint(hh, Root["k"], Root["k2"])

Init == \E i \in 1..Len(Templates) : \E ch \in Choices(Templates[i]) :
          /\ Canonical(Templates[i], ch)
          /\ Cardinality(NonDeep(ch)) <= MaxDefects
          /\ h = Copied(Templates[i], ch)
          /\ hist = <<>>
          /\ leaks = {}
          /\ cfg = [tpl  |-> i,
                    iso  |-> IsoV(Copied(Templates[i], ch), O, K) /\ IsoV(Copied(Templates[i], ch), O, Root["k2"]),
                    disj |-> PairwiseDisjoint(Copied(Templates[i], ch)),
                    defects |-> {<<p[1], p[2], ch[p]>> : p \in NonDeep(ch)}]

\* the two copies are interchangeable: the first step is taken through the original or the first copy
Actors == IF hist = <<>> THEN {"o", "k"} ELSE Values
Next == /\ Len(hist) < MaxMut
        /\ \E a \in Actors : \E m \in Sites(h, Root[a], a) :
             /\ h' = ApplyMut(h, m)
             /\ hist' = Append(hist, m)
             /\ leaks' = leaks \cup {<<a, v>> : v \in {w \in Values \ {a} :
                                         Snapshot(ApplyMut(h, m), Root[w]) # Snapshot(h, Root[w])}}
        /\ UNCHANGED cfg
Spec == Init /\ [][Next]_vars

\* (a) the static clauses imply the dynamic one, for every pair of values and both directions
Safe == (cfg.iso /\ cfg.disj) => leaks = {}
\* the static clauses classify the copy routines exactly: faithful <=> nothing non-empty forgotten,
\* disjoint <=> nothing shared (forgetting a nil or an empty slice is not a defect: DESIGN 6.0)
ClassifyOK == /\ cfg.disj <=> ~\E d \in cfg.defects : d[3] = "share"
              /\ cfg.iso  <=> ~\E d \in cfg.defects : d[3] = "drop" /\ ~Empty(Templates[cfg.tpl], Templates[cfg.tpl][d[1]].slots[d[2]])
\* one value may be observed to change another only through a shared cell
OnlySharingLeaks == leaks # {} => ~cfg.disj

\* (b) which mutation sequences reveal which single defect
Steps(s) == [i \in 1..Len(s) |-> [a |-> s[i].a, op |-> s[i].op]]
Single == Cardinality(cfg.defects) = 1
Reveal == /\ (Single /\ hist = <<>>) =>
               PrintT(<<"DEFECT", ToJson([tpl |-> cfg.tpl, defect |-> CHOOSE d \in cfg.defects : TRUE, disj |-> cfg.disj, iso |-> cfg.iso])>>)
          /\ (Single /\ leaks # {}) =>
               PrintT(<<"REVEAL", ToJson([tpl |-> cfg.tpl, defect |-> CHOOSE d \in cfg.defects : TRUE,
                                          plan |-> Steps(hist), leaks |-> {p[1] \o ">" \o p[2] : p \in leaks}])>>)
=============================================================================
