-------------------------- MODULE PipelineFilesTrace --------------------------
(* Trace validation of the file-set algebra: every record is one REAL codegen.Pipeline.Run() for a configuration     *)
(* (languages, output.directory pattern, repository templates, extra-file templates, flags); `real` = whether the     *)
(* run failed, the paths it produced, and whether every generated file has the bytes the language produces alone.     *)
EXTENDS PipelineFiles

CONSTANTS Strict
Trace == ndJsonDeserialize("fileset_trace.ndjson")

VARIABLE l
TInit == l = 1
TNext == l <= Len(Trace) /\ l' = l + 1
TSpec == TInit /\ [][TNext]_l

Step == Trace[l - 1]
Cfg(r) == [langs |-> Range(r.cfg.langs), dir |-> r.cfg.dir, repo |-> r.cfg.repo, extra |-> r.cfg.extra, flags |-> r.cfg.flags]
(* two producers of one path: the run fails, nothing is silently overwritten; no collision: the run succeeds *)
OutcomeOK(r) == r.real.err = Expected(Cfg(r)).err
(* the files are exactly the disjoint union under the roots *)
PathsOK(r) == (~r.real.err /\ ~Expected(Cfg(r)).err) => Range(r.real.paths) = Expected(Cfg(r)).paths
(* and each language's files are byte-identical to what it generates alone *)
ContentOK(r) == (~r.real.err) => r.real.same_content
Violated(r) == (IF OutcomeOK(r) THEN {} ELSE {"Outcome"}) \cup (IF PathsOK(r) THEN {} ELSE {"Paths"}) \cup (IF ContentOK(r) THEN {} ELSE {"Content"})
Verdict == l = 1 \/ Violated(Step) = {} \/ (~Strict /\ PrintT(<<"FAIL", ToJson([l |-> l - 1, violated |-> Violated(Step)])>>))
Done == l = Len(Trace) + 1 => PrintT(<<"CONSUMED", l - 1>>)
===============================================================================
