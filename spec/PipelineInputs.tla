--------------------------- MODULE PipelineInputs ---------------------------
(* Growth of Pipeline.tla (DESIGN Appendix E.4): what LoadSchemas must be, as a function of the pipeline file, *)
(* the parameter environment and the inputs:                                                                  *)
(*                                                                                                            *)
(*   LoadSchemas = Common( Consolidate( concat over the inputs i whose `if` holds of                           *)
(*                                         Transform_i( Filter_i( Parse_i ) ) ) )                             *)
(*                                                                                                            *)
(*   - parameters: file `parameters:` overridden key by key by the CLI ones; `%name%` is replaced in `if`,     *)
(*     the input location, `package`, `allowed_objects`, `transformations` and the pipeline's transformation   *)
(*     lists; an undefined parameter leaves `%name%` as it is                                                  *)
(*   - `if`: empty or true -> the input is loaded; false -> it contributes NOTHING; a value that is not a      *)
(*     boolean, or an expression that does not compile -> the run fails (never a silent skip)                  *)
(*   - per-input allowed_objects, then per-input transformations, BEFORE Consolidate; metadata per input       *)
(*   - Consolidate: same-package inputs merge into the union of their definitions or the run fails             *)
(* Every definition here is requirement level: the trace spec evaluates the same Expected on the cases the     *)
(* worker replayed on the real codegen.Pipeline.                                                               *)
EXTENDS Naturals, Sequences, FiniteSets, TLC

CONSTANTS VerRank        \* version string -> rank; 0 = not a semantic version ("main", an unreplaced %ver%)

Unset == "<unset>"
ParamNames == {"sel", "ver", "pkg", "obj", "tf"}
Resolve(env) == [k \in ParamNames |-> IF env.cli[k] # Unset THEN env.cli[k] ELSE env.file[k]]
(* a setting is a literal or a reference to one parameter *)
Val(s, R) == IF s.k = "lit" THEN s.v ELSE (IF R[s.p] = Unset THEN "%" \o s.p \o "%" ELSE R[s.p])

--------------------------------------------------------------------------------
(* `if` expressions (expr-lang with sprintf and semver in scope), by abstract kind:
     none            (no `if`)                         true / false / not_true ('!true')
     eq_sel_on       '"%sel%" == "on"'                 ne_sel_on   '"%sel%" != "on"'
     sprintf_sel     'sprintf("%s-x", "%sel%") == "on-x"'
     semver_ge       'semver("%ver%").MoreThanEqual(semver("v11.2.x"))'
     main_or_semver  '"%ver%" == "main" || semver("%ver%").MoreThanEqual(semver("v11.2.x"))'
     str  '"%sel%"'   num  '1 + 1'        (not boolean)
     syntax '"a" =='  unknown 'nosuch("x")' (do not compile)                                    *)
Conds == {"none", "true", "false", "not_true", "eq_sel_on", "ne_sel_on", "sprintf_sel", "semver_ge", "main_or_semver",
          "str", "num", "syntax", "unknown"}
B(b) == IF b THEN "T" ELSE "F"
Rank(v) == IF v \in DOMAIN VerRank THEN VerRank[v] ELSE 0
Eval(c, R) ==
  CASE c \in {"none", "true"} -> "T"
    [] c \in {"false", "not_true"} -> "F"
    [] c \in {"eq_sel_on", "sprintf_sel"} -> B(R["sel"] = "on")
    [] c = "ne_sel_on" -> B(R["sel"] # "on")
    [] c = "semver_ge" -> B(Rank(R["ver"]) >= Rank("v11.2.x"))
    [] c = "main_or_semver" -> B(R["ver"] = "main" \/ Rank(R["ver"]) >= Rank("v11.2.x"))
    [] c \in {"str", "num"} -> "nonbool"
    [] c \in {"syntax", "unknown"} -> "compile"

--------------------------------------------------------------------------------
(* Parse: what an input file defines (name -> definition tag). JSON Schema only keeps what its root reaches: the
   two-object input has a synthetic root "Both". A definition tag is the same for two inputs iff they define the object
   identically. *)
Names(in) ==
  CASE in.objs = "A"  -> [n \in {"A"} |-> "x"]
    [] in.objs = "Ay" -> [n \in {"A"} |-> "y"]
    [] in.objs = "AB" -> IF in.fmt = "js" THEN [n \in {"A", "B", "Both"} |-> IF n = "A" THEN "x" ELSE n]
                                          ELSE [n \in {"A", "B"} |-> IF n = "A" THEN "x" ELSE n]
Restrict(f, S) == [n \in DOMAIN f \cap S |-> f[n]]
(* allowed_objects: the listed objects and what they refer to (A and B refer to nothing) *)
Filter(objs, in, R) == IF in.allowed.k = "all" THEN objs ELSE Restrict(objs, {Val(in.allowed, R)})
(* per-input transformations: t1 = rename_object A -> Z ; t2 = add_object Extra, omit B *)
Transform(objs, in, R) ==
  IF in.tf.k = "none" THEN objs
  ELSE LET t == Val(in.tf, R) IN
       CASE t = "t1" -> IF "A" \in DOMAIN objs
                          THEN [n \in DOMAIN objs \ {"A"} |-> IF n = "Both" THEN "Both-refers-to-Z" ELSE objs[n]] @@ ("Z" :> objs["A"])
                          ELSE objs            \* the synthetic root refers to A: the rename rewrites that reference
         [] t = "t2" -> Restrict(objs, DOMAIN objs \ {"B"}) @@ ("Extra" :> "extra")
         [] OTHER -> objs
Loaded(in, R) == [pkg |-> Val(in.pkg, R), meta |-> in.meta, objs |-> Transform(Filter(Names(in), in, R), in, R)]

(* Consolidate *)
PkgsOf(ls) == {ls[i].pkg : i \in DOMAIN ls}
Group(ls, p) == SelectSeq(ls, LAMBDA s : s.pkg = p)
Collides(a, b) == \E n \in DOMAIN a \cap DOMAIN b : a[n] # b[n]
GroupConflict(g) == \E i, j \in DOMAIN g : i < j /\ (Collides(g[i].objs, g[j].objs) \/ g[i].meta # g[j].meta)
Conflict(ls) == \E p \in PkgsOf(ls) : GroupConflict(Group(ls, p))
UnionNames(g) == UNION {DOMAIN g[i].objs : i \in DOMAIN g}

Min(S) == CHOOSE m \in S : \A x \in S : m <= x
Gates(P, R) == [i \in DOMAIN P.inputs |-> Eval(P.inputs[i].cond, R)]
Expected(P, env) ==
  LET R == Resolve(env)
      g == Gates(P, R)
      bad == {i \in DOMAIN g : g[i] \in {"nonbool", "compile"}}
      idx == SelectSeq([i \in DOMAIN P.inputs |-> i], LAMBDA i : g[i] = "T")
      ls == [k \in DOMAIN idx |-> Loaded(P.inputs[idx[k]], R)]
  IN IF bad # {} THEN [err |-> g[Min(bad)], pkgs |-> {}]                 \* the first failing `if` in input order
     ELSE IF ls = <<>> THEN [err |-> "none", pkgs |-> {}]                \* every input skipped: nothing, and no error
     ELSE IF Conflict(ls) THEN [err |-> "conflict", pkgs |-> {}]
     ELSE [err |-> "none",
           pkgs |-> {[pkg |-> p, meta |-> Group(ls, p)[1].meta,
                      objects |-> UnionNames(Group(ls, p)) \cup (IF P.common THEN {"Common"} ELSE {})] : p \in PkgsOf(ls)}]

(* the literal expansion the worker builds for the differential comparison: which inputs remain, with which values *)
Expansion(P, env) ==
  LET R == Resolve(env) g == Gates(P, R) IN
  [i \in DOMAIN P.inputs |-> [gate |-> g[i], pkg |-> Val(P.inputs[i].pkg, R),
                              allowed |-> IF P.inputs[i].allowed.k = "all" THEN "all" ELSE Val(P.inputs[i].allowed, R),
                              tf |-> IF P.inputs[i].tf.k = "none" THEN "none" ELSE Val(P.inputs[i].tf, R)]]

--------------------------------------------------------------------------------
(* Laws of the requirement (checked by TLC over the whole bounded universe) *)
NoGateError(P, env) == \A i \in DOMAIN P.inputs : Eval(P.inputs[i].cond, Resolve(env)) \in {"T", "F"}
Kept(P, env) == [P EXCEPT !.inputs = SelectSeq(P.inputs, LAMBDA in : Eval(in.cond, Resolve(env)) # "F")]
(* a skipped input contributes nothing *)
SkipLaw(P, env) == Expected(Kept(P, env), env) = Expected(P, env)
(* a non-boolean or non-compiling `if` is an error, whatever else the pipeline contains *)
ErrorLaw(P, env) == ~NoGateError(P, env) => (Expected(P, env).err \in {"nonbool", "compile"} /\ Expected(P, env).pkgs = {})
(* CLI parameters override file parameters key by key, and that is all they do *)
OverrideLaw(P, env) == Expected(P, env) = Expected(P, [file |-> Resolve(env), cli |-> [k \in ParamNames |-> Unset]])
(* no error => every package is the union of what the loaded inputs of that package define (C07 merge clause) *)
UnionLaw(P, env) ==
  LET e == Expected(P, env) R == Resolve(env) IN
  (e.err = "none") => \A r \in e.pkgs :
      r.objects \ {"Common"} = UNION {DOMAIN Loaded(P.inputs[i], R).objs :
                                        i \in {k \in DOMAIN P.inputs : Eval(P.inputs[k].cond, R) = "T" /\ Val(P.inputs[k].pkg, R) = r.pkg}}
================================================================================
