----------------------------- MODULE ConfigLangTrace -----------------------------
(* Trace validation for C20.  One record = one document that went through a REAL *)
(* loader (codegen.PipelineFromFile, yaml.CompilerLoader.Load, yaml.VeneersLoader *)
(* .RewriterFrom) and through the reference validator on the published schema:    *)
(*   [file, nodes = the document as a tree (every mapping node: path + keys),     *)
(*    loader / published = "accept" | "reject", lclass / pclass = why rejected,   *)
(*    expl / expp = what the generator predicted ("none" for documents TLC did    *)
(*    not generate: the repository's own files and their injected variants)]      *)
(* The same definitions as the generator judge it:                                *)
(*   LoaderStrict    loader accepted <=> ShouldAccept(KLoader, doc)      (Strict) *)
(*   PublishedKeys   schema accepted <=> KeysOK(KPublished, doc)                  *)
(*   SameVerdict     when every rule entry has an action, loader and published    *)
(*                   schema give the same verdict                 (SameLanguage)  *)
(*   RouteStrict     the same document through the file-based entry points the   *)
(*                   pipeline really uses (PassesFrom, a pipeline naming the file) *)
(*                   gets the verdict Strict demands as well                       *)
(*   GeneratorAgrees the verdicts predicted from the abstract walk equal the ones *)
(*                   computed from the full rendered tree (harness consistency;   *)
(*                   a failure is reported as inconclusive, never as a violation) *)
(* Rejections that are not about keys or empty rules (value syntax, value types)  *)
(* are not judged: C20 compares key sets (the check counts them and refuses to    *)
(* conclude if a document that should load is rejected for such a reason).        *)
EXTENDS ConfigLang, ConfigLangData

CONSTANTS StrictMode
Trace        == ndJsonDeserialize("trace.ndjson")
TKPublished  == DataKPublished
TKLoader     == DataKLoader

VARIABLE l
(* the generator's variables are not used here *)
Idle  == file = "" /\ steps = <<>> /\ leaf = NoLeaf /\ inj = {} /\ style = "fresh" /\ pos = 0 /\ form = "map" /\ carrier = "plain" /\ tail = NoTail
TInit == l = 1 /\ Idle
TNext == l <= Len(Trace) /\ l' = l + 1 /\ UNCHANGED vars
TSpec == TInit /\ [][TNext]_<<l, vars>>

Step == Trace[l - 1]
DocOf(r) == [file |-> r.file,
             nodes |-> [i \in DOMAIN r.nodes |-> [at |-> r.nodes[i].at,
                                                   keys |-> {r.nodes[i].keys[j] : j \in DOMAIN r.nodes[i].keys},
                                                   nulls |-> {r.nodes[i].nulls[j] : j \in DOMAIN r.nodes[i].nulls}]]]
LoaderJudged(r)    == r.lclass \in {"ok", "key", "empty", "document"}
PublishedJudged(r) == r.pclass \in {"ok", "key"}
(* "structure": the schema rejected because of a keyword about WHICH KEYS are present together (minProperties,   *)
(* maxProperties, required, oneOf, ...): a loaded file that does not validate for such a reason is a disagreement *)
PublishedJudgedWide(r) == r.pclass \in {"ok", "key", "structure"}

(* the verdicts of the specification for one document, computed once *)
Judge(r) == LET d == DocOf(r) IN
  [kl |-> KeysOK(KLoader, d), rl |-> RulesOK(KLoader, d), kp |-> KeysOK(KPublished, d), rp |-> RulesOK(KPublished, d)]

LoaderStrictR(r, j)    == LoaderJudged(r) => ((r.loader = "accept") <=> (j.kl /\ j.rl))           \* Strict(KLoader, doc, accepted)
PublishedKeysR(r, j)   == PublishedJudged(r) => ((r.published = "accept") <=> j.kp)               \* PublishedKeys(KPublished, doc, accepted)
SameVerdictR(r, j)     == (LoaderJudged(r) /\ PublishedJudgedWide(r) /\ j.rl /\ j.rp) => r.loader = r.published
(* every other route by which cog itself reaches the same loader (file names instead of a reader, a whole pipeline *)
(* naming the file) is judged exactly like the primary one                                                         *)
RoutesStrictR(r, j)    == \A i \in DOMAIN r.routes : r.routes[i].judged => ((r.routes[i].v = "accept") <=> (j.kl /\ j.rl))
GeneratorAgreesR(r, j) == r.expl = "none" \/ ((r.expl = "yes") = (j.kl /\ j.rl) /\ (r.expp = "yes") = j.kp)

ViolatedJ(r, j) == (IF LoaderStrictR(r, j) THEN {} ELSE {"LoaderStrict"})
              \cup (IF PublishedKeysR(r, j) THEN {} ELSE {"PublishedKeys"})
              \cup (IF SameVerdictR(r, j) THEN {} ELSE {"SameVerdict"})
              \cup (IF GeneratorAgreesR(r, j) THEN {} ELSE {"GeneratorAgrees"})
              \cup (IF RoutesStrictR(r, j) THEN {} ELSE {"RouteStrict"})
Violated(r) == ViolatedJ(r, Judge(r))
Facts(r) == LET j == Judge(r) IN
            [l |-> l - 1, violated |-> ViolatedJ(r, j), keysok_loader |-> j.kl, rulesok |-> j.rl, keysok_published |-> j.kp]

Verdict == l = 1 \/ Violated(Step) = {} \/ (~StrictMode /\ PrintT(<<"FAIL", ToJson(Facts(Step))>>))
Done == l = Len(Trace) + 1 => PrintT(<<"CONSUMED", l - 1>>)
==================================================================================
