------------------------------ MODULE ConfigLangMC ------------------------------
(* Model for ConfigLang.tla: the two grammars come from ConfigLangData.tla, which *)
(* the check GENERATES from /repo's CURRENT tree at every run (schemas/*.json;    *)
(* reflection over the loaders' structs in the Go worker).  The space is finite and TLC          *)
(* enumerates it completely: every walk in which no (published, loader) node     *)
(* pair repeats more than MaxVisits times, every subset of <= MaxInject mapping  *)
(* nodes of every such document for the unknown key, every rule entry at every   *)
(* position 0..MaxPos.                                                           *)
EXTENDS ConfigLang, ConfigLangData

MCKPublished == DataKPublished
MCKLoader    == DataKLoader

ASSUME UnknownIsUnknown
================================================================================
