CONSTANTS
  MaxLen = 0
  Slice = 0
  NSlices = 1
  WithMarker = FALSE
  Chains = FALSE
  Ext = FALSE
  Wiring = FALSE
  Layout = FALSE
  FirstFromR2 = FALSE
  FoldTable <- MCFoldTable
  SingularTable <- MCSingular
  LCamelTable <- MCLCamel
SPECIFICATION Spec16
INVARIANTS DeriveOK Emit16
CHECK_DEADLOCK FALSE
