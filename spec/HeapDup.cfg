CONSTANTS
  NSlices = 1
  Slice = 0
SPECIFICATION Spec
INVARIANTS Emit
CHECK_DEADLOCK FALSE
