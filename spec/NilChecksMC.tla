------------------------------ MODULE NilChecksMC ------------------------------
(* Growth item 2 (DESIGN Appendix E): bounded universe for the nil-check        *)
(* requirement of Builders.tla.  States are builders: those derived from a      *)
(* schema set with nested optional structs, maps/arrays of structs and          *)
(* references through aliases, rewritten by histories of the veneer rules that  *)
(* change assignment paths.  Each distinct state is one history; the worker     *)
(* replays it on the real rewriter and then runs the REAL                       *)
(* languages.GenerateBuilderNilChecks for each of the seven languages.          *)
(* Design level: for every language configuration the requirement as a function *)
(* (BuilderWithNilChecks) satisfies the requirement as a relation (BuilderNilV).*)
EXTENDS Builders, TLC, Json

CONSTANTS MaxLen, Slice, NSlices

VARIABLES hist, cur, err, sum
vars == <<hist, cur, err, sum>>

NFoldTable == [Root |-> "root", Mid |-> "mid", Leaf |-> "leaf", LeafAlias |-> "leafalias", Panel |-> "panel", Options |-> "options"]
NSingular == [tags |-> "tag", labels |-> "label", items |-> "item", list |-> "list", m |-> "m"]
NLCamel   == [Leaf |-> "leaf", string |-> "string"]

\* the seven languages' NullableConfig (jennies/<lang>/jennies.go NullableKinds; the two schema
\* outputs do not provide one and get the default of GenerateBuilderNilChecks)
Cfg(kinds, protect) == [kinds |-> kinds, protect |-> protect, any |-> TRUE]
LangCfg == [go         |-> Cfg({"map", "array"}, FALSE),
            java       |-> Cfg({"map", "array", "ref", "struct"}, TRUE),
            python     |-> Cfg({"map", "array", "ref", "struct"}, TRUE),
            typescript |-> Cfg({"map", "array", "ref", "struct"}, TRUE),
            php        |-> Cfg({}, TRUE),
            jsonschema |-> Cfg({}, FALSE),
            openapi    |-> Cfg({}, FALSE)]

LeafT == TStruct(<<Field("v", TString, TRUE), Field("w", WithDef(TString, VStr("dw")), FALSE)>>)
MidT  == TStruct(<<Field("leaf", AsNullable(TRef("p", "Leaf")), FALSE),
                   Field("req",  TRef("p", "Leaf"), TRUE),
                   Field("list", TArray(TRef("p", "Leaf")), FALSE),
                   Field("m",    TMap(TString, TRef("p", "Leaf")), FALSE)>>)
RootT == TStruct(<<
   Field("mid",    TRef("p", "Mid"), TRUE),
   Field("omid",   AsNullable(TRef("p", "Mid")), FALSE),
   Field("al",     TRef("p", "LeafAlias"), TRUE),
   Field("inl",    TStruct(<<Field("a", TString, TRUE), Field("deep", AsNullable(TStruct(<<Field("b", TString, TRUE)>>)), FALSE)>>), TRUE),
   Field("tags",   TArray(TString), TRUE),
   Field("otags",  AsNullable(TArray(TString)), FALSE),
   Field("labels", TMap(TString, TString), TRUE),
   Field("items",  TArray(TRef("p", "Leaf")), FALSE),
   Field("name",   TString, TRUE)>>)
PanelT == TStruct(<<Field("type", TString, TRUE), Field("opts", TScalar("any"), FALSE)>>)
SN == <<SchemaOf("p", <<Obj("p", "Root", RootT), Obj("p", "Mid", MidT), Obj("p", "Leaf", LeafT),
                        Obj("p", "LeafAlias", TRef("p", "Leaf")), Obj("p", "Panel", PanelT)>>),
        [SchemaOf("q", <<Obj("q", "Options", TStruct(<<Field("o1", TString, TRUE), Field("sub", AsNullable(TRef("p", "Leaf")), FALSE)>>))>>)
           EXCEPT !.meta = [kind |-> "composable", variant |-> "panelcfg", id |-> "qid"]]>>
B0 == Derive(SN)

ON(obj, opts) == [k |-> "by_name", pkg |-> "p", object |-> obj, options |-> opts]
BO(n)    == [k |-> "by_object", pkg |-> "p", name |-> n]
BN(n)    == [k |-> "by_name", pkg |-> "p", name |-> n]
OR(r, sel) == [kind |-> "o", r |-> r, sel |-> sel, lang |-> "all"]
BR(r, sel) == [kind |-> "b", r |-> r, sel |-> sel, lang |-> "all"]
R(o) == ON("Root", <<o>>)
\* what struct_fields_as_options / merge_into produce on Root
Prod == ON("Root", <<"leaf", "req", "list", "m", "a", "deep", "v", "w", "b", "item", "tag", "otag">>)
StrArg(n) == Arg(n, TString)
Sfo(s) == OR("struct_fields_as_options", s) @@ [fields |-> <<>>]
Sfa(s) == OR("struct_fields_as_arguments", s) @@ [fields |-> <<>>]
A2A(s) == OR("array_to_append", s)
M2I(s) == OR("map_to_index", s)
Merge(src, under) == BR("merge_into", BN("Root")) @@ [source |-> src, under |-> under, exclude |-> <<>>, rename |-> <<>>]
RN == <<
  Sfo(R("mid")), Sfo(R("omid")), Sfo(R("inl")), Sfo(R("al")), Sfo(Prod),
  Sfa(R("mid")), Sfa(R("omid")), Sfa(R("inl")), Sfa(R("items")), Sfa(Prod),
  A2A(R("tags")), A2A(R("otags")), A2A(R("items")), A2A(Prod),
  M2I(R("labels")), M2I(Prod),
  Merge("Mid", <<"mid">>), Merge("Mid", <<"omid">>), Merge("Leaf", <<"mid", "leaf">>), Merge("Leaf", <<"al">>),
  BR("promote", BO("Root")) @@ [options |-> <<"tags", "v", "leaf", "name">>],
  BR("initialize", BO("Root")) @@ [set |-> <<[path |-> <<"omid", "leaf", "v">>, value |-> VStr("iv")], [path |-> <<"omid", "req", "v">>, value |-> VStr("iv2")]>>],
  BR("add_option", BO("Root")) @@ [option |-> [name |-> "deepv", comments |-> <<>>, args |-> <<StrArg("x")>>,
        assigns |-> <<[path |-> <<"omid", "leaf", "v">>, method |-> "direct", value |-> [k |-> "arg", arg |-> StrArg("x")]],
                      [path |-> <<"omid", "leaf", "w">>, method |-> "direct", value |-> [k |-> "arg", arg |-> StrArg("x")]],
                      [path |-> <<"inl", "deep", "b">>, method |-> "direct", value |-> [k |-> "arg", arg |-> StrArg("x")]]>>]],
  BR("compose", [k |-> "by_variant", pkg |-> "q", variant |-> "panelcfg"]) @@
      [srcpkg |-> "p", srcname |-> "Panel", discr |-> "type", exclude |-> <<>>,
       map |-> <<[key |-> "Options", path |-> <<"opts">>]>>, name |-> "", preserve |-> FALSE],
  Sfo(ON("Panel", <<"sub">>)),
  OR("duplicate", R("mid")) @@ [as |-> "leaf"]
>>

Init == hist = <<>> /\ cur = B0 /\ err = FALSE /\ sum = 0
\* builder rules of one language run before its option rules: a builder rule after an option rule moves to the language phase
Phase(h, r) == IF h = <<>> THEN r
               ELSE IF Last(h).lang = "go" \/ (Last(h).kind = "o" /\ r.kind = "b") THEN [r EXCEPT !.lang = "go"] ELSE r
Next == /\ ~err /\ Len(hist) < MaxLen
        /\ \E i \in DOMAIN RN :
             /\ ~(hist # <<>> /\ Last(hist).lang = "go" /\ Last(hist).kind = "o" /\ RN[i].kind = "b")
             /\ (Len(hist) >= 2 => (i + sum) % NSlices = Slice)
             /\ LET r == Phase(hist, RN[i])
                    out == ApplyRule(SN, cur, r) IN
                  /\ Defined(SN, cur, r)
                  /\ hist' = Append(hist, r) /\ cur' = out.B /\ err' = out.err /\ sum' = sum + i
Spec == Init /\ [][Next]_vars

Langs == DOMAIN LangCfg
\* design level: function and relation agree, for every language configuration, on every model state
FunctionSatisfiesRelation ==
  \A l \in Langs : \A i \in DOMAIN cur : NilChecksViolated(LangCfg[l], cur[i], BuilderWithNilChecks(LangCfg[l], cur[i])) = {}
Emit == IF hist = <<>> THEN PrintT(<<"SN", ToJson([S |-> SN, B0 |-> B0, cfg |-> LangCfg])>>)
        ELSE PrintT(<<"CASEN", ToJson([hist |-> hist, post |-> cur, err |-> err])>>)
===============================================================================
