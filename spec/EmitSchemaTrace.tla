------------------------------ MODULE EmitSchemaTrace ------------------------------
(* Trace validation for C12. Every record is one REAL observation:                             *)
(*                                                                                              *)
(*  kind = "emit": one document the real jsonschema / openapi jenny emitted for one package.   *)
(*     Schemas[si] is the IR the jenny consumed (projected to a schema term, with `foreign`),   *)
(*     Emitted[ei] the normalised description of the emitted file, `pkg` the package the        *)
(*     document belongs to ("" = the main package). valid / own / refs are the verdicts of the   *)
(*     independent loader, of cog's own parser, and of the harness' raw `$ref` resolution.       *)
(*     TLC recomputes EmitDoc(IR) and compares it with the description (DocDiffs), and          *)
(*     recomputes the dangling references of the description.                                    *)
(*  kind = "enc": one JSON document the generated Go code ENCODED (json.Marshal of a decoded     *)
(*     value, or of New<Root>()), `validator` = the independent validator's verdict against the  *)
(*     emitted file, `judged` = the harness' claim that the IR accepts the encoding (a valid     *)
(*     value of the generated types). TLC recomputes Accepts(IR, doc) and EAccepts(description, *)
(*     doc): EncodeValidates is judged on the validator's verdict, the description's verdict    *)
(*     must agree with it (otherwise the description is not faithful: DescVsValidator).          *)
(*                                                                                              *)
(*  kind = "rt": cog's own parser re-read an emitted document; Reparsed[ri] is the schema term of  *)
(*     the IR it produced. TLC compares it with the IR the document was emitted from (RtViolated).   *)
(*  `must` on an enc record: the document is a one-place invalid variant (or its Go re-encoding);    *)
(*     if the IR rejects it, the emitted document must reject it too.                                 *)
(*                                                                                              *)
(* Report mode prints one FAIL line per violating record; Strict stops (self-test, replay).     *)
EXTENDS EmitSchema, Json

CONSTANTS Strict
Trace   == ndJsonDeserialize("trace.ndjson")
Schemas == JsonDeserialize("schemas.json")
Emitted == JsonDeserialize("emitted.json")
Reparsed == JsonDeserialize("reparsed.json")    \* schema terms cog's own parser produced from emitted documents

VARIABLE l
TInit == l = 1
TNext == l <= Len(Trace) /\ l' = l + 1
TSpec == TInit /\ [][TNext]_l

Step == Trace[l - 1]

EmitViolated(r) ==
  LET sc == Schemas[r.si]
      em == Emitted[r.ei]
  IN     DocDiffs(EmitDoc([defs |-> sc.defs, root |-> sc.root], sc.foreign, r.pkg), em)
    \cup (IF Dangling(em) = {} /\ r.refs THEN {} ELSE {D("ref-resolves", <<>>, "")})
    \cup (IF (Dangling(em) = {}) = r.refs THEN {} ELSE {D("RefsDisagree", <<>>, "")})
    \cup (IF r.valid THEN {} ELSE {D("valid", <<>>, "")})
    \cup (IF r.own THEN {} ELSE {D("own-parser", <<>>, "")})

EncViolated(r) ==
  LET sc  == Schemas[r.si]
      S   == DefsFn([defs |-> sc.defs, root |-> sc.root])
      em  == Emitted[r.ei]
      DD  == EDefsFn(em.defs)
      on  == OwnName(sc.foreign, r.obj)
      ea  == on \in DOMAIN DD /\ EAccepts(DD, DD[on], r.doc)
      acc == Accepts(S, S[r.obj], r.doc)
  IN     (IF acc = r.judged THEN {} ELSE {D("SpecVsPython", <<>>, "")})
    \cup (IF r.judged => r.validator THEN {} ELSE {D("encode-validates", <<>>, "")})
    \cup (IF ea = r.validator THEN {} ELSE {D("DescVsValidator", <<>>, "")})
    \* a one-place INVALID document (broken bound, non-member of an enum / constant, missing required field) that the IR
    \* rejects must be rejected by the emitted document: "required-ness, constraints, enum values are carried over"
    \cup (IF r.must /\ ~acc /\ r.validator THEN {D("accepts-invalid", <<>>, "")} ELSE {})

\* round trip: cog's own parser read the emitted document back (Reparsed[r.ri]); for every object it declared, what the
\* property lists (names of fields, required-ness, constraints, enum values, defaults) equals the IR the document was
\* emitted from. Objects the parser did not declare AND cannot reach from the entry point are not compared.
RtViolated(r) ==
  LET sc  == Schemas[r.si]
      rp  == Reparsed[r.ri]
      exp == EmitDoc([defs |-> sc.defs, root |-> sc.root], sc.foreign, r.pkg)
      got == EmitDoc([defs |-> rp.defs, root |-> rp.root], rp.foreign, "")
      present == SelectSeq(exp, LAMBDA e : HasDef(got, e.name))
      \* ... but an object the parser CAN reach - the IR has an entry point and the object is reachable from it through
      \* references - must come back under its own name: "accepted by cog's own parsers, every `$ref` resolves, every
      \* object of the IR appears under its own name" (main package's document)
      S     == DefsFn([defs |-> sc.defs, root |-> sc.root])
      reach == IF r.pkg = "" /\ sc.root \in DOMAIN S THEN Closure(S, {sc.root}) ELSE {}
      lost  == {i \in DOMAIN exp : exp[i].src \in reach /\ ~HasDef(got, exp[i].name)}
  IN      {D("rt-" \o d.c, d.p, d.w) : d \in DocDiffs(present, [defs |-> got, root |-> ""])}
     \cup {D("rt-names", <<exp[i].name>>, "object") : i \in lost}

Violated(r) == CASE r.kind = "emit" -> EmitViolated(r) [] r.kind = "rt" -> RtViolated(r) [] OTHER -> EncViolated(r)

Verdict == l = 1 \/ Violated(Step) = {} \/
           (~Strict /\ PrintT(<<"FAIL", ToJson([l |-> l - 1, diffs |-> Violated(Step)])>>))
Done == l = Len(Trace) + 1 => PrintT(<<"CONSUMED", l - 1>>)
===============================================================================
