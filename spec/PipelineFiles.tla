---------------------------- MODULE PipelineFiles ----------------------------
(* Growth of Pipeline.tla (DESIGN Appendix E.5): the file-set algebra of a run.                                     *)
(*                                                                                                                  *)
(*   files(run) = the DISJOINT union of                                                                             *)
(*       for every configured language L:  Root(dir, L) / p   for p in Base[flags][L] \cup Extra[extra][L]           *)
(*       repository templates:             RepoRoot(dir) / p  for p in Repo[repo]["common"] and Repo[repo][L], L configured *)
(*   or the run fails: two producers of one path are an error, never a silent overwrite.                            *)
(*                                                                                                                  *)
(*   Root(dir, L): output.directory with %l replaced by the language (a relative directory is used as written, an   *)
(*   absolute one is taken relative to the working directory); RepoRoot(dir): the same with %l replaced by ".".     *)
(*   The paths below the root are a function of (language, package, object) only: Base is the table of what each     *)
(*   language emits ALONE for the corpus input (measured on the real code), so the equation also says that neither   *)
(*   the other languages nor the directory pattern change a language's own files (C07 LanguageIndependent).          *)
EXTENDS Naturals, Sequences, FiniteSets, TLC, Json

\* [base, repo, extra, dirs, langsets]: measured on the real code / written by the check (checks/fileset_part.py).
\* A definition, not a CONSTANT: TLC evaluates a constant-level definition once, a cfg substitution on every use.
Tables == JsonDeserialize("fileset_tables.json")

Range(s) == {s[i] : i \in DOMAIN s}
Join(a, b) == IF a = "" THEN b ELSE IF b = "" THEN a ELSE a \o "/" \o b
RECURSIVE JoinAll(_)
JoinAll(s) == IF s = <<>> THEN "" ELSE Join(Head(s), JoinAll(Tail(s)))

(* a directory pattern is a sequence of segments [pre, l]: the text pre followed, when l, by the %l placeholder *)
SegFor(seg, L) == IF seg.l THEN seg.pre \o L ELSE seg.pre
Root(dir, L) == JoinAll([i \in DOMAIN dir.segs |-> SegFor(dir.segs[i], L)])
(* repository templates: %l becomes "." and the path is cleaned, so a segment that is exactly %l disappears *)
RepoSegs(dir) == SelectSeq(dir.segs, LAMBDA seg : ~(seg.l /\ seg.pre = ""))
RepoRoot(dir) == JoinAll([i \in DOMAIN RepoSegs(dir) |-> SegFor(RepoSegs(dir)[i], ".")])

Dir(c) == Tables.dirs[c.dir]
LangRel(c, L) == Range(Tables.base[c.flags][L]) \cup Range(Tables.extra[c.extra][L])
LangPaths(c, L) == {Join(Root(Dir(c), L), p) : p \in LangRel(c, L)}
RepoDirs(c) == {"common"} \cup c.langs
RepoPaths(c) == {Join(RepoRoot(Dir(c)), p) : p \in UNION {Range(Tables.repo[c.repo][d]) : d \in RepoDirs(c)}}

(* producers: one per (language, relative path) incl. base/extra separately, one per (template directory, file) *)
RECURSIVE Sum(_, _)
Sum(f, S) == IF S = {} THEN 0 ELSE LET x == CHOOSE x \in S : TRUE IN f[x] + Sum(f, S \ {x})
NProducers(c) ==
    Sum([L \in c.langs |-> Len(Tables.base[c.flags][L]) + Len(Tables.extra[c.extra][L])], c.langs)
  + Sum([d \in RepoDirs(c) |-> Len(Tables.repo[c.repo][d])], RepoDirs(c))
AllPaths(c) == UNION {LangPaths(c, L) : L \in c.langs} \cup RepoPaths(c)
Collision(c) == Cardinality(AllPaths(c)) # NProducers(c)

Expected(c) == IF Collision(c) THEN [err |-> TRUE, paths |-> {}] ELSE [err |-> FALSE, paths |-> AllPaths(c)]

--------------------------------------------------------------------------------
(* Laws *)
(* a pattern that contains %l as a whole segment gives the languages disjoint roots: without templates no run collides *)
HasLangSegment(dir) == \E i \in DOMAIN dir.segs : dir.segs[i].l
DisjointRootsLaw(c) == (HasLangSegment(Dir(c)) /\ c.repo = "none" /\ c.extra = "none") => ~Collision(c)
(* no collision: a language's files are the same paths whatever other languages are configured *)
SubsetLaw(c, L) == (L \in c.langs /\ ~Collision(c)) => LangPaths(c, L) = LangPaths([c EXCEPT !.langs = {L}], L)
================================================================================
