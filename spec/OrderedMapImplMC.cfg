CONSTANTS
  Keys = {"a", "b", "c"}
  Vals = {1, 2}
  KeyRank <- MCKeyRank
SPECIFICATION SpecNoSort
INVARIANTS Bijection LenIsLive
PROPERTIES Refines AbsOverwriteKeepsPosition AbsRemoveKeepsOrder
CHECK_DEADLOCK FALSE
