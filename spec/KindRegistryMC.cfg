SPECIFICATION Spec
INVARIANTS StrayIrrelevant ErrHasNothing OnePackagePerKind Emit
CHECK_DEADLOCK FALSE
