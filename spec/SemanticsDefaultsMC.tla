------------------------------ MODULE SemanticsDefaultsMC ------------------------------
(* Bounded universe for C10 / C11 (DESIGN 6 "C10"): schemas declaring a default of      *)
(* every value type of the property's quantifier                                         *)
(*     bool, integer, float, string, enum member, list, struct with partial overrides,  *)
(*     union branch  (+ constants, + falsy defaults false / 0 / [])                      *)
(* at every position                                                                     *)
(*     top-level required field, optional field, field of a referenced struct,          *)
(*     field of a nested (anonymous) struct                                              *)
(* one default per schema (a defect of one value type cannot mask another), plus two    *)
(* schemas carrying everything at once. Ids are IdBase + index, disjoint from the ids   *)
(* of SemanticsMC's catalogue, whose schemas can be expanded here as well.               *)
(*                                                                                       *)
(* Mode = "index":    one state per schema of DefCatalogue, prints INDEX (as SemanticsMC)*)
(* Mode = "cases":    (schema in Ids) x Docs(schema): prints CASE (as SemanticsMC): the  *)
(*                    documents C11 sends through Python and Go                          *)
(* Mode = "defaults": (schema in Ids) x (struct object of the schema): prints DEFAULT    *)
(*                    {id, obj, doc = DefaultDoc, full = FullDefault}                    *)
EXTENDS SemanticsMC, SemanticsDefaults

IdBase == 10000

(* ------------------------------- value types ----------------------------- *)
DL(n, t, d, defs) == [name |-> n, t |-> t, d |-> d, defs |-> defs]
Tok(n) == 7770000 + n     \* 1: 2^53+1  2: 2^31-1  3: 2^63-1  4: 2^64-1  5: 2^32-1  6: 2^24+1  7: 3*10^9  8: 2^53  (python_common.NUM_TOKENS)
PlainInt == TInt("int64", NoB, NoB)
PlainStr == TStr(-1, -1)
\* every field optional: the partial override {name: "x"} is itself a value the three schema languages accept for Child
DChild == Def("Child", TStruct(<<FOptDef("id", PlainInt, JInt(7)), FOptDef("name", PlainStr, JStr("nm")), FOpt("note", PlainStr)>>))
DEnum  == Def("E", TEnum(<<"a", "b">>))
DA     == Def("A", TStruct(<<F("kind", TConst(JStr("a"))), F("c", PlainInt)>>))
DB     == Def("B", TStruct(<<F("kind", TConst(JStr("b"))), F("s", PlainStr)>>))
DefLeaves == <<
  DL("bool",                 TBool, JBool(TRUE), <<>>),
  DL("bool-false",           TBool, JBool(FALSE), <<>>),
  DL("integer",              PlainInt, JInt(3), <<>>),
  DL("integer-zero",         PlainInt, JInt(0), <<>>),
  DL("float",                TNum("float64", NoB, NoB), JNum(15), <<>>),
  DL("string",               PlainStr, JStr("ab"), <<>>),
  DL("enum-member",          TEnum(<<"a", "b">>), JStr("b"), <<>>),
  DL("enum-ref-member",      TRef("E"), JStr("b"), <<DEnum>>),
  DL("int-enum-member",      TIEnum(<<1, 2>>), JInt(2), <<>>),
  DL("list-string",          TArr(PlainStr), JArr(<<JStr("x"), JStr("y")>>), <<>>),
  DL("list-integer",         TArr(PlainInt), JArr(<<JInt(1), JInt(2)>>), <<>>),
  DL("list-empty",           TArr(PlainStr), JArr(<<>>), <<>>),
  DL("struct-override",      TRef("Child"), JObj(<<P("name", JStr("x"))>>), <<DChild>>),
  DL("union-branch-string",  TUnion(<<PlainStr, PlainInt>>), JStr("x"), <<>>),
  DL("union-branch-integer", TUnion(<<PlainStr, PlainInt>>), JInt(3), <<>>),
  DL("union-branch-struct",  TDUnion("kind", <<"A", "B">>), JObj(<<P("kind", JStr("b")), P("s", JStr("q"))>>), <<DA, DB>>),
  DL("constant-string",      TConst(JStr("x")), NoJ, <<>>),
  DL("constant-integer",     TConst(JInt(2)), NoJ, <<>>),
  DL("constant-bool",        TConst(JBool(TRUE)), NoJ, <<>>),
  \* negative numbers (appended: the ids of the entries above stay what they were): a default must come out exactly,
  \* whatever sign-dependent conversion (rounding, truncation, unsigned cast) a parser or a jenny applies to it
  DL("integer-negative",     PlainInt, JInt(-3), <<>>),
  DL("float-negative",       TNum("float64", NoB, NoB), JNum(-15), <<>>),
  \* integers that a float64 cannot hold (2^53 + 1), as default, as constant and as enum member: they must arrive digit for digit.
  \* TLC's integers are 32 bits wide: the value travels as the TOKEN Tok(1) and checks/python_common.py substitutes the real
  \* number in the schema text and maps it back when a real outcome is recorded (exact integers on both sides, never floats)
  DL("integer-big",          PlainInt, JInt(Tok(1)), <<>>),
  DL("constant-integer-big", TConst(JInt(Tok(1))), NoJ, <<>>),
  DL("int-enum-big-member",  TIEnum(<<1, Tok(1)>>), JInt(Tok(1)), <<>>)
>>

(* -------------------------------- positions ------------------------------ *)
DefPositions == <<"top", "optional", "ref", "anon">>
VField(leaf, req) == Fld("v", leaf.t, req, FALSE, leaf.d)
DSchema(leaf, pos) ==
  LET plain == F("plain", PlainStr) IN
  CASE pos = "top"      -> [defs |-> <<Def("Root", TStruct(<<VField(leaf, TRUE), plain>>))>> \o leaf.defs, root |-> "Root"]
    [] pos = "optional" -> [defs |-> <<Def("Root", TStruct(<<VField(leaf, FALSE), plain>>))>> \o leaf.defs, root |-> "Root"]
    [] pos = "ref"      -> [defs |-> <<Def("Root", TStruct(<<F("c", TRef("C1")), plain>>)),
                                       Def("C1", TStruct(<<VField(leaf, TRUE), F("d", TBool)>>))>> \o leaf.defs, root |-> "Root"]
    [] pos = "anon"     -> [defs |-> <<Def("Root", TStruct(<<F("inl", TStruct(<<VField(leaf, TRUE), F("d", TBool)>>)), plain>>))>> \o leaf.defs,
                            root |-> "Root"]
DEntry(leaf, pos) == [schema |-> DSchema(leaf, pos), leaf |-> leaf.name, pos |-> pos, cons |-> FALSE]

(* ------------------ everything at once (the shape of the round-0 probe) ------------------ *)
DFixedList == <<
  \* value types that cog reads from all three formats, side by side, required and optional
  Fixed("defaults-scalars", <<
    Def("Root", TStruct(<<
      FDef("flag", TBool, JBool(TRUE)), FDef("count", PlainInt, JInt(3)), FDef("ratio", TNum("float64", NoB, NoB), JNum(15)),
      FDef("name", PlainStr, JStr("nm")), FDef("tags", TArr(PlainStr), JArr(<<JStr("x"), JStr("y")>>)),
      FOptDef("oflag", TBool, JBool(FALSE)), FOptDef("ocount", PlainInt, JInt(0)), FOptDef("oratio", TNum("float64", NoB, NoB), JNum(25)),
      FOptDef("oname", PlainStr, JStr("on")), F("kindc", TConst(JStr("k"))), FOpt("plain", PlainStr)>>))>>, FALSE),
  \* the round-0 probe: struct default with partial override, enum member, list, scalars, constant, nested struct
  Fixed("defaults-all", <<
    Def("Root", TStruct(<<
      FDef("child", TRef("Child"), JObj(<<P("name", JStr("x"))>>)), FDef("kind", TRef("E"), JStr("b")),
      FDef("flag", TBool, JBool(TRUE)), FDef("name", PlainStr, JStr("nm")),
      FDef("tags", TArr(PlainStr), JArr(<<JStr("x"), JStr("y")>>)),
      F("inl", TStruct(<<FDef("z", PlainStr, JStr("zz")), FOptDef("oz", TBool, JBool(TRUE))>>)),
      F("c", TConst(JStr("x"))), FOpt("oc", TRef("Child")), F("plain", PlainStr)>>)),
    DChild, DEnum>>, FALSE)
>>

(* discriminated unions whose branches are declared in an order that is NOT the sorted order of their discriminator    *)
(* values (oneOf: [Zebra, Apple]), with two and with three branches; Docs() holds a document of every branch, alone,      *)
(* in an array and in an optional field. C11: each value must be decoded by the class of ITS branch. (Appended after      *)
(* the leaf x position entries: earlier ids are unchanged.)                                                                *)
\* a discriminated union with an explicit value -> type mapping (rendered as OpenAPI discriminator.mapping)
TDUnionM(d, refs, mapping) == [k |-> "dunion", disc |-> d, refs |-> refs, mapping |-> mapping]
UZebra == Def("Zebra", TStruct(<<F("kind", TConst(JStr("zebra"))), F("z", PlainInt)>>))
UApple == Def("Apple", TStruct(<<F("kind", TConst(JStr("apple"))), F("a", PlainStr)>>))
UMango == Def("Mango", TStruct(<<F("kind", TConst(JStr("mango"))), F("m", TBool), FOpt("om", PlainStr)>>))
DFixedList2 == <<
  Fixed("union-unsorted-2", <<
    Def("Root", TStruct(<<F("du", TDUnion("kind", <<"Zebra", "Apple">>)), F("items", TArr(TDUnion("kind", <<"Zebra", "Apple">>))),
                          FOpt("one", TDUnion("kind", <<"Zebra", "Apple">>))>>)),
    UZebra, UApple>>, FALSE),
  Fixed("union-unsorted-3", <<
    Def("Root", TStruct(<<F("du", TDUnion("kind", <<"Mango", "Zebra", "Apple">>)), F("items", TArr(TDUnion("kind", <<"Mango", "Zebra", "Apple">>))),
                          FOpt("byKey", TMap(TDUnion("kind", <<"Mango", "Zebra", "Apple">>)))>>)),
    UMango, UZebra, UApple>>, FALSE),
  \* named collections: maps / arrays whose values are REFERENCES to named maps / arrays of objects, mixed with direct ones
  Fixed("named-collections", <<
    Def("Root", TStruct(<<F("cells", TMap(TRef("PointsByName"))), FOpt("rows", TArr(TRef("PointsByName"))), FOpt("lists", TMap(TRef("PointList"))),
                          FOpt("deep", TMap(TMap(TRef("PointsByName")))), FOpt("grid", TRef("Grid")), FOpt("mixed", TMap(TArr(TRef("PointsByName"))))>>)),
    Def("PointsByName", TMap(TRef("Point"))), Def("PointList", TArr(TRef("Point"))), Def("Grid", TMap(TRef("PointsByName"))),
    Def("Point", TStruct(<<F("x", PlainInt), FOpt("y", PlainInt)>>))>>, FALSE),
  \* a discriminator mapping that is not injective: two values select the same type (OpenAPI discriminator.mapping)
  Fixed("union-shared-mapping", <<
    Def("Root", TStruct(<<F("background", TDUnionM("kind", <<"Circle", "Polygon">>,
                                                   <<[v |-> "circle", ref |-> "Circle"], [v |-> "square", ref |-> "Polygon"], [v |-> "triangle", ref |-> "Polygon"]>>)),
                          FOpt("shapes", TArr(TDUnionM("kind", <<"Circle", "Polygon">>,
                                                   <<[v |-> "circle", ref |-> "Circle"], [v |-> "square", ref |-> "Polygon"], [v |-> "triangle", ref |-> "Polygon"]>>)))>>)),
    Def("Circle", TStruct(<<F("kind", TConst(JStr("circle"))), F("r", PlainInt)>>)),
    Def("Polygon", TStruct(<<F("kind", TEnum(<<"square", "triangle">>)), F("sides", PlainInt)>>))>>, FALSE)
>>

DefCatalogue ==
  DFixedList
  \o [i \in 1..(Len(DefLeaves) * Len(DefPositions)) |->
        DEntry(DefLeaves[((i - 1) \div Len(DefPositions)) + 1], DefPositions[((i - 1) % Len(DefPositions)) + 1])]
  \o DFixedList2

InDef(i)   == i > IdBase /\ (i - IdBase) \in DOMAIN DefCatalogue
EntryOf(i) == IF InDef(i) THEN DefCatalogue[i - IdBase] ELSE Catalogue[i]
AllIds     == DOMAIN Catalogue \cup {IdBase + i : i \in DOMAIN DefCatalogue}

StructNames(schema) == {schema.defs[i].name : i \in {j \in DOMAIN schema.defs : schema.defs[j].t.k = "struct"}}
ObjMarker(n) == [d |-> NoJ, f |-> "object", p |-> <<n>>]

DInit ==
  CASE Mode = "index"    -> si \in {IdBase + i : i \in DOMAIN DefCatalogue} /\ dx = Marker
    [] Mode = "cases"    -> si \in (Ids \cap AllIds) /\ dx \in Docs(EntryOf(si).schema, Fuel)
    [] Mode = "defaults" -> si \in (Ids \cap AllIds) /\ dx \in {ObjMarker(n) : n \in StructNames(EntryOf(si).schema)}
DSpec == DInit /\ [][Next]_vars

DEmit ==
  LET e == EntryOf(si) IN
  CASE Mode = "index"    -> PrintT(<<"INDEX", ToJson([id |-> si, leaf |-> e.leaf, pos |-> e.pos, cons |-> e.cons, schema |-> e.schema])>>)
    [] Mode = "cases"    -> PrintT(<<"CASE", ToJson([id |-> si] @@ Expect(e.schema, dx))>>)
    [] Mode = "defaults" ->
         LET S == DefsFn(e.schema)
             o == dx.p[1] IN
         PrintT(<<"DEFAULT", ToJson([id |-> si, obj |-> o, doc |-> DefaultDoc(S, S[o]),
                                     full |-> IF o = e.schema.root THEN FullDefault(S, S[o], Fuel) ELSE NoJ])>>)
===============================================================================
