------------------------------ MODULE SemanticsDefaultsMC ------------------------------
(* Bounded universe for C10 / C11 (DESIGN 6 "C10"): schemas declaring a default of      *)
(* every value type of the property's quantifier                                         *)
(*     bool, integer, float, string, enum member, list, struct with partial overrides,  *)
(*     union branch  (+ constants, + falsy defaults false / 0 / [])                      *)
(* at every position                                                                     *)
(*     top-level required field, optional field, field of a referenced struct,          *)
(*     field of a nested (anonymous) struct                                              *)
(* one default per schema (a defect of one value type cannot mask another), plus two    *)
(* schemas carrying everything at once. Ids are IdBase + index, disjoint from the ids   *)
(* of SemanticsMC's catalogue, whose schemas can be expanded here as well.               *)
(*                                                                                       *)
(* Mode = "index":    one state per schema of DefCatalogue, prints INDEX (as SemanticsMC)*)
(* Mode = "cases":    (schema in Ids) x Docs(schema): prints CASE (as SemanticsMC): the  *)
(*                    documents C11 sends through Python and Go                          *)
(* Mode = "defaults": (schema in Ids) x (struct object of the schema): prints DEFAULT    *)
(*                    {id, obj, doc = DefaultDoc, full = FullDefault}                    *)
EXTENDS SemanticsMC, SemanticsDefaults

IdBase == 10000

(* ------------------------------- value types ----------------------------- *)
DL(n, t, d, defs) == [name |-> n, t |-> t, d |-> d, defs |-> defs]
Tok(n) == 7770000 + n     \* 1: 2^53+1  2: 2^31-1  3: 2^63-1  4: 2^64-1  5: 2^32-1  6: 2^24+1  7: 3*10^9  8: 2^53  (python_common.NUM_TOKENS)
PlainInt == TInt("int64", NoB, NoB)
PlainStr == TStr(-1, -1)
\* every field optional: the partial override {name: "x"} is itself a value the three schema languages accept for Child
DChild == Def("Child", TStruct(<<FOptDef("id", PlainInt, JInt(7)), FOptDef("name", PlainStr, JStr("nm")), FOpt("note", PlainStr)>>))
DEnum  == Def("E", TEnum(<<"a", "b">>))
DA     == Def("A", TStruct(<<F("kind", TConst(JStr("a"))), F("c", PlainInt)>>))
DB     == Def("B", TStruct(<<F("kind", TConst(JStr("b"))), F("s", PlainStr)>>))
DefLeaves == <<
  DL("bool",                 TBool, JBool(TRUE), <<>>),
  DL("bool-false",           TBool, JBool(FALSE), <<>>),
  DL("integer",              PlainInt, JInt(3), <<>>),
  DL("integer-zero",         PlainInt, JInt(0), <<>>),
  DL("float",                TNum("float64", NoB, NoB), JNum(15), <<>>),
  DL("string",               PlainStr, JStr("ab"), <<>>),
  DL("enum-member",          TEnum(<<"a", "b">>), JStr("b"), <<>>),
  DL("enum-ref-member",      TRef("E"), JStr("b"), <<DEnum>>),
  DL("int-enum-member",      TIEnum(<<1, 2>>), JInt(2), <<>>),
  DL("list-string",          TArr(PlainStr), JArr(<<JStr("x"), JStr("y")>>), <<>>),
  DL("list-integer",         TArr(PlainInt), JArr(<<JInt(1), JInt(2)>>), <<>>),
  DL("list-empty",           TArr(PlainStr), JArr(<<>>), <<>>),
  DL("struct-override",      TRef("Child"), JObj(<<P("name", JStr("x"))>>), <<DChild>>),
  DL("union-branch-string",  TUnion(<<PlainStr, PlainInt>>), JStr("x"), <<>>),
  DL("union-branch-integer", TUnion(<<PlainStr, PlainInt>>), JInt(3), <<>>),
  DL("union-branch-struct",  TDUnion("kind", <<"A", "B">>), JObj(<<P("kind", JStr("b")), P("s", JStr("q"))>>), <<DA, DB>>),
  DL("constant-string",      TConst(JStr("x")), NoJ, <<>>),
  DL("constant-integer",     TConst(JInt(2)), NoJ, <<>>),
  DL("constant-bool",        TConst(JBool(TRUE)), NoJ, <<>>),
  \* negative numbers (appended: the ids of the entries above stay what they were): a default must come out exactly,
  \* whatever sign-dependent conversion (rounding, truncation, unsigned cast) a parser or a jenny applies to it
  DL("integer-negative",     PlainInt, JInt(-3), <<>>),
  DL("float-negative",       TNum("float64", NoB, NoB), JNum(-15), <<>>),
  \* integers that a float64 cannot hold (2^53 + 1), as default, as constant and as enum member: they must arrive digit for digit.
  \* TLC's integers are 32 bits wide: the value travels as the TOKEN Tok(1) and checks/python_common.py substitutes the real
  \* number in the schema text and maps it back when a real outcome is recorded (exact integers on both sides, never floats)
  DL("integer-big",          PlainInt, JInt(Tok(1)), <<>>),
  DL("constant-integer-big", TConst(JInt(Tok(1))), NoJ, <<>>),
  DL("int-enum-big-member",  TIEnum(<<1, Tok(1)>>), JInt(Tok(1)), <<>>),
  \* audit against notes/MUTATION_CLASSES.md: 5 (every falsy / empty default: false, 0, [] above; "" and 0.0 here),
  \* 13 (a default and a constant behind an alias chain)
  DL("string-empty",         PlainStr, JStr(""), <<>>),
  DL("float-zero",           TNum("float64", NoB, NoB), JNum(0), <<>>),
  DL("alias-integer",        TRef("A1"), JInt(3), <<Def("A1", TRef("A2")), Def("A2", PlainInt)>>),
  DL("constant-alias-string", TRef("K1"), NoJ, <<Def("K1", TConst(JStr("x")))>>),
  \* strings that are hostile to a hand-written literal: backslashes forming escapes (\t, \n, \x41, \\, trailing), both quotes
  \* (token "@bs": python_common.STR_TOKENS), as default, as constant and as enum member
  DL("string-backslashes",          PlainStr, JStr("@bs"), <<>>),
  DL("constant-string-backslashes", TConst(JStr("@bs")), NoJ, <<>>),
  DL("enum-backslash-member",       TEnum(<<"plain", "@bs">>), JStr("@bs"), <<>>),
  \* a struct default overriding fields whose NAMES need quoting in CUE (dash, space, leading digit)
  DL("struct-override-quoted-names", TRef("ChildQ"), JObj(<<P("max-value", JInt(9)), P("time-zone", JStr("x"))>>),
     \* (a name with a space, "a b", makes the Go jenny emit a composite literal that does not parse: C02's subject)
     <<Def("ChildQ", TStruct(<<FOptDef("max-value", PlainInt, JInt(7)), FOptDef("time-zone", PlainStr, JStr("nm")), FOptDef("min-value", PlainInt, JInt(1)), FOpt("note", PlainStr)>>))>>)
>>


(* -------------------------------- positions ------------------------------ *)
DefPositions == <<"top", "optional", "ref", "anon">>
VField(leaf, req) == Fld("v", leaf.t, req, FALSE, leaf.d)
DSchema(leaf, pos) ==
  LET plain == F("plain", PlainStr) IN
  CASE pos = "top"      -> [defs |-> <<Def("Root", TStruct(<<VField(leaf, TRUE), plain>>))>> \o leaf.defs, root |-> "Root"]
    [] pos = "optional" -> [defs |-> <<Def("Root", TStruct(<<VField(leaf, FALSE), plain>>))>> \o leaf.defs, root |-> "Root"]
    [] pos = "ref"      -> [defs |-> <<Def("Root", TStruct(<<F("c", TRef("C1")), plain>>)),
                                       Def("C1", TStruct(<<VField(leaf, TRUE), F("d", TBool)>>))>> \o leaf.defs, root |-> "Root"]
    [] pos = "anon"     -> [defs |-> <<Def("Root", TStruct(<<F("inl", TStruct(<<VField(leaf, TRUE), F("d", TBool)>>)), plain>>))>> \o leaf.defs,
                            root |-> "Root"]
DEntry(leaf, pos) == [schema |-> DSchema(leaf, pos), leaf |-> leaf.name, pos |-> pos, cons |-> FALSE]

(* ------------------ everything at once (the shape of the round-0 probe) ------------------ *)
DFixedList == <<
  \* value types that cog reads from all three formats, side by side, required and optional
  Fixed("defaults-scalars", <<
    Def("Root", TStruct(<<
      FDef("flag", TBool, JBool(TRUE)), FDef("count", PlainInt, JInt(3)), FDef("ratio", TNum("float64", NoB, NoB), JNum(15)),
      FDef("name", PlainStr, JStr("nm")), FDef("tags", TArr(PlainStr), JArr(<<JStr("x"), JStr("y")>>)),
      FOptDef("oflag", TBool, JBool(FALSE)), FOptDef("ocount", PlainInt, JInt(0)), FOptDef("oratio", TNum("float64", NoB, NoB), JNum(25)),
      FOptDef("oname", PlainStr, JStr("on")), F("kindc", TConst(JStr("k"))), FOpt("plain", PlainStr)>>))>>, FALSE),
  \* the round-0 probe: struct default with partial override, enum member, list, scalars, constant, nested struct
  Fixed("defaults-all", <<
    Def("Root", TStruct(<<
      FDef("child", TRef("Child"), JObj(<<P("name", JStr("x"))>>)), FDef("kind", TRef("E"), JStr("b")),
      FDef("flag", TBool, JBool(TRUE)), FDef("name", PlainStr, JStr("nm")),
      FDef("tags", TArr(PlainStr), JArr(<<JStr("x"), JStr("y")>>)),
      F("inl", TStruct(<<FDef("z", PlainStr, JStr("zz")), FOptDef("oz", TBool, JBool(TRUE))>>)),
      F("c", TConst(JStr("x"))), FOpt("oc", TRef("Child")), F("plain", PlainStr)>>)),
    DChild, DEnum>>, FALSE)
>>

(* discriminated unions whose branches are declared in an order that is NOT the sorted order of their discriminator    *)
(* values (oneOf: [Zebra, Apple]), with two and with three branches; Docs() holds a document of every branch, alone,      *)
(* in an array and in an optional field. C11: each value must be decoded by the class of ITS branch. (Appended after      *)
(* the leaf x position entries: earlier ids are unchanged.)                                                                *)
\* a discriminated union with an explicit value -> type mapping (rendered as OpenAPI discriminator.mapping)
TDUnionM(d, refs, mapping) == [k |-> "dunion", disc |-> d, refs |-> refs, mapping |-> mapping]
UZebra == Def("Zebra", TStruct(<<F("kind", TConst(JStr("zebra"))), F("z", PlainInt)>>))
UApple == Def("Apple", TStruct(<<F("kind", TConst(JStr("apple"))), F("a", PlainStr)>>))
UMango == Def("Mango", TStruct(<<F("kind", TConst(JStr("mango"))), F("m", TBool), FOpt("om", PlainStr)>>))
DFixedList2 == <<
  Fixed("union-unsorted-2", <<
    Def("Root", TStruct(<<F("du", TDUnion("kind", <<"Zebra", "Apple">>)), F("items", TArr(TDUnion("kind", <<"Zebra", "Apple">>))),
                          FOpt("one", TDUnion("kind", <<"Zebra", "Apple">>))>>)),
    UZebra, UApple>>, FALSE),
  Fixed("union-unsorted-3", <<
    Def("Root", TStruct(<<F("du", TDUnion("kind", <<"Mango", "Zebra", "Apple">>)), F("items", TArr(TDUnion("kind", <<"Mango", "Zebra", "Apple">>))),
                          FOpt("byKey", TMap(TDUnion("kind", <<"Mango", "Zebra", "Apple">>)))>>)),
    UMango, UZebra, UApple>>, FALSE),
  \* named collections: maps / arrays whose values are REFERENCES to named maps / arrays of objects, mixed with direct ones
  Fixed("named-collections", <<
    Def("Root", TStruct(<<F("cells", TMap(TRef("PointsByName"))), FOpt("rows", TArr(TRef("PointsByName"))), FOpt("lists", TMap(TRef("PointList"))),
                          FOpt("deep", TMap(TMap(TRef("PointsByName")))), FOpt("grid", TRef("Grid")), FOpt("mixed", TMap(TArr(TRef("PointsByName")))),
                          FOpt("cube", TArr(TArr(TArr(TRef("Point"))))), FOpt("rowsOfLists", TArr(TRef("PointList")))>>)),
    Def("PointsByName", TMap(TRef("Point"))), Def("PointList", TArr(TRef("Point"))), Def("Grid", TMap(TRef("PointsByName"))),
    Def("Point", TStruct(<<F("x", PlainInt), FOpt("y", PlainInt)>>))>>, FALSE),
  \* a discriminator mapping that is not injective: two values select the same type (OpenAPI discriminator.mapping)
  Fixed("union-shared-mapping", <<
    Def("Root", TStruct(<<F("background", TDUnionM("kind", <<"Circle", "Polygon">>,
                                                   <<[v |-> "circle", ref |-> "Circle"], [v |-> "square", ref |-> "Polygon"], [v |-> "triangle", ref |-> "Polygon"]>>)),
                          FOpt("shapes", TArr(TDUnionM("kind", <<"Circle", "Polygon">>,
                                                   <<[v |-> "circle", ref |-> "Circle"], [v |-> "square", ref |-> "Polygon"], [v |-> "triangle", ref |-> "Polygon"]>>)))>>)),
    Def("Circle", TStruct(<<F("kind", TConst(JStr("circle"))), F("r", PlainInt)>>)),
    Def("Polygon", TStruct(<<F("kind", TEnum(<<"square", "triangle">>)), F("sides", PlainInt)>>))>>, FALSE),
  \* ---- audit against notes/MUTATION_CLASSES.md (appended: earlier ids unchanged) ----
  \* 2: property names and object names that are letter-case twins, each with its own default
  Fixed("case-twins-defaults", <<
    \* twins that stay distinct in Go (first letter upper-cased) and in Python (snake_case): userid / userId, abc / aBc; object names
    \* Item / ITEM. (name / Name and userID / userId collide in the generated code itself - `Name redeclared`, `duplicate argument
    \* 'user_id'` -: C02's subject, they would only remove the whole unit from observation.)
    Def("Root", TStruct(<<FDef("userid", PlainStr, JStr("lower")), FOptDef("userId", PlainStr, JStr("camel")), FDef("abc", PlainInt, JInt(3)), FDef("aBc", PlainInt, JInt(4)),
                          F("itemA", TRef("Item")), F("itemB", TRef("ITEM")), FOpt("note", PlainStr), FOpt("noTe", PlainStr)>>)),
    Def("Item", TStruct(<<FDef("v", PlainStr, JStr("mixed")), FOpt("w", PlainInt)>>)),
    Def("ITEM", TStruct(<<FDef("v", PlainStr, JStr("UPPER")), FOpt("w", PlainInt)>>))>>, FALSE),
  \* 1 / 4 / 6: the same type used twice in one struct with DIFFERENT defaults and every (required, optional) combination:
  \* a memo keyed by the type, or "the first one wins", shows as the wrong default on the second use
  Fixed("defaults-twice", <<
    Def("Root", TStruct(<<
      FDef("e1", TRef("E"), JStr("b")), FOptDef("e2", TRef("E"), JStr("a")), FDef("ie1", TEnum(<<"a", "b">>), JStr("b")), FDef("ie2", TEnum(<<"a", "b">>), JStr("a")),
      FDef("l1", TArr(PlainStr), JArr(<<JStr("x"), JStr("y")>>)), FOptDef("l2", TArr(PlainStr), JArr(<<JStr("z")>>)),
      FDef("c1", TRef("Child"), JObj(<<P("name", JStr("x"))>>)), FOptDef("c2", TRef("Child"), JObj(<<P("id", JInt(1))>>)), F("c3", TRef("Child")),
      FDef("i1", PlainInt, JInt(3)), FDef("i2", PlainInt, JInt(0)), FOptDef("s1", PlainStr, JStr("ab")), FDef("s2", PlainStr, JStr("")),
      F("k1", TRef("K1"))>>)),
    DChild, DEnum, Def("K1", TConst(JStr("x")))>>, FALSE),
  \* 1 / 12: TWO packages (definitions "x.Name" live in a second input; OpenAPI only): the SAME bare names with DIFFERENT
  \* defaults / members / constants in both, referenced from one struct, the foreign ones first ... (no default ON a reference:
  \* cog cannot generate from allOf + default, see NOTES)
  Fixed("two-packages-defaults", <<
    Def("Root", TStruct(<<F("fc", TRef("x.Child")), F("oc", TRef("Child")), F("fe", TRef("x.E")), F("oe", TRef("E")),
                          F("fk", TRef("x.K1")), F("ok", TRef("K1")), FOpt("fa", TRef("x.A1")), FDef("n", PlainInt, JInt(3))>>)),
    DChild, DEnum, Def("K1", TConst(JStr("x"))),
    Def("x.Child", TStruct(<<FOptDef("id", PlainInt, JInt(70)), FOptDef("name", PlainStr, JStr("foreign")), FOptDef("extra", TBool, JBool(TRUE)),
                               FOptDef("mode", TEnum(<<"p", "q">>), JStr("q"))>>)),
    Def("x.E", TEnum(<<"p", "q">>)), Def("x.K1", TConst(JStr("y"))), Def("x.A1", TRef("x.Child"))>>, FALSE),
  \* ... and the own ones first
  Fixed("two-packages-defaults-reversed", <<
    Def("Root", TStruct(<<F("oc", TRef("Child")), F("fc", TRef("x.Child")), F("oe", TRef("E")), F("fe", TRef("x.E")),
                          F("ok", TRef("K1")), F("fk", TRef("x.K1")), FDef("n", PlainInt, JInt(3))>>)),
    DChild, DEnum, Def("K1", TConst(JStr("x"))),
    Def("x.Child", TStruct(<<FOptDef("id", PlainInt, JInt(70)), FOptDef("name", PlainStr, JStr("foreign")), FOptDef("extra", TBool, JBool(TRUE)),
                               FOptDef("mode", TEnum(<<"p", "q">>), JStr("q"))>>)),
    Def("x.E", TEnum(<<"p", "q">>)), Def("x.K1", TConst(JStr("y")))>>, FALSE),
  \* 13: documents through alias chains of length 2 and 3 before a struct / a collection of structs ...
  Fixed("alias-chains-struct", <<
    Def("Root", TStruct(<<F("p", TRef("T1")), FOpt("ps", TRef("L1")), FOpt("m", TRef("M1")), FOpt("ap", TArr(TRef("T2")))>>)),
    Def("T1", TRef("T2")), Def("T2", TRef("T3")), Def("T3", TRef("Point")),
    Def("L1", TRef("L2")), Def("L2", TArr(TRef("T1"))), Def("M1", TRef("M2")), Def("M2", TMap(TRef("Point"))),
    Def("Point", TStruct(<<F("x", PlainInt), FOpt("y", PlainInt)>>))>>, FALSE),
  \* ... and before an enum, a constant, a constrained scalar (separate: a defect of one must not hide the other)
  Fixed("alias-chains-scalar", <<
    Def("Root", TStruct(<<F("e", TRef("E3")), F("k", TRef("K1")), FOpt("n", TRef("N1")), FOpt("es", TArr(TRef("E3")))>>)),
    Def("E3", TRef("E2")), Def("E2", TRef("E")), DEnum, Def("K1", TRef("K2")), Def("K2", TConst(JStr("x"))),
    Def("N1", TRef("N2")), Def("N2", TInt("int64", Ge(0), NoB))>>, FALSE),
  \* optional / nullable date-times (alone, in arrays, in maps): documents with the field absent
  Fixed("optional-times", <<
    Def("Root", TStruct(<<F("t", TTime), FOpt("ot", TTime), FOptNull("ont", TTime), FNull("nt", TTime), FOpt("ats", TArr(TTime)),
                          FOpt("mt", TMap(TTime)), FOpt("inner", TRef("Stamp"))>>)),
    Def("Stamp", TStruct(<<FOpt("at", TTime), F("label", PlainStr)>>))>>, FALSE),
  \* two union-typed fields whose NAMES extend each other by the suffixes a generator appends to its helper names (_ref, _array, _map,
  \* _union): one union reached through a NAMED union / an array / a map, the sibling inline, with different branches
  Fixed("helper-name-collisions", <<
    Def("Root", TStruct(<<F("datasource", TRef("DS")), F("datasource_ref", TDUnion("kind", <<"Zebra", "Apple">>)),
                          FOpt("items", TArr(TDUnion("kind", <<"Mango", "Apple">>))), FOpt("items_array", TDUnion("kind", <<"Zebra", "Mango">>)),
                          FOpt("byKey", TMap(TDUnion("kind", <<"Zebra", "Apple">>))), FOpt("byKey_map", TDUnion("kind", <<"Mango", "Zebra">>)),
                          FOpt("one", TDUnion("kind", <<"Apple", "Mango">>)), FOpt("one_union", TRef("DS"))>>)),
    Def("DS", TDUnion("kind", <<"Mango", "Zebra">>)), UMango, UZebra, UApple>>, FALSE),
  \* constants, discriminators, enum members and defaults made of characters a string literal has to escape
  Fixed("string-literals", <<
    Def("Root", TStruct(<<F("sep", TConst(JStr("@bt"))), F("mode", TEnum(<<"@bt", "plain">>)), FOptDef("d", PlainStr, JStr("@bt")),
                          FOpt("u", PlainStr), F("du", TDUnion("kind", <<"Tab", "Plain">>))>>)),
    Def("Tab", TStruct(<<F("kind", TConst(JStr("@bt"))), F("n", PlainInt)>>)),
    Def("Plain", TStruct(<<F("kind", TConst(JStr("plain"))), FOpt("s", PlainStr)>>))>>, FALSE),
  \* OPTIONAL constants (string, integer; at the root, in a referenced struct, in array items): Docs() holds documents WITH each of
  \* them (base) and WITHOUT (the one-place variants that drop an optional field)
  Fixed("optional-constants", <<
    Def("Root", TStruct(<<F("text", PlainStr), FOpt("kind", TConst(JStr("note"))), FOpt("level", TConst(JInt(2))), F("inner", TRef("In")),
                          FOpt("items", TArr(TRef("In"))), F("fixed", TConst(JStr("f")))>>)),
    Def("In", TStruct(<<F("v", PlainInt), FOpt("tag", TConst(JStr("t")))>>))>>, FALSE),
  \* collections whose items reach a discriminated union through a REFERENCE to a named union object, next to the inline variants
  Fixed("named-union-collections", <<
    Def("Root", TStruct(<<F("list", TArr(TRef("DS"))), FOpt("byKey", TMap(TRef("DS"))), FOpt("nested", TArr(TArr(TRef("DS")))),
                          FOpt("mixed", TMap(TArr(TRef("DS")))), FOpt("inlineList", TArr(TDUnion("kind", <<"Zebra", "Apple">>))),
                          FOpt("one", TRef("DS")), FOpt("viaAlias", TArr(TRef("DS2")))>>)),
    Def("DS", TDUnion("kind", <<"Mango", "Zebra">>)), Def("DS2", TRef("DS")), UMango, UZebra, UApple>>, FALSE)
>>

\* the default declared as a disjunction of the type with a CONSTANT (compiler pass disjunction_with_constant_to_default, enabled for
\* these units only): entry field `spell` = which branch comes first; the renderer spells anyOf:[{const}, {type}] / `"utc" | string`
ConstDisjLeaves == <<
  DL("disjunction-constant-string",  PlainStr, JStr("utc"), <<>>), DL("disjunction-constant-integer", PlainInt, JInt(3), <<>>),
  DL("disjunction-constant-float",   TNum("float64", NoB, NoB), JNum(15), <<>>), DL("disjunction-constant-bool", TBool, JBool(TRUE), <<>>)
>>
ConstDisjEntries ==
  LET one(sp, pos) == [i \in DOMAIN ConstDisjLeaves |-> [schema |-> DSchema(ConstDisjLeaves[i], pos), leaf |-> ConstDisjLeaves[i].name,
                                                           pos |-> pos, cons |-> FALSE, spell |-> sp]]
  IN one("const-first", "top") \o one("const-last", "top") \o one("const-first", "optional") \o one("const-last", "optional")

\* a field whose type is a DISJUNCTION OF CONSTANTS (`1 | 2 | *3`, oneOf:[{const: 1}, {const: 2}, {const: 3}] + default): the default
\* designates one of the constants. Strings (where a member's name and its value coincide in a generator), integers and floats
\* (where they do not), the default first / in the middle / last, two and three constants; plus a disjunction of a constant with a
\* reference to a named enum. (Appended at the end of the catalogue: earlier ids are unchanged.)
KI(i) == TConst(JInt(i))
KS(s) == TConst(JStr(s))
KN(n) == TConst(JNum(n))
ConstUnionLeaves == <<
  DL("constants-disjunction-integer",        TUnion(<<KI(1), KI(2), KI(3)>>), JInt(3), <<>>),
  DL("constants-disjunction-integer-first",  TUnion(<<KI(1), KI(2), KI(3)>>), JInt(1), <<>>),
  DL("constants-disjunction-integer-zero",   TUnion(<<KI(0), KI(5)>>), JInt(0), <<>>),
  DL("constants-disjunction-integer-2",      TUnion(<<KI(0), KI(5)>>), JInt(5), <<>>),
  DL("constants-disjunction-integer-negative", TUnion(<<KI(-1), KI(1)>>), JInt(-1), <<>>),
  DL("constants-disjunction-float",          TUnion(<<KN(15), KN(25)>>), JNum(25), <<>>),
  DL("constants-disjunction-string",         TUnion(<<KS("auto"), KS("manual")>>), JStr("manual"), <<>>),
  DL("constants-disjunction-string-cased",   TUnion(<<KS("Auto"), KS("a-b"), KS("1x")>>), JStr("a-b"), <<>>),
  DL("constants-disjunction-enum-ref",       TUnion(<<TRef("E"), KS("c")>>), JStr("b"), <<DEnum>>),
  DL("constants-disjunction-enum-ref-const", TUnion(<<TRef("E"), KS("c")>>), JStr("c"), <<DEnum>>)
>>
ConstUnionEntries ==
  [i \in 1..(Len(ConstUnionLeaves) * 2) |-> DEntry(ConstUnionLeaves[((i - 1) \div 2) + 1], DefPositions[((i - 1) % 2) + 1])]

DefCatalogue ==
  DFixedList
  \o [i \in 1..(Len(DefLeaves) * Len(DefPositions)) |->
        DEntry(DefLeaves[((i - 1) \div Len(DefPositions)) + 1], DefPositions[((i - 1) % Len(DefPositions)) + 1])]
  \o DFixedList2
  \o ConstDisjEntries
  \o ConstUnionEntries

InDef(i)   == i > IdBase /\ (i - IdBase) \in DOMAIN DefCatalogue
EntryOf(i) == IF InDef(i) THEN DefCatalogue[i - IdBase] ELSE Catalogue[i]
AllIds     == DOMAIN Catalogue \cup {IdBase + i : i \in DOMAIN DefCatalogue}

StructNames(schema) == {schema.defs[i].name : i \in {j \in DOMAIN schema.defs : schema.defs[j].t.k = "struct"}}
ObjMarker(n) == [d |-> NoJ, f |-> "object", p |-> <<n>>]

DInit ==
  CASE Mode = "index"    -> si \in {IdBase + i : i \in DOMAIN DefCatalogue} /\ dx = Marker
    [] Mode = "cases"    -> si \in (Ids \cap AllIds) /\ dx \in Docs(EntryOf(si).schema, Fuel)
    [] Mode = "defaults" -> si \in (Ids \cap AllIds) /\ dx \in {ObjMarker(n) : n \in StructNames(EntryOf(si).schema)}
DSpec == DInit /\ [][Next]_vars

DEmit ==
  LET e == EntryOf(si) IN
  CASE Mode = "index"    -> PrintT(<<"INDEX", ToJson([id |-> si, leaf |-> e.leaf, pos |-> e.pos, cons |-> e.cons, schema |-> e.schema,
                                                       spell |-> IF "spell" \in DOMAIN e THEN e.spell ELSE "plain"])>>)
    [] Mode = "cases"    -> PrintT(<<"CASE", ToJson([id |-> si] @@ Expect(e.schema, dx))>>)
    [] Mode = "defaults" ->
         LET S == DefsFn(e.schema)
             o == dx.p[1] IN
         PrintT(<<"DEFAULT", ToJson([id |-> si, obj |-> o, doc |-> DefaultDoc(S, S[o]),
                                     full |-> IF o = e.schema.root THEN FullDefault(S, S[o], Fuel) ELSE NoJ])>>)
===============================================================================
