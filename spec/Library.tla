-------------------------------- MODULE Library --------------------------------
(* C15, library route: "the library's name-prefixing and comment-appending". The public package offers                 *)
(*   cog.TypesFromSchema().CUEValue(pkg, v).SchemaTransformations(p...).SchemaTransformations(q...).Golang(cfg).Run()   *)
(* with cog.PrefixObjectsNames / cog.AppendCommentToObjects as its own transformations. Requirement: the               *)
(* transformations apply in the order they were given - across calls as well as within one call - each with the effect  *)
(* Transforms.tla states (every object renamed prefix+name / comment appended to every object's comments, nothing else). *)
(* One state = one way of giving a sequence of transformations to the library (the sequence and how it is split over    *)
(* calls); Emit prints it with the objects (name, comments) the generated code must declare.                           *)
EXTENDS Transforms, TLC, Json

LibFoldTable == [Container |-> "container", Item |-> "item", Kind |-> "kind"]
LibTrimTable == [x \in {" a "} |-> "a"]
LibHintRank  == [h1 |-> 1]

\* what cog's CUE front-end makes of checks/library_part.py's LIB_CUE (names and comments are what the check looks at)
LibIR == << SchemaOf("lib", <<
    ObjC("lib", "Container", TStruct(<<Field("item", TRef("lib", "Item"), TRUE), Field("name", TString, TRUE)>>), <<"container comment">>),
    Obj("lib", "Item", TStruct(<<Field("value", TString, TRUE)>>)),
    Obj("lib", "Kind", TEnum(<<Member("A", VStr("a"), "string"), Member("B", VStr("b"), "string")>>)) >>) >>

LibActs == [a : {"prefix_objects_names"}, prefix : {"Outer", "Inner"}]
      \cup [a : {"append_comment_objects"}, comment : {"c1", "c2"}]

RECURSIVE ApplyAll(_, _)
ApplyAll(S, h) == IF h = <<>> THEN S ELSE ApplyAll(Apply(S, Head(h)).S, Tail(h))
Summary(S) == {[name |-> o.name, comments |-> o.comments] : o \in AllObjects(S)}
Expect(h) == Summary(ApplyAll(LibIR, h))
===============================================================================
