-------------------------------- MODULE Library --------------------------------
(* C15, library route: "the library's name-prefixing and comment-appending". The public package offers                 *)
(*   cog.TypesFromSchema().CUEValue(pkg, v).SchemaTransformations(p...).SchemaTransformations(q...).Golang(cfg).Run()   *)
(* with cog.PrefixObjectsNames / cog.AppendCommentToObjects as its own transformations. Requirement: the               *)
(* transformations apply in the order they were given - across calls as well as within one call - each with the effect  *)
(* Transforms.tla states (every object renamed prefix+name / comment appended to every object's comments, nothing else). *)
(* One state = one way of giving a sequence of transformations to the library (the sequence and how it is split over    *)
(* calls); Emit prints it with the objects (name, comments) the generated code must declare.                           *)
EXTENDS Transforms, TLC, Json

LibFoldTable == [Container |-> "container", Item |-> "item", Kind |-> "kind", LibContainerOpts |-> "libcontaineropts",
                 StringOrBool |-> "stringorbool"]
LibTrimTable == [x \in {" a "} |-> "a"]
LibHintRank  == [h1 |-> 1]

(* What the transformations see. cog documents them as FINAL passes ("applied *after* language-specific passes",          *)
(* codegen.Transforms.FinalPasses; run.go: language.CompilerPasses().Concat(pipeline.finalPasses())), so LibIR is what     *)
(* cog's CUE front-end makes of checks/library_part.py's LIB_CUE followed by the Go chain: the inline struct of            *)
(* Container.opts has become the object LibContainerOpts and the disjunction string | bool the object StringOrBool. Every      *)
(* type the generated code declares is therefore subject to the prefix and to the comment (names and comments are what     *)
(* the check looks at).                                                                                                    *)
LibIR == << SchemaOf("lib", <<
    ObjC("lib", "Container", TStruct(<<Field("item", TRef("lib", "Item"), TRUE), Field("name", TString, TRUE),
                                       Field("opts", TRef("lib", "LibContainerOpts"), TRUE),
                                       Field("either", TRef("lib", "StringOrBool"), TRUE)>>), <<"container comment">>),
    Obj("lib", "Item", TStruct(<<Field("value", TString, TRUE)>>)),
    Obj("lib", "Kind", TEnum(<<Member("A", VStr("a"), "string"), Member("B", VStr("b"), "string")>>)),
    Obj("lib", "LibContainerOpts", TStruct(<<Field("flag", TScalar("bool"), TRUE)>>)),
    Obj("lib", "StringOrBool", TStruct(<<Field("String", AsNullable(TString), FALSE),
                                          Field("Bool", AsNullable(TScalar("bool")), FALSE)>>)) >>) >>

LibActs == [a : {"prefix_objects_names"}, prefix : {"Outer", "Inner"}]
      \cup [a : {"append_comment_objects"}, comment : {"c1", "c2"}]

RECURSIVE ApplyAll(_, _)
ApplyAll(S, h) == IF h = <<>> THEN S ELSE ApplyAll(Apply(S, Head(h)).S, Tail(h))
Summary(S) == {[name |-> o.name, comments |-> o.comments] : o \in AllObjects(S)}
Expect(h) == Summary(ApplyAll(LibIR, h))
===============================================================================
