----------------------------- MODULE BuildersDeepMC -----------------------------
(* C16, thorough tier: a deeper universe of schema sets for Derive/C16Violated.  *)
(*  Mode "chains"  reference chains of 1..4 hops over three packages (third one   *)
(*                 loaded or not), hop names plain / letter-case variants / the   *)
(*                 same name in every package, ending in a struct, a hinted       *)
(*                 struct, scalar, constant, enum, array, disjunction,            *)
(*                 intersection, a missing object or an unloaded package; decoys  *)
(*                 of another kind under the terminal's name in the starting      *)
(*                 package and under a letter-case variant next to the terminal;  *)
(*                 a second alias of the same target; a struct holding a required *)
(*                 and an optional reference to the chain's head.                 *)
(*  Mode "fields"  every base field type x required x nullable x default x        *)
(*                 constraints, alone in a struct, under four schema metadata     *)
(*                 settings and struct hints.                                     *)
(*  Mode "cycles"  alias cycles (run against the real code in an isolated         *)
(*                 process: the real resolution does not terminate on them).      *)
(*  Mode "walk"    (tlc -simulate, seeded) schema sets grown one object at a time *)
(*                 from a catalogue of names differing in letter case x packages  *)
(*                 x type templates referring to those names; every successor     *)
(*                 state is a case.                                               *)
(* Each distinct state is one schema set, printed with Derive(S) and the modes.   *)
EXTENDS Builders, TLC, Json

CONSTANTS Mode, MaxObjs, Slice, NSlices
VARIABLES S, tag
vars == <<S, tag>>

DFoldTable == [x \in {"p"} |-> "p"]
DSingular == [tags |-> "tag"]
DLCamel   == [Inner |-> "inner"]
Con(op, v) == [op |-> op, args |-> <<v>>]
VList(s) == [t |-> "[]interface {}", s |-> s]
VMap(s)  == [t |-> "map[string]interface {}", s |-> s]
EnT    == TEnum(<<Member("A", VStr("a"), "string"), Member("B", VStr("b"), "string")>>)
Meta(k, v, id) == [kind |-> k, variant |-> v, id |-> id]
Sch(p, meta, objs) == [SchemaOf(p, objs) EXCEPT !.meta = meta]

(* ------------------------------ support -------------------------------- *)
SupportP == <<Obj("p", "Other", TStruct(<<Field("x", TString, TRUE)>>)), Obj("p", "En", EnT),
              Obj("p", "K", TConst("string", VStr("kv"))), Obj("p", "Sc", TString), Obj("p", "Arr", TArray(TString)),
              Obj("p", "KAlias", TRef("p", "K")), Obj("p", "KAlias2", TRef("p", "KAlias")), Obj("p", "KXAlias", TRef("q", "KQ")),
              Obj("p", "KQ", TString),
              \* constants that are not non-empty strings; the value keeps the Go type the loader produced (BuildersMC Consts16)
              Obj("p", "KNum", TConst("float64", VInt("2"))), Obj("p", "KI32", TConst("int32", [t |-> "int", s |-> "5"])),
              Obj("p", "KF32", TConst("float32", [t |-> "float64", s |-> "1.5"])), Obj("p", "KF32Alias", TRef("p", "KF32")),
              Obj("p", "KFalse", TConst("bool", VBool(FALSE))), Obj("p", "KZero", TConst("int64", VInt("0"))),
              Obj("p", "KEmpty", TConst("string", VStr("")))>>
SupportQ == <<Obj("q", "QS", TStruct(<<Field("v", TString, TRUE)>>)), Obj("q", "QEn", EnT), Obj("q", "KQ", TConst("string", VStr("kq"))),
              Obj("q", "KU8", TConst("uint8", VInt("3")))>>
SupportR == <<Obj("r", "RS", TStruct(<<Field("w", TString, TRUE)>>)), Obj("r", "KR", TConst("float64", VInt("7")))>>

(* ============================ mode "chains" ============================ *)
Pkgs3 == <<"p", "q", "r">>
HopPkg(pat, i) == CASE pat = "ppp" -> "p"
                    [] pat = "pqpq" -> IF i % 2 = 0 THEN "p" ELSE "q"
                    [] pat = "pqr" -> Pkgs3[(i % 3) + 1]
                    [] OTHER -> IF i = 0 THEN "p" ELSE "q"              \* "pqqq"
HopName(names, i) == CASE names = "plain" -> <<"C0", "C1", "C2", "C3", "C4">>[i + 1]
                       [] names = "case" -> <<"Foo", "foo", "FOO", "fOo", "foO">>[i + 1]
                       [] OTHER -> "Foo"                                 \* the same name in every package
Terms == {"struct", "hinted-struct", "scalar", "constant", "enum", "array", "disjunction", "intersection", "missing", "unloaded"}
TermType(t) ==
  CASE t = "struct" -> TStruct(<<Field("t", TString, TRUE), Field("k", TConst("string", VStr("tk")), TRUE)>>)
    [] t = "hinted-struct" -> WithHints(TStruct(<<Field("str", AsNullable(TString), FALSE)>>), <<Hint("skip_variant_plugin_registration", VBool(TRUE))>>)
    [] t = "scalar" -> TString
    [] t = "constant" -> TConst("string", VStr("tc"))
    [] t = "enum" -> EnT
    [] t = "array" -> TArray(TRef("p", "Other"))
    [] t = "disjunction" -> TDisj(<<TRef("p", "Other"), TString>>, "", <<>>)
    [] OTHER -> TInter(<<TRef("p", "Other"), TStruct(<<Field("y", TString, FALSE)>>)>>)
DecoyType(t) == IF t \in {"struct", "hinted-struct"} THEN TString ELSE TStruct(<<Field("decoy", TString, TRUE)>>)

\* objects of the chain as <<pkg, object>> pairs; hop i (0..len-1) refers to hop i+1; the last hop refers to the terminal
ChainObjs(len, pat, names, term, decoy) ==
  LET tp == HopPkg(pat, len)
      tn == IF term = "missing" THEN "Gone" ELSE IF names = "plain" THEN "Target" ELSE HopName(names, len)
      tpkg == IF term = "unloaded" THEN "zz" ELSE tp
      hops == [i \in 1..len |-> <<HopPkg(pat, i - 1),
                                  Obj(HopPkg(pat, i - 1), HopName(names, i - 1),
                                      IF i = len THEN TRef(tpkg, tn) ELSE TRef(HopPkg(pat, i), HopName(names, i)))>>]
      terminal == IF term \in {"missing", "unloaded"} THEN <<>> ELSE <<<<tp, Obj(tp, tn, TermType(term))>>>>
      decoys == (IF decoy \in {"start", "both"} /\ tp # "p" /\ term \notin {"missing", "unloaded"} THEN <<<<"p", Obj("p", tn, DecoyType(term))>>>> ELSE <<>>)
                \o (IF decoy \in {"case", "both"} /\ term \notin {"missing", "unloaded"} THEN <<<<tp, Obj(tp, "tARGET", DecoyType(term))>>>> ELSE <<>>)
      head == TRef("p", HopName(names, 0))
      extras == <<<<"p", Obj("p", "Twin", hops[1][2].type)>>,
                  <<"q", Obj("q", "Holder", TStruct(<<Field("f", head, TRUE), Field("g", AsNullable(head), FALSE),
                                                     Field("h", TArray(head), FALSE), Field("m", TMap(TString, head), FALSE)>>))>>>>
  IN hops \o terminal \o decoys \o extras
NoDupNames(objs) == \A i, j \in DOMAIN objs : (objs[i][1] = objs[j][1] /\ objs[i][2].name = objs[j][2].name) => i = j
OfPkg(objs, p) == LET mine == SelectSeq(objs, LAMBDA x : x[1] = p) IN [i \in DOMAIN mine |-> mine[i][2]]
RevSeq(q) == [i \in DOMAIN q |-> q[Len(q) + 1 - i]]
ChainS0(len, pat, names, term, decoy, rl) ==
  LET objs == ChainObjs(len, pat, names, term, decoy) IN
  <<SchemaOf("p", OfPkg(objs, "p") \o SupportP), SchemaOf("q", SupportQ \o OfPkg(objs, "q"))>>
  \o (IF rl THEN <<SchemaOf("r", OfPkg(objs, "r") \o SupportR)>> ELSE <<>>)
\* rev: packages and every package's objects declared in the reverse order (targets before their aliases, q before p)
ChainS(len, pat, names, term, decoy, rl, rev) ==
  LET s0 == ChainS0(len, pat, names, term, decoy, rl) IN
  IF rev THEN RevSeq([i \in DOMAIN s0 |-> [s0[i] EXCEPT !.objects = RevSeq(@)]]) ELSE s0
ChainRecipes == {rc \in [len : 1..4, pat : {"ppp", "pqpq", "pqr", "pqqq"}, names : {"plain", "case", "same"}, term : Terms,
                         decoy : {"none", "start", "case", "both"}, rl : BOOLEAN, rev : BOOLEAN] :
                   /\ NoDupNames(ChainObjs(rc.len, rc.pat, rc.names, rc.term, rc.decoy))
                   /\ (rc.names = "same" => rc.pat = "pqr" /\ rc.len <= 2)
                   /\ (rc.pat = "ppp" => rc.decoy \in {"none", "case"})}

(* ============================ mode "fields" ============================ *)
BaseTypes == <<
  [n |-> "string", t |-> TString, d |-> VStr("ds"), c |-> <<Con("minLength", VInt("1")), Con("maxLength", VInt("9"))>>],
  [n |-> "int", t |-> TScalar("int64"), d |-> VInt("3"), c |-> <<Con(">=", VInt("0")), Con("<", VInt("10"))>>],
  [n |-> "float", t |-> TScalar("float64"), d |-> [t |-> "float64", s |-> "1.5"], c |-> <<Con(">", VInt("0"))>>],
  [n |-> "bool", t |-> TScalar("bool"), d |-> VBool(TRUE), c |-> <<>>],
  [n |-> "bytes", t |-> TScalar("bytes"), d |-> VNil, c |-> <<>>],
  [n |-> "any", t |-> TScalar("any"), d |-> VMap("{\"a\":1}"), c |-> <<>>],
  [n |-> "datetime", t |-> WithHints(TString, <<Hint("string_format_datetime", VBool(TRUE))>>), d |-> VNil, c |-> <<>>],
  [n |-> "constant", t |-> TConst("string", VStr("cv")), d |-> VNil, c |-> <<>>],
  [n |-> "constant-int", t |-> TConst("int64", VInt("4")), d |-> VNil, c |-> <<>>],
  [n |-> "ref-struct", t |-> TRef("p", "Other"), d |-> VMap("{\"x\":\"dx\"}"), c |-> <<>>],
  [n |-> "ref-struct-q", t |-> TRef("q", "QS"), d |-> VNil, c |-> <<>>],
  [n |-> "ref-enum", t |-> TRef("p", "En"), d |-> VStr("a"), c |-> <<>>],
  [n |-> "ref-scalar", t |-> TRef("p", "Sc"), d |-> VStr("rs"), c |-> <<>>],
  [n |-> "ref-array", t |-> TRef("p", "Arr"), d |-> VNil, c |-> <<>>],
  [n |-> "ref-const", t |-> TRef("p", "K"), d |-> VNil, c |-> <<>>],
  [n |-> "ref-const-q", t |-> TRef("q", "KQ"), d |-> VNil, c |-> <<>>],
  [n |-> "ref-const-chain2", t |-> TRef("p", "KAlias"), d |-> VNil, c |-> <<>>],
  [n |-> "ref-const-chain3", t |-> TRef("p", "KAlias2"), d |-> VNil, c |-> <<>>],
  [n |-> "ref-const-chain-x", t |-> TRef("p", "KXAlias"), d |-> VNil, c |-> <<>>],
  [n |-> "ref-const-number-as-int", t |-> TRef("p", "KNum"), d |-> VNil, c |-> <<>>],
  [n |-> "ref-const-uint8-q", t |-> TRef("q", "KU8"), d |-> VNil, c |-> <<>>],
  [n |-> "ref-const-float32-alias", t |-> TRef("p", "KF32Alias"), d |-> VNil, c |-> <<>>],
  [n |-> "ref-const-int32-as-int", t |-> TRef("p", "KI32"), d |-> VNil, c |-> <<>>],
  [n |-> "ref-const-false", t |-> TRef("p", "KFalse"), d |-> VNil, c |-> <<>>],
  [n |-> "ref-const-zero", t |-> TRef("p", "KZero"), d |-> VNil, c |-> <<>>],
  [n |-> "ref-const-empty", t |-> TRef("p", "KEmpty"), d |-> VNil, c |-> <<>>],
  [n |-> "constant-number-as-int", t |-> TConst("float64", VInt("2")), d |-> VNil, c |-> <<>>],
  [n |-> "constant-false", t |-> TConst("bool", VBool(FALSE)), d |-> VNil, c |-> <<>>],
  [n |-> "constant-empty", t |-> TConst("string", VStr("")), d |-> VNil, c |-> <<>>],
  [n |-> "ref-missing", t |-> TRef("p", "Nope"), d |-> VNil, c |-> <<>>],
  [n |-> "ref-unloaded", t |-> TRef("zz", "Nope"), d |-> VNil, c |-> <<>>],
  [n |-> "constref", t |-> TConstRef("p", "En", VStr("a")), d |-> VNil, c |-> <<>>],
  [n |-> "array", t |-> TArray(TString), d |-> VList("[\"a\"]"), c |-> <<>>],
  [n |-> "array-of-refs", t |-> TArray(TRef("p", "Other")), d |-> VNil, c |-> <<>>],
  [n |-> "array-of-arrays", t |-> TArray(TArray(TRef("q", "QS"))), d |-> VNil, c |-> <<>>],
  [n |-> "map", t |-> TMap(TString, TString), d |-> VMap("{\"k\":\"v\"}"), c |-> <<>>],
  [n |-> "map-of-refs", t |-> TMap(TString, TRef("p", "Other")), d |-> VNil, c |-> <<>>],
  [n |-> "struct", t |-> TStruct(<<Field("in1", TString, TRUE),
                                   Field("in2", TStruct(<<Field("deep", TConst("string", VStr("dc")), TRUE), Field("r", TRef("p", "K"), TRUE)>>), FALSE)>>),
                   d |-> VNil, c |-> <<>>],
  [n |-> "enum", t |-> EnT, d |-> VStr("b"), c |-> <<>>],
  [n |-> "disjunction", t |-> TDisj(<<TString, TRef("p", "Other")>>, "", <<>>), d |-> VNil, c |-> <<>>],
  [n |-> "disjunction-of-refs", t |-> TDisj(<<TRef("p", "Other"), TRef("q", "QS")>>, "kind", <<MapTo("o", "Other"), MapTo("q", "QS")>>), d |-> VNil, c |-> <<>>],
  [n |-> "intersection", t |-> TInter(<<TRef("p", "Other"), TStruct(<<Field("y", TString, FALSE)>>)>>), d |-> VNil, c |-> <<>>],
  [n |-> "slot", t |-> TSlot("dataquery"), d |-> VNil, c |-> <<>>],
  [n |-> "int-repeated-operators", t |-> TScalar("int64"), d |-> VInt("6"), c |-> <<Con(">=", VInt("0")), Con(">=", VInt("5")), Con("<", VInt("10")), Con(">=", VInt("1"))>>],
  [n |-> "array-empty-default", t |-> TArray(TRef("p", "Other")), d |-> VList("[]"), c |-> <<>>],
  [n |-> "map-empty-default", t |-> TMap(TString, TString), d |-> VMap("{}"), c |-> <<>>],
  [n |-> "ref-array-empty-default", t |-> TRef("p", "Arr"), d |-> VList("[]"), c |-> <<>>]
>>
FieldRecipes == {fr \in [b : DOMAIN BaseTypes, req : BOOLEAN, null : BOOLEAN, def : BOOLEAN, cons : BOOLEAN, meta : 1..4] :
                   /\ (fr.def => BaseTypes[fr.b].d # VNil)
                   /\ (fr.cons => BaseTypes[fr.b].c # <<>>)
                   /\ (fr.meta > 1 => (fr.req /\ ~fr.null))}            \* metadata / hints only vary on the plain shape
FieldOf(fr) ==
  LET bt == BaseTypes[fr.b]
      t0 == IF fr.cons THEN [bt.t EXCEPT !.cons = bt.c] ELSE bt.t
      t1 == IF fr.def THEN WithDef(t0, bt.d) ELSE t0
      t2 == IF fr.null THEN AsNullable(t1) ELSE t1
  IN FieldC("f", t2, fr.req, IF fr.b % 2 = 0 THEN <<"doc">> ELSE <<>>)
MetaOf16(m) == CASE m = 1 -> NoMeta [] m = 2 -> Meta("core", "", "") [] m = 3 -> Meta("composable", "panelcfg", "pid") [] OTHER -> Meta("composable", "dataquery", "")
HintsOf16(m) == CASE m = 3 -> <<Hint("skip_variant_plugin_registration", VBool(TRUE))>> [] m = 4 -> <<Hint("implements_variant", VStr("dataquery"))>> [] OTHER -> <<>>
FieldS(fr) == <<Sch("p", MetaOf16(fr.meta), <<Obj("p", "Main", WithHints(TStruct(<<FieldOf(fr), Field("z", TString, FALSE)>>), HintsOf16(fr.meta)))>> \o SupportP),
                SchemaOf("q", SupportQ)>>

(* ============================ mode "cycles" ============================ *)
CycleSets == {
  <<SchemaOf("p", <<Obj("p", "Loop", TRef("p", "Loop"))>> \o SupportP)>>,
  <<SchemaOf("p", <<Obj("p", "A", TRef("p", "B")), Obj("p", "B", TRef("p", "A"))>> \o SupportP)>>,
  <<SchemaOf("p", <<Obj("p", "A", TRef("q", "B")), Obj("p", "User", TStruct(<<Field("f", TRef("p", "A"), TRUE)>>))>> \o SupportP),
    SchemaOf("q", <<Obj("q", "B", TRef("p", "A"))>> \o SupportQ)>>}

(* =========================== mode "pipeline" ============================ *)
\* codegen.Pipeline.ContextForLanguage: language passes, then the pipeline's final passes, then FromAST.  The builders it
\* returns must be the derivation of the schemas it returns ("as shown by cog inspect --ir builders").  Every struct keeps at
\* least one option: Rewriter.ApplyTo (run by the pipeline even without veneers) drops builders without options (C17 finding).
KindRefOrNull == TDisj(<<TRef("p", "Kind"), TNull>>, "", <<>>)
\* three packages, each with structs written in place (as a field, as the items of an array, as the values of a map): the
\* language chains that name such structs (Go, Python, Java, PHP) add objects to every package, one package after the other;
\* r declares a struct under the name the chain gives to p's (PDashOpts); r refers to constants of p that are not strings.
\* Declared in both orders.
Pipe3 == <<
  SchemaOf("p", <<Obj("p", "Dash", TStruct(<<Field("title", TString, TRUE), Field("opts", TStruct(<<Field("a", TString, TRUE)>>), TRUE),
                                             Field("items", TArray(TStruct(<<Field("n", TString, TRUE)>>)), FALSE)>>)),
                  Obj("p", "Version", TConst("float64", VInt("2"))), Obj("p", "Level", TConst("uint8", VInt("3")))>>),
  SchemaOf("q", <<Obj("q", "Panel", TStruct(<<Field("name", TString, TRUE), Field("legend", TStruct(<<Field("show", TScalar("bool"), TRUE)>>), TRUE),
                                              Field("byName", TMap(TString, TStruct(<<Field("v", TString, TRUE)>>)), FALSE)>>))>>),
  SchemaOf("r", <<Obj("r", "Row", TStruct(<<Field("id", TString, TRUE), Field("dash", TRef("p", "Dash"), FALSE),
                                            Field("version", TRef("p", "Version"), TRUE), Field("level", TRef("p", "Level"), TRUE)>>)),
                  Obj("r", "PDashOpts", TStruct(<<Field("mine", TString, TRUE)>>))>>)>>
PipeSets == {
  <<SchemaOf("p", <<Obj("p", "Options", TStruct(<<Field("size", TScalar("int64"), TRUE), Field("title", WithDef(TString, VStr("t")), FALSE),
                                                   Field("legend", TRef("p", "Legend"), TRUE), Field("kind", TRef("p", "Kind"), TRUE),
                                                   Field("maybeKind", KindRefOrNull, TRUE), Field("optKind", TRef("p", "Kind"), FALSE)>>)),
                      Obj("p", "Legend", TStruct(<<Field("placement", TString, TRUE), Field("show", TScalar("bool"), FALSE)>>)),
                      Obj("p", "Internal", TStruct(<<Field("x", TString, TRUE)>>)),
                      Obj("p", "Kind", TConst("string", VStr("dashboard"))),
                      Obj("p", "LegendAlias", TRef("p", "Legend"))>>)>>,
  <<SchemaOf("p", <<Obj("p", "Panel", TStruct(<<Field("legend", AsNullable(TRef("q", "Legend")), FALSE), Field("tags", TArray(TString), TRUE),
                                                 Field("inline", TStruct(<<Field("a", TString, TRUE)>>), TRUE)>>))>>),
    SchemaOf("q", <<Obj("q", "Legend", TStruct(<<Field("placement", TString, TRUE), Field("show", TScalar("bool"), FALSE)>>)), Obj("q", "Internal", TStruct(<<Field("x", TString, TRUE)>>))>>)>>,
  Pipe3, <<Pipe3[3], Pipe3[2], Pipe3[1]>>}
NoC == [given |-> FALSE, c |-> <<>>]
ORef(p, o) == [pkg |-> p, obj |-> o]
FRef(p, o, f) == [pkg |-> p, obj |-> o, field |-> f]
PassLists == {<<>>,
  <<[a |-> "prefix_objects_names", prefix |-> "Grafana"]>>,
  <<[a |-> "retype_field", field |-> FRef("p", "Options", "size"), as |-> TScalar("uint8"), comments |-> NoC]>>,
  <<[a |-> "retype_field", field |-> FRef("p", "Legend", "placement"), as |-> TConst("string", VStr("bottom")), comments |-> NoC],
    [a |-> "retype_field", field |-> FRef("q", "Legend", "placement"), as |-> TConst("string", VStr("bottom")), comments |-> NoC]>>,
  <<[a |-> "omit", objects |-> <<ORef("p", "Internal"), ORef("q", "Internal")>>]>>,
  <<[a |-> "rename_object", from |-> ORef("p", "Internal"), to |-> "Renamed"], [a |-> "rename_object", from |-> ORef("q", "Internal"), to |-> "Renamed"]>>,
  <<[a |-> "omit_fields", fields |-> <<FRef("p", "Options", "title"), FRef("p", "Panel", "tags")>>]>>}
PipeLangs == {"go", "typescript", "python", "java", "php"}

(* ============================= mode "walk" ============================= *)
Names == {"Foo", "foo", "FOO", "Bar"}
WalkPkgs == {"p", "q", "r"}
RefTargets == {<<"p", "Foo">>, <<"p", "foo">>, <<"q", "Foo">>, <<"q", "FOO">>, <<"r", "Bar">>, <<"p", "Bar">>, <<"p", "Other">>, <<"q", "KQ">>, <<"r", "KR">>}
WalkFieldTypes == {TRef(x[1], x[2]) : x \in RefTargets} \cup {AsNullable(TRef(x[1], x[2])) : x \in RefTargets}
                  \cup {TString, TConst("string", VStr("wc")), TArray(TRef("p", "Foo")), TMap(TString, TRef("q", "Foo")),
                        TConstRef("p", "En", VStr("a")), WithDef(TScalarC("string", VNil, <<Con("minLength", VInt("1"))>>), VStr("wd"))}
WalkTypes == {TRef(x[1], x[2]) : x \in RefTargets}
             \cup {TString, TConst("string", VStr("wk")), EnT, TArray(TRef("p", "Foo")), TDisj(<<TRef("p", "Foo"), TRef("q", "Foo")>>, "", <<>>),
                   TInter(<<TRef("p", "Foo"), TStruct(<<Field("y", TString, FALSE)>>)>>)}
             \cup {TStruct(<<Field("a", ft, TRUE)>>) : ft \in WalkFieldTypes}
             \cup {TStruct(<<Field("a", ft, FALSE), Field("A", TString, TRUE)>>) : ft \in {TRef("p", "Foo"), TRef("q", "FOO"), TRef("q", "KQ"), TRef("r", "Bar")}}
WalkBase == <<SchemaOf("p", SupportP), SchemaOf("q", SupportQ), SchemaOf("r", SupportR)>>
\* no alias cycle: every chain of references ends within the fuel
RECURSIVE Ends(_, _, _)
Ends(Sx, t, fuel) == IF t.k # "ref" THEN TRUE ELSE IF ~HasObject(Sx, t.pkg, t.name) THEN TRUE ELSE IF fuel = 0 THEN FALSE
                     ELSE Ends(Sx, ObjectAt(Sx, t.pkg, t.name).type, fuel - 1)
Acyclic(Sx) == \A o \in AllObjects(Sx) : Ends(Sx, o.type, 12)
AddObj(Sx, p, o) == [i \in DOMAIN Sx |-> IF Sx[i].pkg = p THEN [Sx[i] EXCEPT !.objects = <<o>> \o @] ELSE Sx[i]]
Added(Sx) == Len(Sx[1].objects) + Len(Sx[2].objects) + Len(Sx[3].objects) - Len(SupportP) - Len(SupportQ) - Len(SupportR)

Init == /\ IF Mode = "pipeline" THEN tag \in [passes : PassLists, lang : PipeLangs] ELSE tag = Mode
        /\ CASE Mode = "chains" -> \E rc \in ChainRecipes : S = ChainS(rc.len, rc.pat, rc.names, rc.term, rc.decoy, rc.rl, rc.rev)
             [] Mode = "fields" -> \E fr \in FieldRecipes : S = FieldS(fr)
             [] Mode = "cycles" -> S \in CycleSets
             [] Mode = "pipeline" -> S \in PipeSets
             [] OTHER -> S = WalkBase
Next == /\ Mode = "walk" /\ Added(S) < MaxObjs /\ tag' = tag
        /\ \E p \in WalkPkgs, n \in Names, t \in WalkTypes :
             /\ ~HasObject(S, p, n)
             /\ S' = AddObj(S, p, Obj(p, n, t))
             /\ Acyclic(S')
             /\ \A o \in AllObjects(S') : o.type.k = "ref" => Resolve(S', o.type).k # "ref"    \* no dangling alias (C05; covered by mode "chains")
Spec == Init /\ [][Next]_vars

DeriveOK == Mode \in {"cycles", "pipeline"} \/ C16Violated(S, Derive(S)) = {}
Emit == (Mode = "walk" /\ S = WalkBase) \/
        (Mode = "pipeline" /\ PrintT(<<"CASEP", ToJson([S |-> S, passes |-> tag.passes, lang |-> tag.lang])>>)) \/
        PrintT(<<"CASE16", ToJson([case |-> [fields |-> <<>>, variant |-> tag], S |-> S, expect |-> Derive(S), modes |-> Modes(S)])>>)
===============================================================================
