CONSTANTS
  MaxObjs = 2
  MaxDepth = 1
  Slice = 0
  NSlices = 8
  SeqMode = FALSE
  FoldTable <- MCFoldTable
  TrimTable <- MCTrimTable
  HintRank <- MCHintRank
SPECIFICATION Spec
INVARIANTS RefsPreserved ShapeOK Emit
CHECK_DEADLOCK FALSE
