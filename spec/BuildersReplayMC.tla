---------------------------- MODULE BuildersReplayMC ----------------------------
(* Replay aid: Derive(S) and the field modes for ONE stored schema set (S.json). *)
EXTENDS Builders, TLC, Json
VARIABLE x
RFoldTable == [a \in {"p"} |-> "p"]
RSingular == [tags |-> "tag"]
RLCamel   == [Inner |-> "inner"]
SR == JsonDeserialize("S.json")
Init == x = 0
Next == FALSE /\ x' = x
Spec == Init /\ [][Next]_x
Emit == PrintT(<<"CASE16", ToJson([case |-> [fields |-> <<>>, variant |-> "replay"], S |-> SR, expect |-> Derive(SR), modes |-> Modes(SR)])>>)
===============================================================================
