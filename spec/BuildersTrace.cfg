CONSTANTS
  Strict = FALSE
  FoldTable <- TrFold
  SingularTable <- TrSingular
  LCamelTable <- TrLCamel
SPECIFICATION TSpec
INVARIANTS Verdict Notes Done
CHECK_DEADLOCK FALSE
