SPECIFICATION Spec
INVARIANTS Laws Emit
CHECK_DEADLOCK FALSE
