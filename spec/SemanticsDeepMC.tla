------------------------------ MODULE SemanticsDeepMC ------------------------------
(* The THOROUGH-tier universe of Semantics.tla. SemanticsMC's catalogue (ids 1..Len(Catalogue)) is kept as a prefix, so   *)
(* that ids mean the same in both tiers; on top of it:                                                                      *)
(*   D1  every chain of three wrappers over {array, map, ref, anonymous struct} and every chain of FOUR wrappers over      *)
(*       {array, map, ref} (fourth nesting level, mixed containers), constraint leaves rotating, required and optional      *)
(*   D2  the unconstrained leaves (every width, bool, string, enums, constants, date-time, any, scalar unions) at the       *)
(*       remaining basic positions, and enums / constants / date-time / any / bool at every two- and three-level position   *)
(*   D3  nullable x required x default: the four combinations with a default, for every scalar leaf                        *)
(*   D4  pairs of constraint kinds: two bounds on one field (new leaves) and two constrained SIBLING fields, at top level    *)
(*       and inside a referenced struct held by an array                                                                     *)
(*   D5  base64 byte strings                                                                                                 *)
(*   D6  named collections (definitions that are arrays / maps) of structs, arrays, maps, union branches                    *)
(*   X   schemas read from extra.json: the seeded draws of SemanticsSim (tlc -simulate, seed = --seed)                      *)
(* and, for the ids in TwoIds, the documents differing from the base in TWO places (Semantics!Variants2).                   *)
EXTENDS SemanticsMC

CONSTANTS TwoIds      \* ids whose two-place documents are emitted as well

Extra == JsonDeserialize("extra.json")     \* sequence of entries [schema, leaf, pos, cons]

(* ------------------------------ D1: chains ------------------------------ *)
W3 == <<"arr", "map", "ref", "anon">>
W4 == <<"arr", "map", "ref">>
Chain3(i) == <<W3[((i - 1) % 4) + 1], W3[(((i - 1) \div 4) % 4) + 1], W3[(((i - 1) \div 16) % 4) + 1]>>
Chain4(i) == <<W4[((i - 1) % 3) + 1], W4[(((i - 1) \div 3) % 3) + 1], W4[(((i - 1) \div 9) % 3) + 1], W4[(((i - 1) \div 27) % 3) + 1]>>
WName(w) == CASE w = "arr" -> "array" [] w = "map" -> "map" [] w = "ref" -> "ref" [] w = "anon" -> "anon-struct"
              [] w = "refarr" -> "named-array" [] w = "refmap" -> "named-map" [] w = "union" -> "union-branch" [] OTHER -> w
RECURSIVE ChainName(_)
ChainName(c) == IF Len(c) = 1 THEN WName(c[1]) ELSE WName(c[Len(c)]) \o ">" \o ChainName(SubSeq(c, 1, Len(c) - 1))
ChainEntries(chainOf(_), n, shift) ==
  [i \in 1..(2 * n) |->
     LET ci == ((i - 1) \div 2) + 1
         c  == chainOf(ci)
         opt == (i % 2) = 0
     IN Entry(ConsLeaves[((ci + shift + (IF opt THEN 3 ELSE 0)) % NDeep) + 1],
              Pos((IF opt THEN "optional>" ELSE "") \o ChainName(c), IF opt THEN "opt" ELSE "req", c))]
D1 == ChainEntries(Chain3, 64, 0) \o ChainEntries(Chain4, 81, 1)

(* ------------------------- D2: plain leaves everywhere ------------------- *)
LBytes == L("bytes", TBytes, FALSE)
EverywhereLeaves == SelectSeq(PlainLeaves, LAMBDA l : l.name \in {"enum", "ienum", "const-str", "const-int", "time", "any", "bool"})
NRestPos == Len(BasicPos) - NPlainPos
D2 ==
  [i \in 1..(Len(PlainLeaves) * NRestPos) |->
     Entry(PlainLeaves[((i - 1) \div NRestPos) + 1], BasicPos[NPlainPos + ((i - 1) % NRestPos) + 1])]
  \o [i \in 1..(Len(EverywhereLeaves) * Len(DeepPos)) |->
     Entry(EverywhereLeaves[((i - 1) \div Len(DeepPos)) + 1], DeepPos[((i - 1) % Len(DeepPos)) + 1])]

(* --------------------- D3: nullable x required x default ----------------- *)
NoS == [n \in {} |-> TBool]
ScalarLeaves == SelectSeq(ConsLeaves \o PlainLeaves, LAMBDA l : l.t.k \in {"int", "num", "str", "bool", "enum", "ienum", "time"})
DefMods == <<"reqdef", "optdef", "nulldef", "optnulldef">>
DefEntry(leaf, m) ==
  LET d == Base(NoS, leaf.t, 0)
      v == Fld("v", leaf.t, m \in {"reqdef", "nulldef"}, m \in {"nulldef", "optnulldef"}, d)
  IN [schema |-> [defs |-> <<Def("Root", TStruct(<<F("w", TStr(-1, -1)), v>>))>>, root |-> "Root"],
      leaf |-> leaf.name,
      pos |-> CASE m = "reqdef" -> "defaulted" [] m = "optdef" -> "optional-defaulted"
                [] m = "nulldef" -> "nullable-defaulted" [] OTHER -> "optional-nullable-defaulted",
      cons |-> leaf.cons]
D3 == [i \in 1..(Len(ScalarLeaves) * 4) |-> DefEntry(ScalarLeaves[((i - 1) \div 4) + 1], DefMods[((i - 1) % 4) + 1])]

(* ----------------------- D4: pairs of constraint kinds ------------------- *)
DoubleLeaves == <<
  L("num-ge-le", TNum("float64", Ge(0), Le(2)), TRUE),   L("num-gt-lt", TNum("float64", Gt(0), Lt(2)), TRUE),
  L("int-ge-lt", TInt("int64", Ge(0), Lt(2)), TRUE),     L("str-exact", TStr(2, 2), TRUE),
  L("int8-range", TInt("int8", Ge(-1), Le(1)), TRUE),    L("uint16-le", TInt("uint16", NoB, Le(300)), TRUE),
  \* FRACTIONAL bounds on integers of both signs: >= 0.5 excludes 0, <= -0.5 excludes 0
  L("int-ge-frac", TInt("int64", Ge10(5), NoB), TRUE),   L("int-le-negfrac", TInt("int64", NoB, Le10(-5)), TRUE)
>>
PairIdx == SelectSeq([i \in 1..(Len(ConsLeaves) * Len(ConsLeaves)) |-> <<((i - 1) \div Len(ConsLeaves)) + 1, ((i - 1) % Len(ConsLeaves)) + 1>>],
                     LAMBDA ab : ab[1] < ab[2])
PairTop(a, b) ==
  [schema |-> [defs |-> <<Def("Root", TStruct(<<F("w", TStr(-1, -1)), F("v", ConsLeaves[a].t), F("u", ConsLeaves[b].t)>>))>>, root |-> "Root"],
   leaf |-> ConsLeaves[a].name \o "&" \o ConsLeaves[b].name, pos |-> "siblings", cons |-> TRUE]
PairNested(a, b) ==
  [schema |-> [defs |-> <<Def("Root", TStruct(<<F("w", TStr(-1, -1)), F("v", TArr(TRef("C1")))>>)),
                           Def("C1", TStruct(<<F("c", ConsLeaves[a].t), FOpt("d", ConsLeaves[b].t)>>))>>, root |-> "Root"],
   leaf |-> ConsLeaves[a].name \o "&" \o ConsLeaves[b].name, pos |-> "array>ref>siblings", cons |-> TRUE]
D4 == [i \in 1..(Len(DoubleLeaves) * Len(BasicPos)) |->
         Entry(DoubleLeaves[((i - 1) \div Len(BasicPos)) + 1], BasicPos[((i - 1) % Len(BasicPos)) + 1])]
      \o [i \in DOMAIN PairIdx |-> PairTop(PairIdx[i][1], PairIdx[i][2])]
      \o [i \in DOMAIN PairIdx |-> PairNested(PairIdx[i][1], PairIdx[i][2])]

(* ------------------------------- D5: bytes ------------------------------ *)
D5 == [i \in 1..NPlainPos |-> Entry(LBytes, BasicPos[i])]

(* ---------------- D6: named collections of NON-scalar items ---------------- *)
\* (first met in seeded SemanticsSim draws: kept here so that the finding does not depend on the seed)
NamedChains == <<<<"ref", "refarr">>, <<"ref", "refmap">>, <<"arr", "refarr">>, <<"map", "refarr">>, <<"union", "refarr">>, <<"anon", "refmap">>>>
NamedMods == <<"req", "opt", "null">>
D6 == [i \in 1..(Len(NamedChains) * 3) |->
         LET c == NamedChains[((i - 1) \div 3) + 1]
             m == NamedMods[((i - 1) % 3) + 1]
         IN Entry(ConsLeaves[(i % NDeep) + 1],
                  Pos((CASE m = "opt" -> "optional>" [] m = "null" -> "nullable>" [] OTHER -> "") \o ChainName(c), m, c))]

DeepCatalogue == Catalogue \o D1 \o D2 \o D3 \o D4 \o D5 \o D6 \o Extra

DInit == IF Mode = "index"
         THEN si \in DOMAIN DeepCatalogue /\ dx = Marker
         ELSE si \in (Ids \cap DOMAIN DeepCatalogue) /\
              dx \in (Docs(DeepCatalogue[si].schema, Fuel)
                      \cup (IF si \in TwoIds THEN Docs2(DeepCatalogue[si].schema, Fuel) ELSE {}))
DSpec == DInit /\ [][Next]_vars

(* design-level sanity, also for the two-place documents *)
DS == DefsFn(DeepCatalogue[si].schema)
DT == DS[DeepCatalogue[si].schema.root]
StrictFaults == {"DropRequired", "NullRequired", "AddUndeclared", "WrongType"}
DLabelsConsistent ==
  Mode = "cases" =>
    LET ac == Accepts(DS, DT, dx.d)
        sr == StrictRejects(DS, DT, dx.d)
        ve == ValidateErrs(DS, DT, dx.d, <<>>)
        fs == IF "f1" \in DOMAIN dx THEN {dx.f1, dx.f2} ELSE {dx.f}
    IN /\ fs \subseteq {"base", "alt"} => (ac /\ ~sr /\ ve = {})
       /\ fs \cap StrictFaults # {} => (~ac /\ sr)
       /\ (fs \subseteq {"BreakBound", "alt", "base"} /\ "BreakBound" \in fs) => (~ac /\ ~sr /\ ve # {})
       /\ (fs \cap (StrictFaults \cup {"base", "alt"}) = {} /\ fs = {"DropDefaulted"}) => (~ac /\ ~sr)
       /\ ac => (~sr /\ ve = {})
DNormSane ==
  (Mode = "cases" /\ Accepts(DS, DT, dx.d)) =>
    LET n == Norm(DS, DT, dx.d) IN Accepts(DS, DT, n) /\ Norm(DS, DT, n) = n /\ Eq(n, dx.d)

DEmit ==
  IF Mode = "index"
  THEN PrintT(<<"INDEX", ToJson([id |-> si, leaf |-> DeepCatalogue[si].leaf, pos |-> DeepCatalogue[si].pos,
                                  cons |-> DeepCatalogue[si].cons, schema |-> DeepCatalogue[si].schema])>>)
  ELSE PrintT(<<"CASE", ToJson([id |-> si] @@ Expect(DeepCatalogue[si].schema, dx))>>)
===============================================================================
