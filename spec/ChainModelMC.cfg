CONSTANTS
  MaxDepth = 2
  Slice = 0
  NSlices = 1
  Strict = FALSE
  FoldTable <- CMFold
  NumericNames <- CMNumeric
  SignedNames <- CMSigned
SPECIFICATION MSpec
INVARIANTS InputOK Shards ChainsReachNormalForm
CHECK_DEADLOCK FALSE
