CONSTANTS
  Mode = "index"
  XMode = "index"
  Ids = {1}
  Fuel = 3
SPECIFICATION XSpec
INVARIANTS XEmit
CHECK_DEADLOCK FALSE
