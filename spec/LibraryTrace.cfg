CONSTANTS
  Strict = FALSE
  FoldTable <- LibFoldTable
  TrimTable <- LibTrimTable
  HintRank <- LibHintRank
SPECIFICATION TSpec
INVARIANTS Verdict Done
CHECK_DEADLOCK FALSE
