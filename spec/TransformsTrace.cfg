CONSTANTS
  Strict = FALSE
  FoldTable <- TrFold
  TrimTable <- TrTrim
  HintRank <- TrRank
SPECIFICATION TSpec
INVARIANTS Verdict Done
CHECK_DEADLOCK FALSE
