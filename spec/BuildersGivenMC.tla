----------------------------- MODULE BuildersGivenMC -----------------------------
(* Derive(S) and the field modes for schema sets produced by the REAL pipeline   *)
(* (given.ndjson: {case, S, B}), printed as CASE16 lines that carry the real     *)
(* builders B, so that the usual comparison and trace judgement apply to them.    *)
EXTENDS Builders, TLC, Json
Given == ndJsonDeserialize("given.ndjson")
GFoldTable == [a \in {"p"} |-> "p"]
GSingular == [tags |-> "tag"]
GLCamel   == [Inner |-> "inner"]
VARIABLE l
Init == l = 1
Next == l <= Len(Given) /\ l' = l + 1
Spec == Init /\ [][Next]_l
Emit == l = 1 \/ PrintT(<<"CASE16", ToJson([case |-> Given[l - 1].case, S |-> Given[l - 1].S, expect |-> Derive(Given[l - 1].S),
                                             modes |-> Modes(Given[l - 1].S), B |-> Given[l - 1].B])>>)
===============================================================================
