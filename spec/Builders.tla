------------------------------- MODULE Builders -------------------------------
(* Builders derived from the IR and the builder transformations ("veneers")   *)
(* of cog (DESIGN.md 3.5).  Values have exactly the JSON shape                 *)
(* harness/cmd/worker/builders_ir.go produces.                                 *)
(*                                                                             *)
(*   C16  Derive(S), FieldMode, C16Violated(S, B)                              *)
(*   C17  WTV(S, B) (well-typedness violations), selectors, one requirement-   *)
(*        level action per rule (ApplyRule) and the rule contracts as          *)
(*        predicates over (S, pre, rule, post): StepViolated.                  *)
EXTENDS IR, Integers

CONSTANTS SingularTable,   \* name -> singular form used by array_to_append / map_to_index
          LCamelTable      \* name -> lowerCamelCase(TypeName) used by disjunction_as_options

Singular(s) == IF s \in DOMAIN SingularTable THEN SingularTable[s] ELSE s
LCamel(s)   == IF s \in DOMAIN LCamelTable THEN LCamelTable[s] ELSE s

(* ------------------------------ constructors --------------------------- *)
Arg(n, t)   == [name |-> n, type |-> t]
IdxNone     == [k |-> "none"]
IdxArg(a)   == [k |-> "arg", arg |-> a]
PItem(id, t) == [id |-> id, type |-> t, index |-> IdxNone, hint |-> TNone, root |-> FALSE]
ValNone     == [k |-> "none"]
ValArg(a)   == [k |-> "arg", arg |-> a]
ValConst(v) == [k |-> "const", val |-> v]
ValEnv(t, vals) == [k |-> "envelope", type |-> t, values |-> vals]
EnvVal(p, v) == [path |-> p, value |-> v]
Assign(p, v, m, c) == [path |-> p, value |-> v, method |-> m, cons |-> c, nilchecks |-> <<>>]
ConstAssign(p, v) == Assign(p, IF v = VNil THEN ValNone ELSE ValConst(v), "direct", <<>>)
NoDef       == [set |-> FALSE, vals |-> <<>>]
Def(vs)     == [set |-> TRUE, vals |-> vs]
Opt(n, c, args, as, d) == [name |-> n, comments |-> c, args |-> args, assigns |-> as, def |-> d]

MapSeq(F(_), s) == [i \in DOMAIN s |-> F(s[i])]
RECURSIVE Flatten(_)
Flatten(ss) == IF ss = <<>> THEN <<>> ELSE Head(ss) \o Flatten(Tail(ss))
Last(s) == s[Len(s)]
Count(s, x) == Cardinality({i \in DOMAIN s : s[i] = x})
SubBag(a, b) == \A x \in Range(a) : Count(a, x) <= Count(b, x)
BagEq(a, b) == SubBag(a, b) /\ SubBag(b, a)
InFold(n, names) == \E i \in DOMAIN names : SameFold(n, names[i])
FirstIdx(s, P(_)) == CHOOSE i \in DOMAIN s : P(s[i]) /\ \A j \in 1..(i - 1) : ~P(s[j])

(* ------------------------------ resolution ----------------------------- *)
RECURSIVE ResolveN(_, _, _)
ResolveN(S, t, fuel) ==     \* follow references; a reference that does not resolve stays as it is
  IF t.k # "ref" \/ fuel = 0 THEN t
  ELSE IF ~HasObject(S, t.pkg, t.name) THEN t
  ELSE ResolveN(S, ObjectAt(S, t.pkg, t.name).type, fuel - 1)
Resolve(S, t) == ResolveN(S, t, 8)
StructLike(S, o) == Resolve(S, o.type).k = "struct"
IsConstant(t) == t.k = "scalar" /\ t.val # VNil

(* =========================== C16: derivation ============================ *)
\* how the property wants a field covered (reading rule DESIGN 6.0):
\*   "constant"  inline constant, or required non-nullable reference to a constant: constructor constant
\*   "own"       constant reference: the type's own constructor sets it, nothing in the builder
\*   "free"      optional (not required) reference to a constant: either an option or a constructor constant
\*   "option"    everything else: exactly one option - also a required but NULLABLE reference to a constant,
\*               whose value (null or the constant) the schema does not fix
FieldMode(S, f) ==
  CASE IsConstant(f.type)   -> "constant"
    [] f.type.k = "constref" -> "own"
    [] f.type.k = "ref" /\ IsConstant(Resolve(S, f.type)) ->
         IF ~f.required THEN "free" ELSE IF f.type.nullable THEN "option" ELSE "constant"
    [] OTHER -> "option"
FixedValue(S, f) == IF f.type.k = "ref" THEN Resolve(S, f.type).val ELSE f.type.val

ArgOf(f)     == Arg(f.name, f.type)
FieldCons(f) == IF f.type.k = "scalar" THEN f.type.cons ELSE <<>>
ConsOf(f)    == [i \in DOMAIN FieldCons(f) |->
                   [arg |-> ArgOf(f), op |-> FieldCons(f)[i].op, param |-> FieldCons(f)[i].args[1]]]
FieldPath(f) == <<PItem(f.name, f.type)>>
DefOf(t)     == IF t.def = VNil THEN NoDef ELSE Def(<<t.def>>)
OptionOf(f)  == Opt(f.name, f.comments, <<ArgOf(f)>>,
                    <<Assign(FieldPath(f), ValArg(ArgOf(f)), "direct", ConsOf(f))>>, DefOf(f.type))

BuilderFor(S, p, o) ==
  LET fs == Resolve(S, o.type).fields
      optFields == SelectSeq(fs, LAMBDA f : FieldMode(S, f) \in {"option", "free"})
      constFields == SelectSeq(fs, LAMBDA f : FieldMode(S, f) = "constant")
  IN [pkg |-> p, name |-> o.name, for |-> o, props |-> <<>>,
      ctor |-> [args |-> <<>>,
                assigns |-> [i \in DOMAIN constFields |->
                               ConstAssign(FieldPath(constFields[i]), FixedValue(S, constFields[i]))]],
      options |-> [i \in DOMAIN optFields |-> OptionOf(optFields[i])],
      factories |-> <<>>]

\* C16 as a function (free fields resolved towards "option")
Derive(S) == Flatten([i \in DOMAIN S |->
               LET objs == SelectSeq(S[i].objects, LAMBDA o : StructLike(S, o))
               IN [j \in DOMAIN objs |-> BuilderFor(S, S[i].pkg, objs[j])]])

\* per builder, per field: the mode (printed with the cases; the worker classifies by it)
Modes(S) == Flatten([i \in DOMAIN S |->
               LET objs == SelectSeq(S[i].objects, LAMBDA o : StructLike(S, o))
               IN [j \in DOMAIN objs |-> [pkg |-> S[i].pkg, name |-> objs[j].name,
                     fields |-> LET fs == Resolve(S, objs[j].type).fields
                                IN [x \in DOMAIN fs |-> [name |-> fs[x].name, mode |-> FieldMode(S, fs[x])]]]]])

\* C16 as a relation over (S, B): the set of violated conjuncts, each with the
\* builder and field it was observed on
Targets(a, f) == Len(a.path) >= 1 /\ a.path[1].id = f.name
C16Field(S, b, f) ==
  LET mode  == FieldMode(S, f)
      opts  == {i \in DOMAIN b.options : \E x \in DOMAIN b.options[i].assigns : Targets(b.options[i].assigns[x], f)}
      ctors == {i \in DOMAIN b.ctor.assigns : Targets(b.ctor.assigns[i], f)}
      no    == Cardinality(opts)
      nc    == Cardinality(ctors)
      cover == CASE mode = "option"   -> no = 1 /\ nc = 0
                 [] mode = "constant" -> no = 0 /\ nc = 1
                 [] mode = "own"      -> no = 0 /\ nc = 0
                 [] OTHER             -> (no = 1 /\ nc = 0) \/ (no = 0 /\ nc <= 1)
      o     == b.options[CHOOSE i \in opts : TRUE]
      a     == o.assigns[1]
      c     == b.ctor.assigns[CHOOSE i \in ctors : TRUE]
      judgeOpt == mode \in {"option", "free"} /\ no = 1 /\ nc = 0
      bad(cl) == {[clause |-> cl, pkg |-> b.pkg, builder |-> b.for.name, field |-> f.name]}
  IN (IF mode \in {"constant", "own"} /\ no > 0 THEN bad("FixedNeverOption") ELSE {})
     \cup (IF ~cover /\ ~(mode \in {"constant", "own"} /\ no > 0 /\ nc = (IF mode = "constant" THEN 1 ELSE 0))
           THEN bad("CoveredExactlyOnce") ELSE {})
     \cup (IF judgeOpt /\ ~(Len(o.args) = 1 /\ o.args[1] = ArgOf(f) /\ o.def = DefOf(f.type))
           THEN bad("Argument") ELSE {})
     \cup (IF judgeOpt /\ ~(Len(o.assigns) = 1 /\ a.path = FieldPath(f) /\ a.value.k = "arg" /\ a.value.arg.name = f.name)
           THEN bad("AssignmentPath") ELSE {})
     \cup (IF judgeOpt /\ Len(o.assigns) >= 1 /\ a.cons # ConsOf(f) THEN bad("Constraints") ELSE {})
     \cup (IF mode \in {"constant", "free"} /\ no = 0 /\ nc = 1 /\
              ~(c.path = FieldPath(f) /\ c.value = ValConst(FixedValue(S, f)))
           THEN bad("ConstructorConstant") ELSE {})

C16Violated(S, B) ==
  LET structs == {<<S[i].pkg, S[i].objects[j].name>> :
                    <<i, j>> \in {<<x, y>> \in UNION {{<<i2, j2>> : j2 \in DOMAIN S[i2].objects} : i2 \in DOMAIN S} :
                                    StructLike(S, S[x].objects[y])}}
      got == {<<B[i].pkg, B[i].for.name>> : i \in DOMAIN B}
  IN {[clause |-> "BuilderSet", pkg |-> x[1], builder |-> x[2], field |-> "missing"] : x \in structs \ got}
     \cup {[clause |-> "BuilderSet", pkg |-> x[1], builder |-> x[2], field |-> "extra"] : x \in got \ structs}
     \cup {[clause |-> "BuilderSet", pkg |-> B[i].pkg, builder |-> B[i].for.name, field |-> "duplicate"] :
             i \in {x \in DOMAIN B : \E y \in DOMAIN B : y # x /\ B[y].pkg = B[x].pkg /\ B[y].for.name = B[x].for.name}}
     \* "exactly the objects that are structs get a builder": ONE builder per object, and an object is identified by its
     \* own reference (package, name) - two builders built for the same object are one too many, whatever package they sit in
     \cup {[clause |-> "BuilderSet", pkg |-> B[i].pkg, builder |-> B[i].for.name, field |-> "duplicate-object"] :
             i \in {x \in DOMAIN B : \E y \in DOMAIN B : y # x /\ B[y].for.selfpkg = B[x].for.selfpkg /\ B[y].for.selfname = B[x].for.selfname
                                                         /\ ~(B[y].pkg = B[x].pkg /\ B[y].for.name = B[x].for.name)}}
     \cup UNION {LET b == B[i] IN
                 IF <<b.pkg, b.for.name>> \in structs /\ HasObject(S, b.pkg, b.for.name)
                 THEN LET fs == Resolve(S, ObjectAt(S, b.pkg, b.for.name).type).fields
                      IN UNION {C16Field(S, b, fs[x]) : x \in DOMAIN fs}
                         \cup {[clause |-> "CoveredExactlyOnce", pkg |-> b.pkg, builder |-> b.for.name, field |-> "stray-option"] :
                                 y \in {z \in DOMAIN b.options :
                                          ~\E x \in DOMAIN fs : \E w \in DOMAIN b.options[z].assigns : Targets(b.options[z].assigns[w], fs[x])}}
                 ELSE {} : i \in DOMAIN B}
(* ========================= C17: well-typedness ========================== *)
\* "names an existing chain of fields of the built object with matching types":
\* types are compared up to the default value they carry (a default is not part
\* of a type's identity; struct_fields_as_arguments copies option defaults there)
SameType(a, b) == IsType(a) /\ IsType(b) /\ [a EXCEPT !.def = VNil] = [b EXCEPT !.def = VNil]
\* where a path may continue after an item: its type, or the hinted type (reading rule "paths through any")
Conts(it) == {it.type} \cup (IF it.hint.k # "none" THEN {it.hint} ELSE {})
ElemsOf(S, ts) == UNION {LET r == Resolve(S, t) IN
                         IF r.k \in {"array", "map"} THEN {r.elem} ELSE {} : t \in ts}

\* typed = TRUE: names and types; typed = FALSE: names only (to tell the two failures apart)
RECURSIVE PathFrom(_, _, _, _)
PathFrom(S, curs, items, typed) ==
  IF items = <<>> THEN TRUE ELSE
  LET it == Head(items)
      after == IF it.index.k # "none" /\ it.id # "" THEN ElemsOf(S, Conts(it)) ELSE Conts(it)
  IN IF it.root THEN PathFrom(S, Conts(it), Tail(items), typed)
     ELSE IF it.id = ""
     THEN /\ it.index.k # "none"
          /\ \E e \in ElemsOf(S, curs) : ~typed \/ SameType(e, it.type)
          /\ PathFrom(S, Conts(it), Tail(items), typed)
     ELSE /\ \E c \in curs : LET st == Resolve(S, c) IN
               /\ st.k = "struct"
               /\ \E i \in DOMAIN st.fields : st.fields[i].name = it.id /\ (~typed \/ SameType(st.fields[i].type, it.type))
          /\ (it.index.k # "none" => after # {})
          /\ PathFrom(S, after, Tail(items), typed)

PathArgs(p) == {p[i].index.arg.name : i \in {j \in DOMAIN p : p[j].index.k = "arg"}}
RECURSIVE ValueArgs(_)
ValueArgs(v) == CASE v.k = "arg" -> {v.arg.name}
                  [] v.k = "envelope" -> UNION {ValueArgs(v.values[i].value) \cup PathArgs(v.values[i].path) : i \in DOMAIN v.values}
                  [] OTHER -> {}
RECURSIVE EnvBad(_, _)
EnvBad(S, v) == IF v.k # "envelope" THEN FALSE
                ELSE \E i \in DOMAIN v.values :
                       \/ v.values[i].path = <<>>
                       \/ ~PathFrom(S, {v.type}, v.values[i].path, TRUE)
                       \/ EnvBad(S, v.values[i].value)

\* the value an assignment writes has the type of the place it writes to: the last path item for a direct or index
\* assignment, its element for an append; compared up to nullability, default, hints and scalar constraints; a
\* disjunction accepts each of its branches, `any` accepts everything, envelopes and constants are not judged
Bare(t) == IF ~IsType(t) THEN t
           ELSE IF t.k = "scalar" THEN [t EXCEPT !.nullable = FALSE, !.def = VNil, !.hints = <<>>, !.cons = <<>>]
           ELSE [t EXCEPT !.nullable = FALSE, !.def = VNil, !.hints = <<>>]
Accepts(target, a) == \/ Bare(target) = Bare(a)
                      \/ (IsType(target) /\ target.k = "scalar" /\ target.sk = "any")
                      \/ (IsType(target) /\ target.k = "disj" /\ \E i \in DOMAIN target.branches : Bare(target.branches[i]) = Bare(a))
KindName(t) == IF ~IsType(t) THEN "untyped" ELSE IF t.k = "scalar" THEN (IF t.val # VNil THEN "constant-" ELSE "") \o t.sk ELSE t.k
ValueTypeV(a) ==
  IF a.value.k # "arg" \/ a.path = <<>> THEN {}
  ELSE LET it == a.path[Len(a.path)]
           place == IF it.hint.k # "none" THEN it.hint ELSE it.type
           target == IF a.method = "append" THEN (IF IsType(place) /\ place.k = "array" THEN place.elem ELSE TNone) ELSE place
       IN IF a.method = "append" /\ ~(IsType(place) /\ place.k = "array") THEN {"append-to-" \o KindName(place)}
          ELSE IF Accepts(target, a.value.arg.type) THEN {}
          ELSE {a.method \o "-" \o KindName(a.value.arg.type) \o "-into-" \o KindName(target)}

\* violations of one assignment; declared = names of the arguments of its option / constructor
AssignWTV(S, b, where, a, declared) ==
  LET bad(cl, w) == {[clause |-> cl, witness |-> w, builder |-> b.name, where |-> where]}
  IN (IF a.path = <<>> THEN bad("Path", "empty-path")
      ELSE IF PathFrom(S, {b.for.type}, a.path, TRUE) THEN {}
      ELSE IF PathFrom(S, {b.for.type}, a.path, FALSE) THEN bad("Path", "type-mismatch")
      ELSE bad("Path", "no-such-field"))
     \cup (IF EnvBad(S, a.value) THEN bad("Path", "envelope") ELSE {})
     \cup (IF a.value.k = "arg" /\ a.value.arg.name \notin declared THEN bad("ArgDeclared", "value") ELSE {})
     \cup (IF a.value.k = "envelope" /\ ~(ValueArgs(a.value) \subseteq declared) THEN bad("ArgDeclared", "envelope") ELSE {})
     \cup (IF ~(PathArgs(a.path) \subseteq declared) THEN bad("ArgDeclared", "index") ELSE {})
     \cup (IF \E i \in DOMAIN a.cons : a.cons[i].arg.name \notin declared THEN bad("ArgDeclared", "constraint") ELSE {})
     \cup UNION {bad("ValueType", w) : w \in ValueTypeV(a)}

ArgNames(args) == {args[i].name : i \in DOMAIN args}
BuilderWTV(S, b) ==
  UNION {AssignWTV(S, b, "constructor", b.ctor.assigns[i], ArgNames(b.ctor.args)) : i \in DOMAIN b.ctor.assigns}
  \cup UNION {UNION {AssignWTV(S, b, b.options[i].name, b.options[i].assigns[j], ArgNames(b.options[i].args))
                     : j \in DOMAIN b.options[i].assigns} : i \in DOMAIN b.options}
WTV(S, B) == UNION {BuilderWTV(S, B[i]) : i \in DOMAIN B}
WellTyped(S, B) == WTV(S, B) = {}

(* ------------------------------ selectors ------------------------------ *)
MetaOf(S, p) == IF Loaded(S, p) THEN S[SchemaIdx(S, p)].meta ELSE NoMeta
FromDisjunction(S, t) == LET r == Resolve(S, t) IN
   r.k = "struct" /\ \E i \in DOMAIN r.hints : r.hints[i].key \in {"disjunction_of_scalars", "disjunction_of_refs"}
BSel(S, sel, b) ==
  CASE sel.k = "every"     -> TRUE
    [] sel.k = "by_object" -> SameFold(b.for.selfpkg, sel.pkg) /\ SameFold(b.for.selfname, sel.name)
    [] sel.k = "by_name"   -> SameFold(b.for.selfpkg, sel.pkg) /\ SameFold(b.name, sel.name)
    [] sel.k = "by_variant" -> LET m == MetaOf(S, b.for.selfpkg) IN
                                 m.kind = "composable" /\ m.variant = sel.variant /\ m.id # ""
    [] sel.k = "from_disjunction" -> FromDisjunction(S, b.for.type)
    [] OTHER -> FALSE
OSel(sel, b, o) ==
  CASE sel.k = "every"      -> TRUE
    [] sel.k = "by_name"    -> b.for.selfpkg = sel.pkg /\ SameFold(b.for.name, sel.object) /\ InFold(o.name, sel.options)
    [] sel.k = "by_builder" -> b.pkg = sel.pkg /\ SameFold(b.name, sel.builder) /\ InFold(o.name, sel.options)
    [] OTHER -> FALSE
(* ================= C17: one requirement-level action per rule ============ *)
\* Written from the Go doc comments of internal/veneers (the reference page is
\* empty).  Each action is a function (S, B, rule) -> [err, B]; the real code is
\* never judged by equality with it, only by the contracts further down: equality
\* merely lets a real step inherit the verdict TLC gave to the identical model step.
OK(B)  == [err |-> FALSE, B |-> B]
Err(B) == [err |-> TRUE, B |-> B]
\* Rewriter.ApplyTo dismisses builders that are left without options
DropEmpty(B) == SelectSeq(B, LAMBDA b : b.options # <<>>)
MapB(S, B, sel, F(_)) == [i \in DOMAIN B |-> IF BSel(S, sel, B[i]) THEN F(B[i]) ELSE B[i]]
Selected(S, B, sel) == SelectSeq(B, LAMBDA b : BSel(S, sel, b))

\* a dotted property path resolved against the built object; references are
\* followed through the builder of the referred object
RECURSIVE MakePathFrom(_, _, _, _)
MakePathFrom(B, cur, ids, acc) ==
  IF ids = <<>> THEN [ok |-> acc # <<>>, path |-> acc] ELSE
  LET hits == IF cur.k = "ref" THEN {i \in DOMAIN B : B[i].for.selfpkg = cur.pkg /\ B[i].for.selfname = cur.name} ELSE {}
      c1 == IF cur.k # "ref" THEN cur
            ELSE IF hits = {} THEN TNone
            ELSE B[CHOOSE i \in hits : \A j \in hits : i <= j].for.type
  IN IF c1.k # "struct" THEN [ok |-> FALSE, path |-> acc]
     ELSE LET fi == {i \in DOMAIN c1.fields : c1.fields[i].name = Head(ids)} IN
          IF fi = {} THEN [ok |-> FALSE, path |-> acc]
          ELSE LET f == c1.fields[CHOOSE i \in fi : \A j \in fi : i <= j]
               IN MakePathFrom(B, f.type, Tail(ids), Append(acc, PItem(f.name, f.type)))
MakePath(B, b, ids) == MakePathFrom(B, b.for.type, ids, <<>>)

Prefixed(under, a) == [a EXCEPT !.path = under \o @]
\* mergeBuilderInto: factories, constant constructor assignments and options of `from`
\* re-rooted under `under` and added to `into`
MergeBuilders(from, into, under, exclude, rename) ==
  LET consts == SelectSeq(from.ctor.assigns, LAMBDA a : a.value.k = "const")
      opts   == SelectSeq(from.options, LAMBDA o : ~\E i \in DOMAIN exclude : exclude[i] = o.name)
      ren(n) == IF \E i \in DOMAIN rename : rename[i].from = n
                THEN rename[CHOOSE i \in DOMAIN rename : rename[i].from = n].to ELSE n
  IN [into EXCEPT !.factories = @ \o from.factories,
                  !.ctor.assigns = @ \o [i \in DOMAIN consts |-> Prefixed(under, consts[i])],
                  !.options = @ \o [i \in DOMAIN opts |->
                        [opts[i] EXCEPT !.name = ren(opts[i].name),
                                        !.assigns = [j \in DOMAIN opts[i].assigns |-> Prefixed(under, opts[i].assigns[j])]]]]

\* veneers.Assignment / veneers.Option (rule parameters) to IR
RECURSIVE VeneerValue(_, _, _)
VeneerValue(S, v, envT) ==
  CASE v.k = "arg"   -> ValArg(v.arg)
    [] v.k = "const" -> ValConst(v.val)
    [] OTHER -> LET st == Resolve(S, envT) IN
        ValEnv(envT, [i \in DOMAIN v.values |->
           LET f == st.fields[CHOOSE x \in DOMAIN st.fields : st.fields[x].name = v.values[i].field]
           IN EnvVal(FieldPath(f), VeneerValue(S, v.values[i].value,
                      IF f.type.k \in {"array", "map"} THEN f.type.elem ELSE f.type))])
EnvelopeOK(S, v, envT) == v.k # "envelope" \/
   LET st == Resolve(S, envT) IN st.k = "struct" /\ \A i \in DOMAIN v.values :
        \E x \in DOMAIN st.fields : st.fields[x].name = v.values[i].field
VeneerAssignOK(S, B, b, va) ==
   LET mp == MakePath(B, b, va.path) IN mp.ok /\
       LET lt == Last(mp.path).type IN EnvelopeOK(S, va.value, IF lt.k \in {"array", "map"} THEN lt.elem ELSE lt)
VeneerAssign(S, B, b, va) ==
   LET mp == MakePath(B, b, va.path)
       lt == Last(mp.path).type
   IN [path |-> mp.path, value |-> VeneerValue(S, va.value, IF lt.k \in {"array", "map"} THEN lt.elem ELSE lt),
       method |-> va.method, cons |-> <<>>, nilchecks |-> <<>>]

ComposeB(S, B, r) ==
  LET srcHits == {i \in DOMAIN B : B[i].for.selfpkg = r.srcpkg /\ B[i].for.selfname = r.srcname} IN
  IF srcHits = {} THEN OK(B) ELSE
  LET src == B[CHOOSE i \in srcHits : \A j \in srcHits : i <= j]
      unsel == SelectSeq(B, LAMBDA b : ~BSel(S, r.sel, b))
      sel == SelectSeq(B, LAMBDA b : BSel(S, r.sel, b) /\ Loaded(S, b.for.selfpkg))
  IN IF sel = <<>> THEN OK(unsel) ELSE
     LET tf == IF src.for.type.k = "struct"
               THEN {i \in DOMAIN src.for.type.fields : src.for.type.fields[i].name = r.discr} ELSE {}
     IN IF tf = {} THEN Err(B) ELSE
     LET typeField == src.for.type.fields[CHOOSE i \in tf : TRUE]
         base == [pkg |-> sel[1].pkg, name |-> IF r.name # "" THEN r.name ELSE src.for.name, for |-> src.for,
                  props |-> src.props,
                  ctor |-> [src.ctor EXCEPT !.assigns = @ \o <<ConstAssign(FieldPath(typeField), VStr(MetaOf(S, sel[1].for.selfpkg).id))>>],
                  options |-> SelectSeq(src.options, LAMBDA o : o.name # r.discr /\ ~InFold(o.name, r.exclude)),
                  factories |-> <<>>]
         mapped(cb) == \E i \in DOMAIN r.map : r.map[i].key = cb.for.name
         pathOf(cb) == r.map[CHOOSE i \in DOMAIN r.map : r.map[i].key = cb.for.name].path
         RECURSIVE Fold2(_, _, _)
         Fold2(acc, kept, rest) ==
           IF rest = <<>> THEN [ok |-> TRUE, b |-> acc, kept |-> kept]
           ELSE LET cb == Head(rest) IN
                IF ~mapped(cb) THEN Fold2(acc, Append(kept, cb), Tail(rest))
                ELSE LET mp == MakePath(B, acc, pathOf(cb)) IN
                     IF ~mp.ok THEN [ok |-> FALSE, b |-> acc, kept |-> kept]
                     ELSE LET root == [mp.path EXCEPT ![Len(mp.path)].hint = TRef(cb.for.selfpkg, cb.for.selfname)]
                          IN Fold2(MergeBuilders(cb, acc, root, <<>>, <<>>),
                                   IF r.preserve THEN Append(kept, cb) ELSE kept, Tail(rest))
         res == Fold2(base, <<>>, sel)
     IN IF ~res.ok THEN Err(B) ELSE OK(unsel \o res.kept \o <<res.b>>)

ApplyB(S, B, r) ==
  CASE r.r = "omit"   -> OK(SelectSeq(B, LAMBDA b : ~BSel(S, r.sel, b)))
    [] r.r = "rename" -> OK(MapB(S, B, r.sel, LAMBDA b : [b EXCEPT !.name = r.as]))
    [] r.r = "properties" -> OK(MapB(S, B, r.sel, LAMBDA b : [b EXCEPT !.props = @ \o r.set]))
    [] r.r = "duplicate" ->
         OK(B \o MapSeq(LAMBDA b : [b EXCEPT !.name = r.as,
                                              !.options = SelectSeq(@, LAMBDA o : ~InFold(o.name, r.exclude))],
                        Selected(S, B, r.sel)))
    [] r.r = "add_factory" ->
         IF \E i \in DOMAIN B : BSel(S, r.sel, B[i]) /\ B[i].ctor.args # <<>> THEN Err(B)
         ELSE OK(MapB(S, B, r.sel, LAMBDA b : [b EXCEPT !.factories = Append(@, r.factory)]))
    [] r.r = "initialize" ->
         IF \E i \in DOMAIN B : BSel(S, r.sel, B[i]) /\ \E x \in DOMAIN r.set : ~MakePath(B, B[i], r.set[x].path).ok THEN Err(B)
         ELSE OK(MapB(S, B, r.sel, LAMBDA b : [b EXCEPT !.ctor.assigns = @ \o
                     [x \in DOMAIN r.set |-> ConstAssign(MakePath(B, b, r.set[x].path).path, r.set[x].value)]]))
    [] r.r = "promote" ->
         IF \E i \in DOMAIN B : BSel(S, r.sel, B[i]) /\
              (B[i].factories # <<>> \/ \E x \in DOMAIN r.options : \E o \in Range(B[i].options) :
                    SameFold(o.name, r.options[x]) /\ (o.args = <<>> \/ o.assigns = <<>>))
         THEN Err(B)
         ELSE OK(MapB(S, B, r.sel, LAMBDA b :
                LET names == SelectSeq(r.options, LAMBDA n : \E o \in Range(b.options) : SameFold(o.name, n))
                    optOf(n) == b.options[FirstIdx(b.options, LAMBDA o : SameFold(o.name, n))]
                \* "both arguments and assignments described by the options": every argument, every assignment
                IN [b EXCEPT !.ctor.args = @ \o Flatten([x \in DOMAIN names |->
                                                   [k \in DOMAIN optOf(names[x]).args |-> [optOf(names[x]).args[k] EXCEPT !.type.nullable = FALSE]]]),
                             !.ctor.assigns = @ \o Flatten([x \in DOMAIN names |-> optOf(names[x]).assigns])]))
    [] r.r = "add_option" ->
         IF \E i \in DOMAIN B : BSel(S, r.sel, B[i]) /\ \E x \in DOMAIN r.option.assigns : ~VeneerAssignOK(S, B, B[i], r.option.assigns[x])
         THEN Err(B)
         ELSE OK(MapB(S, B, r.sel, LAMBDA b : [b EXCEPT !.options = Append(@,
                  Opt(r.option.name, r.option.comments, r.option.args,
                      [x \in DOMAIN r.option.assigns |-> VeneerAssign(S, B, b, r.option.assigns[x])], NoDef))]))
    [] r.r = "merge_into" ->
         LET srcOf(d) == {i \in DOMAIN B : B[i].for.selfpkg = d.for.selfpkg /\ B[i].name = r.source}
             src(d) == B[CHOOSE i \in srcOf(d) : \A j \in srcOf(d) : i <= j]
         IN IF \E i \in DOMAIN B : BSel(S, r.sel, B[i]) /\ srcOf(B[i]) # {} /\ ~MakePath(B, B[i], r.under).ok THEN Err(B)
            ELSE OK(MapB(S, B, r.sel, LAMBDA d : IF srcOf(d) = {} THEN d
                          ELSE MergeBuilders(src(d), d, MakePath(B, d, r.under).path, r.exclude, r.rename)))
    [] r.r = "compose" -> ComposeB(S, B, r)
    [] OTHER -> Err(B)
(* ------------------------------ option rules --------------------------- *)
\* every place an option mentions one of its arguments
RECURSIVE RenValue(_, _)
RenPath(F(_), p) == [i \in DOMAIN p |-> IF p[i].index.k = "arg" THEN [p[i] EXCEPT !.index.arg.name = F(@)] ELSE p[i]]
RenValue(F(_), v) ==
  CASE v.k = "arg" -> [v EXCEPT !.arg.name = F(@)]
    [] v.k = "envelope" -> [v EXCEPT !.values = [i \in DOMAIN @ |->
                               [path |-> RenPath(F, @[i].path), value |-> RenValue(F, @[i].value)]]]
    [] OTHER -> v
RenAssign(F(_), a) == [a EXCEPT !.path = RenPath(F, @), !.value = RenValue(F, @),
                                !.cons = [i \in DOMAIN @ |-> [@[i] EXCEPT !.arg.name = F(@)]]]
RenOption(F(_), o) == [o EXCEPT !.args = [i \in DOMAIN @ |-> [@[i] EXCEPT !.name = F(@)]],
                                !.assigns = [i \in DOMAIN @ |-> RenAssign(F, @[i])]]
BlankArgNames(o) == RenOption(LAMBDA n : "", o)

\* the struct an option's first argument stands for (a reference is followed once)
FirstArgStruct(S, o) ==
  IF o.args = <<>> THEN TNone
  ELSE LET t == o.args[1].type
           t1 == IF t.k = "ref" /\ HasObject(S, t.pkg, t.name) THEN ObjectAt(S, t.pkg, t.name).type ELSE t
       IN IF t1.k = "struct" /\ o.assigns # <<>> THEN t1 ELSE TNone
PickFields(st, fields) == IF fields = <<>> THEN st.fields
                          ELSE SelectSeq(st.fields, LAMBDA f : \E i \in DOMAIN fields : fields[i] = f.name)
BranchName(t) == CASE t.k = "ref" -> LCamel(t.name) [] t.k = "scalar" -> LCamel(t.sk) [] OTHER -> LCamel(t.k)
ReplaceAt(s, i, x) == [s EXCEPT ![i] = x]
\* first assignment whose value is the argument called n (0 when there is none)
FirstUse(o, n) == LET hits == {i \in DOMAIN o.assigns : o.assigns[i].value.k = "arg" /\ o.assigns[i].value.arg.name = n}
                  IN IF hits = {} THEN 0 ELSE CHOOSE i \in hits : \A j \in hits : i <= j

\* the assignment that stands for the option's first argument
ArgAssignIdx(o) == LET use == FirstUse(o, o.args[1].name) IN IF use = 0 THEN 1 ELSE use

Act(S, B, b, o, r) ==
  CASE r.r = "omit"   -> <<>>
    [] r.r = "rename" -> <<[o EXCEPT !.name = r.as]>>
    [] r.r = "add_comments" -> <<[o EXCEPT !.comments = @ \o r.comments]>>
    [] r.r = "duplicate" -> <<o, [o EXCEPT !.name = r.as]>>
    [] r.r = "rename_arguments" ->
         IF Len(r.as) # Len(o.args) THEN <<o>>
         ELSE LET new(n) == IF \E i \in DOMAIN o.args : o.args[i].name = n
                            THEN r.as[CHOOSE i \in DOMAIN o.args : o.args[i].name = n /\ \A j \in 1..(i - 1) : o.args[j].name # n] ELSE n
              IN <<RenOption(new, o)>>
    [] r.r = "array_to_append" ->
         IF Len(o.args) # 1 \/ o.args[1].type.k # "array" \/ o.assigns = <<>> THEN <<o>>
         ELSE LET na == Arg(Singular(o.args[1].name), o.args[1].type.elem)
                  a1 == o.assigns[1]
              IN <<[o EXCEPT !.args = <<na>>,
                             !.assigns[1] = [a1 EXCEPT !.method = "append",
                                                       !.value = IF a1.value.k = "arg" THEN ValArg(na) ELSE @]]>>
    [] r.r = "map_to_index" ->
         IF Len(o.args) # 1 \/ o.args[1].type.k # "map" \/ o.assigns = <<>> THEN <<o>>
         ELSE LET key == Arg("key", o.args[1].type.idx)
                  val == Arg(Singular(o.args[1].name), o.args[1].type.elem)
                  a1 == o.assigns[1]
              IN <<[o EXCEPT !.args = <<key, val>>,
                             !.assigns[1] = [a1 EXCEPT !.method = "index",
                                  !.path = Append(@, [id |-> "", type |-> o.args[1].type.elem, index |-> IdxArg(key), hint |-> TNone, root |-> FALSE]),
                                  !.value = IF a1.value.k = "arg" THEN ValArg(val) ELSE @]]>>
    [] r.r = "unfold_boolean" ->
         IF o.assigns = <<>> THEN <<o>>
         ELSE LET into == Last(o.assigns[1].path).type IN
              IF ~(into.k = "scalar" /\ into.sk = "bool") THEN <<o>>
              ELSE LET defTrue == o.def.set /\ o.def.vals # <<>> /\ o.def.vals[1] = VBool(TRUE)
                   IN <<Opt(r.true_as, o.comments, <<>>, <<ConstAssign(o.assigns[1].path, VBool(TRUE))>>,
                            IF o.def.set /\ defTrue THEN Def(<<>>) ELSE NoDef),
                        Opt(r.false_as, o.comments, <<>>, <<ConstAssign(o.assigns[1].path, VBool(FALSE))>>,
                            IF o.def.set /\ ~defTrue THEN Def(<<>>) ELSE NoDef)>>
    [] r.r = "struct_fields_as_arguments" ->
         LET st == FirstArgStruct(S, o) IN
         IF st.k # "struct" THEN <<o>>
         \* the assignment of the first argument is the one that mentions it (the first one when none does):
         \* arguments and assignments do not always go in pairs
         ELSE LET ix == ArgAssignIdx(o)
                  prefix == o.assigns[ix].path
                  fs == PickFields(st, r.fields)
                  free == SelectSeq(fs, LAMBDA f : ~IsConstant(f.type))
                  intoList == Last(prefix).type.k = "array"
                  valOf(f) == IF IsConstant(f.type) THEN ValConst(f.type.val) ELSE ValArg(ArgOf(f))
                  as == IF intoList
                        THEN <<Assign(prefix, ValEnv(Last(prefix).type.elem, [i \in DOMAIN fs |-> EnvVal(FieldPath(fs[i]), valOf(fs[i]))]), "append", <<>>)>>
                        ELSE [i \in DOMAIN fs |->
                                IF IsConstant(fs[i].type) THEN ConstAssign(prefix \o FieldPath(fs[i]), fs[i].type.val)
                                ELSE Assign(prefix \o FieldPath(fs[i]), ValArg(ArgOf(fs[i])), o.assigns[ix].method, ConsOf(fs[i]))]
              IN <<[o EXCEPT !.args = [i \in DOMAIN free |-> ArgOf(free[i])] \o Tail(o.args),
                             !.assigns = SubSeq(o.assigns, 1, ix - 1) \o as \o SubSeq(o.assigns, ix + 1, Len(o.assigns)),
                             !.def = NoDef]>>
    [] r.r = "struct_fields_as_options" ->
         LET st == FirstArgStruct(S, o) IN
         IF st.k # "struct" THEN <<o>>
         ELSE LET fs == PickFields(st, r.fields)
              IN [i \in DOMAIN fs |-> [OptionOf(fs[i]) EXCEPT !.assigns[1].path = o.assigns[ArgAssignIdx(o)].path \o @]]
    [] r.r = "disjunction_as_options" ->
         IF o.args = <<>> \/ r.index + 1 > Len(o.args) THEN <<o>>
         ELSE LET ix == r.index + 1
                  t == o.args[ix].type
                  use == FirstUse(o, o.args[ix].name)
                  forBranch(n, bt, mk(_)) ==
                     LET na == Arg(n, bt) IN
                     Opt(n, <<>>, ReplaceAt(o.args, ix, na),
                         IF use = 0 THEN o.assigns
                         ELSE ReplaceAt(o.assigns, use, Assign(o.assigns[use].path, mk(na), o.assigns[use].method, <<>>)),
                         DefOf(bt))
              IN IF t.k = "disj"
                 THEN [i \in DOMAIN t.branches |-> forBranch(BranchName(t.branches[i]), t.branches[i], LAMBDA na : ValArg(na))]
                 ELSE IF t.k = "ref" /\ FromDisjunction(S, t)
                 THEN LET fs == Resolve(S, t).fields
                      IN [i \in DOMAIN fs |-> forBranch(fs[i].name, fs[i].type,
                             LAMBDA na : ValEnv(t, <<EnvVal(FieldPath(fs[i]), ValArg(na))>>))]
                 ELSE <<o>>
    [] r.r = "add_assignment" ->
         IF VeneerAssignOK(S, <<b>>, b, r.assign)
         THEN <<[o EXCEPT !.assigns = Append(@, VeneerAssign(S, <<b>>, b, r.assign))]>>
         ELSE <<o>>
    [] OTHER -> <<o>>

ApplyO(S, B, r) ==
  OK([i \in DOMAIN B |->
        LET b == B[i] IN
        [b EXCEPT !.options = Flatten([j \in DOMAIN b.options |->
             IF OSel(r.sel, b, b.options[j]) THEN Act(S, B, b, b.options[j], r) ELSE <<b.options[j]>>])]])

\* one rule applied the way Rewriter.ApplyTo does (builders left without options are dismissed)
ApplyRule(S, B, r) ==
  LET res == IF r.kind = "b" THEN ApplyB(S, B, r) ELSE ApplyO(S, B, r)
  IN IF res.err THEN Err(B) ELSE OK(DropEmpty(res.B))
(* ============================ C17: contracts ============================ *)
\* Predicates over one step (S, pre, rule, post) of the real rewriter.  Each
\* returns the set of violated clauses with a witness class.
BLevel(b) == [b EXCEPT !.options = <<>>]            \* everything of a builder but its options
Counterparts(b, post) == {i \in DOMAIN post : BLevel(post[i]) = BLevel(b)}
Unsel(r, b) == SelectSeq(b.options, LAMBDA o : ~OSel(r.sel, b, o))
SelOpts(r, b) == SelectSeq(b.options, LAMBDA o : OSel(r.sel, b, o))
V(cl, w) == {[clause |-> cl, witness |-> w]}

\* which declared parts of an option / a builder differ (witness classes)
OptionDiff(a, b) == (IF a.comments # b.comments THEN "comments." ELSE "") \o (IF a.args # b.args THEN "args." ELSE "")
                    \o (IF a.assigns # b.assigns THEN "assignments." ELSE "") \o (IF a.def # b.def THEN "default." ELSE "")
BuilderDiff(a, b) == (IF a.for # b.for THEN "for." ELSE "") \o (IF a.props # b.props THEN "properties." ELSE "")
                     \o (IF a.ctor # b.ctor THEN "constructor." ELSE "") \o (IF a.factories # b.factories THEN "factories." ELSE "")

\* "builders and options not selected by a rule are unchanged"
UnselectedV(S, pre, r, post) ==
  IF r.kind = "b"
  THEN LET un == SelectSeq(pre, LAMBDA b : ~BSel(S, r.sel, b))
           lost == {b \in Range(un) : Count(un, b) > Count(post, b)}
       IN IF lost = {} THEN {}
          ELSE IF \A b \in lost : b.options = <<>> THEN V("UnselectedUnchanged", "builder-without-options-dropped")
          ELSE IF \E b \in lost : \E i \in DOMAIN post : post[i].name = b.name /\ post[i].pkg = b.pkg
               THEN V("UnselectedUnchanged", "unselected-builder-modified")
          ELSE V("UnselectedUnchanged", "unselected-builder-removed")
  ELSE UNION {LET b == pre[i]
                  cps == Counterparts(b, post)
                  un == Unsel(r, b)
              IN IF cps = {}
                 THEN (IF b.options = <<>> THEN V("UnselectedUnchanged", "builder-without-options-dropped")
                       ELSE IF un = <<>> THEN {}          \* every option was selected: the builder may be dismissed
                       ELSE IF \E j \in DOMAIN post : post[j].name = b.name /\ post[j].pkg = b.pkg
                            THEN V("UnselectedUnchanged", "builder-level-modified-by-option-rule:" \o
                                   BuilderDiff(b, post[CHOOSE j \in DOMAIN post : post[j].name = b.name /\ post[j].pkg = b.pkg]))
                       ELSE V("UnselectedUnchanged", "builder-removed-by-option-rule"))
                 ELSE IF \E j \in cps : SubBag(un, post[j].options) THEN {}
                 ELSE IF \E j \in cps : \A o \in Range(un) : \E o2 \in Range(post[j].options) : o2.name = o.name
                      THEN LET j == CHOOSE x \in cps : \A o \in Range(un) : \E o2 \in Range(post[x].options) : o2.name = o.name
                               o == CHOOSE x \in Range(un) : Count(un, x) > Count(post[j].options, x)
                               o2 == CHOOSE x \in Range(post[j].options) : x.name = o.name /\ x \notin Range(un)
                           IN V("UnselectedUnchanged", "unselected-option-modified:" \o OptionDiff(o, o2))
                 ELSE V("UnselectedUnchanged", "unselected-option-removed")
              : i \in DOMAIN pre}

\* omit removes
OmitV(S, pre, r, post) ==
  IF r.kind = "b"
  THEN (IF \E b \in Range(post) : BSel(S, r.sel, b) THEN V("OmitRemoves", "selected-builder-remains") ELSE {})
       \cup (IF ~SubBag(post, pre) THEN V("OmitRemoves", "new-or-changed-builder") ELSE {})
  ELSE \* several builders can be equal at builder level (two copies under one name): one matching counterpart is enough
       UNION {LET b == pre[i]
                  cps == Counterparts(b, post)
                  clean(j) == ~\E o \in Range(post[j].options) : OSel(r.sel, post[j], o)
              IN IF cps = {} THEN {}
                 ELSE IF \E j \in cps : clean(j) /\ SubBag(post[j].options, b.options) THEN {}
                 ELSE IF \A j \in cps : ~clean(j) THEN V("OmitRemoves", "selected-option-remains")
                 ELSE V("OmitRemoves", "new-or-changed-option")
              : i \in DOMAIN pre}

\* rename only renames
RenameV(S, pre, r, post) ==
  IF r.kind = "b"
  THEN LET want == DropEmpty([i \in DOMAIN pre |-> IF BSel(S, r.sel, pre[i]) THEN [pre[i] EXCEPT !.name = r.as] ELSE pre[i]])
       IN IF BagEq(want, DropEmpty(post)) THEN {}
          ELSE IF \E b \in Range(post) : b.name = r.as /\ ~\E b0 \in Range(pre) : BSel(S, r.sel, b0) /\ b.for = b0.for
               THEN V("RenameOnlyRenames", "for-object-changed")
          ELSE V("RenameOnlyRenames", "builder-differs-beyond-name")
  ELSE IF r.r = "rename"
  THEN UNION {LET b == pre[i]
                  want == [j \in DOMAIN b.options |-> IF OSel(r.sel, b, b.options[j]) THEN [b.options[j] EXCEPT !.name = r.as] ELSE b.options[j]]
              IN IF \E j \in Counterparts(b, post) : BagEq(want, post[j].options) THEN {}
                 ELSE IF Counterparts(b, post) = {} THEN {}        \* reported by UnselectedUnchanged
                 ELSE V("RenameOnlyRenames", "option-differs-beyond-name") : i \in DOMAIN pre}
  ELSE \* rename_arguments: a SIMULTANEOUS substitution of the argument names, in the declaration and in every mention
       UNION {LET b == pre[i] IN
              UNION {LET o == b.options[x]
                         new(n) == IF \E k \in DOMAIN o.args : o.args[k].name = n
                                   THEN r.as[CHOOSE k \in DOMAIN o.args : o.args[k].name = n /\ \A j \in 1..(k - 1) : o.args[j].name # n] ELSE n
                         want == RenOption(new, o)
                     IN IF ~OSel(r.sel, b, o) \/ Len(r.as) # Len(o.args) \/ Counterparts(b, post) = {} THEN {}
                        ELSE IF \E j \in Counterparts(b, post) : want \in Range(post[j].options) THEN {}
                        ELSE IF \E j \in Counterparts(b, post) : \E o2 \in Range(post[j].options) :
                                  BlankArgNames(o2) = BlankArgNames(o) /\ [k \in DOMAIN o2.args |-> o2.args[k].name] = r.as
                             THEN V("RenameOnlyRenames", "argument-references-rewired")
                        ELSE V("RenameOnlyRenames", "arguments-differ-beyond-names")
                     : x \in DOMAIN b.options} : i \in DOMAIN pre}

\* duplicate yields an identical copy under the new name (defaults and factories included)
CopyWitness(c, want) ==
  IF [c EXCEPT !.factories = want.factories] = want THEN "factories-lost"
  ELSE IF Len(c.options) = Len(want.options) /\
          [c EXCEPT !.options = [k \in DOMAIN @ |-> [@[k] EXCEPT !.def = want.options[k].def]]] = want THEN "option-default-lost"
  ELSE IF Len(c.options) = Len(want.options) /\
          [c EXCEPT !.factories = want.factories, !.options = [k \in DOMAIN @ |-> [@[k] EXCEPT !.def = want.options[k].def]]] = want
       THEN "option-default-and-factories-lost"
  ELSE "copy-differs"
DuplicateV(S, pre, r, post) ==
  IF r.kind = "b"
  THEN (IF SubBag(DropEmpty(pre), post) THEN {} ELSE V("DuplicateIsIdenticalCopy", "original-changed"))
       \cup UNION {LET b == pre[i]
                       want == [b EXCEPT !.name = r.as, !.options = SelectSeq(@, LAMBDA o : ~InFold(o.name, r.exclude))]
                   IN IF ~BSel(S, r.sel, b) \/ want.options = <<>> \/ want \in Range(post) THEN {}
                      ELSE LET cands == {c \in Range(post) : c.name = r.as /\ c.for = b.for} IN
                           IF cands = {} THEN V("DuplicateIsIdenticalCopy", "no-copy")
                           ELSE LET ws == {CopyWitness(c, want) : c \in cands} IN
                                V("DuplicateIsIdenticalCopy",
                                  IF "option-default-lost" \in ws THEN "option-default-lost"
                                  ELSE IF "factories-lost" \in ws THEN "factories-lost"
                                  ELSE IF "option-default-and-factories-lost" \in ws THEN "option-default-and-factories-lost"
                                  ELSE "copy-differs")
                   : i \in DOMAIN pre}
  ELSE UNION {LET b == pre[i] IN
              UNION {LET o == b.options[x]
                         want == [o EXCEPT !.name = r.as]
                     IN IF ~OSel(r.sel, b, o) \/ Counterparts(b, post) = {} THEN {}
                        ELSE IF \E j \in Counterparts(b, post) : o \in Range(post[j].options) /\ want \in Range(post[j].options) THEN {}
                        ELSE IF \E j \in Counterparts(b, post) : o \notin Range(post[j].options) THEN V("DuplicateIsIdenticalCopy", "original-changed")
                        ELSE IF \E j \in Counterparts(b, post) : \E c \in Range(post[j].options) : [c EXCEPT !.def = want.def] = want
                             THEN V("DuplicateIsIdenticalCopy", "option-default-lost")
                        ELSE V("DuplicateIsIdenticalCopy", "copy-differs")
                     : x \in DOMAIN b.options} : i \in DOMAIN pre}

\* "... produce options that still assign the same target": every assignment of every
\* produced option extends an assignment path of a selected option (index items
\* ignored), and every target of a selected option is still assigned
PathIds(p) == LET named == SelectSeq(p, LAMBDA it : it.id # "") IN [i \in DOMAIN named |-> named[i].id]
IsPrefix(a, b) == Len(a) <= Len(b) /\ \A i \in DOMAIN a : a[i] = b[i]
TargetsOf(o) == {PathIds(o.assigns[i].path) : i \in DOMAIN o.assigns}
SameTargetRules == {"array_to_append", "map_to_index", "unfold_boolean", "struct_fields_as_arguments",
                    "struct_fields_as_options", "disjunction_as_options"}
SameTargetV(S, pre, r, post) ==
  UNION {LET b == pre[i]
             sel == SelOpts(r, b)
             un == Unsel(r, b)
             olds == UNION {TargetsOf(sel[x]) : x \in DOMAIN sel}
         IN IF sel = <<>> THEN {}
            ELSE IF Counterparts(b, post) = {}
                 THEN (IF \E j \in DOMAIN post : post[j].name = b.name /\ post[j].pkg = b.pkg THEN {}   \* builder level changed: UnselectedUnchanged reports it
                       ELSE V("SameTarget", "builder-lost"))
            ELSE IF \E j \in Counterparts(b, post) :
                      LET produced == {o \in Range(post[j].options) : Count(post[j].options, o) > Count(un, o)}
                          news == UNION {TargetsOf(o) : o \in produced}
                      IN /\ \A t2 \in news : \E t \in olds : IsPrefix(t, t2)
                         /\ \A t \in olds : \E t2 \in news : IsPrefix(t, t2)
                 THEN {}
            ELSE IF \E j \in Counterparts(b, post) :
                      LET produced == {o \in Range(post[j].options) : Count(post[j].options, o) > Count(un, o)}
                          news == UNION {TargetsOf(o) : o \in produced}
                      IN \A t2 \in news : \E t \in olds : IsPrefix(t, t2)
                 THEN V("SameTarget", "target-no-longer-assigned")
            ELSE V("SameTarget", "assigns-another-target")
         : i \in DOMAIN pre}

\* struct_fields_as_options / struct_fields_as_arguments: "the same target" at the level of leaves (DESIGN 3.5):
\* every unfolded field of the struct is assigned at <the path of the first argument's assignment>.<field>
FieldTargetsV(S, pre, r, post) ==
  UNION {LET b == pre[i]
             sel == SelOpts(r, b)
             un == Unsel(r, b)
             wants == UNION {LET o == sel[x]
                                 st == FirstArgStruct(S, o)
                             IN IF st.k # "struct" THEN {}
                                ELSE IF Last(o.assigns[ArgAssignIdx(o)].path).type.k = "array" THEN {}      \* unfolded into an envelope appended to the list
                                ELSE {PathIds(o.assigns[ArgAssignIdx(o)].path) \o <<f.name>> : f \in Range(PickFields(st, r.fields))}
                             : x \in DOMAIN sel}
         IN IF sel = <<>> \/ wants = {} \/ Counterparts(b, post) = {} THEN {}
            ELSE IF \E j \in Counterparts(b, post) :
                      LET produced == {o \in Range(post[j].options) : Count(post[j].options, o) > Count(un, o)}
                      IN wants \subseteq UNION {TargetsOf(o) : o \in produced}
                 THEN {}
            ELSE V("SameTarget", "field-of-the-struct-not-assigned")
         : i \in DOMAIN pre}

\* Parameterisations whose outcome nothing documents are outside every claim (DESIGN 6.0):
\* an explicit field list that names no field of the struct it is applied to.
Defined(S, pre, r) ==
  IF r.kind # "o" THEN TRUE
  ELSE IF r.r \notin {"struct_fields_as_arguments", "struct_fields_as_options"} THEN TRUE
  ELSE IF r.fields = <<>> THEN TRUE ELSE
  \A i \in DOMAIN pre : \A o \in Range(SelOpts(r, pre[i])) :
       LET st == FirstArgStruct(S, o) IN st.k = "struct" => PickFields(st, r.fields) # <<>>

\* promote_options_to_constructor: "both arguments and assignments described by the options will be exposed in the
\* builder's constructor" - the constructor gains the option's first assignment as it is (path, value, method, constraints)
PromoteV(S, pre, r, post) ==
  UNION {LET b == pre[i] IN
         IF ~BSel(S, r.sel, b) THEN {}
         ELSE UNION {LET hits == {x \in DOMAIN b.options : SameFold(b.options[x].name, r.options[n])} IN
                     IF hits = {} THEN {}
                     ELSE LET o == b.options[CHOOSE x \in hits : \A y \in hits : x <= y] IN
                          IF o.assigns = <<>> \/ o.args = <<>> THEN {}
                          ELSE IF \E j \in DOMAIN post : post[j].name = b.name /\ post[j].pkg = b.pkg /\ post[j].for = b.for
                                                        /\ o.assigns[1] \in Range(post[j].ctor.assigns) THEN {}
                          ELSE IF \E j \in DOMAIN post : post[j].name = b.name /\ post[j].pkg = b.pkg /\
                                    \E c \in Range(post[j].ctor.assigns) : PathIds(c.path) = PathIds(o.assigns[1].path)
                               THEN V("PromoteKeepsAssignment", "assignment-rebuilt:" \o o.assigns[1].method \o "-" \o o.assigns[1].value.k)
                          ELSE V("PromoteKeepsAssignment", "assignment-missing")
                     : n \in DOMAIN r.options}
         : i \in DOMAIN pre}

\* well-typedness is judged on the step that breaks it
WellTypedV(S, pre, post) ==
  IF WTV(S, pre) # {} THEN {}
  ELSE {[clause |-> v.clause, witness |-> v.witness] : v \in WTV(S, post)}

StepViolated(S, pre, r, post) ==
  IF ~Defined(S, pre, r) THEN {} ELSE
  WellTypedV(S, pre, post)
  \cup UnselectedV(S, pre, r, post)
  \cup (IF r.r = "omit" THEN OmitV(S, pre, r, post) ELSE {})
  \cup (IF r.r = "rename" \/ (r.kind = "o" /\ r.r = "rename_arguments") THEN RenameV(S, pre, r, post) ELSE {})
  \cup (IF r.r = "duplicate" THEN DuplicateV(S, pre, r, post) ELSE {})
  \cup (IF r.kind = "b" /\ r.r = "promote" THEN PromoteV(S, pre, r, post) ELSE {})
  \cup (IF r.kind = "o" /\ r.r \in SameTargetRules THEN SameTargetV(S, pre, r, post) ELSE {})
  \cup (IF r.kind = "o" /\ r.r \in {"struct_fields_as_options", "struct_fields_as_arguments"} THEN FieldTargetsV(S, pre, r, post) ELSE {})
(* ============ growth item 2: nil checks (GenerateBuilderNilChecks) ======== *)
\* Requirement (DESIGN Appendix E.2; the IR half of C09): in every scope (the
\* constructor, or one option) and for every assignment, every NULLABLE PROPER
\* PREFIX of the assignment path is protected by exactly one nil check placed at or
\* before that assignment, none is repeated within the scope, nothing else is
\* checked, the check's empty value has the prefix's type (the hinted type when the
\* item carries a hint), and - for append assignments in languages that protect
\* appends - the appended-to array itself counts as a prefix.
\* cfg = the language's NullableConfig: [kinds : set of kind names, protect, any : BOOLEAN]
TypeNullable(cfg, t) == IsType(t) /\ (t.nullable \/ (t.k = "scalar" /\ t.sk = "any" /\ cfg.any) \/ t.k \in cfg.kinds)
PrefixKey(p) == [i \in DOMAIN p |-> [id |-> p[i].id, index |-> p[i].index]]
Prefix(p, i) == SubSeq(p, 1, i)
NeededLens(cfg, a) == {i \in 1..Len(a.path) : TypeNullable(cfg, a.path[i].type) /\ (i < Len(a.path) \/ (cfg.protect /\ a.method = "append"))}
NeededKeys(cfg, a) == {PrefixKey(Prefix(a.path, i)) : i \in NeededLens(cfg, a)}
EmptyOf(it) == IF it.hint.k # "none" THEN it.hint ELSE it.type
NilCheck(a, i) == [path |-> Prefix(a.path, i), empty |-> EmptyOf(a.path[i])]

\* why a prefix needs protection / what a check sits on (witness classes)
PrefixClass(cfg, a, i) ==
  LET t == a.path[i].type IN
  (IF i = Len(a.path) THEN "append-target"
   ELSE IF ~IsType(t) THEN "untyped"
   ELSE IF t.nullable THEN "nullable-" \o t.k
   ELSE IF t.k = "scalar" /\ t.sk = "any" THEN "any"
   ELSE IF t.k \in cfg.kinds THEN "kind-" \o t.k
   ELSE "non-nullable-" \o t.k)
  \o (IF a.path[i].id = "" THEN "+index" ELSE "") \o (IF a.path[i].hint.k # "none" THEN "+hint" ELSE "")
  \o (IF i > 2 THEN "@deep" ELSE "")

RECURSIVE SortedSeqOf(_)
SortedSeqOf(ns) == IF ns = {} THEN <<>> ELSE LET m == CHOOSE x \in ns : \A y \in ns : x <= y IN <<m>> \o SortedSeqOf(ns \ {m})

\* the requirement as a function on one scope (a sequence of assignments without nil checks)
ChecksFor(cfg, scope, j) ==
  LET a == scope[j]
      earlier == UNION {NeededKeys(cfg, scope[x]) : x \in 1..(j - 1)}
      lens == SortedSeqOf({i \in NeededLens(cfg, a) : PrefixKey(Prefix(a.path, i)) \notin earlier})
  IN [x \in DOMAIN lens |-> NilCheck(a, lens[x])]
ScopeWithNilChecks(cfg, scope) == [j \in DOMAIN scope |-> [scope[j] EXCEPT !.nilchecks = ChecksFor(cfg, scope, j)]]
BuilderWithNilChecks(cfg, b) ==
  [b EXCEPT !.ctor.assigns = ScopeWithNilChecks(cfg, @),
            !.options = [i \in DOMAIN @ |-> [@[i] EXCEPT !.assigns = ScopeWithNilChecks(cfg, @)]]]

\* the requirement as a relation: violations of one scope of the builder after generation
ScopeNilV(cfg, scope, where) ==
  LET checks == UNION {{<<j, c>> : c \in DOMAIN scope[j].nilchecks} : j \in DOMAIN scope}
      chk(x) == scope[x[1]].nilchecks[x[2]]
      lenOf(x) == Len(chk(x).path)
      isPrefix(x) == lenOf(x) >= 1 /\ lenOf(x) <= Len(scope[x[1]].path)
                     /\ PrefixKey(chk(x).path) = PrefixKey(Prefix(scope[x[1]].path, lenOf(x)))
      V2(cl, w) == {[clause |-> cl, class |-> w, where |-> where]}
  IN UNION {UNION {IF \E x \in checks : x[1] <= j /\ PrefixKey(chk(x).path) = PrefixKey(Prefix(scope[j].path, i))
                   THEN {} ELSE V2("missing", PrefixClass(cfg, scope[j], i))
                   : i \in NeededLens(cfg, scope[j])} : j \in DOMAIN scope}
     \cup UNION {IF ~isPrefix(x) THEN V2("spurious", "not-a-prefix-of-its-assignment")
                 ELSE IF lenOf(x) \notin NeededLens(cfg, scope[x[1]])
                      THEN V2("spurious", IF lenOf(x) = Len(scope[x[1]].path) /\ scope[x[1]].method # "append"
                                          THEN "full-path-of-" \o scope[x[1]].method \o "-assignment"
                                          ELSE PrefixClass(cfg, scope[x[1]], lenOf(x)))
                 ELSE IF chk(x) # NilCheck(scope[x[1]], lenOf(x)) THEN V2("wrong-empty-value", PrefixClass(cfg, scope[x[1]], lenOf(x)))
                 ELSE {} : x \in checks}
     \cup UNION {IF \E y \in checks : y # x /\ PrefixKey(chk(y).path) = PrefixKey(chk(x).path) /\ isPrefix(x)
                 THEN V2("duplicate", PrefixClass(cfg, scope[x[1]], lenOf(x))) ELSE {} : x \in checks}
BuilderNilV(cfg, b) ==
  ScopeNilV(cfg, b.ctor.assigns, "constructor")
  \cup UNION {ScopeNilV(cfg, b.options[i].assigns, "option") : i \in DOMAIN b.options}
\* nothing but nil checks may change
StripNil(b) == [b EXCEPT !.ctor.assigns = [j \in DOMAIN @ |-> [@[j] EXCEPT !.nilchecks = <<>>]],
                         !.options = [i \in DOMAIN @ |-> [@[i] EXCEPT !.assigns = [j \in DOMAIN @ |-> [@[j] EXCEPT !.nilchecks = <<>>]]]]]
NilChecksViolated(cfg, pre, post) ==
  {[clause |-> v.clause, class |-> v.class \o "/" \o v.where] : v \in BuilderNilV(cfg, post)}
  \cup (IF StripNil(post) = StripNil(pre) THEN {} ELSE {[clause |-> "frame", class |-> "builder-changed-elsewhere"]})
===============================================================================
