CONSTANTS
  MaxLen = 2
  Slice = 0
  NSlices = 1
  FoldTable <- NFoldTable
  SingularTable <- NSingular
  LCamelTable <- NLCamel
SPECIFICATION Spec
INVARIANTS FunctionSatisfiesRelation Emit
CHECK_DEADLOCK FALSE
