----------------------------- MODULE KindRegistry -----------------------------
(* Growth item 6 (DESIGN Appendix E): the kind-registry input - `kind_registry: {path, version}` - and the kindsys     *)
(* loaders it drives (internal/codegen/kindregistry.go, kindsyscore.go, kindsyscomposable.go).                         *)
(*                                                                                                                    *)
(* A registry is a directory tree  <path>/grafana/<version>/{core, composable, common}.  Loading it yields one schema  *)
(* per DIRECTORY below core/ (a core kind) and below composable/ (a composable kind) - plain files there are ignored - *)
(* plus the `common` package when that directory exists. Requirement:                                                  *)
(*   K1  an empty path loads nothing and is not an error; a version whose core/ or composable/ directory does not      *)
(*       exist is an error (nothing is silently skipped);                                                              *)
(*   K2  package = the directory's name; objects = the fields/definitions of lineage.schemas[0].schema;                *)
(*   K3  core kind:        metadata kind "core", no variant, identifier = the kind's `name`;                            *)
(*   K4  composable kind:  metadata kind "composable", variant by schemaInterface (PanelCfg -> panelcfg, DataQuery ->   *)
(*       dataquery, anything else is an error), identifier = lower-case(name without the schemaInterface suffix);      *)
(*   K5  a dataquery kind is wrapped in a named envelope "dataquery" which is the schema's entry point; other kinds     *)
(*       have no entry point;                                                                                           *)
(*   K6  a kind without `name` (or a composable one without schemaInterface) is an error.                               *)
(* The `common` package carries no kind metadata. Two kinds with one directory name (core/x and composable/x) are not   *)
(* in the universe (what merging them means is not stated anywhere).                                                    *)
EXTENDS Naturals, Sequences, FiniteSets, TLC

\* kinds of the universe: the CUE text of each is written by checks/kindregistry_part.py from these records
CoreKinds == { [dir |-> "dash", name |-> "Dashboard", objs |-> {"spec", "Extra"}],
               [dir |-> "team", name |-> "Team",      objs |-> {"spec"}],
               [dir |-> "anon", name |-> "",          objs |-> {"spec"}] }           \* no `name` field
ComposableKinds == { [dir |-> "ts",     name |-> "TimeseriesPanelCfg", iface |-> "PanelCfg",  objs |-> {"Options", "FieldConfig"}],
                     [dir |-> "loki",   name |-> "LokiDataQuery",      iface |-> "DataQuery", objs |-> {"Direction"}],
                     [dir |-> "plain",  name |-> "Plain",              iface |-> "PanelCfg",  objs |-> {"Options"}],   \* name without the suffix
                     [dir |-> "widget", name |-> "FooWidget",          iface |-> "Widget",    objs |-> {"Options"}],   \* unknown interface
                     [dir |-> "noif",   name |-> "NoIf",               iface |-> "",          objs |-> {"Options"}] }  \* no schemaInterface

Variant(iface) == CASE iface = "PanelCfg" -> "panelcfg" [] iface = "DataQuery" -> "dataquery" [] OTHER -> "ERR"
\* lower-case(name without the interface suffix): string functions TLC lacks, as a finite table over the universe's names
WithoutSuffix == [TimeseriesPanelCfg |-> "Timeseries", LokiDataQuery |-> "Loki", Plain |-> "Plain", FooWidget |-> "Foo", NoIf |-> "NoIf"]
Lower == [Timeseries |-> "timeseries", Loki |-> "loki", Plain |-> "plain", Foo |-> "foo", NoIf |-> "noif"]
ComposableId(k) == Lower[WithoutSuffix[k.name]]

Meta(kind, variant, id) == kind \o "/" \o variant \o "/" \o id
CoreSchema(k) == [pkg |-> k.dir, meta |-> Meta("core", "", k.name), objects |-> k.objs, entry |-> ""]
ComposableSchema(k) ==
    IF Variant(k.iface) = "dataquery"
    THEN [pkg |-> k.dir, meta |-> Meta("composable", "dataquery", ComposableId(k)), objects |-> k.objs \cup {"dataquery"}, entry |-> "dataquery"]
    ELSE [pkg |-> k.dir, meta |-> Meta("composable", Variant(k.iface), ComposableId(k)), objects |-> k.objs, entry |-> ""]
CommonSchema == [pkg |-> "common", meta |-> Meta("", "", ""), objects |-> {"Shared"}, entry |-> ""]

\* c = [pathempty, version, hascore, hascomposable, hascommon, stray, core, composable]; the tree on disk only has version "next"
Ok(S) == [err |-> FALSE, schemas |-> S]
Err   == [err |-> TRUE, schemas |-> {}]
Expected(c) ==
    IF c.pathempty THEN Ok({})
    ELSE IF c.version # "next" \/ ~c.hascore \/ ~c.hascomposable THEN Err                                   \* K1
    ELSE IF \E k \in c.core : k.name = "" THEN Err                                                           \* K6
    ELSE IF \E k \in c.composable : k.iface = "" \/ Variant(k.iface) = "ERR" THEN Err                          \* K4, K6
    ELSE Ok((IF c.hascommon THEN {CommonSchema} ELSE {}) \cup {CoreSchema(k) : k \in c.core} \cup {ComposableSchema(k) : k \in c.composable})
================================================================================
