CONSTANTS
  KPublished <- TKPublished
  KLoader <- TKLoader
  Files = {"pipeline", "compiler", "veneers"}
  Unknown = "zz_unknown"
  MaxVisits = 1
  MaxInject = 1
  Styles = {"fresh"}
  MaxPos = 0
  MaxSteps = 99
  Forms = {"null"}
  Carriers = {"plain"}
  MaxGap = 0
  EmptyDocs = {"bare"}
  DocLoads = {"key"}
  Slice = 0
  NSlices = 1
  StrictMode = FALSE
SPECIFICATION TSpec
INVARIANTS Verdict Done
CHECK_DEADLOCK FALSE
