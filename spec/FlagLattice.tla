------------------------------ MODULE FlagLattice ------------------------------
(* C02 - only well-formed code (DESIGN 3.8 "flag lattice", "Expressible"; 6 C02). *)
(* Requirement level: every operator encodes a sentence of the property           *)
(*                                                                                *)
(*   "Whenever a pipeline run reports success, every generated Go package type-   *)
(*    checks with the Go toolchain under every combination of the Go output       *)
(*    options, every generated Python module byte-compiles and imports, generated *)
(*    Java compiles against the Jackson annotation surface, and no generated file *)
(*    in any language contains one of cog's own placeholder texts [...]. A        *)
(*    construct a target language cannot express must surface as an error         *)
(*    returned by the run, never as silently broken output."                      *)
(*                                                                                *)
(* The module gives (1) the configuration lattice the property quantifies over    *)
(* (output kinds x per-language flags, with the one documented exclusion),        *)
(* (2) Expressible(L, constructs), (3) the verdict over a recorded real run.      *)
(* It does NOT model the templates: the compilers are the oracle (DESIGN 6 C02).  *)
EXTENDS Integers, Sequences, FiniteSets, TLC

\* ------------------------------------------------------------------ the lattice
CodeLangs   == {"go", "python", "java", "typescript", "php"}
SchemaLangs == {"jsonschema", "openapi"}          \* "no generated file in any language": placeholder scan only
Langs       == CodeLangs \cup SchemaLangs

OutputKinds == {"types", "builders", "converters", "api_reference"}

\* yaml keys of each jenny's Config that the property's quantifier names
\* (json marshaller, strict unmarshaller, equal, validate, any_as_interface, skip_runtime, enums_as_union_types)
\* "alt_paths" stands for the path / prefix options of a language set to NON-default values (Java package_path with several
\* segments, Python path_prefix, TypeScript path_prefix + packages_import_map, PHP namespace_root with several segments): not
\* named by the property, but output options all the same (audit class 11); Go's package_root always has several segments
Flags(L) ==
  CASE L = "go"         -> {"generate_json_marshaller", "generate_strict_unmarshaller", "generate_equal",
                            "generate_validate", "any_as_interface", "skip_runtime"}
    [] L = "python"     -> {"generate_json_marshaller", "skip_runtime", "alt_paths"}
    [] L = "java"       -> {"generate_json_marshaller", "skip_runtime", "alt_paths"}
    [] L = "typescript" -> {"skip_runtime", "enums_as_union_types", "alt_paths"}
    [] L = "php"        -> {"generate_json_marshaller", "alt_paths"}
    [] L \in SchemaLangs -> {"compact"}          \* not named by the property, but an output option of these two (audit class 11)
    [] OTHER            -> {}

Configs(L) == [lang : {L}, out : SUBSET OutputKinds, on : SUBSET Flags(L)]

\* the one combination the code documents as excluded ("builders can NOT be generated with this flag
\* turned on, as they rely on the runtime to function"); everything else is a legal request
Valid(c) == ~("skip_runtime" \in c.on /\ "builders" \in c.out)

Lattice(L) == {c \in Configs(L) : Valid(c)}

\* parameters of a configuration as (name, value) pairs: the unit of the covering-array argument
Params(L)      == OutputKinds \cup Flags(L)
ValueOf(c, p)  == IF p \in OutputKinds THEN p \in c.out ELSE p \in c.on
PairsOf(c)     == {<<p, ValueOf(c, p), q, ValueOf(c, q)>> : p, q \in Params(c.lang)}
\* every pair of parameter values some valid configuration realises
AllPairs(L)    == UNION {PairsOf(c) : c \in Lattice(L)}
PairwiseCovers(L, cs) == AllPairs(L) \subseteq UNION {PairsOf(c) : c \in cs}

\* ------------------------------------------------------------------ Expressible
\* Constructs a target language has no rendering for. The table is the languages' declared capability:
\* cog ships golden outputs for intersections in Go, Java, TypeScript, JSON Schema and OpenAPI only, and
\* composable slots need a variant the schemas declare. Everything else of the covering set is expressible
\* in every language.
Inexpressible == {<<"python", "intersection">>, <<"php", "intersection">>}

Expressible(L, constructs) == \A c \in constructs : <<L, c>> \notin Inexpressible

\* ------------------------------------------------------------------ verdict over one recorded run
\* r.outcome  : "files" | "error" | "panic"    what Pipeline.Run / the jennies returned
\* r.verdicts : [compile, import, placeholder] each "ok" | "fail" | "na"  (toolchain verdicts on the written files)
\* r.constructs: the construct tags of the input shape;  r.out: the requested output kinds
ToolchainOK(r) == r.verdicts.compile # "fail" /\ r.verdicts.import # "fail"
NoPlaceholder(r) == r.verdicts.placeholder # "fail"

\* "Whenever a pipeline run reports success ... type-checks / byte-compiles and imports / compiles / no placeholder"
SuccessIsWellFormed(r) == r.outcome = "files" => ToolchainOK(r) /\ NoPlaceholder(r)
\* "A construct a target language cannot express must surface as an error returned by the run".
\* Permissive reading: the construct has to be expressed where the types are emitted; a run that does not
\* request `types` never has to express it (what it does emit is still covered by the first implication).
UnsupportedIsError(r)  == (~Expressible(r.lang, r.constructs) /\ "types" \in r.out) => r.outcome = "error"

Violated(r) ==
  (IF r.outcome = "files" /\ r.verdicts.compile = "fail" THEN {"compile"} ELSE {})
  \cup (IF r.outcome = "files" /\ r.verdicts.import = "fail" THEN {"import"} ELSE {})
  \cup (IF r.outcome = "files" /\ r.verdicts.placeholder = "fail" THEN {"placeholder"} ELSE {})
  \cup (IF ~UnsupportedIsError(r) THEN {"silent-unsupported"} ELSE {})

C02Holds(r) == SuccessIsWellFormed(r) /\ UnsupportedIsError(r)

THEOREM \A r : C02Holds(r) <=> Violated(r) = {}
===============================================================================
