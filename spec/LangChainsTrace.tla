---------------------------- MODULE LangChainsTrace ----------------------------
(* Trace validation for C06 and C05(b): one record per REAL run of a language's *)
(* transformation chain (codegen.Pipeline.ContextForLanguage, builders on) on   *)
(* an input whose references all resolve.  TLC evaluates the normal-form        *)
(* clauses of that language and reference resolution on the recorded result.    *)
EXTENDS LangChains, TLC, Json

CONSTANTS Strict
Trace == ndJsonDeserialize("trace.ndjson")
TrFold == [x \in {} |-> x]

VARIABLE l
TInit == l = 1
TNext == l <= Len(Trace) /\ l' = l + 1
TSpec == TInit /\ [][TNext]_l

Step == Trace[l - 1]
Clz(r)  == IF r.err THEN {} ELSE ViolatedClauses(r.lang, r.post)
\* records taken from the repository's own tests (hook H2) carry the schemas the chain was handed:
\* the chain is only judged on references that resolved before it ran
PreResolves(r) == IF "pre" \in DOMAIN r THEN AllRefsResolve(r.pre) ELSE TRUE
Dang(r) == IF r.err \/ ~PreResolves(r) THEN {} ELSE {d.kind : d \in Dangling(r.post) \cup BuilderDangling(r.post, r.builders)}
Bad(r)  == Clz(r) # {} \/ Dang(r) # {}

Verdict == l = 1 \/ ~Bad(Step) \/
           (~Strict /\ PrintT(<<"FAIL", ToJson([l |-> l - 1, clauses |-> Clz(Step), dangling |-> Dang(Step)])>>))
Done == l = Len(Trace) + 1 => PrintT(<<"CONSUMED", l - 1>>)
===============================================================================
