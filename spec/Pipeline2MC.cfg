CONSTANTS
  AsCoded = {}
  Faults = {}
  Baseline1 = FALSE
  DrawAll = FALSE
  Universe = 1
  Slice = 0
  NSlices = 1
  Rels = {"same", "langs", "perm", "extra"}
  Rank <- MCRank
  InputSeqs <- MCInputSeqs
  Cfgs <- MCCfgs
  Langs <- MCLangs
  ExtraInputs <- MCExtra
SPECIFICATION Spec
VIEW view
INVARIANTS Deterministic LanguageIndependent InputOrderIndependent UnrelatedInputIrrelevant MergeIsUnionOrConflict InputsNeverMutated EmitCase
CHECK_DEADLOCK FALSE
