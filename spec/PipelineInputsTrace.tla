------------------------- MODULE PipelineInputsTrace -------------------------
(* Trace validation for the input-gating growth of Pipeline.tla: every record is one REAL codegen.Pipeline.LoadSchemas() *)
(* on a pipeline file generated from a TLC case (inputs with `if`, parameters, filters, transformations, metadata),      *)
(* projected to (error class, packages -> object names + metadata), plus the verdict of the differential comparison      *)
(* with the literal expansion of that pipeline. The SAME Expected as the design spec judges it.                           *)
EXTENDS PipelineInputs, Json

CONSTANTS Strict
Trace == ndJsonDeserialize("inputs_trace.ndjson")
TrVerRank == [v \in {"v10.0.0", "v11.2.x", "v11.3.0"} |-> CASE v = "v10.0.0" -> 1 [] v = "v11.2.x" -> 2 [] OTHER -> 3]

VARIABLE l
TInit == l = 1
TNext == l <= Len(Trace) /\ l' = l + 1
TSpec == TInit /\ [][TNext]_l

Range(s) == {s[i] : i \in DOMAIN s}
Step == Trace[l - 1]
CaseP(r) == [inputs |-> r.inputs, common |-> r.common]
RealPkgs(r) == {[pkg |-> x.pkg, meta |-> x.meta, objects |-> Range(x.objects)] : x \in Range(r.real.pkgs)}
ExpPkgs(r) == {[pkg |-> x.pkg, meta |-> x.meta, objects |-> x.objects] : x \in Expected(CaseP(r), r.env).pkgs}

(* an `if` that is not a boolean / does not compile fails the run; everything else loads or is skipped as specified *)
GateOK(r) == Expected(CaseP(r), r.env).err \in {"nonbool", "compile"} => r.real.err = Expected(CaseP(r), r.env).err
(* LoadSchemas = Common(Consolidate(concat of Transform(Filter(Parse)) over the inputs whose `if` holds)) *)
ConformsOK(r) == Expected(CaseP(r), r.env).err \notin {"nonbool", "compile"} =>
                    (r.real.err = Expected(CaseP(r), r.env).err /\ RealPkgs(r) = ExpPkgs(r))
(* the parametrised, gated pipeline and its literal expansion give the same IR *)
ExpansionOK(r) == r.expansion \in {"equal", "not-applicable"}

Violated(r) == (IF GateOK(r) THEN {} ELSE {"Gate"}) \cup (IF ConformsOK(r) THEN {} ELSE {"Conforms"})
          \cup (IF ExpansionOK(r) THEN {} ELSE {"Expansion"})
Verdict == l = 1 \/ Violated(Step) = {} \/
           (~Strict /\ PrintT(<<"FAIL", ToJson([l |-> l - 1, violated |-> Violated(Step)])>>))
Done == l = Len(Trace) + 1 => PrintT(<<"CONSUMED", l - 1>>)
===============================================================================
