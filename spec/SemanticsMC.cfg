CONSTANTS
  Mode = "index"
  Ids = {1}
  Fuel = 3
SPECIFICATION Spec
INVARIANTS Emit
CHECK_DEADLOCK FALSE
