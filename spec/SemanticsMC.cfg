CONSTANTS
  Mode = "index"
  Ids = {1}
  Fuel = 3
SPECIFICATION Spec
INVARIANTS LabelsConsistent NormSane EqSane Emit
CHECK_DEADLOCK FALSE
