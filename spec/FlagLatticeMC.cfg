CONSTANTS
  Mode = "configs"
SPECIFICATION Spec
INVARIANTS Emit
CHECK_DEADLOCK FALSE
