------------------------------- MODULE LibraryMC -------------------------------
(* Every way of giving at most MaxLen transformations to the library: the sequence and how it is split over             *)
(* SchemaTransformations() calls. See Library.tla for the requirement.                                                  *)
EXTENDS Library

CONSTANTS MaxLen

VARIABLES hist, groups      \* groups[i] = how many transformations the i-th SchemaTransformations() call was given
vars == <<hist, groups>>
Init == hist = <<>> /\ groups = <<>>
Next == /\ Len(hist) < MaxLen
        /\ \E a \in LibActs :
             /\ hist' = Append(hist, a)
             /\ \/ groups' = Append(groups, 1)                                      \* a new call
                \/ groups # <<>> /\ groups' = [groups EXCEPT ![Len(groups)] = @ + 1] \* one more argument of the last call
Spec == Init /\ [][Next]_vars

\* design: how the sequence is split over calls is irrelevant; a prefix never touches comments and vice versa
NamesOf1(h) == {o.name : o \in AllObjects(ApplyAll(LibIR, h))}
OnlyPrefixes(h) == SelectSeq(h, LAMBDA a : a.a = "prefix_objects_names")
OnlyComments(h) == SelectSeq(h, LAMBDA a : a.a = "append_comment_objects")
Separable == /\ NamesOf1(hist) = NamesOf1(OnlyPrefixes(hist))
             /\ {o.comments : o \in AllObjects(ApplyAll(LibIR, hist))} = {o.comments : o \in AllObjects(ApplyAll(LibIR, OnlyComments(hist)))}
Emit == hist = <<>> \/ PrintT(<<"CASE", ToJson([hist |-> hist, groups |-> groups, expect |-> Expect(hist)])>>)
===============================================================================
