CONSTANTS
  FoldTable <- GFoldTable
  SingularTable <- GSingular
  LCamelTable <- GLCamel
SPECIFICATION Spec
INVARIANT Emit
CHECK_DEADLOCK FALSE
