---------------------------- MODULE OrderedMapImpl ----------------------------
(* Implementation-shaped model of internal/orderedmap/map.go: a Go map        *)
(* (records) plus a key slice (order).  Checked to refine OrderedMap and to   *)
(* keep records and order in bijection (the anchored state of C19).           *)
EXTENDS Naturals, Sequences, FiniteSets

CONSTANTS Keys, Vals
VARIABLES records, order

vars == <<records, order>>

Init == records = <<>> /\ order = <<>>      \* <<>> is the empty function

Set(k, v) == /\ order'   = IF k \in DOMAIN records THEN order ELSE Append(order, k)
             /\ records' = [x \in DOMAIN records \cup {k} |-> IF x = k THEN v ELSE records[x]]
Remove(k) == /\ records' = [x \in DOMAIN records \ {k} |-> records[x]]
             /\ order'   = SelectSeq(order, LAMBDA e : e # k)
\* Sort permutes order only (sort.SliceStable over order); modelled as reversal
\* and as ascending order over a fixed total order given by KeyRank
CONSTANT KeyRank
RECURSIVE Ins(_, _)
Ins(sorted, k) == IF sorted = <<>> THEN <<k>>
                  ELSE IF KeyRank[k] < KeyRank[Head(sorted)] THEN <<k>> \o sorted
                       ELSE <<Head(sorted)>> \o Ins(Tail(sorted), k)
RECURSIVE SortAsc(_)
SortAsc(s) == IF s = <<>> THEN <<>> ELSE Ins(SortAsc(SubSeq(s, 1, Len(s) - 1)), s[Len(s)])
Sort == order' = SortAsc(order) /\ UNCHANGED records

Next == \/ \E k \in Keys, v \in Vals : Set(k, v)
        \/ \E k \in Keys : Remove(k)
        \/ Sort
Spec == Init /\ [][Next]_vars

Bijection == /\ {order[i] : i \in 1..Len(order)} = DOMAIN records
             /\ \A i, j \in 1..Len(order) : order[i] = order[j] => i = j
LenIsLive == Len(order) = Cardinality(DOMAIN records)

AbsM == [i \in 1..Len(order) |-> <<order[i], records[order[i]]>>]
Abs == INSTANCE OrderedMap WITH m <- AbsM
\* Sort is not an action of the abstract Next (it permutes): refinement is
\* checked for the Set/Remove fragment, Sort is covered by Bijection/LenIsLive
NextNoSort == \/ \E k \in Keys, v \in Vals : Set(k, v)
              \/ \E k \in Keys : Remove(k)
SpecNoSort == Init /\ [][NextNoSort]_vars
Refines == Abs!Spec
AbsOverwriteKeepsPosition == Abs!OverwriteKeepsPosition
AbsRemoveKeepsOrder == Abs!RemoveKeepsOrder
===============================================================================
