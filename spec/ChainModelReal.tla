---------------------------- MODULE ChainModelReal ----------------------------
(* GENERATED AT CHECK TIME by checks/chainmodel_part.py from the output of     *)
(* `worker chain-list` (Language.CompilerPasses() of the seven languages in    *)
(* the tree being checked).  This committed copy only lets the specification   *)
(* parse on its own; the check always overwrites it in its scratch copy.       *)
RealChain == [
  go |-> <<"AnonymousStructsToNamed", "NotRequiredFieldAsNullableType", "DisjunctionWithNullToOptional", "DisjunctionOfConstantsToEnum", "AnonymousEnumToExplicitType", "PrefixEnumValues", "FlattenDisjunctions", "DisjunctionOfAnonymousStructsToExplicit", "DisjunctionInferMapping", "UndiscriminatedDisjunctionToAny", "DisjunctionToType">>,
  java |-> <<"AnonymousStructsToNamed", "NotRequiredFieldAsNullableType", "DisjunctionWithNullToOptional", "DisjunctionOfConstantsToEnum", "AnonymousEnumToExplicitType", "FlattenDisjunctions", "DisjunctionInferMapping", "UndiscriminatedDisjunctionToAny", "DisjunctionToType", "RemoveIntersections">>,
  jsonschema |-> <<"DisjunctionWithNullToOptional", "InferEntrypoint">>,
  openapi |-> <<"DisjunctionWithNullToOptional", "InferEntrypoint">>,
  php |-> <<"AnonymousStructsToNamed", "NotRequiredFieldAsNullableType", "DisjunctionWithNullToOptional", "DisjunctionOfConstantsToEnum", "AnonymousEnumToExplicitType", "SanitizeEnumMemberNames", "FlattenDisjunctions", "DisjunctionInferMapping", "UndiscriminatedDisjunctionToAny", "InlineObjectsWithTypes">>,
  python |-> <<"AnonymousStructsToNamed", "NotRequiredFieldAsNullableType", "DisjunctionWithNullToOptional", "DisjunctionOfConstantsToEnum", "FlattenDisjunctions", "DisjunctionInferMapping", "RenameNumericEnumValues">>,
  typescript |-> <<"RenameNumericEnumValues">>]
RealInlineKinds == [
  go |-> {}, java |-> {}, jsonschema |-> {}, openapi |-> {},
  php |-> {"scalar", "array", "map", "disj"},
  python |-> {}, typescript |-> {}]
===============================================================================
