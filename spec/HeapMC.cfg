CONSTANTS
  MaxMut = 2
  MaxDefects = 1
SPECIFICATION Spec
INVARIANTS Safe ClassifyOK OnlySharingLeaks Reveal
CHECK_DEADLOCK FALSE
