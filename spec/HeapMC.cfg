CONSTANTS
  MaxMut = 2
SPECIFICATION Spec
INVARIANTS Safe ClassifyOK OnlySharingLeaks Reveal
CHECK_DEADLOCK FALSE
