------------------------------ MODULE GrowthTrace ------------------------------
(* Trace validation for the specification growth items (DESIGN Appendix E):     *)
(*   {kind:"nilchecks", lang, cfg, pre, post}   post = the builder `pre` after   *)
(*        the REAL languages.GenerateBuilderNilChecks for language `lang`        *)
(*        judged by NilChecksViolated (requirement as a relation) and by         *)
(*        equality with BuilderWithNilChecks (requirement as a function)         *)
(*   {kind:"converter", ...}                    see ConverterIR.tla              *)
(* Report mode prints one FAIL line per violating record; Strict stops.          *)
EXTENDS ConverterIR, TLC, Json

CONSTANTS Strict
Trace  == ndJsonDeserialize("trace.ndjson")
Tables == JsonDeserialize("tables.json")
TrFold == Tables.fold
TrSingular == Tables.singular
TrLCamel == Tables.lcamel
TrUCamel == Tables.ucamel

VARIABLE l
TInit == l = 1
TNext == l <= Len(Trace) /\ l' = l + 1
TSpec == TInit /\ [][TNext]_l

Rec == Trace[l - 1]
CfgOf(r) == [kinds |-> Range(r.cfg.kinds), protect |-> r.cfg.protect, any |-> r.cfg.any]
Violated(r) ==
  IF r.kind = "nilchecks"
  THEN NilChecksViolated(CfgOf(r), r.pre, r.post)
       \cup (IF NilChecksViolated(CfgOf(r), r.pre, r.post) = {} /\ r.post # BuilderWithNilChecks(CfgOf(r), r.pre)
             THEN {[clause |-> "function", class |-> "differs-from-BuilderWithNilChecks"]} ELSE {})
  ELSE ConverterViolated(CfgOf(r), Tables.schemas[r.s], r.dir, r.builder, r.conv)
\* vacuity: what each record exercises
Stats(r) ==
  IF r.kind = "nilchecks"
  THEN LET scopes == <<r.post.ctor.assigns>> \o [i \in DOMAIN r.post.options |-> r.post.options[i].assigns]
       IN UNION {UNION {{PrefixClass(CfgOf(r), scopes[s][j], i) : i \in NeededLens(CfgOf(r), scopes[s][j])} : j \in DOMAIN scopes[s]} : s \in DOMAIN scopes}
  ELSE ConverterStats(CfgOf(r), Tables.schemas[r.s], r.dir, r.builder, r.conv)

Verdict == l = 1 \/ Violated(Rec) = {} \/
           (~Strict /\ PrintT(<<"FAIL", ToJson([l |-> l - 1, violated |-> Violated(Rec)])>>))
Stat == l = 1 \/ Stats(Rec) = {} \/ PrintT(<<"STAT", ToJson([l |-> l - 1, classes |-> Stats(Rec)])>>)
Done == l = Len(Trace) + 1 => PrintT(<<"CONSUMED", l - 1>>)
===============================================================================
