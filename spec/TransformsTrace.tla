----------------------------- MODULE TransformsTrace -----------------------------
(* Trace validation for C15/C05: every record is one REAL step                  *)
(*   {pre, act, post, err}  =  compiler.Passes{act}.Process(pre)                *)
(* observed by the harness (TLC-generated edges replayed on the code, random    *)
(* larger IRs, or steps recorded by hook H2 while the repository's tests run).  *)
(* The same functions as the design spec judge it:                              *)
(*   Conforms          post = Apply(pre, act)            (C15: effect + frame)  *)
(*   RefsStayResolved  name-changing steps keep AllRefsResolve      (C05)       *)
(*   FilterExact       allowed_objects keeps exactly Reach(allowed) (C05)       *)
(*   SelfRefsStay      name-changing steps keep every object's self reference on  *)
(*                     the object's own package and name            (C05)       *)
(* Report mode prints one FAIL line per violating record; Strict stops.         *)
EXTENDS Transforms, TLC, Json

CONSTANTS Strict
Trace  == ndJsonDeserialize("trace.ndjson")
Tables == JsonDeserialize("tables.json")
TrFold == Tables.fold
TrTrim == Tables.trim
TrRank == Tables.hintrank

VARIABLE l
TInit == l = 1
TNext == l <= Len(Trace) /\ l' = l + 1
TSpec == TInit /\ [][TNext]_l

Step == Trace[l - 1]
\* what the comparison leaves out is recorded with the step (a chain inherits it from every transformation in it)
NoMembers(r)  == IF "nomembers" \in DOMAIN r THEN r.nomembers ELSE r.act.a = "prefix_objects_names"
NoMappings(r) == IF "nomappings" \in DOMAIN r THEN r.nomappings ELSE r.act.a = "replace_reference"
CmpR(S, r) == LET S1 == IF NoMembers(r) THEN ProjNoMemberNames(S) ELSE S
              IN IF NoMappings(r) THEN ProjNoMappingTargets(S1) ELSE S1

Expected(r) == Apply(r.pre, r.act)
ConformsR(r) == IF ~Defined(r.pre, r.act) THEN TRUE
                ELSE LET e == Expected(r) IN
                       /\ e.err = r.err
                       /\ (~e.err => CmpR(r.post, r) = CmpR(e.S, r))
RefsStayR(r) == (NameChanging(r.act) /\ Defined(r.pre, r.act) /\ ~r.err /\ AllRefsResolve(r.pre)) => AllRefsResolve(r.post)
FilterExactR(r) == (r.act.a = "allowed_objects" /\ ~r.err) =>
                      {<<o.selfpkg, o.name>> : o \in AllObjects(r.post)} = {<<o.selfpkg, o.name>> : o \in AllObjects(Expected(r).S)}

\* an object's self reference is a reference too: after a name-changing step it still names the object's own package and name
\* (generators and later passes locate the object through it)
SelfRefsStayR(r) == (NameChanging(r.act) /\ Defined(r.pre, r.act) /\ ~r.err /\ SelfRefsOK(r.pre)) => SelfRefsOK(r.post)

Violated(r) == (IF ConformsR(r) THEN {} ELSE {"Conforms"})
          \cup (IF SelfRefsStayR(r) THEN {} ELSE {"SelfRefsStay"})
          \cup (IF RefsStayR(r) THEN {} ELSE {"RefsStayResolved"})
          \cup (IF FilterExactR(r) THEN {} ELSE {"FilterExact"})
DanglingKinds(r) == IF r.err THEN {} ELSE {d.kind : d \in Dangling(r.post)}

Verdict == l = 1 \/ Violated(Step) = {} \/
           (~Strict /\ PrintT(<<"FAIL", ToJson([l |-> l - 1, violated |-> Violated(Step), dangling |-> DanglingKinds(Step)])>>))
Done == l = Len(Trace) + 1 => PrintT(<<"CONSUMED", l - 1>>)
===============================================================================
