CONSTANTS
  AsCoded = {"interpolate", "defnames", "consolidate", "setdefault", "langloop", "infer", "compose"}
  Faults = {}
  Baseline1 = TRUE
  DrawAll = FALSE
  Universe = 2
  Slice = 0
  NSlices = 1
  Rels = {"same"}
  Rank <- MCRank
  InputSeqs <- MCInputSeqs
  Cfgs <- MCCfgs
  Langs <- MCLangs
  ExtraInputs <- MCExtra
SPECIFICATION Spec
VIEW view
INVARIANTS EmitWitness
CHECK_DEADLOCK FALSE
