---------------------------- MODULE OrderedMapTrace ----------------------------
(* Trace validation for C19: one record per operation performed on the REAL   *)
(* orderedmap.Map (random long histories over 12 keys).  For every record the *)
(* observed state after the operation must equal the state the abstract       *)
(* specification computes from the observed state before it.                  *)
EXTENDS OrderedMap, TLC, Json

CONSTANT TraceFile, Strict
Trace == ndJsonDeserialize(TraceFile)

VARIABLES l,      \* next record to consume
          exp,    \* state the specification expects after the last consumed record
          failed  \* the last consumed operation panicked / an observer was inconsistent on the real map
\* m (from OrderedMap) = state OBSERVED on the real map after the last consumed record

RankT == [k00 |-> 0, k01 |-> 1, k02 |-> 2, k03 |-> 3, k04 |-> 4, k05 |-> 5,
          k06 |-> 6, k07 |-> 7, k08 |-> 8, k09 |-> 9, k10 |-> 10, k11 |-> 11,
          k12 |-> 12, k13 |-> 13, k14 |-> 14, k15 |-> 15, k16 |-> 16, k17 |-> 17,
          k18 |-> 18, k19 |-> 19, k20 |-> 20, k21 |-> 21, k22 |-> 22, k23 |-> 23]
\* a comparison with many ties (three classes): exercises the stability of Sort
CoarseT(a, b) == (RankT[a] % 3) < (RankT[b] % 3)
AscT(a, b)  == RankT[a] < RankT[b]
DescT(a, b) == RankT[a] > RankT[b]

FromPairs(ps) == [i \in 1..Len(ps) |-> <<ps[i].k, ps[i].v>>]

ApplyT(s, r) ==
  CASE r.op = "set"       -> SetF(s, r.k, r.v)
    [] r.op = "remove"    -> RemoveF(s, r.k)
    [] r.op = "sort"      -> (CASE r.by = "asc" -> SortByF(AscT, s) [] r.by = "desc" -> SortByF(DescT, s)
                               [] r.by = "coarse" -> SortByF(CoarseT, s))
    [] r.op = "unmarshal" -> UnmarshalF(s, FromPairs(r.pairs))
    [] r.op = "filter"    -> FilterF(LAMBDA k, v : v = r.keep, s)
    [] r.op = "map"       -> MapF(LAMBDA k, v : IF k = r.k THEN 3 - v ELSE v, s)

TInit == l = 1 /\ m = <<>> /\ exp = <<>> /\ failed = FALSE
TNext == /\ l <= Len(Trace)
         /\ l' = l + 1
         /\ LET r == Trace[l] IN
              IF r.ev = "reset" THEN m' = <<>> /\ exp' = <<>> /\ failed' = FALSE
              ELSE /\ exp' = ApplyT(m, r)
                   /\ failed' = (r.failure # "")
                   /\ m'   = IF r.failure = "" THEN FromPairs(r.post) ELSE <<>>
TSpec == TInit /\ [][TNext]_<<l, m, exp, failed>>

StepOK == ~failed /\ exp = m /\ NoDup(m)
Verdict == StepOK \/ (~Strict /\ PrintT(<<"FAIL", l - 1>>))
Done == l = Len(Trace) + 1 => PrintT(<<"CONSUMED", l - 1>>)
===============================================================================
