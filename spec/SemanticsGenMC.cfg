CONSTANTS
  MinN = 3
  MaxN = 5
SPECIFICATION GSpec
INVARIANTS GEmit
CHECK_DEADLOCK FALSE
