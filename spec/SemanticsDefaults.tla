------------------------------ MODULE SemanticsDefaults ------------------------------
(* C10 and C11 on top of Semantics.tla (DESIGN 3.8, 6 "C10", "C11").                 *)
(*                                                                                    *)
(*   C10  DefaultDoc(S, o)   the JSON the generated default constructor of object o   *)
(*                           must encode to, restricted to the fields the property    *)
(*                           speaks about: "each field with a declared default holds  *)
(*                           exactly that default and each constant field holds its   *)
(*                           constant". A struct-valued default is a set of partial   *)
(*                           overrides merged over the referenced struct's own        *)
(*                           defaults. Fields without default / constant are          *)
(*                           unconstrained (absent from DefaultDoc).                  *)
(*        FailPaths          the constrained fields of a REAL constructor encoding     *)
(*                           that do not hold their default ("altered, re-typed or    *)
(*                           dropped": JV terms carry the JSON type, so "3" # 3);     *)
(*                           nested objects that are present are held to their own    *)
(*                           DefaultDoc.                                               *)
(*        DisagreePaths      "the two languages agree with each other on those fields" *)
(*        FullDefault        DefaultDoc completed with canonical values for the        *)
(*                           required unconstrained fields: the document handed to the *)
(*                           reference validator ("a default that the source schema    *)
(*                           itself accepts")                                          *)
(*   C11  PyRoundTripOK      to_json(from_json(d)) JSON-equal to d up to Norm          *)
(*        WireOK             Python's encoding JSON-equal to Go's up to Norm           *)
EXTENDS Semantics


RECURSIVE Resolve(_, _)
Resolve(S, t) == IF t.k = "ref" THEN Resolve(S, S[t.name]) ELSE t

IsConst(S, f)     == Resolve(S, f.t).k = "const"
HasDefault(f)     == f.def.j # "none"
Constrained(S, f) == HasDefault(f) \/ IsConst(S, f)
FieldsNamed(t, k) == SelectSeq(t.fields, LAMBDA f : f.n = k)

\* object a overlaid by object b: b's members replace a's (objects merge recursively), new members are appended
RECURSIVE Overlay(_, _)
Overlay(a, b) ==
  IF a.j # "obj" \/ b.j # "obj" THEN b
  ELSE LET kept == [i \in DOMAIN a.ps |->
                      IF Has(b.ps, a.ps[i].k) THEN P(a.ps[i].k, Overlay(a.ps[i].v, Get(b.ps, a.ps[i].k))) ELSE a.ps[i]]
           added == SelectSeq(b.ps, LAMBDA p : ~Has(a.ps, p.k))
       IN JObj(kept \o added)

\* full = FALSE: the constrained fields only (DefaultDoc); full = TRUE: a complete document (FullDefault)
RECURSIVE DocOf(_, _, _, _), ValueFor(_, _, _, _, _)
ValueFor(S, t, d, full, fuel) ==       \* the value a field of type t with declared default d must hold
  LET r == Resolve(S, t) IN
  \* partial overrides over the struct's own expectation, member by member and recursively (Overlay): a member the override
  \* does not mention keeps what the struct itself declares for it, INCLUDING that member's own struct-valued default
  IF r.k = "struct" /\ d.j = "obj" THEN Overlay(DocOf(S, r, full, fuel), d) ELSE d
DocOf(S, t, full, fuel) ==             \* t is a struct type
  LET inc == SelectSeq(t.fields, LAMBDA f : Constrained(S, f) \/ (full /\ f.req))
  IN JObj([i \in DOMAIN inc |->
       LET f == inc[i]
           r == Resolve(S, f.t) IN
       IF HasDefault(f) THEN P(f.n, ValueFor(S, f.t, f.def, full, fuel))
       ELSE IF r.k = "const" THEN P(f.n, r.v)
       ELSE IF r.k = "struct" THEN P(f.n, DocOf(S, r, full, Dec(fuel)))
       ELSE P(f.n, Base(S, f.t, fuel))])

DefaultDoc(S, t)        == DocOf(S, t, FALSE, 0)
FullDefault(S, t, fuel) == DocOf(S, t, TRUE, fuel)
FieldExpect(S, f)       == IF HasDefault(f) THEN ValueFor(S, f.t, f.def, FALSE, 0) ELSE Resolve(S, f.t).v

\* expected e against real r: objects are compared on e's members (the other members are unconstrained),
\* everything else exactly (JSON type included, numbers by value, key order irrelevant)
RECURSIVE HoldsV(_, _)
HoldsV(e, r) ==
  IF e.j = "obj"
  THEN r.j = "obj" /\ \A i \in DOMAIN e.ps : Has(r.ps, e.ps[i].k) /\ HoldsV(e.ps[i].v, Get(r.ps, e.ps[i].k))
  ELSE Plain(e) = Plain(r)

\* reading rule (NOTES_C10C11): an OPTIONAL field whose declared default is an empty collection holds its default
\* when it is absent as well (Go's omitempty cannot spell `[]`; absent and empty are the same default for a reader)
EmptyColl(e) == (e.j = "arr" /\ e.xs = <<>>) \/ (e.j = "obj" /\ e.ps = <<>>)
AbsentOK(S, f) == ~f.req /\ (EmptyColl(FieldExpect(S, f)) \/ EmptyColl(f.def))     \* declared `{}` on a struct: "its own defaults"
FieldHolds(S, f, v) == IF Has(v.ps, f.n) THEN HoldsV(FieldExpect(S, f), Get(v.ps, f.n)) ELSE AbsentOK(S, f)

\* e: the expected (merged) value of a struct-typed field with a declared default, r its struct type, v the real value:
\* every expected member is held to its value by the rule of ITS field (nested structs member by member, an optional
\* member expected empty may be absent), so that a failure names the member and not the whole struct
RECURSIVE InsidePaths(_, _, _, _, _)
InsidePaths(S, r, e, v, path) ==
  IF v.j # "obj" THEN {path}
  ELSE UNION {
    LET k  == e.ps[i].k
        ev == e.ps[i].v
        gs == FieldsNamed(r, k) IN
    IF gs = <<>> THEN (IF Has(v.ps, k) /\ HoldsV(ev, Get(v.ps, k)) THEN {} ELSE {Append(path, k)})
    ELSE LET rg == Resolve(S, gs[1].t) IN
         IF ~Has(v.ps, k) THEN (IF ~gs[1].req /\ (EmptyColl(ev) \/ EmptyColl(gs[1].def)) THEN {} ELSE {Append(path, k)})
         ELSE IF rg.k = "struct" /\ ev.j = "obj" THEN InsidePaths(S, rg, ev, Get(v.ps, k), Append(path, k))
         ELSE IF HoldsV(ev, Get(v.ps, k)) THEN {} ELSE {Append(path, k)}
    : i \in DOMAIN e.ps}

\* v: the JSON a real default constructor encoded to. Paths of the constrained fields that do not hold.
RECURSIVE FailPaths(_, _, _, _)
FailPaths(S, t, v, path) ==
  IF v.j # "obj" THEN {path}
  ELSE UNION {
    LET f == t.fields[fi]
        r == Resolve(S, f.t) IN
    IF Constrained(S, f)
    THEN IF r.k = "struct" /\ HasDefault(f) /\ FieldExpect(S, f).j = "obj" /\ Has(v.ps, f.n)
         THEN InsidePaths(S, r, FieldExpect(S, f), Get(v.ps, f.n), Append(path, f.n))
         ELSE IF FieldHolds(S, f, v) THEN {} ELSE {Append(path, f.n)}
    ELSE IF r.k = "struct" /\ Has(v.ps, f.n) /\ Get(v.ps, f.n).j = "obj"
         THEN FailPaths(S, r, Get(v.ps, f.n), Append(path, f.n))
         ELSE {}
    : fi \in DOMAIN t.fields}

\* a, b: the two languages' encodings. Paths of the constrained fields on which they differ.
RECURSIVE DisagreePaths(_, _, _, _, _)
DisagreePaths(S, t, a, b, path) ==
  IF a.j # "obj" \/ b.j # "obj" THEN (IF Plain(a) = Plain(b) THEN {} ELSE {path})
  ELSE UNION {
    LET f == t.fields[fi]
        r == Resolve(S, f.t)
        ha == Has(a.ps, f.n)
        hb == Has(b.ps, f.n) IN
    IF Constrained(S, f)
    THEN LET va == IF ha THEN Get(a.ps, f.n) ELSE IF AbsentOK(S, f) THEN FieldExpect(S, f) ELSE NoJ
             vb == IF hb THEN Get(b.ps, f.n) ELSE IF AbsentOK(S, f) THEN FieldExpect(S, f) ELSE NoJ
         IN IF Plain(va) # Plain(vb) THEN {Append(path, f.n)} ELSE {}
    ELSE IF r.k = "struct" /\ ha /\ hb /\ Get(a.ps, f.n).j = "obj" /\ Get(b.ps, f.n).j = "obj"
         THEN DisagreePaths(S, r, Get(a.ps, f.n), Get(b.ps, f.n), Append(path, f.n))
         ELSE {}
    : fi \in DOMAIN t.fields}

(* ------------------------------------ C11 ------------------------------------- *)
PyRoundTripOK(S, t, doc, enc) == JsonEq(Norm(S, t, enc), Norm(S, t, doc))
WireOK(S, t, pyEnc, goEnc)    == JsonEq(Norm(S, t, pyEnc), Norm(S, t, goEnc))
===============================================================================
