------------------------------ MODULE SemanticsTrace ------------------------------
(* Trace validation for the generated-code properties (C08, C01, C13).          *)
(* Every record is one REAL observation made by the generic driver on code that  *)
(* the real cog pipeline generated and `go build` compiled:                      *)
(*                                                                                *)
(*  kind = "doc": one document run through json.Unmarshal, UnmarshalJSONStrict,  *)
(*     Validate, json.Marshal; `real` holds what the Go code did, `judge` which  *)
(*     clauses apply to this document (set by the harness from the fault label    *)
(*     and the reference validator's verdict, never from the Go outcome).         *)
(*     TLC recomputes StrictRejects / ValidateErrs / Norm from the schema term    *)
(*     and the document and compares them with the recorded outcome.              *)
(*  kind = "eq": the Equals matrix of one schema: m[i][j] = a_i.Equals(b_j) for  *)
(*     independently decoded values, encs[i] = json.Marshal(a_i). TLC checks     *)
(*     reflexivity, symmetry, transitivity and agreement with Eq of the encodings.*)
(*                                                                                *)
(* Report mode prints one FAIL line per violating record; Strict stops (replay,  *)
(* binding self-test).                                                            *)
EXTENDS Semantics, Json

CONSTANTS Strict
Trace   == ndJsonDeserialize("trace.ndjson")
Schemas == JsonDeserialize("schemas.json")      \* sequence of schema terms; records refer to them by index

VARIABLE l
TInit == l = 1
TNext == l <= Len(Trace) /\ l' = l + 1
TSpec == TInit /\ [][TNext]_l

Step == Trace[l - 1]
SOf(r) == DefsFn(Schemas[r.si])
TOf(r) == SOf(r)[Schemas[r.si].root]

(* ------------------------------- C08 ---------------------------------- *)
\* the strict decoder rejects iff one of the four causes holds
StrictOK(r)   == r.judge.strict => (r.real.strictRejects = StrictRejects(SOf(r), TOf(r), r.doc))
\* Validate() reports exactly the paths whose bound is violated
ValidateOK(r) == r.judge.validate =>
                   ({r.real.verrs[i] : i \in DOMAIN r.real.verrs} = ValidateErrs(SOf(r), TOf(r), r.doc, <<>>))
ValidateStrictOK(r) == r.judge.validateStrict =>
                   ({r.real.verrsStrict[i] : i \in DOMAIN r.real.verrsStrict} = ValidateErrs(SOf(r), TOf(r), r.doc, <<>>))
(* ------------------------------- C01 ---------------------------------- *)
\* judge.accepted: the reference validator of the source format accepted the document (and Accepts agrees)
DecodeOK(r)       == r.judge.accepted => r.real.stdOK
StrictDecodeOK(r) == r.judge.accepted => ~r.real.strictRejects
RoundTripOK(r)    == (r.judge.accepted /\ r.real.hasEnc) =>
                       JsonEq(Norm(SOf(r), TOf(r), r.real.enc), Norm(SOf(r), TOf(r), r.doc))
ReAcceptOK(r)     == (r.judge.accepted /\ r.real.hasEnc) => r.real.reaccepted
AcceptsAgrees(r)  == r.judge.accepted => Accepts(SOf(r), TOf(r), r.doc)

DocViolated(r) ==
       (IF StrictOK(r) THEN {} ELSE {"Strict"})
  \cup (IF ValidateOK(r) THEN {} ELSE {"Validate"})
  \cup (IF ValidateStrictOK(r) THEN {} ELSE {"ValidateStrict"})
  \cup (IF DecodeOK(r) THEN {} ELSE {"Decode"})
  \cup (IF StrictDecodeOK(r) THEN {} ELSE {"StrictDecode"})
  \cup (IF RoundTripOK(r) THEN {} ELSE {"RoundTrip"})
  \cup (IF ReAcceptOK(r) THEN {} ELSE {"ReAccept"})
  \cup (IF AcceptsAgrees(r) THEN {} ELSE {"SpecVsValidator"})

(* ------------------------------- C13 ---------------------------------- *)
N(r) == DOMAIN r.encs
Reflexive(r)     == \A i \in N(r) : r.m[i][i]
Symmetric(r)     == \A i, j \in N(r) : r.m[i][j] = r.m[j][i]
Transitive(r)    == \A i, j, k \in N(r) : (r.m[i][j] /\ r.m[j][k]) => r.m[i][k]
SameJsonEqual(r) == \A i, j \in N(r) : JsonEq(r.encs[i], r.encs[j]) => r.m[i][j]     \* "two values that encode to the same JSON are equal"
EqualSameJson(r) == \A i, j \in N(r) : r.m[i][j] => Eq(r.encs[i], r.encs[j])          \* "two equal values encode to the same JSON up to absent/null vs empty"
\* dataquery variants: Equals takes the variants.Dataquery interface; nil and a value of another dataquery type are never equal
\* (nilEq / foreignEq are empty for plain structs)
NilUnequal(r)     == \A i \in DOMAIN r.nilEq : ~r.nilEq[i]
ForeignUnequal(r) == \A i \in DOMAIN r.foreignEq : ~r.foreignEq[i]
EqViolated(r) ==
       (IF Reflexive(r) THEN {} ELSE {"Reflexive"})
  \cup (IF Symmetric(r) THEN {} ELSE {"Symmetric"})
  \cup (IF Transitive(r) THEN {} ELSE {"Transitive"})
  \cup (IF SameJsonEqual(r) THEN {} ELSE {"SameJsonEqual"})
  \cup (IF EqualSameJson(r) THEN {} ELSE {"EqualSameJson"})
  \cup (IF NilUnequal(r) THEN {} ELSE {"NilUnequal"})
  \cup (IF ForeignUnequal(r) THEN {} ELSE {"ForeignUnequal"})

Violated(r) == IF r.kind = "doc" THEN DocViolated(r) ELSE EqViolated(r)

Verdict == l = 1 \/ Violated(Step) = {} \/
           (~Strict /\ PrintT(<<"FAIL", ToJson([l |-> l - 1, violated |-> Violated(Step)])>>))
Done == l = Len(Trace) + 1 => PrintT(<<"CONSUMED", l - 1>>)
===============================================================================
