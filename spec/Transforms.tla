------------------------------- MODULE Transforms -------------------------------
(* Requirement-level semantics of cog's user-configurable schema              *)
(* transformations (properties C15 and C05, DESIGN.md 3.3 and Appendix D).    *)
(*                                                                            *)
(* Every transformation is a function  (schemas, parameters) -> outcome  with *)
(* outcome = [err |-> BOOLEAN, S |-> schemas].  It states the documented      *)
(* effect on the selected targets AND the frame: everything that is not a     *)
(* target -- other objects, fields, comments, defaults, hints, metadata,      *)
(* entry points, every ordering -- is returned as it was.  Selection follows  *)
(* compiler/types.go: package exact, object and field names up to letter case.*)
(* A reference is "to" an object when it names it exactly (that is how        *)
(* references are resolved), so rewriting references is keyed on the object's *)
(* own spelling, never on the selector's.                                     *)
EXTENDS IR

Ok(S)  == [err |-> FALSE, S |-> S]
Err(S) == [err |-> TRUE, S |-> S]     \* the run fails; nothing is produced

(* ------------------------------ selection ------------------------------ *)
ObjRef(p, o)      == [pkg |-> p, obj |-> o]
FieldRef(p, o, f) == [pkg |-> p, obj |-> o, field |-> f]
ObjMatches(r, sc, o)   == sc.pkg = r.pkg /\ SameFold(o.name, r.obj)
AnyObjMatches(rs, sc, o) == \E i \in DOMAIN rs : ObjMatches(rs[i], sc, o)
FieldMatches(r, sc, o, f) == sc.pkg = r.pkg /\ SameFold(o.name, r.obj) /\ SameFold(f.name, r.field)
AnyFieldMatches(rs, sc, o, f) == \E i \in DOMAIN rs : FieldMatches(rs[i], sc, o, f)
SelNames(S, r) == {n \in NamesOf(S, r.pkg) : SameFold(n, r.obj)}

(* ------------------------------- helpers ------------------------------- *)
MapObjects(S, G(_, _)) ==
  [i \in DOMAIN S |-> [S[i] EXCEPT !.objects = [j \in DOMAIN S[i].objects |-> G(S[i], S[i].objects[j])]]]
FilterObjects(S, Keep(_, _)) ==
  [i \in DOMAIN S |-> [S[i] EXCEPT !.objects = SelectSeq(S[i].objects, LAMBDA o : Keep(S[i], o))]]
\* rewrite every type position of every schema with node rewriter F(home package, node)
MapTypes(S, F(_, _)) ==
  [i \in DOMAIN S |->
     [S[i] EXCEPT !.objects = [j \in DOMAIN S[i].objects |->
                                 [S[i].objects[j] EXCEPT !.type = Walk(LAMBDA n : F(S[i].pkg, n), S[i].objects[j].type)]],
                  !.entrytype = Walk(LAMBDA n : F(S[i].pkg, n), S[i].entrytype)]]
MapStructFields(o, G(_)) ==
  IF o.type.k # "struct" THEN o
  ELSE [o EXCEPT !.type.fields = [k \in DOMAIN o.type.fields |-> G(o.type.fields[k])]]
AppendObject(S, p, o) ==
  [i \in DOMAIN S |-> IF S[i].pkg = p THEN [S[i] EXCEPT !.objects = Append(S[i].objects, o)] ELSE S[i]]
DisjPkgs(home, t) == {home} \cup {t.branches[b].pkg : b \in {x \in DOMAIN t.branches : t.branches[x].k = "ref"}}

(* --------------------------- rename_object ----------------------------- *)
\* every position that names a renamed object follows it: refs, constant refs,
\* mapping targets, entry point
RenameNode(p, names, to, home, t) ==
  CASE t.k \in {"ref", "constref"} /\ t.pkg = p /\ t.name \in names -> [t EXCEPT !.name = to]
    [] t.k = "disj" /\ p \in DisjPkgs(home, t) ->
         [t EXCEPT !.mapping = [i \in DOMAIN t.mapping |->
            IF t.mapping[i].to \in names THEN [t.mapping[i] EXCEPT !.to = to] ELSE t.mapping[i]]]
    [] OTHER -> t
RenameNames(S, p, names, to) ==
  LET S1 == MapTypes(S, LAMBDA home, n : RenameNode(p, names, to, home, n))
  IN [i \in DOMAIN S1 |->
        IF S1[i].pkg # p THEN S1[i]
        ELSE [S1[i] EXCEPT
               !.entry = IF @ \in names THEN to ELSE @,
               !.objects = [j \in DOMAIN S1[i].objects |->
                  IF S1[i].objects[j].name \in names
                  THEN [S1[i].objects[j] EXCEPT !.name = to, !.selfname = to]
                  ELSE S1[i].objects[j]]]]
RenameObjectF(S, from, to) == Ok(RenameNames(S, from.pkg, SelNames(S, from), to))
RenameObjectDefined(S, from, to) ==
  Cardinality(SelNames(S, from)) <= 1 /\ (SelNames(S, from) # {} => ~HasObject(S, from.pkg, to))

(* ------------------------------- omit ---------------------------------- *)
OmitF(S, refs) == Ok(FilterObjects(S, LAMBDA sc, o : ~AnyObjMatches(refs, sc, o)))

(* ----------------------------- omit_fields ----------------------------- *)
OmitFieldsF(S, refs) ==
  Ok(MapObjects(S, LAMBDA sc, o :
       IF o.type.k # "struct" THEN o
       ELSE [o EXCEPT !.type.fields = SelectSeq(o.type.fields, LAMBDA f : ~AnyFieldMatches(refs, sc, o, f))]))

(* ------------------------------ add_fields ----------------------------- *)
RECURSIVE AppendNew(_, _)
AppendNew(fields, new) ==
  IF new = <<>> THEN fields
  ELSE IF \E i \in DOMAIN fields : fields[i].name = Head(new).name
       THEN AppendNew(fields, Tail(new))
       ELSE AppendNew(Append(fields, Head(new)), Tail(new))
AddFieldsF(S, to, fields) ==
  IF \E i \in DOMAIN S : \E j \in DOMAIN S[i].objects :
        ObjMatches(to, S[i], S[i].objects[j]) /\ S[i].objects[j].type.k # "struct"
  THEN Err(S)
  ELSE Ok(MapObjects(S, LAMBDA sc, o :
            IF ObjMatches(to, sc, o) THEN [o EXCEPT !.type.fields = AppendNew(@, fields)] ELSE o))
\* outcome defined only when no new field differs from an existing one merely in letter case
AddFieldsDefined(S, to, fields) ==
  \A i \in DOMAIN S : \A j \in DOMAIN S[i].objects :
    (ObjMatches(to, S[i], S[i].objects[j]) /\ S[i].objects[j].type.k = "struct") =>
       \A f \in DOMAIN fields : \A g \in DOMAIN S[i].objects[j].type.fields :
          SameFold(fields[f].name, S[i].objects[j].type.fields[g].name) =>
             fields[f].name = S[i].objects[j].type.fields[g].name

(* ------------------------------ add_object ----------------------------- *)
AddObjectF(S, o, t, comments) == Ok(AppendObject(S, o.pkg, ObjC(o.pkg, o.obj, t, comments)))
AddObjectDefined(S, o) == ~HasObject(S, o.pkg, o.obj)

(* --------------------------- duplicate_object -------------------------- *)
DuplicateObjectF(S, o, as, omit) ==
  IF ~HasObject(S, o.pkg, o.obj) THEN Ok(S)
  ELSE LET src == ObjectAt(S, o.pkg, o.obj)
           t   == IF src.type.k = "struct"
                  THEN [src.type EXCEPT !.fields = SelectSeq(@, LAMBDA f : ~\E k \in DOMAIN omit : SameFold(f.name, omit[k]))]
                  ELSE src.type
       IN Ok(AppendObject(S, as.pkg, [src EXCEPT !.name = as.obj, !.selfpkg = as.pkg, !.selfname = as.obj, !.type = t]))
\* the source is named exactly (the pass documents "if the source object isn't found,
\* this pass does nothing"); a source that differs only in case is left undefined
DuplicateObjectDefined(S, o, as) ==
  /\ ~HasObject(S, as.pkg, as.obj)
  /\ (SelNames(S, o) \subseteq {o.obj})

(* --------------------------- retype_object/field ----------------------- *)
\* c = [given |-> BOOLEAN, c |-> Seq(STRING)]: comments are replaced iff given
RetypeObjectF(S, o, t, c) ==
  Ok(MapObjects(S, LAMBDA sc, ob :
       IF ObjMatches(o, sc, ob)
       THEN [ob EXCEPT !.type = t, !.comments = IF c.given THEN c.c ELSE @] ELSE ob))
RetypeFieldF(S, f, t, c) ==
  Ok(MapObjects(S, LAMBDA sc, ob :
       MapStructFields(ob, LAMBDA fl :
          IF FieldMatches(f, sc, ob, fl)
          THEN [fl EXCEPT !.type = t, !.comments = IF c.given THEN c.c ELSE @] ELSE fl)))
RetypeFieldDefined(S, f) ==     \* several fields of one object matching is left undefined
  \A i \in DOMAIN S : \A j \in DOMAIN S[i].objects :
     LET ob == S[i].objects[j] IN
       ob.type.k = "struct" =>
         Cardinality({k \in DOMAIN ob.type.fields : FieldMatches(f, S[i], ob, ob.type.fields[k])}) <= 1

(* ------------------ fields_set_required / not_required ----------------- *)
FieldsSetRequiredF(S, refs) ==
  Ok(MapObjects(S, LAMBDA sc, ob : MapStructFields(ob, LAMBDA fl :
       IF AnyFieldMatches(refs, sc, ob, fl)
       THEN [fl EXCEPT !.required = TRUE, !.type.nullable = FALSE] ELSE fl)))
FieldsSetNotRequiredF(S, refs) ==
  Ok(MapObjects(S, LAMBDA sc, ob : MapStructFields(ob, LAMBDA fl :
       IF AnyFieldMatches(refs, sc, ob, fl)
       THEN [fl EXCEPT !.required = FALSE, !.type.nullable = TRUE] ELSE fl)))

(* --------------------------- fields_set_default ------------------------ *)
\* one (field reference -> value) entry; several entries hitting one field is C03's business
FieldsSetDefaultF(S, f, v) ==
  Ok(MapObjects(S, LAMBDA sc, ob : MapStructFields(ob, LAMBDA fl :
       IF FieldMatches(f, sc, ob, fl) THEN [fl EXCEPT !.type.def = v] ELSE fl)))

(* --------------------------- replace_reference ------------------------- *)
\* every reference (kind ref) to `from` now names `to`; what the reference carried
\* (nullable, default, hints) is not a target and stays
ReplaceNode(from, to, t) ==
  CASE t.k = "ref" /\ t.pkg = from.pkg /\ SameFold(t.name, from.obj) -> [t EXCEPT !.pkg = to.pkg, !.name = to.obj]
    \* a union whose branch was replaced: mapping targets that named the old branch follow it
    \* (children are rewritten first, so the replaced branch already reads `to`)
    [] t.k = "disj" /\ (\E b \in DOMAIN t.branches : t.branches[b].k = "ref" /\ t.branches[b].pkg = to.pkg /\ t.branches[b].name = to.obj) ->
         [t EXCEPT !.mapping = [i \in DOMAIN t.mapping |->
            IF SameFold(t.mapping[i].to, from.obj) /\ t.mapping[i].to # to.obj
               /\ ~(\E b \in DOMAIN t.branches : t.branches[b].k = "ref" /\ t.branches[b].name = t.mapping[i].to)
            THEN [t.mapping[i] EXCEPT !.to = to.obj] ELSE t.mapping[i]]]
    [] OTHER -> t
ReplaceReferenceF(S, from, to) == Ok(MapTypes(S, LAMBDA home, n : ReplaceNode(from, to, n)))
ReplaceReferenceDefined(S, from, to) == HasObject(S, to.pkg, to.obj)

(* ---------------------------- constant_to_enum ------------------------- *)
ConstantToEnumF(S, refs) ==
  Ok(MapObjects(S, LAMBDA sc, ob :
       IF AnyObjMatches(refs, sc, ob) /\ ob.type.k = "scalar" /\ ob.type.sk = "string" /\ ob.type.val.t = "string"
       THEN [ob EXCEPT !.type = TEnum(<<Member(ob.type.val.s, ob.type.val, "string")>>)]
       ELSE ob))

(* ---------------------------- trim_enum_values ------------------------- *)
CONSTANT TrimTable   \* function: string -> the string without surrounding blanks (identity outside it)
Trim(s) == IF s \in DOMAIN TrimTable THEN TrimTable[s] ELSE s
TrimNode(t) ==
  IF t.k = "enum"
  THEN [t EXCEPT !.members = [i \in DOMAIN t.members |->
          IF t.members[i].val.t = "string"
          THEN [t.members[i] EXCEPT !.val = VStr(Trim(t.members[i].val.s))] ELSE t.members[i]]]
  ELSE t
TrimEnumValuesF(S) == Ok(MapTypes(S, LAMBDA home, n : TrimNode(n)))

(* ------------------------------ hint_object ---------------------------- *)
\* hints: sequence of [key, val]; an existing key is overwritten, hints stay sorted by key
CONSTANT HintRank    \* function: hint key -> rank (keys are kept sorted as the projection sorts them)
RECURSIVE InsertHint(_, _)
InsertHint(hs, h) ==
  IF hs = <<>> THEN <<h>>
  ELSE IF Head(hs).key = h.key THEN <<h>> \o Tail(hs)
  ELSE IF HintRank[h.key] < HintRank[Head(hs).key] THEN <<h>> \o hs
  ELSE <<Head(hs)>> \o InsertHint(Tail(hs), h)
RECURSIVE InsertHints(_, _)
InsertHints(hs, new) == IF new = <<>> THEN hs ELSE InsertHints(InsertHint(hs, Head(new)), Tail(new))
HintObjectF(S, o, hints) ==
  Ok(MapObjects(S, LAMBDA sc, ob :
       IF ObjMatches(o, sc, ob) /\ IsType(ob.type) THEN [ob EXCEPT !.type.hints = InsertHints(@, hints)] ELSE ob))

(* --------------------- schema_set_identifier/entry_point --------------- *)
SchemaSetIdentifierF(S, p, id) ==
  Ok([i \in DOMAIN S |-> IF S[i].pkg = p THEN [S[i] EXCEPT !.meta.id = id] ELSE S[i]])
SchemaSetEntryPointF(S, p, e) ==
  Ok([i \in DOMAIN S |-> IF S[i].pkg = p THEN [S[i] EXCEPT !.entry = e, !.entrytype = TRef(p, e)] ELSE S[i]])

(* -------------------------- prefix_objects_names ----------------------- *)
\* every object n becomes prefix.n; every reference to a LOADED object follows
\* (refs, constant refs, mapping targets, entry point).  Enum member names are
\* not part of the comparison (see ProjNoMemberNames).
PrefixNode(S0, pre, home, t) ==
  CASE t.k \in {"ref", "constref"} /\ HasObject(S0, t.pkg, t.name) -> [t EXCEPT !.name = pre \o @]
    [] t.k = "disj" ->
         [t EXCEPT !.mapping = [i \in DOMAIN t.mapping |->
            IF \E p \in DisjPkgs(home, t) : HasObject(S0, p, t.mapping[i].to)
            THEN [t.mapping[i] EXCEPT !.to = pre \o @] ELSE t.mapping[i]]]
    [] OTHER -> t
PrefixObjectNamesF(S, pre) ==
  IF pre = "" THEN Ok(S) ELSE
  LET S1 == MapTypes(S, LAMBDA home, n : PrefixNode(S, pre, home, n))
  IN Ok([i \in DOMAIN S1 |->
           [S1[i] EXCEPT !.entry = IF @ # "" /\ HasObject(S, S[i].pkg, @) THEN pre \o @ ELSE @,
                         !.objects = [j \in DOMAIN S1[i].objects |->
                            [S1[i].objects[j] EXCEPT !.name = pre \o @, !.selfname = pre \o @]]]])
\* defined when every reference names a loaded object or a package that is not loaded
\* (what happens to references that already dangle is not specified)
PrefixDefined(S) == AllRefsResolve(S)

(* ------------------------- append_comment_objects ---------------------- *)
AppendCommentObjectsF(S, c) == Ok(MapObjects(S, LAMBDA sc, ob : [ob EXCEPT !.comments = Append(@, c)]))

(* -------------------------------- unspec ------------------------------- *)
\* objects named "metadata" disappear; a struct named "spec" takes the schema
\* identifier, or else the package name, and references to it follow
UnspecNewName(sc) == IF sc.meta.id # "" THEN sc.meta.id ELSE sc.pkg
RECURSIVE UnspecRename(_, _)
UnspecRename(S, todo) ==      \* todo: set of <<pkg, old name, new name>>
  IF todo = {} THEN S
  ELSE LET x == CHOOSE y \in todo : TRUE
       IN UnspecRename(RenameNames(S, x[1], {x[2]}, x[3]), todo \ {x})
UnspecTargets(S) ==
  UNION {{<<S[i].pkg, S[i].objects[j].name, UnspecNewName(S[i])>> :
            j \in {b \in DOMAIN S[i].objects : SameFold(S[i].objects[b].name, "spec")
                                                /\ S[i].objects[b].type.k = "struct"}} : i \in DOMAIN S}
UnspecF(S) ==
  LET S1 == FilterObjects(S, LAMBDA sc, o : ~SameFold(o.name, "metadata"))
  IN Ok(UnspecRename(S1, UnspecTargets(S1)))
UnspecDefined(S) ==
  LET S1 == FilterObjects(S, LAMBDA sc, o : ~SameFold(o.name, "metadata"))
  IN /\ \A x \in UnspecTargets(S1) : ~HasObject(S1, x[1], x[3])
     /\ \A x, y \in UnspecTargets(S1) : x[1] = y[1] => x = y

(* ---------------------- allowed_objects (input filter) ----------------- *)
AllNames(S) == UNION {NamesOf(S, p) : p \in Pkgs(S)}
\* keeps exactly the listed objects plus everything they reference, directly or not.
\* `allowed_objects` lists object NAMES of the input's package (not selectors): exact spelling.
FilterSchemasF(S, allowed) ==
  LET keep == Reach(S, {<<allowed[i].pkg, allowed[i].obj>> : i \in DOMAIN allowed})
      S1 == FilterObjects(S, LAMBDA sc, o : <<sc.pkg, o.name>> \in keep)
  \* an entry point names an object that exists (C05): it goes with its object
  IN Ok([i \in DOMAIN S1 |-> IF S1[i].entry # "" /\ <<S1[i].pkg, S1[i].entry>> \notin keep
                              THEN [S1[i] EXCEPT !.entry = "", !.entrytype = TNone] ELSE S1[i]])

(* ------------------------------ dispatcher ----------------------------- *)
Apply(S, a) ==
  CASE a.a = "rename_object"          -> RenameObjectF(S, a.from, a.to)
    [] a.a = "omit"                   -> OmitF(S, a.objects)
    [] a.a = "omit_fields"            -> OmitFieldsF(S, a.fields)
    [] a.a = "add_fields"             -> AddFieldsF(S, a.to, a.fields)
    [] a.a = "add_object"             -> AddObjectF(S, a.object, a.as, a.comments)
    [] a.a = "duplicate_object"       -> DuplicateObjectF(S, a.object, a.as, a.omit)
    [] a.a = "retype_object"          -> RetypeObjectF(S, a.object, a.as, a.comments)
    [] a.a = "retype_field"           -> RetypeFieldF(S, a.field, a.as, a.comments)
    [] a.a = "fields_set_required"    -> FieldsSetRequiredF(S, a.fields)
    [] a.a = "fields_set_not_required" -> FieldsSetNotRequiredF(S, a.fields)
    [] a.a = "fields_set_default"     -> FieldsSetDefaultF(S, a.field, a.value)
    [] a.a = "replace_reference"      -> ReplaceReferenceF(S, a.from, a.to)
    [] a.a = "constant_to_enum"       -> ConstantToEnumF(S, a.objects)
    [] a.a = "trim_enum_values"       -> TrimEnumValuesF(S)
    [] a.a = "hint_object"            -> HintObjectF(S, a.object, a.hints)
    [] a.a = "schema_set_identifier"  -> SchemaSetIdentifierF(S, a.pkg, a.id)
    [] a.a = "schema_set_entry_point" -> SchemaSetEntryPointF(S, a.pkg, a.entry)
    [] a.a = "prefix_objects_names"   -> PrefixObjectNamesF(S, a.prefix)
    [] a.a = "append_comment_objects" -> AppendCommentObjectsF(S, a.comment)
    [] a.a = "unspec"                 -> UnspecF(S)
    [] a.a = "allowed_objects"        -> FilterSchemasF(S, a.objects)

Defined(S, a) ==
  CASE a.a = "rename_object"        -> RenameObjectDefined(S, a.from, a.to)
    [] a.a = "add_fields"           -> AddFieldsDefined(S, a.to, a.fields)
    [] a.a = "add_object"           -> AddObjectDefined(S, a.object)
    [] a.a = "duplicate_object"     -> DuplicateObjectDefined(S, a.object, a.as)
    [] a.a = "retype_field"         -> RetypeFieldDefined(S, a.field)
    [] a.a = "replace_reference"    -> ReplaceReferenceDefined(S, a.from, a.to)
    [] a.a = "prefix_objects_names" -> PrefixDefined(S)
    [] a.a = "unspec"               -> UnspecDefined(S)
    [] OTHER -> TRUE

NameChanging(a) == a.a \in {"rename_object", "prefix_objects_names", "duplicate_object", "unspec", "replace_reference"}

\* enum member names are outside the comparison for prefix_objects_names
BlankMemberNames(t) ==
  IF t.k = "enum" THEN [t EXCEPT !.members = [i \in DOMAIN t.members |-> [t.members[i] EXCEPT !.name = ""]]] ELSE t
ProjNoMemberNames(S) == MapTypes(S, LAMBDA home, n : BlankMemberNames(n))
\* whether discriminator-mapping targets count as "usages" of a replaced reference is not
\* documented: for replace_reference they are outside the C15 comparison (C05 still judges
\* whether they resolve)
BlankMappingTargets(t) ==
  IF t.k = "disj" THEN [t EXCEPT !.mapping = [i \in DOMAIN t.mapping |-> [t.mapping[i] EXCEPT !.to = ""]]] ELSE t
ProjNoMappingTargets(S) == MapTypes(S, LAMBDA home, n : BlankMappingTargets(n))
===============================================================================
