CONSTANTS
  MaxLen = 2
  Slice = 0
  NSlices = 1
  FoldTable <- CFoldTable
  SingularTable <- CSingular
  LCamelTable <- CLCamel
  UCamelTable <- CUCamel
SPECIFICATION Spec
INVARIANTS MappedOnce Emit
CHECK_DEADLOCK FALSE
