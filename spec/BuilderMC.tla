------------------------------ MODULE BuilderMC ------------------------------
(* Bounded universe for BuilderMachine.tla (C09, C14).                             *)
(*                                                                                  *)
(* A small catalogue of schemas with builder transformations (the veneers whose    *)
(* effect on an option is part of C09's mechanisms: struct fields as options /     *)
(* as arguments = multi-segment paths behind a nullable prefix, array append, map   *)
(* index, options promoted to constructor arguments).                               *)
(*                                                                                  *)
(* Mode = "index" : one state per entry; prints INDEX {id, name, schema, rules,     *)
(*                  builders (the options the requirement derives), defaults}.      *)
(* Mode = "cases" : the builder machine itself. State = (entry, language, the call  *)
(*                  sequence so far, internal object, errs, raised). Every state is *)
(*                  one CASE {id, lang, seq, obj, errs, raised, bad, fails, consts} *)
(*                  expectation the real generated builders are compared with.      *)
(*                  Sequences of <= MaxLen option calls; arguments: every           *)
(*                  expressible value of ArgVals for single calls, a 3-value / a    *)
(*                  2-value alphabet (valid, violating, other valid) for sequences  *)
(*                  of 2 / 3 calls.                                                 *)
(* Mode = "values": C14. One state per (entry, builder type, value): prints VALUE   *)
(*                  {id, key, v, differs, needed} (against the spec's defaults).    *)
(* Mode = "pairs" : C14, thorough tier: root values that differ from the base       *)
(*                  document at TWO members.                                         *)
EXTENDS BuilderMachine, Json

CONSTANTS Mode, Ids, Fuel, MaxLen, Langs,
          Win, From      \* sequences of 2 / 3 calls use a window of Win options starting after option From (Win = 0: all options)

VARIABLES si, lang, seq, obj, errs, raised, bad, vk, vv
vars == <<si, lang, seq, obj, errs, raised, bad, vk, vv>>

(* ------------------------------- catalogue ------------------------------------- *)
I64   == TInt("int64", NoB, NoB)
Str   == TStr(-1, -1)
Rule(k, o, f, fs) == [k |-> k, obj |-> o, field |-> f, fields |-> fs]
Entry(n, defs, rules) == [name |-> n, schema |-> [defs |-> defs, root |-> "Root"], rules |-> rules]

Child == Def("Child", TStruct(<<F("cid", TInt("int64", Ge(1), NoB)), FOpt("tag", TConst(JStr("c"))), FOpt("cnote", TStr(-1, 2))>>))
Kid   == Def("Kid", TStruct(<<F("kid", TInt("int64", Ge(0), Le(2))), FOpt("kname", TStr(1, -1)), F("kk", TConst(JStr("k")))>>))
Leaf  == Def("Leaf", TStruct(<<F("n", TInt("int64", Ge(0), Le(2))), FOpt("f", TNum("float64", NoB, Lt(2)))>>))
RootValid == Def("Root", TStruct(<<
    F("id", TInt("int64", Ge(0), Le(2))), F("ids", TArr(TInt("int64", Ge(0), NoB))), F("name", TStr(-1, 2)),
    F("kids", TArr(TRef("Kid"))), FOpt("mk", TMap(TRef("Kid"))), FOpt("ok", TRef("Kid")), F("k", TRef("Kid")),
    F("req", TRef("Leaf")), FOpt("oa", TArr(Str)), FOpt("om", TMap(I64)), F("labels", TMap(TStr(1, -1))),
    F("tags", TArr(TStr(1, -1)))>>))

Catalogue == <<
  \* defaults that violate constraints (name, child.cid): Build() of the fresh builder fails
  Entry("basic", <<
    Def("Root", TStruct(<<
      F("id", TInt("int64", Ge(0), Le(2))), F("idx", I64), F("name", TStr(1, 2)), F("kind", TConst(JStr("x"))),
      FOpt("ratio", TNum("float64", Gt(0), NoB)), F("tags", TArr(TStr(1, -1))), F("labels", TMap(TStr(1, -1))),
      F("child", TRef("Child")), FOpt("oc", TRef("Child")), FOpt("note", Str), F("flag", TBool),
      FOpt("ob", TBool), FOpt("oi", I64), FOpt("nOte", TStr(-1, 2))>>)),     \* note / nOte: names that differ only in letter case
    Child>>, <<>>),
  \* every default satisfies the schema: a swallowed error cannot hide behind another one
  Entry("valid-defaults", <<RootValid, Kid, Leaf>>, <<>>),
  \* struct fields as options: two-segment paths behind a nullable (ok) and a non-nullable (req) prefix
  Entry("unfold", <<RootValid, Kid, Leaf>>,
        <<Rule("unfold", "Root", "ok", <<"kid", "kname">>), Rule("unfold", "Root", "req", <<"n", "f">>)>>),
  \* append / index assignments (plain and builder-typed elements, optional map)
  Entry("append-index", <<RootValid, Kid, Leaf>>,
        <<Rule("append", "Root", "tags", <<>>), Rule("append", "Root", "kids", <<>>), Rule("append", "Root", "oa", <<>>),
          Rule("index", "Root", "labels", <<>>), Rule("index", "Root", "mk", <<>>)>>),
  \* options promoted to constructor arguments (of the root and of a nested builder)
  Entry("ctor", <<RootValid, Kid, Leaf>>,
        <<Rule("ctor", "Root", "", <<"id", "name">>), Rule("ctor", "Kid", "", <<"kid">>)>>),
  \* struct fields as arguments: one option, several assignments behind one (nullable / non-nullable) prefix
  Entry("args", <<
    Def("Root", TStruct(<<
      F("id", TInt("int64", Ge(0), Le(2))), F("name", TStr(-1, 2)), FOpt("ok", TRef("Kid")), F("k", TRef("Kid")), F("req", TRef("Leaf")),
      F("mix", TRef("Mix")), FOpt("omix", TRef("Mix2"))>>)),
    \* constrained scalars directly followed by collections / a reference, in declaration order AND in alphabetical order
    Def("Mix", TStruct(<<F("a", TStr(1, 2)), F("at", TArr(Str)), F("b", TInt("int64", Ge(1), Le(2))), F("bm", TMap(Str)),
                         F("c", TNum("float64", NoB, Lt(2))), F("cl", TRef("Leaf"))>>)),
    Def("Mix2", TStruct(<<F("tags", TArr(TStr(1, -1))), F("u", TStr(2, -1)), F("v", TArr(I64))>>)),
    Kid, Leaf>>,
        <<Rule("args", "Root", "ok", <<"kid", "kname">>), Rule("args", "Root", "req", <<"n", "f">>),
          Rule("args", "Root", "mix", <<"a", "at", "b", "bm", "c", "cl">>), Rule("args", "Root", "omix", <<"tags", "u", "v">>)>>),
  \* options obtained by COPYING veneers: option duplicate, rename_arguments, builder duplicate (every constrained option
  \* of the copies is called with violating arguments; the copied builder is used wherever the object is nested)
  Entry("copied-options", <<RootValid, Kid, Leaf>>,
        <<Rule("dup", "Root", "id", <<"id2">>), Rule("dup", "Root", "id", <<"id3">>), Rule("dup", "Root", "tags", <<"tags2">>), Rule("renarg", "Root", "name", <<"label">>),
          Rule("renarg", "Leaf", "n", <<"count">>), Rule("dup", "Leaf", "f", <<"f2">>), Rule("bdup", "Kid", "KidCopy", <<>>)>>),
  \* collections of collections with item constraints: array of arrays, map of arrays, array of maps
  Entry("nested-collections", <<
    Def("Root", TStruct(<<
      F("matrix", TArr(TArr(TStr(1, -1)))), FOpt("ma", TMap(TArr(TInt("int64", Ge(0), NoB)))), FOpt("am", TArr(TMap(TStr(1, -1)))),
      FOpt("mm", TMap(TMap(TInt("int64", NoB, Le(2))))), F("cells", TArr(TArr(TRef("Leaf")))), F("w", Str),
      FOpt("cube", TArr(TArr(TArr(TStr(1, -1)))))>>)),
    Leaf>>, <<>>),
  \* options that share a constant side assignment (veneer add_assignment): graphMode, graphWidth and legend all force ctype = "ab"; the plain option of ctype comes first in every input format
  Entry("side-assignments", <<
    Def("Root", TStruct(<<F("ctype", Str), F("title", Str), FOpt("graphMode", Str), F("graphWidth", I64), FOpt("legend", TBool)>>))>>,
    <<Rule("side", "Root", "graphMode", <<"ab", "ctype">>), Rule("side", "Root", "graphWidth", <<"ab", "ctype">>),
      Rule("side", "Root", "legend", <<"ab", "ctype">>)>>),
  \* veneer paths of two / three segments through OPTIONAL struct references (merge_into under_path, initialize)
  Entry("veneer-paths", <<
    Def("Root", TStruct(<<F("title", Str), FOpt("inner", TRef("Inner")), FOpt("other", TRef("Inner"))>>)),
    Def("Inner", TStruct(<<FOpt("deep", TRef("Deep")), F("iw", Str)>>)),
    Def("Deep", TStruct(<<F("label", Str), F("mark", Str)>>))>>,
    <<Rule("merge", "Root", "Deep", <<"inner", "deep">>), Rule("init", "Root", "", <<"ab", "other", "deep", "mark">>)>>),
  \* `initialize` to false / 0 / "" on members whose declared default is NOT the zero value
  Entry("init-falsy", <<
    Def("Root", TStruct(<<FDef("editable", TBool, JBool(TRUE)), FDef("refresh", I64, JInt(1)), FDef("theme", Str, JStr("ab")),
                          FDef("keep", TBool, JBool(TRUE)), F("w", Str)>>))>>,
    <<Rule("init", "Root", "", <<"false", "editable">>), Rule("init", "Root", "", <<"0", "refresh">>), Rule("init", "Root", "", <<"", "theme">>)>>),
  \* references to NAMED constants: required (the builder fixes it), optional and nullable (an option that may be left alone)
  Entry("const-refs", <<
    Def("Root", TStruct(<<F("kind", TRef("Kind")), FOpt("altKind", TRef("Kind")), FOpt("version", TRef("Version")), F("title", Str),
                          FOpt("sub", TRef("CSub"))>>)),
    Def("CSub", TStruct(<<F("kind", TRef("Kind")), FOpt("alt", TRef("Kind")), F("n", I64)>>)),
    Def("Kind", TConst(JStr("outer"))), Def("Version", TConst(JInt(2)))>>, <<>>),
  \* nullable items inside collections
  Entry("nullable-items", <<
    Def("Root", TStruct(<<FOpt("nl", TArr(TNullable(TStr(1, -1)))), F("rl", TArr(TNullable(TInt("int64", Ge(0), NoB)))), F("w", Str)>>))>>, <<>>),
  \* references through two and three aliases before the struct / the constrained scalar, aliases declared before their targets
  Entry("aliases", <<
    Def("Root", TStruct(<<FOpt("ka", TRef("KidA")), F("kb", TRef("KidB")), F("kas", TArr(TRef("KidA"))), F("p", TRef("Port")),
                          FOpt("pb", TRef("PortB")), F("w", Str), F("lb", TRef("Labels")), FOpt("nm", TRef("Names"))>>)),
    \* NAMED collections with item constraints (the companion packages define the same names without constraints)
    Def("Labels", TMap(TStr(1, -1))), Def("Names", TArr(TInt("int64", Ge(0), NoB))),
    Def("KidB", TRef("KidA")), Def("KidA", TRef("Kid")), Kid,
    Def("PortB", TRef("PortA")), Def("PortA", TRef("Port")), Def("Port", TInt("int64", Ge(0), Le(2)))>>, <<>>),
  \* OPTIONAL scalars (and an optional reference) promoted to constructor arguments
  Entry("ctor-optional", <<
    Def("Root", TStruct(<<F("uid", TStr(1, -1)), FOpt("nick", Str), FOpt("age", TInt("int64", Ge(0), NoB)), FOpt("ok", TRef("Kid")),
                          FOpt("ratio", TNum("float64", NoB, NoB)), F("w", Str), FOpt("sub", TRef("Sub"))>>)),
    Def("Sub", TStruct(<<FOpt("sname", Str), F("sn", I64)>>)),
    Kid>>,
    <<Rule("ctor", "Root", "", <<"uid", "nick", "age">>), Rule("ctor", "Sub", "", <<"sname">>)>>),
  \* two builders of one package with same-named options behind the same nullable prefix
  Entry("two-builders", <<
    Def("Root", TStruct(<<F("gauge", TRef("Gauge")), FOpt("stat", TRef("Stat")), F("w", Str)>>)),
    Def("Gauge", TStruct(<<FOpt("options", TRef("Opts")), F("g", I64)>>)),
    Def("Stat", TStruct(<<FOpt("options", TRef("Opts")), F("s", Str)>>)),
    Def("Opts", TStruct(<<F("unit", Str), F("decimals", TInt("int64", Ge(0), NoB))>>))>>,
    <<Rule("unfold", "Gauge", "options", <<"unit", "decimals">>), Rule("unfold", "Stat", "options", <<"unit", "decimals">>)>>),
  \* three chained struct-fields-as-options rules: four-segment paths, every prefix nullable, same-typed sibling leaves
  Entry("deep-unfold", <<
    Def("Root", TStruct(<<FOpt("fieldConfig", TRef("FC")), F("w", Str)>>)),
    Def("FC", TStruct(<<FOpt("defaults", TRef("Defs")), F("fcn", I64)>>)),
    Def("Defs", TStruct(<<FOpt("custom", TRef("Custom")), F("dn", I64)>>)),
    Def("Custom", TStruct(<<FOpt("k", TInt("int64", Ge(0), Le(2))), F("x1", I64), F("x2", I64)>>))>>,
    <<Rule("unfold", "Root", "fieldConfig", <<"defaults", "fcn">>), Rule("unfold", "Root", "defaults", <<"custom", "dn">>),
      Rule("unfold", "Root", "custom", <<"k", "x1", "x2">>)>>),
  \* C14 only: several builders for one object (duplicate + initialize), sharing their first constructor constant
  Entry("flavours", <<
    Def("Root", TStruct(<<F("series", TRef("Series")), FOpt("os", TRef("Series")), F("list", TArr(TRef("Series"))), F("w", Str)>>)),
    Def("Series", TStruct(<<F("type", TConst(JStr("graph"))), F("mode", TEnum(<<"lines", "bars">>)), F("n", I64)>>))>>,
    <<Rule("flavour", "Series", "LineSeries", <<"mode", "lines">>), Rule("flavour", "Series", "BarSeries", <<"mode", "bars">>)>>),
  \* C14 only: two builders whose list of unions is filled by one appending option per branch (the second one renamed);
  \* the type names make the two builders the last ones of the package
  Entry("disjunction-lists", <<
    Def("Cell", TStruct(<<F("kind", TConst(JStr("cell"))), F("x", I64)>>)),
    Def("Chart", TStruct(<<F("kind", TConst(JStr("chart"))), F("y", Str)>>)),
    Def("Dash", TStruct(<<F("title", Str), F("items", TArr(TDUnion("kind", <<"Cell", "Chart">>)))>>)),
    Def("Root", TStruct(<<F("items", TArr(TDUnion("kind", <<"Cell", "Chart">>))), FOpt("dash", TRef("Dash")), F("w", Str)>>))>>,
    <<Rule("disj", "Dash", "items", <<"Cell", "Chart">>), Rule("disj", "Root", "items", <<"addCell", "addChart">>)>>),
  \* unions: of scalars, discriminated unions of structs, arrays of them
  Entry("union", <<
    Def("Root", TStruct(<<
      F("u", TUnion(<<Str, I64>>)), FOpt("ou", TUnion(<<Str, TBool>>)), F("du", TDUnion("kind", <<"A", "B">>)),
      FOpt("odu", TDUnion("kind", <<"A", "B">>)), F("items", TArr(TDUnion("kind", <<"A", "B">>))), F("w", Str)>>)),
    Def("A", TStruct(<<F("kind", TConst(JStr("a"))), F("x", TInt("int64", Ge(0), NoB))>>)),
    Def("B", TStruct(<<F("kind", TConst(JStr("b"))), F("y", Str)>>))>>, <<>>),
  \* builders nested twice: a failure two levels down
  Entry("nested", <<
    Def("Root", TStruct(<<F("mid", TRef("Mid")), FOpt("omid", TRef("Mid")), F("w", Str)>>)),
    Def("Mid", TStruct(<<F("n", I64), FOpt("leaf", TRef("Leaf")), F("leaves", TArr(TRef("Leaf"))), FOpt("lm", TMap(TRef("Leaf")))>>)),
    Leaf>>, <<>>),
  \* inline structs, enums, date-time, any, arrays of arrays
  Entry("misc", <<
    Def("Root", TStruct(<<
      F("inl", TStruct(<<F("z", TInt("int64", Ge(1), NoB)), FOpt("zc", TConst(JStr("k")))>>)),
      FOpt("oinl", TStruct(<<F("w", TStr(1, -1))>>)),
      FOpt("e", TEnum(<<"a", "b">>)), F("re", TEnum(<<"a", "b">>)), FOpt("ie", TIEnum(<<1, 2>>)),
      FOpt("when", TTime), F("an", TAny), FOpt("aa", TArr(TArr(Str))), F("f32", TNum("float32", NoB, Le(2))),
      F("u8", TInt("uint8", NoB, NoB)), FOptNull("on", Str), FNull("nn", TStr(-1, 2))>>))>>, <<>>),
  \* declared defaults
  Entry("defaults", <<
    Def("Root", TStruct(<<
      FDef("s", TStr(1, -1), JStr("ab")), FDef("b", TBool, JBool(TRUE)), FDef("i", TInt("int64", Ge(0), NoB), JInt(1)),
      FDef("n", TNum("float64", NoB, NoB), JNum(15)), F("plain", Str), FOpt("od", TRef("WithDef")),
      FDef("z", I64, JInt(0)), FDef("fb", TBool, JBool(FALSE)), FDef("es", Str, JStr(""))>>)),      \* defaults equal to the zero values
    Def("WithDef", TStruct(<<FDef("ds", Str, JStr("x")), F("dn", I64)>>))>>, <<>>)
>>

\* entries whose builders C09's machine does not drive (several builders per object / per-branch options): C14 only
C14Only == {"flavours"}

(* ------------------------- defaults the requirement gives ---------------------- *)
RECURSIVE ZeroOf(_, _), DefaultDoc(_, _)
ZeroOf(S, t) ==
  CASE t.k \in {"int", "num"} -> JNum(0)
    [] t.k = "str"    -> JStr("")
    [] t.k = "bool"   -> JBool(FALSE)
    [] t.k = "arr"    -> JArr(<<>>)
    [] t.k = "map"    -> JObj(<<>>)
    [] t.k = "ref"    -> ZeroOf(S, S[t.name])
    [] t.k = "struct" -> DefaultDoc(S, t)
    [] t.k = "enum"   -> JStr(t.vals[1])
    [] t.k = "ienum"  -> JInt(t.vals[1])
    [] t.k = "const"  -> t.v
    [] t.k = "time"   -> JStr("0001-01-01T00:00:00Z")
    [] OTHER          -> JNull
DefaultDoc(S, t) ==
  LET inc == SelectSeq(t.fields, LAMBDA f : IsConstF(S, f) \/ f.t.k = "const" \/ f.def.j # "none" \/ f.req)
  IN JObj([i \in DOMAIN inc |->
             P(inc[i].n, IF IsConstF(S, inc[i]) THEN ConstVal(S, inc[i])
                         ELSE IF inc[i].def.j # "none" THEN inc[i].def
                         ELSE IF inc[i].null THEN JNull ELSE ZeroOf(S, inc[i].t))])

SpecD(schema) ==
  LET S == DefsFn(schema) kts == KeyTypes(schema) IN
  [k \in {x.key : x \in kts} |-> DefaultDoc(S, (CHOOSE x \in kts : x.key = k).t)]

(* ------------------------------ derived builders ------------------------------- *)
RECURSIVE Flat(_)
Flat(ss) == IF ss = <<>> THEN <<>> ELSE Head(ss) \o Flat(Tail(ss))
\* "one option per field that is not a constant, one assignment per option derived from the field path"
Derive(S, t) ==
  LET fs == SelectSeq(t.fields, LAMBDA f : ~IsConstF(S, f)) IN
  [i \in DOMAIN fs |-> Opt(fs[i].n, <<fs[i].t>>, <<Asg(<<fs[i].n>>, "direct", 1, 0)>>)]
ApplyRule(S, r, opts) ==
  Flat([i \in DOMAIN opts |->
    LET o == opts[i] IN
    IF r.k = "flavour" THEN (IF o.name = r.fields[1] THEN <<>> ELSE <<o>>)     \* the flavours hide the option they fix
    ELSE IF r.k \in {"renarg", "bdup"} THEN <<o>>       \* renamed arguments / a second builder for the object: same options
    ELSE IF r.k = "side" THEN (IF o.name = r.field THEN <<Opt(o.name, o.args, Append(o.asgs, AsgC(Tail(r.fields), JStr(r.fields[1]))))>> ELSE <<o>>)
    ELSE IF r.k \in {"init", "merge"} THEN <<o>>      \* a constructor constant at a (dotted) path: part of the fresh builder's object
    ELSE IF r.k = "dup" THEN (IF o.name = r.field THEN <<o, Opt(r.fields[1], o.args, o.asgs)>> ELSE <<o>>)   \* option duplicate
    ELSE IF r.k = "ctor" \/ o.name # r.field THEN <<o>>
    ELSE CASE r.k = "unfold" ->
                LET st == AsStruct(S, "", o.args[1]).t IN
                [j \in DOMAIN r.fields |-> Opt(r.fields[j], <<FieldOf(st, r.fields[j]).t>>,
                                               <<Asg(o.asgs[1].path \o <<r.fields[j]>>, "direct", 1, 0)>>)]
           [] r.k = "args" ->
                LET st == AsStruct(S, "", o.args[1]).t IN
                <<Opt(o.name, [j \in DOMAIN r.fields |-> FieldOf(st, r.fields[j]).t],
                      [j \in DOMAIN r.fields |-> Asg(o.asgs[1].path \o <<r.fields[j]>>, "direct", j, 0)])>>
           [] r.k = "disj" ->      \* array_to_append + disjunction_as_options (+ rename): one appending option per branch
                LET refs == ElemType(S, o.args[1]).refs IN
                [j \in DOMAIN refs |-> Opt(r.fields[j], <<TRef(refs[j])>>, <<Asg(o.asgs[1].path, "append", 1, 0)>>)]
           [] r.k = "flavour" -> <<o>>
           [] r.k = "append" -> <<Opt(o.name, <<ElemType(S, o.args[1])>>, <<Asg(<<r.field>>, "append", 1, 0)>>)>>
           [] r.k = "index"  -> <<Opt(o.name, <<Str, ElemType(S, o.args[1])>>, <<Asg(<<r.field>>, "index", 2, 1)>>)>>])
RECURSIVE ApplyRules(_, _, _, _)
ApplyRules(S, key, rules, opts) ==
  IF rules = <<>> THEN opts
  ELSE ApplyRules(S, key, Tail(rules), IF Head(rules).obj = key THEN ApplyRule(S, Head(rules), opts) ELSE opts)
Promoted(key, rules) == Flat([i \in DOMAIN rules |-> IF rules[i].k = "ctor" /\ rules[i].obj = key THEN rules[i].fields ELSE <<>>])
\* merge_into: the options of the source builder join the destination's, their paths below under_path
Merged(S, key, rules) ==
  Flat([i \in DOMAIN rules |->
          IF rules[i].k = "merge" /\ rules[i].obj = key
          THEN LET src == Derive(S, S[rules[i].field]) IN
               [j \in DOMAIN src |-> Opt(src[j].name, src[j].args,
                                          [a \in DOMAIN src[j].asgs |-> Asg(rules[i].fields \o src[j].asgs[a].path, src[j].asgs[a].m, src[j].asgs[a].src, src[j].asgs[a].key)])]
          ELSE <<>>])
BuilderOf(S, key, t, rules) ==
  LET all  == ApplyRules(S, key, rules, Derive(S, t) \o Merged(S, key, rules))
      prom == Promoted(key, rules)
      pos(n) == CHOOSE i \in DOMAIN all : all[i].name = n
  IN [key |-> key,
      \* valid arguments for "the freshly constructed builder" of a constructor that takes arguments
      ctor0 |-> [j \in DOMAIN prom |-> Base(S, all[pos(prom[j])].args[1], Fuel)],
      ctor |-> [args |-> [j \in DOMAIN prom |-> all[pos(prom[j])].args[1]],
                asgs |-> [j \in DOMAIN prom |-> Asg(all[pos(prom[j])].asgs[1].path, "direct", j, 0)]],
      opts |-> all]      \* a promoted option stays an option as well
Builders(e) ==
  LET S == DefsFn(e.schema) kts == KeyTypes(e.schema) IN
  [k \in {x.key : x \in kts} |-> BuilderOf(S, k, (CHOOSE x \in kts : x.key = k).t, e.rules)]

(* ------------------------------ call alphabets --------------------------------- *)
MapKeys == {JStr("k1"), JStr("k2")}
Small(S, t, n) ==
  LET all  == ArgVals(S, t, Fuel)
      b    == Base(S, t, Fuel)
      bads == {v \in all : ~Accepts(S, t, v)}
      alts == {v \in all : Accepts(S, t, v) /\ v # b}
  IN IF n = 1 THEN all
     ELSE {v \in {b} : v \in all}
          \cup (IF bads = {} THEN {} ELSE {CHOOSE v \in bads : TRUE})
          \cup (IF n = 2 /\ alts # {} THEN {CHOOSE v \in alts : TRUE} ELSE {})
\* argument tuples of one option / constructor; n = length of the sequence the call is part of
RECURSIVE Prod(_, _, _, _)
Prod(S, args, n, i) ==
  IF i > Len(args) THEN {<<>>}
  ELSE {<<v>> \o rest : v \in Small(S, args[i], n), rest \in Prod(S, args, n, i + 1)}
Tuples(S, o, n) ==
  IF Len(o.args) = 0 THEN {<<>>}
  ELSE IF Len(o.asgs) = 1 /\ o.asgs[1].m = "index"
  THEN {<<k, v>> : k \in (IF n = 1 THEN MapKeys ELSE {JStr("k1")}), v \in Small(S, o.args[2], n)}
  ELSE IF Len(o.args) >= 3 /\ \A i \in DOMAIN o.asgs : o.asgs[i].src > 0
  THEN \* many arguments (struct fields as arguments): the base tuple with ONE argument varied at a time
       LET base == [i \in DOMAIN o.args |-> Base(S, o.args[i], Fuel)] IN
       {base} \cup UNION {{[base EXCEPT ![i] = v] : v \in Small(S, o.args[i], n)} : i \in DOMAIN o.args}
  ELSE Prod(S, o.args, n, 1)
CallTab ==
  [i \in DOMAIN Catalogue |->
     LET S == DefsFn(Catalogue[i].schema) b == Builders(Catalogue[i])["Root"] IN
     [n \in 1..MaxLen |->
        [ctor |-> {[o |-> 0, as |-> as] : as \in Tuples(S, b.ctor, n)},
         opts |-> UNION {{[o |-> k, as |-> as] : as \in Tuples(S, b.opts[k], n)} :
                           k \in (IF n < 2 \/ Win = 0 THEN DOMAIN b.opts
                                  ELSE {((From + j) % Len(b.opts)) + 1 : j \in 0..(Win - 1)} \cap DOMAIN b.opts)}]]]
BTab == [i \in DOMAIN Catalogue |-> Builders(Catalogue[i])]
DTab == [i \in DOMAIN Catalogue |-> SpecD(Catalogue[i].schema)]
STab == [i \in DOMAIN Catalogue |-> DefsFn(Catalogue[i].schema)]
HasCtorArgs(i) == BTab[i]["Root"].ctor.args # <<>>

(* ------------------------------- the machine ----------------------------------- *)
Marker == NoJ
InitCases ==
  /\ si \in (Ids \cap DOMAIN Catalogue) /\ lang \in Langs
  /\ seq = <<>> /\ obj = DTab[si]["Root"] /\ errs = {} /\ raised = <<>> /\ bad = <<>>
  /\ vk = "" /\ vv = Marker
\* number of OPTION calls made so far (the constructor call, when it has arguments, comes first and is not counted)
NOpt(s) == IF s # <<>> /\ s[1].o = 0 THEN Len(s) - 1 ELSE Len(s)
InAlphabet(s, n) ==
  \A j \in DOMAIN s : s[j] \in (IF s[j].o = 0 THEN CallTab[si][n].ctor ELSE CallTab[si][n].opts)
Step(c) ==
  LET b == BTab[si]["Root"]
      r == Call(lang, STab[si], DTab[si], "Root", STab[si]["Root"], b.ctor, b.opts, St(obj, errs), c)
  IN /\ seq' = Append(seq, c)
     /\ obj' = r.st.obj /\ errs' = r.st.errs /\ raised' = Append(raised, r.raised) /\ bad' = Append(bad, r.bad)
NextCases ==
  /\ Mode = "cases"
  /\ IF seq = <<>> /\ HasCtorArgs(si)
     THEN \E c \in CallTab[si][1].ctor : Step(c)                      \* a constructor with arguments is called first
     ELSE LET m == NOpt(seq) + 1 IN
          /\ m <= MaxLen
          /\ InAlphabet(seq, m)
          /\ \E c \in CallTab[si][m].opts : Step(c)
  /\ UNCHANGED <<si, lang, vk, vv>>

\* C14: values of every builder type: the documents of Semantics!Docs the schema accepts, with all and with no
\* optional members, for the root and for each named struct on its own
ValuesOf(S, t) ==
  {x.d : x \in {y \in ({Var(Base(S, t, Fuel), "base", <<>>)} \cup Variants(S, t, Fuel)
                        \cup {Var(Base(S, t, 0), "base", <<>>)} \cup Variants(S, t, 0)) :
                  Accepts(S, t, y.d) /\ Expressible(S, t, y.d)}}
\* two-place values (Mode "pairs", thorough tier): two one-place variants at DIFFERENT members of the root struct
FieldIdx(t, n) == CHOOSE i \in DOMAIN t.fields : t.fields[i].n = n
MergeTop(t, b, x, y) ==
  LET src(n) == IF n = x.p[1] THEN x.d ELSE IF n = y.p[1] THEN y.d ELSE b
      inc == SelectSeq(t.fields, LAMBDA f : src(f.n).j = "obj" /\ Has(src(f.n).ps, f.n))
  IN JObj([i \in DOMAIN inc |-> P(inc[i].n, Get(src(inc[i].n).ps, inc[i].n))])
PairsFrom(S, t, fuel) ==
  LET b  == Base(S, t, fuel)
      vs == {x \in Variants(S, t, fuel) : x.p # <<>> /\ x.f \in {"alt", "base"} /\ x.d.j = "obj"}
  IN {d \in UNION {{MergeTop(t, b, x, y) : y \in {z \in vs : FieldIdx(t, z.p[1]) > FieldIdx(t, x.p[1])}} : x \in vs} :
        Accepts(S, t, d) /\ Expressible(S, t, d)}
\* from the document with all optional members and from the one with none
PairsOf(S, t) == PairsFrom(S, t, Fuel) \cup PairsFrom(S, t, 0)
\* what an `initialize` veneer makes the constructor set is part of every value the builder can produce
InitsHold(i, key, v) ==
  \A j \in DOMAIN Catalogue[i].rules :
    LET r == Catalogue[i].rules[j] IN
    (r.k = "init" /\ r.obj = key) =>
      SameObj(AtPath(v, Tail(r.fields)), ConstOfText(Unwrap(STab[i], TypeAt(STab[i], key, STab[i][key], Tail(r.fields)).t), r.fields[1]))
InitPairs ==
  /\ si \in (Ids \cap DOMAIN Catalogue) /\ lang = "go"
  /\ seq = <<>> /\ obj = Marker /\ errs = {} /\ raised = <<>> /\ bad = <<>>
  /\ vk = "Root"
  /\ vv \in {x \in PairsOf(STab[si], STab[si]["Root"]) : Coherent(STab[si], STab[si]["Root"], DTab[si], "Root", BTab[si]["Root"], x) /\ InitsHold(si, "Root", x)}
InitValues ==
  /\ si \in (Ids \cap DOMAIN Catalogue) /\ lang = "go"
  /\ seq = <<>> /\ obj = Marker /\ errs = {} /\ raised = <<>> /\ bad = <<>>
  /\ vk \in {d.name : d \in {x \in Range(Catalogue[si].schema.defs) : x.t.k = "struct"}}
  /\ vv \in {x \in ValuesOf(STab[si], STab[si][vk]) : Coherent(STab[si], STab[si][vk], DTab[si], vk, BTab[si][vk], x) /\ InitsHold(si, vk, x)}
InitIndex ==
  /\ si \in DOMAIN Catalogue /\ lang = "go" /\ seq = <<>> /\ obj = Marker /\ errs = {} /\ raised = <<>> /\ bad = <<>> /\ vk = "" /\ vv = Marker

Init == CASE Mode = "index" -> InitIndex [] Mode = "cases" -> InitCases [] Mode = "values" -> InitValues [] Mode = "pairs" -> InitPairs
Next == NextCases
Spec == Init /\ [][Next]_vars

SeqOfSet(s) == LET RECURSIVE go(_) go(x) == IF x = {} THEN <<>> ELSE LET e == CHOOSE y \in x : TRUE IN <<e>> \o go(x \ {e}) IN go(s)

Emit ==
  CASE Mode = "index" ->
         PrintT(<<"INDEX", ToJson([id |-> si, name |-> Catalogue[si].name, schema |-> Catalogue[si].schema,
                                   rules |-> Catalogue[si].rules, c09 |-> Catalogue[si].name \notin C14Only,
                                   builders |-> SeqOfSet({BTab[si][k] : k \in DOMAIN BTab[si]}),
                                   defaults |-> SeqOfSet({[key |-> k, obj |-> DTab[si][k]] : k \in DOMAIN DTab[si]})])>>)
    [] Mode = "cases" ->
         PrintT(<<"CASE", ToJson([id |-> si, lang |-> lang, seq |-> seq, obj |-> obj, errs |-> SeqOfSet(errs), raised |-> raised, bad |-> bad,
                                  fails |-> BuildFails(lang, STab[si], STab[si]["Root"], St(obj, errs)),
                                  consts |-> ConstsOK(STab[si], STab[si]["Root"], obj)])>>)
    [] Mode \in {"values", "pairs"} ->
         PrintT(<<"VALUE", ToJson([id |-> si, key |-> vk, v |-> vv,
                                   differs |-> SeqOfSet(Differs(STab[si][vk], DTab[si], vk, vv)),
                                   needed |-> SeqOfSet({BTab[si][vk].opts[i].name : i \in NeededOpts(STab[si], STab[si][vk], DTab[si], vk, BTab[si][vk], vv)})])>>)
===============================================================================
