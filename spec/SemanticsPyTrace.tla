------------------------------ MODULE SemanticsPyTrace ------------------------------
(* Trace validation for C10 and C11 (DESIGN 4.5, 6 "C10", "C11"). Every record is a REAL *)
(* observation on code the real cog pipeline generated: Go compiled by `go build` and    *)
(* run by the reflection driver, Python imported and run by harness/pydriver/driver.py.  *)
(*                                                                                        *)
(*  kind = "default": one object of one generated package. go / py = the JSON that       *)
(*     `New<Obj>()` (json.Marshal) and `<Obj>()` (generated JSONEncoder) encoded to;      *)
(*     judge.go / judge.py say whether that language's code was executable. TLC          *)
(*     recomputes DefaultDoc from the schema term and reports the constrained fields     *)
(*     that do not hold their default / constant, and those on which Go and Python differ.*)
(*  kind = "pyrt": one document the reference validator accepted. py = json of            *)
(*     `Root.from_json(doc)` through the generated encoder (pyOK = no exception),         *)
(*     go = json.Marshal of the value json.Unmarshal decoded (hasGo). TLC recomputes      *)
(*     Norm and JSON-equality.                                                             *)
(*                                                                                        *)
(*  kind = "cross": thorough tier, both directions: what one SDK wrote is read and written   *)
(*     again by the other one.                                                               *)
(*                                                                                        *)
(* Report mode prints one FAIL line per violating record; Strict stops (binding self-test).*)
EXTENDS SemanticsDefaults, Json

CONSTANTS Strict
Trace   == ndJsonDeserialize("trace.ndjson")
Schemas == JsonDeserialize("schemas.json")

VARIABLE l
TInit == l = 1
TNext == l <= Len(Trace) /\ l' = l + 1
TSpec == TInit /\ [][TNext]_l

Step == Trace[l - 1]
SOf(r) == DefsFn(Schemas[r.si])
Root(r) == SOf(r)[Schemas[r.si].root]

(* ------------------------------- C10 ---------------------------------- *)
\* r.skip: paths the harness does not judge in this input format (OpenAPI 3.0 has no `const`: a numeric constant is
\* rendered as a one-member enum, which declares no constant), decided from the schema term and the format only
Tag(tag, ps, skip) == {<<tag>> \o p : p \in {q \in ps : ~\E i \in DOMAIN skip : skip[i] = q}}
DefaultViolated(r) ==
  LET S == SOf(r)
      t == S[r.obj] IN
       (IF r.judge.go THEN Tag("go", FailPaths(S, t, r.go, <<>>), r.skip) ELSE {})
  \cup (IF r.judge.py THEN Tag("python", FailPaths(S, t, r.py, <<>>), r.skip) ELSE {})
  \cup (IF r.judge.go /\ r.judge.py THEN Tag("agree", DisagreePaths(S, t, r.go, r.py, <<>>), r.skip) ELSE {})

(* ------------------------------- C11 ---------------------------------- *)
PyRtViolated(r) ==
  LET S == SOf(r)
      t == Root(r) IN
  IF ~r.judge.accepted THEN {}
  ELSE (IF ~Accepts(S, t, r.doc) THEN {<<"SpecVsValidator">>} ELSE {})
  \cup (IF r.real.pyOK /\ PyRoundTripOK(S, t, r.doc, r.real.py) THEN {} ELSE {<<"RoundTrip">>})
  \cup (IF r.real.pyOK /\ r.real.hasGo /\ ~WireOK(S, t, r.real.py, r.real.go) THEN {<<"Wire">>} ELSE {})

\* kind = "cross" (thorough tier): src = what one SDK wrote for a document, real.out = what the OTHER SDK wrote after reading src
\* (real.ok = it could read it). judge.accepted: the harness found src acceptable for the schema (recomputed here).
CrossViolated(r) ==
  LET S == SOf(r)
      t == Root(r) IN
  IF r.judge.accepted # Accepts(S, t, r.src) THEN {<<"SpecVsValidator">>}
  ELSE IF ~r.judge.accepted THEN {}
  ELSE IF r.real.ok /\ PyRoundTripOK(S, t, r.src, r.real.out) THEN {} ELSE {<<"Cross">>}

Violated(r) == CASE r.kind = "default" -> DefaultViolated(r) [] r.kind = "cross" -> CrossViolated(r) [] OTHER -> PyRtViolated(r)

Verdict == l = 1 \/ Violated(Step) = {} \/
           (~Strict /\ PrintT(<<"FAIL", ToJson([l |-> l - 1, violated |-> Violated(Step)])>>))
Done == l = Len(Trace) + 1 => PrintT(<<"CONSUMED", l - 1>>)
===============================================================================
