CONSTANTS
  Strict = FALSE
  VerRank <- TrVerRank
SPECIFICATION TSpec
INVARIANTS Verdict Done
CHECK_DEADLOCK FALSE
