------------------------------ MODULE ParsersTrace ------------------------------
(* C05, first sentence: after parsing any schema every type reference, constant *)
(* reference, discriminator-mapping target and entry point that points into a   *)
(* loaded package names an object that exists there.  One record per REAL parse *)
(* (Pipeline.LoadSchemas on a JSON Schema / OpenAPI / CUE rendering of a        *)
(* catalogue schema); TLC evaluates reference resolution on the recorded IR.    *)
EXTENDS IR, TLC, Json

CONSTANTS Strict
Trace == ndJsonDeserialize("trace.ndjson")
TrFold == [x \in {} |-> x]

VARIABLE l
TInit == l = 1
TNext == l <= Len(Trace) /\ l' = l + 1
TSpec == TInit /\ [][TNext]_l

Step == Trace[l - 1]
Dang(r) == IF r.err THEN {} ELSE {d.kind : d \in Dangling(r.post)}
Shape(r) == IF r.err THEN {} ELSE (IF SelfRefsOK(r.post) THEN {} ELSE {"selfref"}) \cup (IF NoDupObjects(r.post) THEN {} ELSE {"duplicate-object"})
(* C05 (d), configuration route: an input restricted with `allowed_objects` (names of the input's package, exact spelling)  *)
(* keeps exactly the listed objects plus everything they reference. r.full is the unrestricted parse of the same document.    *)
PostNames(S) == UNION {{<<S[i].pkg, n>> : n \in NamesOf(S, S[i].pkg)} : i \in DOMAIN S}
Allowed(r) == IF r.err \/ r.allowed = <<>> THEN {}
              ELSE IF PostNames(r.post) = Reach(r.full, {<<r.allowed[i].pkg, r.allowed[i].obj>> : i \in DOMAIN r.allowed})
                   THEN {} ELSE {"allowed-objects"}
Bad(r) == Dang(r) # {} \/ Shape(r) # {} \/ Allowed(r) # {}
Verdict == l = 1 \/ ~Bad(Step) \/
           (~Strict /\ PrintT(<<"FAIL", ToJson([l |-> l - 1, dangling |-> Dang(Step), shape |-> Shape(Step), allowed |-> Allowed(Step)])>>))
Done == l = Len(Trace) + 1 => PrintT(<<"CONSUMED", l - 1>>)
===============================================================================
