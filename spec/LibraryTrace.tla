------------------------------ MODULE LibraryTrace ------------------------------
(* Trace validation of the library route: every record is one REAL run of the public pipeline                          *)
(*   {hist, groups, got}   got = the (type name, doc comment lines) pairs declared by the generated Go code, or failed    *)
(* TLC recomputes the requirement from the recorded sequence (Library!Expect) and compares.                            *)
EXTENDS Library

CONSTANTS Strict
Trace == ndJsonDeserialize("library_trace.ndjson")

VARIABLE l
TInit == l = 1
TNext == l <= Len(Trace) /\ l' = l + 1
TSpec == TInit /\ [][TNext]_l

Step == Trace[l - 1]
GotSet(r) == {r.got.objects[i] : i \in DOMAIN r.got.objects}
NamesOK(r) == {o.name : o \in GotSet(r)} = {o.name : o \in Expect(r.hist)}
CommentsOK(r) == NamesOK(r) => GotSet(r) = Expect(r.hist)
Violated(r) == IF r.got.failed THEN {"Run"}
               ELSE (IF NamesOK(r) THEN {} ELSE {"Names"}) \cup (IF CommentsOK(r) THEN {} ELSE {"Comments"})
Verdict == l = 1 \/ Violated(Step) = {} \/ (~Strict /\ PrintT(<<"FAIL", ToJson([l |-> l - 1, violated |-> Violated(Step)])>>))
Done == l = Len(Trace) + 1 => PrintT(<<"CONSUMED", l - 1>>)
===============================================================================
