CONSTANTS
  Strict = FALSE
  FoldTable <- TrFold
SPECIFICATION TSpec
INVARIANTS Verdict Done
CHECK_DEADLOCK FALSE
