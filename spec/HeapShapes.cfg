CONSTANTS
  Roots = {"Type", "Object"}
  DeepRoots = {"Type"}
  MaxDepth = 3
  NSlices = 1
  Slice = 0
  OuterNSlices = 1
  OuterSlice = 0
SPECIFICATION Spec
INVARIANTS Emit
CHECK_DEADLOCK FALSE
