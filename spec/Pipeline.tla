------------------------------ MODULE Pipeline ------------------------------
(* One run of the cog pipeline (DESIGN 3.7), at the level C03 and C07 speak about:            *)
(*                                                                                            *)
(*   Config -> Load(i)* -> Filter -> Consolidate -> Common -> (ForLanguage(L) ; Emit(L))* -> done *)
(*                                                                                            *)
(* Every stage that ranges over a Go map draws a permutation pi of that map's keys (the only  *)
(* scheduling freedom of a single-threaded run); `sched` records the draws.                   *)
(* Each such stage has two definitions, selected by the constant AsCoded:                     *)
(*   stage \in AsCoded    as the code does it: the result depends on pi                       *)
(*   stage \notin AsCoded the requirement: any order-insensitive choice (here: canonical Rank)*)
(* With AsCoded = {} the hyper-properties of Pipeline2 must hold (pass/fail run); with the    *)
(* stages as coded TLC is the witness generator: the input shapes for which two schedules     *)
(* give different results parametrise the real inputs replayed under the map-order scheduler. *)
(* Faults seeds design faults (no copy before a language chain, merge overwriting, merge      *)
(* dropping, a builder rule that keeps what it resolved for the language before, a builder    *)
(* post-processing step that keeps what it recorded for the package before): with any of them *)
(* TLC must find the C07 invariants violated (model self-test).                               *)
(* Growth (DESIGN Appendix E.4 / E.5), same pattern, separate modules so that the C03/C07 configurations keep their     *)
(* size: PipelineInputs.tla refines Load/Filter/Consolidate/Common (gating by `if`, parameters, per-input filters and    *)
(* transformations, metadata); PipelineFiles.tla refines Emit (roots, repository and extra-file templates, disjointness). *)
EXTENDS Naturals, Sequences, FiniteSets, TLC

CONSTANTS AsCoded, Faults, Rank, FixedSched, DrawAll, Langs, InputSeqs, Cfgs

VARIABLES inputs, cfg, pc, loaded, S, handed, ctx, files, dir, err, todo, cur, sched

vars == <<inputs, cfg, pc, loaded, S, handed, ctx, files, dir, err, todo, cur, sched>>
obs  == <<inputs, cfg, pc, loaded, S, handed, ctx, files, dir, err, todo, cur>>   \* VIEW: everything but sched

Stages == {"interpolate", "defnames", "consolidate", "setdefault", "langloop", "infer", "compose"}
FaultNames == {"nocopy", "overwrite", "dropgroup", "rulememo", "carry"}
Fields == {"kind", "type"}

Empty == [x \in {} |-> 0]

--------------------------------------------------------------------------------
(* permutations and the canonical order                                          *)
Perms(K) == {p \in [1..Cardinality(K) -> K] : \A i, j \in 1..Cardinality(K) : i # j => p[i] # p[j]}
Canon(K) == CHOOSE p \in Perms(K) : \A i, j \in 1..Cardinality(K) : i < j => Rank[p[i]] < Rank[p[j]]
\* the permutations a stage may draw. A stage under its requirement-level definition does not look at pi: with
\* DrawAll = FALSE it draws the canonical one only (same reachable observations, far fewer duplicate transitions).
Draws(stage, K) == IF FixedSched \/ (~DrawAll /\ stage \notin AsCoded) THEN {Canon(K)} ELSE Perms(K)
Order(stage, K, pi) == IF stage \in AsCoded THEN pi ELSE Canon(K)
Last(s) == s[Len(s)]
RECURSIVE FoldSeq(_, _, _)
FoldSeq(Op(_, _), acc, s) == IF s = <<>> THEN acc ELSE FoldSeq(Op, Op(acc, Head(s)), Tail(s))
Range(s) == {s[i] : i \in DOMAIN s}

--------------------------------------------------------------------------------
(* Config: %param% interpolation of the output directory template <<"%a%">>.     *)
(* as coded: one ReplaceAll per parameter, in map order, each on the result of   *)
(* the previous one; requirement: one simultaneous pass.                         *)
ParamsOf(shape) == IF shape = "nested" THEN [a |-> <<"%b%">>, b |-> <<"o">>] ELSE [a |-> <<"o">>, b |-> <<"u">>]
Tok(k) == IF k = "a" THEN "%a%" ELSE "%b%"
RECURSIVE Subst(_, _, _)
Subst(s, k, v) == IF s = <<>> THEN <<>> ELSE (IF Head(s) = Tok(k) THEN v ELSE <<Head(s)>>) \o Subst(Tail(s), k, v)
RECURSIVE SubstAll(_, _)
SubstAll(s, P) == IF s = <<>> THEN <<>>
                  ELSE (IF \E k \in DOMAIN P : Head(s) = Tok(k) THEN P[CHOOSE k \in DOMAIN P : Head(s) = Tok(k)] ELSE <<Head(s)>>)
                       \o SubstAll(Tail(s), P)
InterpAsCoded(P, pi) == LET Step(acc, k) == Subst(acc, k, P[k]) IN FoldSeq(Step, <<"%a%">>, pi)
Interp(P, pi) == IF "interpolate" \in AsCoded THEN InterpAsCoded(P, pi) ELSE SubstAll(<<"%a%">>, P)

Config ==
  /\ pc = "config"
  /\ \E pi \in Draws("interpolate", {"a", "b"}) :
        /\ dir' = Interp(ParamsOf(cfg.params), pi)
        /\ sched' = Append(sched, <<"interpolate", pi>>)
  /\ pc' = "load"
  /\ UNCHANGED <<inputs, cfg, loaded, S, handed, ctx, files, err, todo, cur>>

--------------------------------------------------------------------------------
(* Load(i): parse input i. An input with coll = TRUE reaches two definitions     *)
(* whose names collide ("C", bodies x and y) through two properties pa, pb:      *)
(* as coded the one visited first in map order is kept.                          *)
Obj(shape) == [body |-> shape.body, cands |-> shape.cands, disc |-> "none", def |-> "none", trail |-> <<>>]
Parse(in, pi) ==
  LET base == [n \in DOMAIN in.objs |-> Obj(in.objs[n])]
      first == Order("defnames", {"pa", "pb"}, pi)[1]
      c == [body |-> IF first = "pa" THEN "x" ELSE "y", cands |-> {}, disc |-> "none", def |-> "none", trail |-> <<>>]
  IN [pkg |-> in.pkg, objs |-> IF in.coll THEN base @@ ("C" :> c) ELSE base]

Load ==
  /\ pc = "load"
  /\ LET i == Len(loaded) + 1 IN
       \E pi \in Draws("defnames", {"pa", "pb"}) :
          /\ loaded' = Append(loaded, Parse(inputs[i], pi))
          /\ sched' = IF inputs[i].coll THEN Append(sched, <<"defnames", pi>>) ELSE sched
          /\ pc' = IF i = Len(inputs) THEN "filter" ELSE "load"
  /\ UNCHANGED <<inputs, cfg, S, handed, ctx, files, dir, err, todo, cur>>

(* Filter: allowed_objects. "all" keeps everything, otherwise only object A (no references in this universe) *)
Filter ==
  /\ pc = "filter"
  /\ loaded' = [i \in DOMAIN loaded |->
                  IF cfg.allowed = "all" THEN loaded[i]
                  ELSE [loaded[i] EXCEPT !.objs = [n \in DOMAIN loaded[i].objs \cap {"A"} |-> loaded[i].objs[n]]]]
  /\ pc' = "consolidate"
  /\ UNCHANGED <<inputs, cfg, S, handed, ctx, files, dir, err, todo, cur, sched>>

--------------------------------------------------------------------------------
(* Consolidate: group by package in MAP order; Merge = union or Conflict.         *)
PkgsOf(ls) == {ls[i].pkg : i \in DOMAIN ls}
Group(ls, p) == SelectSeq(ls, LAMBDA s : s.pkg = p)
(* A definition is the WHOLE declared content of an object: name, comments, self reference, passes trail and the complete *)
(* type tree (kind, nullable, default, hints, constraints, field names / required / comments, enum members, reference    *)
(* targets, constant values) - that is what Object.Equal compares. Two same-package definitions that differ in ANY of   *)
(* these are a conflict; an abstract definition here stands for one such content.                                        *)
Collides(a, b) == \E n \in DOMAIN a \cap DOMAIN b : a[n] # b[n]
MergeObjs(a, b) == IF "overwrite" \in Faults THEN b @@ a ELSE a @@ b       \* a @@ b: a's definitions win (they are equal unless Collides)
GroupConflict(g) == \E i, j \in DOMAIN g : i < j /\ Collides(g[i].objs, g[j].objs)
MergeGroup(g) ==
  IF "dropgroup" \in Faults THEN g[1]
  ELSE [pkg |-> g[1].pkg, objs |-> FoldSeq(MergeObjs, g[1].objs, [i \in 1..Len(g) |-> g[i].objs])]
Conflict(ls) == "overwrite" \notin Faults /\ "dropgroup" \notin Faults /\ \E p \in PkgsOf(ls) : GroupConflict(Group(ls, p))

Consolidate ==
  /\ pc = "consolidate"
  /\ \E pi \in Draws("consolidate", PkgsOf(loaded)) :
       LET order == Order("consolidate", PkgsOf(loaded), pi) IN
         /\ sched' = Append(sched, <<"consolidate", pi>>)
         /\ IF Conflict(loaded)
              THEN /\ pc' = "failed" /\ err' = "conflict" /\ S' = S
              ELSE /\ pc' = "common" /\ err' = err
                   /\ S' = [j \in 1..Len(order) |-> MergeGroup(Group(loaded, order[j]))]
  /\ UNCHANGED <<inputs, cfg, loaded, handed, ctx, files, dir, todo, cur>>

--------------------------------------------------------------------------------
(* Common passes: fields_set_default with the keys of cfg.defaults, all of which *)
(* match the one field of object A of package p (keys differing in letter case). *)
(* as coded: every key is applied in map order - the last writer wins and the    *)
(* trail lists them in that order.                                               *)
Keys(D) == {d.key : d \in D}
ValOf(D, k) == (CHOOSE d \in D : d.key = k).val
SetDefault(o, D, order) ==
  IF D = {} THEN o
  ELSE [o EXCEPT !.def = ValOf(D, Last(order)), !.trail = o.trail \o order]
ApplyCommon(schemas, D, order) ==
  [j \in DOMAIN schemas |->
     IF schemas[j].pkg = "p" /\ "A" \in DOMAIN schemas[j].objs
       THEN [schemas[j] EXCEPT !.objs["A"] = SetDefault(schemas[j].objs["A"], D, order)]
       ELSE schemas[j]]

Common ==
  /\ pc = "common"
  /\ \E pi \in Draws("setdefault", Keys(cfg.defaults)) :
       LET order == Order("setdefault", Keys(cfg.defaults), pi) IN
         /\ S' = ApplyCommon(S, cfg.defaults, order)
         /\ handed' = S'
         /\ sched' = IF Cardinality(cfg.defaults) > 1 THEN Append(sched, <<"setdefault", pi>>) ELSE sched
  /\ todo' = cfg.langs
  /\ pc' = "lang"
  /\ UNCHANGED <<inputs, cfg, loaded, ctx, files, dir, err, cur>>

--------------------------------------------------------------------------------
(* ForLanguage(L): copy, language chain, builders + veneers.                      *)
(*   chain("go"): infer the discriminator of every object with candidate fields    *)
(*                (as coded: the first candidate in map order), then leave a trail *)
(*   chain("ts"): leaves a trail only                                              *)
(* Builders: one per object, then ComposeBuilders appends one composed builder per *)
(* plugin type (as coded: in map order). "builders are re-derived per language     *)
(* from that language's schemas": a builder is <<package, object, resolved>>, where *)
(* `resolved` stands for everything the builder rules resolve against the schemas  *)
(* they are handed (the types along an assignment path): it is a function of the   *)
(* object AS THE LANGUAGE'S CHAIN LEFT IT (its trail and discriminator).           *)
(* Fault rulememo: the rules are shared by the language iterations and keep what    *)
(* they resolved per object - every later language gets the first one's builders.  *)
Chain(L, schemas, candOrder) ==
  [j \in DOMAIN schemas |->
     [schemas[j] EXCEPT !.objs = [n \in DOMAIN schemas[j].objs |->
        LET o == schemas[j].objs[n]
            hits == SelectSeq(candOrder, LAMBDA f : f \in o.cands)
            d == IF L = "go" /\ hits # <<>> THEN hits[1] ELSE o.disc
        IN [o EXCEPT !.disc = d, !.trail = o.trail \o <<L>>]]]]
BuildersOf(schemas, composeOrder) ==
  [plain |-> UNION {{<<schemas[j].pkg, n, <<schemas[j].objs[n].trail, schemas[j].objs[n].disc>>>> : n \in DOMAIN schemas[j].objs} : j \in DOMAIN schemas},
   composed |-> composeOrder]

NextLang(pi) == IF "langloop" \in AsCoded THEN pi[1] ELSE Canon(todo)[1]

ForLanguage ==
  /\ pc = "lang" /\ todo # {}
  /\ \E piL \in Draws("langloop", todo), piC \in Draws("infer", Fields), piB \in Draws("compose", cfg.compose) :
       LET L == NextLang(piL)
           out == Chain(L, S, Order("infer", Fields, piC))
           own == IF cfg.builders THEN BuildersOf(out, Order("compose", cfg.compose, piB)) ELSE [plain |-> {}, composed |-> <<>>]
           b == IF "rulememo" \in Faults /\ cur # "none" THEN ctx[cur].B ELSE own
       IN /\ ctx' = ctx @@ (L :> [S |-> out, B |-> b])
          /\ S' = IF "nocopy" \in Faults THEN out ELSE S       \* the chain works on a copy: the shared schemas stay
          /\ cur' = L
          /\ todo' = todo \ {L}
          /\ sched' = Append(sched, <<"lang", piL, piC, piB>>)
  /\ pc' = "emit"
  /\ UNCHANGED <<inputs, cfg, loaded, handed, files, dir, err>>

(* Emit(L): one file per package (types + builders of that package), one shared runtime file. *)
(* The builders are post-processed package after package, builder after builder (guards, ...): what is recorded  *)
(* while doing so is named relative to the builder, so the names of two packages with same-named objects COINCIDE. *)
(* Requirement: nothing recorded for one package reaches the next (`guards` = the package's own object names).     *)
(* Fault carry: the record is not reset - the names the preceding package also has count as already handled.       *)
FilesOf(L, c) ==
  LET own(j) == {b[2] : b \in {x \in c.B.plain : x[1] = c.S[j].pkg}}
      before(j) == IF "carry" \in Faults /\ j > 1 THEN own(j - 1) ELSE {}
      pkgFile(j) == [objs |-> c.S[j].objs,
                     builders |-> {b \in c.B.plain : b[1] = c.S[j].pkg},
                     guards |-> own(j) \ before(j),
                     composed |-> c.B.composed]
  IN [path \in {<<dir, L, c.S[j].pkg>> : j \in DOMAIN c.S} \cup {<<dir, L, "runtime">>} |->
        IF path[3] = "runtime" THEN [objs |-> Empty, builders |-> {}, guards |-> {}, composed |-> <<>>]
        ELSE pkgFile(CHOOSE j \in DOMAIN c.S : c.S[j].pkg = path[3])]

Emit ==
  /\ pc = "emit"
  /\ files' = files @@ (cur :> FilesOf(cur, ctx[cur]))
  /\ pc' = IF todo = {} THEN "done" ELSE "lang"
  /\ UNCHANGED <<inputs, cfg, loaded, S, handed, ctx, dir, err, todo, cur, sched>>

--------------------------------------------------------------------------------
InitWith(i, c) ==
  /\ inputs = i /\ cfg = c /\ pc = "config" /\ loaded = <<>> /\ S = <<>> /\ handed = <<>>
  /\ ctx = Empty /\ files = Empty /\ dir = <<>> /\ err = "none" /\ todo = {} /\ cur = "none" /\ sched = <<>>
Init == \E i \in InputSeqs, c \in Cfgs : InitWith(i, c)
Next == Config \/ Load \/ Filter \/ Consolidate \/ Common \/ ForLanguage \/ Emit
Finished == pc \in {"done", "failed"}
Spec == Init /\ [][Next]_vars

--------------------------------------------------------------------------------
(* Single-run invariants of C07                                                   *)
(* "Inputs contributing to the same package merge into the union of their definitions or the run  *)
(*  fails with a conflict error - no definition is silently dropped or overwritten"               *)
DefsIn(p) == UNION {{<<n, loaded[i].objs[n]>> : n \in DOMAIN loaded[i].objs} : i \in {k \in DOMAIN loaded : loaded[k].pkg = p}}
DefsOut(schemas, p) == UNION {{<<n, schemas[j].objs[n]>> : n \in DOMAIN schemas[j].objs} : j \in {k \in DOMAIN schemas : schemas[k].pkg = p}}
Consolidated == pc = "common"       \* S is the output of Consolidate exactly here
MergeIsUnionOrConflict ==
  Consolidated => \A p \in PkgsOf(loaded) :
     /\ Cardinality({j \in DOMAIN S : S[j].pkg = p}) = 1
     /\ DefsOut(S, p) = DefsIn(p)

(* "applying a transformation chain never modifies the schemas it was handed" *)
InputsNeverMutated == pc \in {"lang", "emit", "done"} => S = handed

TypeOK == pc \in {"config", "load", "filter", "consolidate", "common", "lang", "emit", "done", "failed"}
================================================================================
