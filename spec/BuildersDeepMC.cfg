CONSTANTS
  Mode = "chains"
  MaxObjs = 5
  Slice = 0
  NSlices = 1
  FoldTable <- DFoldTable
  SingularTable <- DSingular
  LCamelTable <- DLCamel
SPECIFICATION Spec
INVARIANTS DeriveOK Emit
CHECK_DEADLOCK FALSE
