------------------------------ MODULE BuildersMC ------------------------------
(* Bounded universes for Builders.tla.                                         *)
(*  C16 (Spec16): every schema set over object kinds x field kinds; each        *)
(*      distinct state is one case, printed with Derive(S) and the field modes. *)
(*  C17 (Spec17): every history of <= MaxLen rule instances over the builders   *)
(*      derived from one small schema set; each distinct state is one history,  *)
(*      printed with the model's state after it.  The contracts are checked on  *)
(*      the model itself (ModelOK) so that a real step equal to the model step  *)
(*      inherits TLC's verdict.                                                 *)
EXTENDS Builders, TLC, Json

CONSTANTS MaxLen,            \* C17: rules per history
          Slice, NSlices     \* quick tier: C16 field pairs / C17 two-rule histories are cut into classes

VARIABLES case,              \* C16: [fields, variant]
          hist, pre, cur, err  \* C17
vars == <<case, hist, pre, cur, err>>

MCFoldTable == [Root |-> "root", ROOT |-> "root", root |-> "root", Inner |-> "inner", inner |-> "inner", U |-> "u", u |-> "u",
                Panel |-> "panel", Zed |-> "zed", Options |-> "options", Copy |-> "copy", Renamed |-> "renamed",
                QPanel |-> "qpanel", TAGS |-> "tags", tags |-> "tags", Flag |-> "flag", flag |-> "flag", NAME |-> "name",
                name |-> "name", OPTS |-> "opts", opts |-> "opts", INNER |-> "inner", Tags |-> "tags", LABELS |-> "labels", labels |-> "labels",
                FLAG |-> "flag", copy |-> "copy", ZZ |-> "zz", zz |-> "zz", Copy2 |-> "copy2", Renamed2 |-> "renamed2", Uu |-> "uu", innerY |-> "innery", Missing |-> "missing", X |-> "x", x |-> "x"]
MCSingular == [tags |-> "tag", labels |-> "label", items |-> "item"]
MCLCamel   == [Inner |-> "inner", string |-> "string", bool |-> "bool"]

Con(op, v) == [op |-> op, args |-> <<v>>]

(* ============================== C16 universe ============================ *)
OtherT == TStruct(<<Field("x", TString, TRUE)>>)
EnT    == TEnum(<<Member("A", VStr("a"), "string"), Member("B", VStr("b"), "string")>>)
Pool == <<
  Field("s",    TString, TRUE),
  FieldC("sc",  TScalarC("string", VNil, <<Con("minLength", VInt("1")), Con("maxLength", VInt("5"))>>), TRUE, <<"doc">>),
  Field("nsc",  AsNullable(TScalarC("int64", VNil, <<Con(">=", VInt("0"))>>)), FALSE),
  Field("sd",   WithDef(TString, VStr("dflt")), TRUE),
  Field("b",    WithDef(TScalar("bool"), VBool(TRUE)), TRUE),
  Field("nsd",  AsNullable(WithDef(TScalarC("string", VNil, <<Con("minLength", VInt("2"))>>), VStr("dd"))), FALSE),
  Field("any",  TScalar("any"), FALSE),
  Field("c",    TConst("string", VStr("cv")), TRUE),
  Field("cn",   AsNullable(TConst("string", VStr("cv"))), FALSE),
  Field("rs",   TRef("p", "Other"), TRUE),
  Field("rq",   AsNullable(TRef("q", "QS")), FALSE),
  Field("re",   WithDef(TRef("p", "En"), VStr("a")), TRUE),
  Field("rk",   TRef("p", "K"), TRUE),
  Field("rkq",  TRef("q", "KQ"), TRUE),
  Field("rko",  TRef("p", "K"), FALSE),
  Field("rkn",  AsNullable(TRef("q", "KQ")), TRUE),
  Field("rka",  TRef("p", "KAlias"), TRUE),
  Field("cr",   TConstRef("p", "En", VStr("a")), TRUE),
  Field("crq",  TConstRef("q", "QEn", VStr("b")), FALSE),
  Field("arr",  TArray(TString), TRUE),
  Field("arrr", AsNullable(TArray(TRef("p", "Other"))), FALSE),
  Field("map",  TMap(TString, TRef("q", "QS")), TRUE),
  Field("st",   TStruct(<<Field("x", TString, TRUE)>>), TRUE),
  Field("en",   WithDef(EnT, VStr("b")), TRUE),
  Field("dj",   TDisj(<<TString, TRef("p", "Other")>>, "", <<>>), TRUE),
  Field("in",   TInter(<<TRef("p", "Other"), TStruct(<<Field("y", TString, FALSE)>>)>>), FALSE),
  Field("sl",   TSlot("dataquery"), TRUE),
  Field("rm",   TRef("zz", "Missing"), TRUE),
  \* the same operator more than once: every constraint of the field is a constraint of the assignment
  Field("rc2",  TScalarC("int64", VNil, <<Con("!=", VInt("22")), Con("!=", VInt("80"))>>), TRUE),
  Field("rc3",  AsNullable(TScalarC("string", VNil, <<Con("minLength", VInt("8")), Con("maxLength", VInt("64")), Con("minLength", VInt("32")),
                                                       Con("minLength", VInt("9"))>>)), FALSE),
  \* an empty collection is a default too
  Field("arre", WithDef(TArray(TString), [t |-> "[]interface {}", s |-> "[]"]), TRUE),
  Field("mape", AsNullable(WithDef(TMap(TString, TString), [t |-> "map[string]interface {}", s |-> "{}"])), FALSE),
  Field("rse",  WithDef(TRef("p", "Other"), [t |-> "map[string]interface {}", s |-> "{}"]), TRUE),
  \* falsy defaults are defaults; constraint arguments are copied verbatim (negative, fractional)
  Field("bf",   WithDef(TScalar("bool"), VBool(FALSE)), TRUE),
  Field("i0",   WithDef(TScalarC("int64", VNil, <<Con(">=", VInt("-1")), Con("<", [t |-> "float64", s |-> "2.5"])>>), VInt("0")), FALSE),
  Field("se",   AsNullable(WithDef(TString, VStr(""))), FALSE),
  \* references to constants that are not non-empty strings (see Fixed below): number held as an integer, falsy, other package
  Field("rkv",  TRef("p", "KNum"), TRUE),
  Field("rkz",  TRef("p", "KFalse"), FALSE),
  Field("rku",  AsNullable(TRef("q", "KU8")), TRUE)
>>
NPool == Len(Pool)

QSchema16 == SchemaOf("q", <<Obj("q", "QS", TStruct(<<Field("v", TString, TRUE), Field("k", TRef("q", "KQ"), TRUE)>>)),
                             Obj("q", "KQ", TConst("string", VStr("kq"))),
                             Obj("q", "KU8", TConst("uint8", VInt("3"))),
                             Obj("q", "QEn", EnT),
                             Obj("q", "Target", TStruct(<<Field("t", TString, TRUE)>>)),
                             Obj("q", "Mode", TString)>>)
\* CaseFields: fields whose names differ only in letter case are distinct fields, each covered exactly once
\* Fixed: "the schema fixes the field's value" whatever the constant is and however the loaders hold it.  A constant is a
\* scalar with a value; the value keeps the Go type the loader produced, which is not always the kind's own:
\*   JSON Schema {"type": "number", "const": 2}   float64 holding int64 (bound to the real loader by the 'loaded' route)
\*   types written in YAML pass configuration     the declared kind holding a Go int        (int32 holding int)
\*   types built through the library / by passes  any kind holding int64 or float64        (uint8 holding int64, float32 holding float64)
\* and it may be falsy (false, 0, "").  Each is referred to by a required field (directly, in the other package, through an
\* alias) and written in place.
VFloat(x) == [t |-> "float64", s |-> x]
VGoInt(x) == [t |-> "int", s |-> x]
Consts16 == <<Obj("p", "KNum", TConst("float64", VInt("2"))), Obj("p", "KI32", TConst("int32", VGoInt("5"))),
              Obj("p", "KF32", TConst("float32", VFloat("1.5"))), Obj("p", "KF32Alias", TRef("p", "KF32")),
              Obj("p", "KFalse", TConst("bool", VBool(FALSE))), Obj("p", "KZero", TConst("int64", VInt("0"))),
              Obj("p", "KEmpty", TConst("string", VStr(""))), Obj("p", "KTrue", TConst("bool", VBool(TRUE))),
              Obj("p", "Fixed", TStruct(<<Field("name", TString, TRUE),
                                          Field("version", TRef("p", "KNum"), TRUE), Field("retries", TRef("q", "KU8"), TRUE),
                                          Field("ratio", TRef("p", "KF32Alias"), TRUE), Field("level", TRef("p", "KI32"), TRUE),
                                          Field("on", TRef("p", "KTrue"), TRUE), Field("off", TRef("p", "KFalse"), TRUE),
                                          Field("zero", TRef("p", "KZero"), TRUE), Field("blank", TRef("p", "KEmpty"), TRUE),
                                          Field("inNum", TConst("float64", VInt("2")), TRUE), Field("inU8", TConst("uint8", VInt("0")), TRUE),
                                          Field("inOff", TConst("bool", VBool(FALSE)), TRUE), Field("inBlank", TConst("string", VStr("")), FALSE)>>))>>
Support16 == <<Obj("p", "Other", OtherT), Obj("p", "En", EnT), Obj("p", "K", TConst("string", VStr("kv"))),
               Obj("p", "KAlias", TRef("p", "K")),
               Obj("p", "CaseFields", TStruct(<<Field("url", TString, TRUE), Field("URL", WithDef(TString, VStr("u")), FALSE),
                                                Field("id", TScalar("int64"), TRUE), Field("Id", TRef("p", "Other"), FALSE),
                                                Field("ID", TArray(TString), FALSE)>>))>> \o Consts16
\* alias chains whose SECOND hop leaves the package, next to same-named objects of another kind in the starting package
CrossPkg16 == <<Obj("p", "Datasource", TRef("p", "TargetAlias")), Obj("p", "TargetAlias", TRef("q", "Target")), Obj("p", "Target", TString),
                Obj("p", "DisplayMode", TRef("p", "ModeAlias")), Obj("p", "ModeAlias", TRef("q", "Mode")),
                Obj("p", "Mode", TStruct(<<Field("m", TString, TRUE)>>)),
                Obj("p", "KQ", TString),
                Obj("p", "Holder", TStruct(<<Field("viaAlias", TRef("p", "KQAlias"), TRUE)>>)), Obj("p", "KQAlias", TRef("q", "KQ"))>>
Variants == 1..7
Main(fs) == Obj("p", "Main", TStruct([i \in DOMAIN fs |-> Pool[fs[i]]]))
PObjects(fs, v) ==
  CASE v = 1 -> <<Main(fs)>> \o Support16
    [] v = 2 -> <<Obj("p", "Alias2", TRef("p", "AliasMain")), Obj("p", "AliasMain", TRef("p", "Main")), Main(fs)>> \o Support16
                \o <<Obj("p", "AliasQ", TRef("q", "QS")), Obj("p", "AliasEn", TRef("p", "En")), Obj("p", "AliasK", TRef("p", "K"))>>
    [] v = 3 -> Support16 \o <<Obj("p", "Sc", TString), Obj("p", "Arr", TArray(TRef("p", "Main"))), Obj("p", "Mp", TMap(TString, TString)),
                               Obj("p", "Dj", TDisj(<<TRef("p", "Main"), TRef("p", "Other")>>, "", <<>>)),
                               Obj("p", "AliasArr", TRef("p", "Arr")), Main(fs)>>
    [] v = 6 -> <<Main(fs)>> \o Support16 \o CrossPkg16
    [] v = 4 -> <<Main(fs)>> \o Support16           \* package q is not loaded: references into it do not resolve
    [] OTHER -> <<Main(fs)>> \o Support16 \o <<Obj("p", "AliasGone", TRef("q", "QS"))>>   \* alias of an object that is not loaded
Rev(q) == [i \in DOMAIN q |-> q[Len(q) + 1 - i]]
\* variant 7: variant 6 with the packages and every package's objects declared in the reverse order
S16(c) == IF c.variant \in {4, 5} THEN <<SchemaOf("p", PObjects(c.fields, c.variant))>>
          ELSE IF c.variant = 7 THEN <<[QSchema16 EXCEPT !.objects = Rev(@)], SchemaOf("p", Rev(PObjects(c.fields, 6)))>>
          ELSE <<SchemaOf("p", PObjects(c.fields, c.variant)), QSchema16>>
Cases16 == {[fields |-> <<i>>, variant |-> v] : i \in 1..NPool, v \in Variants}
           \cup {[fields |-> <<i, j>>, variant |-> v] : <<i, j, v>> \in {<<a, b, w>> \in (1..NPool) \X (1..NPool) \X Variants :
                                                                         a # b /\ (a + b + w) % NSlices = Slice}}

Init16 == case \in Cases16 /\ hist = <<>> /\ pre = <<>> /\ cur = <<>> /\ err = FALSE
Spec16 == Init16 /\ [][UNCHANGED vars]_vars
\* the requirement is satisfiable and the function agrees with the relation
DeriveOK == C16Violated(S16(case), Derive(S16(case))) = {}
Emit16 == PrintT(<<"CASE16", ToJson([case |-> case, S |-> S16(case), expect |-> Derive(S16(case)), modes |-> Modes(S16(case))])>>)

(* ============================== C17 universe ============================ *)
DisjHint == [t |-> "ast.DisjunctionType", s |-> "", type |-> TDisj(<<TString, TScalar("bool")>>, "", <<>>)]
InnerT == TStruct(<<Field("x", TString, TRUE), Field("y", WithDef(TString, VStr("dflt")), TRUE)>>)
UT     == WithHints(TStruct(<<Field("str", AsNullable(TString), FALSE), Field("bool", AsNullable(TScalar("bool")), FALSE)>>),
                    <<Hint("disjunction_of_scalars", DisjHint)>>)
RootT  == TStruct(<<
   Field("tags",   TArray(TString), TRUE),
   Field("labels", TMap(TString, TString), TRUE),
   Field("flag",   WithDef(TScalar("bool"), VBool(TRUE)), TRUE),
   Field("inner",  TRef("p", "Inner"), TRUE),
   Field("u",      TRef("p", "U"), FALSE),
   Field("name",   TScalarC("string", VNil, <<Con("minLength", VInt("1"))>>), TRUE),
   Field("d",      TDisj(<<TString, TRef("p", "Inner")>>, "", <<>>), FALSE),
   Field("items",  TArray(TRef("p", "Inner")), FALSE)>>)
PanelT == TStruct(<<Field("type", TString, TRUE), Field("opts", TScalar("any"), FALSE)>>)
S17 == <<SchemaOf("p", <<Obj("p", "Root", RootT), Obj("p", "Inner", InnerT), Obj("p", "U", UT), Obj("p", "Panel", PanelT)>>),
         \* q.Inner: the same bare name as p.Inner with another definition (selectors name the package)
         [SchemaOf("q", <<Obj("q", "Options", TStruct(<<Field("o1", TString, TRUE)>>)), Obj("q", "Inner", TStruct(<<Field("z", TScalar("bool"), TRUE)>>))>>)
            EXCEPT !.meta = [kind |-> "composable", variant |-> "panelcfg", id |-> "qid"]]>>
\* the same plus a struct whose only field is a constant: its builder has no option
S17b == <<[S17[1] EXCEPT !.objects = Append(@, Obj("p", "Marker", TStruct(<<Field("kind", TConst("string", VStr("m")), TRUE)>>)))], S17[2]>>
\* the same plus a chain of nested structs: assignment paths of four segments with sibling leaves
S17c == <<[S17[1] EXCEPT !.objects = [@ EXCEPT ![1] = Obj("p", "Root", [RootT EXCEPT !.fields = Append(@, Field("deep", TRef("p", "L1"), TRUE))])]
                                     \o <<Obj("p", "L1", TStruct(<<Field("l2", TRef("p", "L2"), TRUE), Field("n", TString, FALSE), Field("al", TRef("p", "L3Alias"), FALSE)>>)),
                                          Obj("p", "L3Alias", TRef("p", "L3")),
                                          Obj("p", "L2", TStruct(<<Field("l3", TRef("p", "L3"), TRUE)>>)),
                                          Obj("p", "L3", TStruct(<<Field("a", TString, TRUE), Field("b", TScalar("bool"), FALSE), Field("c", TArray(TString), FALSE),
                                                                  Field("id", TScalar("int64"), FALSE), Field("ID", TString, FALSE)>>))>>],
          S17[2]>>
\* "layout" schema set (round 6): options whose arguments and assignments are NOT in pairs, and builders whose constructor
\* takes arguments.  Leaf / Alt: a constant field before the fields that become arguments, the first of them a proper
\* disjunction (Leaf) / a reference to a struct generated from a disjunction (Alt); Mid: refers to them directly and in a list, and to a struct generated from a disjunction; Top: refers to Mid
\* (destination of merge_into); Panel + the composable package q whose Options refers to a struct generated from a disjunction.
LeafT == TStruct(<<Field("kind", TConst("string", VStr("fixed")), TRUE),
                   Field("value", TDisj(<<TString, TScalar("int64")>>, "", <<>>), TRUE),
                   Field("weight", TScalar("int64"), FALSE)>>)
AltT  == TStruct(<<Field("kind", TConst("string", VStr("alt")), TRUE),
                   Field("sel", TRef("p", "U"), FALSE),
                   Field("weight", TScalar("int64"), TRUE),
                   Field("value", TDisj(<<TString, TScalar("bool")>>, "", <<>>), FALSE)>>)
MidT  == TStruct(<<Field("leaf", TRef("p", "Leaf"), TRUE), Field("alt", TRef("p", "Alt"), FALSE),
                   Field("items", TArray(TRef("p", "Leaf")), FALSE), Field("name", TString, TRUE), Field("u", TRef("p", "U"), FALSE)>>)
TopT  == TStruct(<<Field("mid", TRef("p", "Mid"), TRUE), Field("title", TString, FALSE)>>)
S17d == <<SchemaOf("p", <<Obj("p", "Top", TopT), Obj("p", "Mid", MidT), Obj("p", "Leaf", LeafT), Obj("p", "Alt", AltT),
                          Obj("p", "U", UT), Obj("p", "Panel", PanelT)>>),
          [SchemaOf("q", <<Obj("q", "Options", TStruct(<<Field("o1", TString, TRUE), Field("qu", TRef("q", "QU"), FALSE)>>)),
                           Obj("q", "QU", UT)>>)
             EXCEPT !.meta = [kind |-> "composable", variant |-> "panelcfg", id |-> "qid"]]>>
CONSTANTS Chains,            \* C17: the nested schema set and the alphabet of path-lengthening rules only
          WithMarker,        \* C17: add an object whose builder has no option
          FirstFromR2,       \* C17: take the first rule from the reduced alphabet too (simulation of long histories)
          Layout             \* C17: the layout schema set and its alphabet (arguments/assignments not in pairs, constructor arguments)
SS == IF WithMarker THEN S17b ELSE IF Chains THEN S17c ELSE IF Layout THEN S17d ELSE S17
B0 == Derive(SS)

BO(p, n) == [k |-> "by_object", pkg |-> p, name |-> n]
BN(n)    == [k |-> "by_name", pkg |-> "p", name |-> n]
BV(v)    == [k |-> "by_variant", pkg |-> "q", variant |-> v]
BD       == [k |-> "from_disjunction", pkg |-> "p"]
ON(obj, opts) == [k |-> "by_name", pkg |-> "p", object |-> obj, options |-> opts]
OB(bld, opts) == [k |-> "by_builder", pkg |-> "p", builder |-> bld, options |-> opts]

BSels1 == {BO("p", "Root"), BO("p", "root"), BO("p", "Inner"), BO("p", "U"), BO("p", "Panel"), BO("p", "Zed"), BO("zz", "Root"),
           BO("q", "Options"), BN("Root"), BN("ROOT"), BN("Zed"), BV("panelcfg"), BV("dataquery"), BD}
BNSels == {BN("Root"), BN("ROOT"), BN("Zed")}

StrArg(n) == Arg(n, TString)
AddOpt1 == [name |-> "extra", comments |-> <<"added">>, args |-> <<StrArg("v")>>,
            assigns |-> <<[path |-> <<"name">>, method |-> "direct", value |-> [k |-> "arg", arg |-> StrArg("v")]]>>]
AddOpt2 == [name |-> "off", comments |-> <<>>, args |-> <<>>,
            assigns |-> <<[path |-> <<"flag">>, method |-> "direct", value |-> [k |-> "const", val |-> VBool(FALSE)]]>>]
AddOpt3 == [name |-> "innerX", comments |-> <<>>, args |-> <<StrArg("v")>>,
            assigns |-> <<[path |-> <<"inner">>, method |-> "direct",
                           value |-> [k |-> "envelope", values |-> <<[field |-> "x", value |-> [k |-> "arg", arg |-> StrArg("v")]]>>]]>>]
AddOpt4 == [name |-> "deep", comments |-> <<>>, args |-> <<StrArg("v")>>,
            assigns |-> <<[path |-> <<"inner", "x">>, method |-> "direct", value |-> [k |-> "arg", arg |-> StrArg("v")]]>>]
Factory1 == [name |-> "mk", comments |-> <<"factory">>, args |-> <<StrArg("n")>>,
             calls |-> <<[name |-> "name", params |-> <<[k |-> "arg", arg |-> StrArg("n")]>>]>>]

BR(r, sel) == [kind |-> "b", r |-> r, sel |-> sel]
BParams(sel) ==
  {BR("omit", sel),
   BR("rename", sel) @@ [as |-> "Renamed"],
   BR("properties", sel) @@ [set |-> <<Field("prop", TString, TRUE), Field("prop2", TRef("p", "Inner"), FALSE)>>],
   BR("duplicate", sel) @@ [as |-> "Copy", exclude |-> <<>>],
   BR("duplicate", sel) @@ [as |-> "Copy", exclude |-> <<"TAGS", "x">>],
   BR("initialize", sel) @@ [set |-> <<[path |-> <<"name">>, value |-> VStr("init")], [path |-> <<"flag">>, value |-> VBool(FALSE)]>>],
   BR("initialize", sel) @@ [set |-> <<[path |-> <<"inner", "x">>, value |-> VStr("ix")]>>],
   BR("promote", sel) @@ [options |-> <<"name">>],
   BR("promote", sel) @@ [options |-> <<>>],
   BR("promote", sel) @@ [options |-> <<"NAME", "flag", "zz">>],
   BR("add_option", sel) @@ [option |-> AddOpt1],
   BR("add_option", sel) @@ [option |-> AddOpt2],
   BR("add_option", sel) @@ [option |-> AddOpt3],
   BR("add_option", sel) @@ [option |-> AddOpt4],
   BR("add_factory", sel) @@ [factory |-> Factory1]}
MergeParams(sel) ==
  {BR("merge_into", sel) @@ [source |-> "Inner", under |-> <<"inner">>, exclude |-> <<>>, rename |-> <<>>],
   BR("merge_into", sel) @@ [source |-> "Inner", under |-> <<"inner">>, exclude |-> <<"x">>, rename |-> <<[from |-> "y", to |-> "innerY"]>>],
   BR("merge_into", sel) @@ [source |-> "Inner", under |-> <<"inner">>, exclude |-> <<"zz", "ZZ">>, rename |-> <<[from |-> "x", to |-> "y"], [from |-> "y", to |-> "x"]>>],
   BR("merge_into", sel) @@ [source |-> "Missing", under |-> <<"inner">>, exclude |-> <<>>, rename |-> <<>>],
   BR("merge_into", sel) @@ [source |-> "Inner", under |-> <<"zz">>, exclude |-> <<>>, rename |-> <<>>]}
Compose(sel, src, discr, excl, nm, keep) ==
  BR("compose", sel) @@ [srcpkg |-> "p", srcname |-> src, discr |-> discr, exclude |-> excl,
                         map |-> <<[key |-> "Options", path |-> <<"opts">>]>>, name |-> nm, preserve |-> keep]
ComposeParams(sel) == {Compose(sel, "Panel", "type", <<>>, "", FALSE), Compose(sel, "Panel", "type", <<"OPTS">>, "QPanel", TRUE),
                       Compose(sel, "Missing", "type", <<>>, "", FALSE), Compose(sel, "Panel", "zz", <<>>, "", FALSE)}
BRules1 == UNION {BParams(s) : s \in BSels1} \cup UNION {MergeParams(s) : s \in BNSels}
           \cup UNION {ComposeParams(s) : s \in {BV("panelcfg"), BV("dataquery"), BO("q", "Options")}}

RootOpts == {"tags", "labels", "flag", "inner", "u", "name", "d", "items"}
OSels1 == {ON("Root", <<o>>) : o \in RootOpts}
          \cup {ON("root", <<"TAGS">>), ON("ROOT", <<"Flag">>), ON("Root", <<"zz">>), ON("Zed", <<"tags">>),
                [k |-> "by_name", pkg |-> "zz", object |-> "Root", options |-> <<"tags">>],
                [k |-> "by_name", pkg |-> "q", object |-> "Options", options |-> <<"o1">>],
                ON("Root", <<"tags", "labels", "inner">>), ON("Inner", <<"x">>), ON("Inner", <<"y">>), ON("U", <<"str">>),
                OB("Root", <<"tags">>), OB("ROOT", <<"inner">>), OB("Zed", <<"tags">>)}
OR(r, sel) == [kind |-> "o", r |-> r, sel |-> sel]
AddAsg1 == [path |-> <<"name">>, method |-> "direct", value |-> [k |-> "const", val |-> VStr("forced")]]
AddAsg2 == [path |-> <<"inner", "x">>, method |-> "direct", value |-> [k |-> "const", val |-> VStr("forced")]]
OOmit(s)  == OR("omit", s)
ORen(s)   == OR("rename", s) @@ [as |-> "renamed"]
ORenA1(s) == OR("rename_arguments", s) @@ [as |-> <<"a">>]
ORenA2(s) == OR("rename_arguments", s) @@ [as |-> <<"k", "v">>]
OA2A(s)   == OR("array_to_append", s)
OM2I(s)   == OR("map_to_index", s)
OUnf(s)   == OR("unfold_boolean", s) @@ [true_as |-> "on", false_as |-> "off"]
OSfa(s, fs) == OR("struct_fields_as_arguments", s) @@ [fields |-> fs]
OSfo(s, fs) == OR("struct_fields_as_options", s) @@ [fields |-> fs]
ODisj(s, i) == OR("disjunction_as_options", s) @@ [index |-> i]
ODup(s)   == OR("duplicate", s) @@ [as |-> "dup"]
OAdd(s, a) == OR("add_assignment", s) @@ [assign |-> a]
OCom(s)   == OR("add_comments", s) @@ [comments |-> <<"cmt", "cmt2">>]
OParams(s) == {OOmit(s), ORen(s), ORenA1(s), ORenA2(s), OA2A(s), OM2I(s), OUnf(s), OSfa(s, <<>>), OSfa(s, <<"y">>), OSfa(s, <<"y", "x">>),
               OSfo(s, <<>>), OSfo(s, <<"x">>), OSfo(s, <<"x", "y">>), ODisj(s, 0), ODisj(s, 1), ODup(s), OAdd(s, AddAsg1), OAdd(s, AddAsg2), OCom(s)}
ORules1 == UNION {OParams(s) : s \in OSels1}
Rules1 == BRules1 \cup ORules1

\* reduced alphabet for histories of two and three rules: matching selectors, and
\* selectors naming what earlier rules produce (copies, renamed and unfolded options)
Products == <<"dup", "renamed", "extra", "tag", "label", "item", "x", "y", "on", "off", "string", "str", "bool", "innerY", "o1">>
SProd == ON("Root", Products)
SCopy == OB("Copy", <<"tags", "labels", "inner", "name", "flag">>)
R(o)  == ON("Root", <<o>>)
R2Full == <<
  BR("omit", BO("p", "Inner")),
  BR("rename", BO("p", "Root")) @@ [as |-> "Renamed"],
  BR("duplicate", BO("p", "Root")) @@ [as |-> "Copy", exclude |-> <<>>],
  BR("duplicate", BO("p", "Inner")) @@ [as |-> "Copy", exclude |-> <<>>],
  BR("merge_into", BN("Root")) @@ [source |-> "Inner", under |-> <<"inner">>, exclude |-> <<>>, rename |-> <<>>],
  BR("promote", BO("p", "Root")) @@ [options |-> <<"name">>],
  BR("add_option", BO("p", "Root")) @@ [option |-> AddOpt1],
  BR("add_factory", BO("p", "Root")) @@ [factory |-> Factory1],
  BR("initialize", BO("p", "Root")) @@ [set |-> <<[path |-> <<"inner", "x">>, value |-> VStr("ix")]>>],
  BR("properties", BO("p", "Root")) @@ [set |-> <<Field("prop", TString, TRUE)>>],
  Compose(BV("panelcfg"), "Panel", "type", <<>>, "", FALSE),
  OOmit(R("tags")), OOmit(SCopy), OOmit(SProd),
  ORen(R("tags")), ORen(R("inner")), ORen(SCopy),
  ORenA1(R("tags")), ORenA1(R("name")), ORenA1(ON("Inner", <<"y">>)), ORenA1(SCopy), ORenA1(SProd),
  ORenA2(R("labels")), ORenA2(SProd),
  OA2A(R("tags")), OA2A(R("items")), OA2A(SCopy), OA2A(SProd),
  OM2I(R("labels")), OM2I(SCopy),
  OUnf(R("flag")), OUnf(SCopy), OUnf(SProd),
  OSfa(R("inner"), <<>>), OSfa(R("items"), <<>>), OSfa(SProd, <<>>), OSfa(SCopy, <<"y">>),
  OSfo(R("inner"), <<>>), OSfo(SCopy, <<>>),
  ODisj(R("d"), 0), ODisj(R("u"), 0), ODisj(SProd, 0),
  ODup(R("tags")), ODup(R("inner")), ODup(R("flag")), ODup(R("labels")),
  OAdd(R("tags"), AddAsg1), OAdd(R("flag"), AddAsg1),
  OCom(R("tags"))
>>
\* path-lengthening rules over the nested schema set: three of them chained give four-segment paths with sibling leaves
ChainProd == ON("Root", <<"l2", "l3", "n", "al", "a", "b", "c">>)
Merge(src, under) == BR("merge_into", BN("Root")) @@ [source |-> src, under |-> under, exclude |-> <<>>, rename |-> <<>>]
RChain == <<OSfo(R("deep"), <<>>), OSfo(ChainProd, <<>>), OSfa(ChainProd, <<>>), OSfo(ON("L1", <<"l2">>), <<>>),
            Merge("L1", <<"deep">>), Merge("L2", <<"deep", "l2">>), Merge("L3", <<"deep", "l2", "l3">>),
            \* property paths spelled in another letter case than the schema's fields, and case-twin fields (id / ID)
            Merge("L3", <<"Deep", "L2", "l3">>), Merge("L3", <<"deep", "al">>),
            BR("initialize", BO("p", "Root")) @@ [set |-> <<[path |-> <<"Name">>, value |-> VStr("init")]>>],
            BR("initialize", BO("p", "Root")) @@ [set |-> <<[path |-> <<"deep", "l2", "l3", "ID">>, value |-> VStr("twin")]>>],
            BR("add_option", BO("p", "Root")) @@ [option |-> [name |-> "cased", comments |-> <<>>, args |-> <<StrArg("v")>>,
                 assigns |-> <<[path |-> <<"NAME">>, method |-> "direct", value |-> [k |-> "arg", arg |-> StrArg("v")]]>>]],
            BR("add_option", BO("p", "L3")) @@ [option |-> [name |-> "twin", comments |-> <<>>, args |-> <<StrArg("v")>>,
                 assigns |-> <<[path |-> <<"ID">>, method |-> "direct", value |-> [k |-> "arg", arg |-> StrArg("v")]]>>]],
            OAdd(R("deep"), [path |-> <<"Name">>, method |-> "direct", value |-> [k |-> "const", val |-> VStr("forced")]])>>
\* thorough tier: selectors spelled in another letter case, by_builder / by_name(builder) / by_variant / from_disjunction
\* combinations, rules on copies; used for simulated histories of four rules
ORenAs(s, as) == OR("rename_arguments", s) @@ [as |-> as]
R2Extra == <<
  OOmit(ON("root", <<"TAGS">>)), ORen(ON("ROOT", <<"INNER">>)), OA2A(OB("ROOT", <<"Tags">>)), OM2I(OB("root", <<"LABELS">>)),
  OUnf(ON("root", <<"FLAG">>)), OSfo(OB("Root", <<"inner">>), <<>>), ODup(OB("Copy", <<"tags">>)), ORenA1(OB("copy", <<"NAME">>)),
  BR("rename", BN("ROOT")) @@ [as |-> "Renamed2"], BR("omit", BN("Copy")),
  BR("duplicate", BN("root")) @@ [as |-> "Copy2", exclude |-> <<"FLAG">>],
  BR("properties", BV("panelcfg")) @@ [set |-> <<Field("prop", TString, TRUE)>>], BR("omit", BD),
  BR("rename", BO("p", "u")) @@ [as |-> "Uu"],
  OR("rename", R("labels")) @@ [as |-> "TAGS"],             \* two options whose names differ only in letter case
  ORenAs(SProd, <<>>)                                       \* empty name list on options without arguments
>>
CONSTANT Ext
\* argument wiring: options with two arguments and name lists that swap or shift the old names
RWiring == <<OM2I(R("labels")), OSfa(R("inner"), <<>>), OA2A(R("tags")),
             ORenAs(R("labels"), <<"label", "key">>), ORenAs(R("labels"), <<"label", "value">>), ORenAs(R("labels"), <<"k", "key">>),
             ORenAs(R("inner"), <<"y", "x">>), ORenAs(R("inner"), <<"y", "z">>), ORenAs(R("tags"), <<"tags">>),
             \* an option rule in the common set, then the language's promote_options_to_constructor on what it produced
             BR("promote", BO("p", "Root")) @@ [options |-> <<"tags", "labels", "inner", "name">>]>>
CONSTANT Wiring
\* layout (round 6), exhaustive: option rules that leave an option with assignments its arguments do not pair with
\* (constants in front of / between the argument assignments, one envelope for several arguments), rules that address an
\* argument BY INDEX on such options, promote_options_to_constructor on the SOURCE of merge_into / on the composable
\* builder of compose (constructor arguments next to direct, append and envelope assignments), then the merge itself.
MOpt(opts) == ON("Mid", opts)
QOpt(opts) == [k |-> "by_name", pkg |-> "q", object |-> "Options", options |-> opts]
AltValueT == TDisj(<<TString, TScalar("bool")>>, "", <<>>)
\* an option added by a veneer: two arguments, three assignments, the constant between the two argument assignments
AddOptAlt == [name |-> "altW", comments |-> <<>>, args |-> <<Arg("weight", TScalar("int64")), Arg("value", AltValueT)>>,
              assigns |-> <<[path |-> <<"alt", "weight">>, method |-> "direct", value |-> [k |-> "arg", arg |-> Arg("weight", TScalar("int64"))]],
                            [path |-> <<"alt", "kind">>, method |-> "direct", value |-> [k |-> "const", val |-> VStr("alt")]],
                            [path |-> <<"alt", "value">>, method |-> "direct", value |-> [k |-> "arg", arg |-> Arg("value", AltValueT)]]>>]
RLayout == <<OA2A(MOpt(<<"items">>)),
             OSfa(MOpt(<<"leaf", "alt", "item">>), <<>>),
             ODisj(MOpt(<<"leaf", "u", "alt">>), 0),
             ODisj(MOpt(<<"altW">>), 1),
             ODisj(QOpt(<<"qu">>), 0),
             BR("promote", BO("p", "Mid")) @@ [options |-> <<"leaf", "item", "str", "name", "altW">>],
             BR("promote", BO("q", "Options")) @@ [options |-> <<"o1", "str">>],
             BR("add_option", BO("p", "Mid")) @@ [option |-> AddOptAlt],
             BR("merge_into", BN("Top")) @@ [source |-> "Mid", under |-> <<"mid">>, exclude |-> <<>>, rename |-> <<>>],
             Compose(BV("panelcfg"), "Panel", "type", <<>>, "", FALSE)>>
\* histories of four rules in the layout run: two option rules, then two builder rules (what shapes an option, what
\* promotes it, what merges the promoted builder)
LayoutShape(h, r) == IF Len(h) < 3 THEN TRUE ELSE h[1].kind = "o" /\ h[2].kind = "o" /\ h[3].kind = "b" /\ r.kind = "b"
R2 == IF Chains THEN RChain ELSE IF Wiring THEN RWiring ELSE IF Layout THEN RLayout ELSE IF Ext THEN R2Full \o R2Extra ELSE R2Full
R2All == {R2[i] @@ [lang |-> "all"] : i \in DOMAIN R2}

LangAfter(last, r) == IF last.lang = "go" THEN "go" ELSE IF last.kind = "o" /\ r.kind = "b" THEN "go" ELSE "all"
Allowed(last, r) == ~(last.lang = "go" /\ last.kind = "o" /\ r.kind = "b")
R2Index(h) == CHOOSE j \in DOMAIN R2 : (R2[j] @@ [lang |-> "all"]) = h

Init17 == case = [fields |-> <<>>, variant |-> 0] /\ hist = <<>> /\ pre = B0 /\ cur = B0 /\ err = FALSE
Step(r) == LET out == ApplyRule(SS, cur, r) IN
           /\ Defined(SS, cur, r)
           /\ hist' = Append(hist, r) /\ pre' = cur /\ cur' = out.B /\ err' = out.err /\ case' = case
Next17 == /\ ~err /\ Len(hist) < MaxLen
          /\ \/ /\ hist = <<>>
                /\ IF FirstFromR2 THEN \E r \in R2All : Step(r)
                   ELSE \E r \in Rules1, l \in {"all", "go"} : Step(r @@ [lang |-> l])
             \/ /\ hist # <<>> /\ hist[1] \in R2All
                /\ \E i \in DOMAIN R2 :
                     /\ Allowed(Last(hist), R2[i])
                     /\ (IF Layout THEN LayoutShape(hist, R2[i]) ELSE TRUE)
                     /\ (Len(hist) = 1 => (i + R2Index(hist[1])) % NSlices = Slice)
                     /\ Step(R2[i] @@ [lang |-> LangAfter(Last(hist), R2[i])])
Spec17 == Init17 /\ [][Next17]_vars

\* design level: the requirement-level actions satisfy the contracts and keep builders well typed
ModelOK == hist = <<>> \/ err \/ StepViolated(SS, pre, Last(hist), cur) = {}
           \/ PrintT(<<"MODELFAIL", ToJson([hist |-> hist, violated |-> StepViolated(SS, pre, Last(hist), cur)])>>)
B0WellTyped == WellTyped(SS, B0)
Emit17 == IF hist = <<>> THEN PrintT(<<"S17", ToJson([S |-> SS, B0 |-> B0])>>) ELSE PrintT(<<"CASE17", ToJson([hist |-> hist, post |-> cur, err |-> err])>>)
===============================================================================
