CONSTANTS
  Keys = {"", "b", "c"}
  Vals = {0, 3}
  MaxLen = 3
  Docs <- MCDocs
SPECIFICATION HSpec
INVARIANTS HNoDup HLenLive Emit
CHECK_DEADLOCK FALSE
