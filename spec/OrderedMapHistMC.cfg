CONSTANTS
  Keys = {"a", "b", "c"}
  Vals = {1, 2}
  MaxLen = 3
  Docs <- MCDocs
SPECIFICATION HSpec
INVARIANTS HNoDup HLenLive Emit
CHECK_DEADLOCK FALSE
