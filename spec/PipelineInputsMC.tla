-------------------------- MODULE PipelineInputsMC --------------------------
(* Bounded universe of gated / parametrised pipelines: <= MaxInputs inputs drawn from one base input and its one- and   *)
(* two-place variations, x 2 common-pass settings x 5 parameter environments. One state = one case; the invariant      *)
(* prints it with the expected outcome and the expansion; the laws of PipelineInputs are checked on every case.        *)
EXTENDS PipelineInputs, Json

CONSTANTS MaxInputs, Slice, NSlices

MCVerRank == [v \in {"v10.0.0", "v11.2.x", "v11.3.0"} |-> CASE v = "v10.0.0" -> 1 [] v = "v11.2.x" -> 2 [] OTHER -> 3]

Lit(v) == [k |-> "lit", v |-> v, p |-> "-"]
Par(p) == [k |-> "param", v |-> "-", p |-> p]
All == [k |-> "all", v |-> "-", p |-> "-"]
None == [k |-> "none", v |-> "-", p |-> "-"]
Base == [fmt |-> "js", pkg |-> Lit("p"), cond |-> "none", allowed |-> All, tf |-> None, meta |-> "none", objs |-> "AB"]

Variants ==
     {[Base EXCEPT !.cond = c] : c \in Conds}
  \cup {[Base EXCEPT !.pkg = Par("pkg")], [Base EXCEPT !.pkg = Lit("q")], [Base EXCEPT !.pkg = Par("pkg"), !.cond = "eq_sel_on"]}
  \cup {[Base EXCEPT !.allowed = Lit("A")], [Base EXCEPT !.allowed = Par("obj")], [Base EXCEPT !.allowed = Lit("B"), !.tf = Lit("t1")]}
  \cup {[Base EXCEPT !.tf = Lit("t1")], [Base EXCEPT !.tf = Lit("t2")], [Base EXCEPT !.tf = Par("tf")], [Base EXCEPT !.tf = Par("tf"), !.allowed = Par("obj")]}
  \cup {[Base EXCEPT !.meta = "m1"], [Base EXCEPT !.meta = "m2"], [Base EXCEPT !.meta = "m1", !.pkg = Lit("q")]}
  \cup {[Base EXCEPT !.objs = "A"], [Base EXCEPT !.objs = "Ay"], [Base EXCEPT !.objs = "Ay", !.cond = "semver_ge"]}
  \cup {[Base EXCEPT !.fmt = f, !.pkg = Lit("q")] : f \in {"oa", "cue"}}
  \cup {[Base EXCEPT !.fmt = f, !.pkg = Par("pkg"), !.cond = "main_or_semver", !.objs = "A"] : f \in {"oa", "cue"}}

U(v) == [k \in ParamNames |-> Unset] @@ v
EnvSet == {
  [name |-> "file",      file |-> [sel |-> "on",  ver |-> "v11.3.0", pkg |-> "p", obj |-> "A", tf |-> "t1"], cli |-> [k \in ParamNames |-> Unset]],
  [name |-> "override",  file |-> [sel |-> "on",  ver |-> "v11.3.0", pkg |-> "p", obj |-> "A", tf |-> "t1"],
                         cli  |-> [sel |-> "off", ver |-> "v10.0.0", pkg |-> "q", obj |-> Unset, tf |-> "t2"]],
  [name |-> "cli",       file |-> [k \in ParamNames |-> Unset], cli |-> [sel |-> "on", ver |-> "main", pkg |-> "q", obj |-> "B", tf |-> "t2"]],
  [name |-> "off",       file |-> [sel |-> "off", ver |-> "v10.0.0", pkg |-> "q", obj |-> "B", tf |-> "t1"], cli |-> [k \in ParamNames |-> Unset]],
  [name |-> "partial",   file |-> [sel |-> Unset, ver |-> Unset, pkg |-> "p", obj |-> "A", tf |-> "t1"], cli |-> [k \in ParamNames |-> Unset]]}

Seqs == UNION {[1..n -> Variants] : n \in 1..MaxInputs}
(* same-package inputs written in different schema languages are left out: whether two parsers give one definition the
   same IR is not this module's business *)
Defined(P, env) ==
  LET R == Resolve(env) IN
  \A i, j \in DOMAIN P.inputs : (i < j /\ Val(P.inputs[i].pkg, R) = Val(P.inputs[j].pkg, R)) => P.inputs[i].fmt = P.inputs[j].fmt

VARIABLES P, env, n
vars == <<P, env, n>>
Init == /\ P \in [inputs : Seqs, common : BOOLEAN]
        /\ env \in EnvSet
        /\ Defined(P, env)
        /\ n = 0
        /\ (NSlices = 1 \/ (Len(P.inputs) + (IF P.common THEN 1 ELSE 0) + Cardinality({i \in DOMAIN P.inputs : P.inputs[i].cond # "none"})) % NSlices = Slice \/ Len(P.inputs) = 1)
Next == UNCHANGED vars
Spec == Init /\ [][Next]_vars

Laws == SkipLaw(P, env) /\ ErrorLaw(P, env) /\ OverrideLaw(P, env) /\ UnionLaw(P, env)
Pk(e) == {[pkg |-> r.pkg, meta |-> r.meta, objects |-> r.objects] : r \in e.pkgs}
Emit == PrintT(<<"CASE", ToJson([inputs |-> P.inputs, common |-> P.common, env |-> env,
                                 expected |-> [err |-> Expected(P, env).err, pkgs |-> Pk(Expected(P, env))],
                                 expansion |-> Expansion(P, env)])>>)
================================================================================
