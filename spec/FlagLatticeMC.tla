----------------------------- MODULE FlagLatticeMC -----------------------------
(* Bounded universe of C02 (DESIGN 6 C02):                                      *)
(*   Mode = "configs": one state per VALID configuration of every language;     *)
(*                     TLC enumerates the lattice completely and prints         *)
(*                     CONFIG {lang, out, on}. The invariant also checks that   *)
(*                     every parameter-value pair of the lattice is realised    *)
(*                     (the covering-array argument's universe).                *)
(*   Mode = "shapes":  one state per IR shape of the covering set; prints       *)
(*                     SHAPE {id, name, constructs, schema, expressible}.       *)
(* The shapes are schema terms of Semantics.tla (rendered as JSON Schema,       *)
(* OpenAPI and CUE by the harness) plus one extra kind for allOf/intersections. *)
EXTENDS Semantics, FlagLattice, Json

CONSTANTS Mode

VARIABLES cfg, si
vars == <<cfg, si>>

\* intersection: allOf(references..., inline struct)
TInter(refs, fs) == [k |-> "inter", refs |-> refs, fields |-> fs]

S0      == TStr(-1, -1)
I0      == TInt("int64", NoB, NoB)
N0      == TNum("float64", NoB, NoB)
Sh(n, cons, defs) == [name |-> n, constructs |-> cons, schema |-> [defs |-> defs, root |-> "Root"]]
R1(t)   == Def("Root", TStruct(<<F("w", S0), F("v", t)>>))
ROpt(t) == Def("Root", TStruct(<<F("w", S0), FOpt("v", t)>>))
RF(fs)  == Def("Root", TStruct(fs))
Child   == Def("Child", TStruct(<<F("cid", I0)>>))
DA      == Def("A", TStruct(<<F("kind", TConst(JStr("a"))), F("x", I0)>>))
DB      == Def("B", TStruct(<<F("kind", TConst(JStr("b"))), F("y", S0)>>))
DU      == TDUnion("kind", <<"A", "B">>)
E2      == TEnum(<<"a", "b">>)
Node    == Def("Node", TStruct(<<F("v", S0), FOpt("next", TRef("Node"))>>))

\* bare keywords / builtins of each target language (controls) and the same words behind the prefixes the formatters strip;
\* the two sets are never in one struct: `class` and `_class` would collide after stripping, which is another matter
PyWords    == <<"class", "from", "import", "def", "lambda", "None", "pass", "global", "with", "yield", "is", "in", "not", "print", "id", "list",
                "type", "len", "self">>
PyPrefixed == <<"_class", "$from", "__import", "_def", "$lambda", "_None", "__pass", "$global", "_with", "$yield", "_is", "$in", "_not", "_print",
                "_list", "$type", "_self">>
GoWords    == <<"type", "func", "range", "map", "go", "select", "interface", "chan", "defer", "package", "var", "string", "error", "nil", "len">>
GoPrefixed == <<"_type", "$func", "__range", "_map", "$go", "_select", "$interface", "_chan", "$defer", "_package", "$var", "_string", "_nil">>
JavaWords  == <<"class", "public", "static", "new", "int", "default", "package", "final", "void", "enum", "interface", "abstract", "this", "null",
                "Object", "String">>
JavaPrefixed == <<"_class", "$public", "__static", "_new", "$int", "_default", "$package", "_final", "$void", "_enum", "$abstract", "_this", "$null">>
PhpTsWords == <<"function", "echo", "array", "namespace", "abstract", "clone", "var", "delete", "export", "typeof", "enum", "default", "await",
                "constructor", "prototype", "this">>
PhpTsPrefixed == <<"_function", "$echo", "__array", "_namespace", "$clone", "_var", "$delete", "_export", "$typeof", "_default", "$await",
                   "_constructor", "$this">>
OddWords   == <<"1st", "2", "a-b", "c.d", "e f", "é", "snake_case", "kebab-case", "UPPER", "x1", "_", "with space and-dash">>

Shapes == <<
  \* ---- scalars of every width, bounds
  Sh("scalars", {"scalar"}, <<RF(<<
      F("i8", TInt("int8", NoB, NoB)), F("i16", TInt("int16", NoB, NoB)), F("i32", TInt("int32", NoB, NoB)), F("i64", I0),
      F("u8", TInt("uint8", NoB, NoB)), F("u16", TInt("uint16", NoB, NoB)), F("u32", TInt("uint32", NoB, NoB)),
      F("u64", TInt("uint64", NoB, NoB)), F("f32", TNum("float32", NoB, NoB)), F("f64", N0), F("b", TBool), F("s", S0)>>)>>),
  Sh("bounds", {"scalar", "bounds"}, <<RF(<<
      F("i", TInt("int64", Ge(0), Le(2))), F("j", TInt("int32", Gt(0), Lt(300))), F("s", TStr(1, 2)),
      F("n", TNum("float64", Gt(0), NoB)), FOpt("oi", TInt("int64", Ge(1), NoB)), FOpt("os", TStr(1, -1)),
      F("ai", TArr(TInt("int64", Ge(0), NoB))), F("ms", TMap(TStr(1, -1)))>>)>>),
  \* ---- unions
  Sh("union-scalars", {"union-scalars"}, <<R1(TUnion(<<S0, I0>>))>>),
  Sh("union-scalars-3", {"union-scalars"}, <<R1(TUnion(<<S0, TBool, N0>>))>>),
  Sh("union-scalars-optional", {"union-scalars", "optional"}, <<ROpt(TUnion(<<S0, I0>>))>>),
  Sh("union-scalars-array", {"union-scalars", "array"}, <<R1(TArr(TUnion(<<S0, I0>>)))>>),
  Sh("dunion", {"dunion"}, <<R1(DU), DA, DB>>),
  Sh("dunion-optional", {"dunion", "optional"}, <<ROpt(DU), DA, DB>>),
  Sh("dunion-array", {"dunion", "array"}, <<R1(TArr(DU)), DA, DB>>),
  Sh("dunion-map", {"dunion", "map"}, <<R1(TMap(DU)), DA, DB>>),
  \* ---- maps and arrays
  Sh("map-of-struct", {"map", "map-of-struct"}, <<R1(TMap(TRef("Child"))), Child>>),
  Sh("map-of-struct-optional", {"map", "map-of-struct", "optional"}, <<ROpt(TMap(TRef("Child"))), Child>>),
  Sh("map-of-anon-struct", {"map", "anon-struct"}, <<R1(TMap(TStruct(<<F("c", S0)>>)))>>),
  Sh("map-of-scalar", {"map"}, <<RF(<<F("ms", TMap(S0)), F("mi", TMap(I0)), F("mb", TMap(TBool)), FOpt("mo", TMap(N0))>>)>>),
  Sh("map-of-array", {"map", "array"}, <<R1(TMap(TArr(S0)))>>),
  Sh("map-of-map", {"map"}, <<R1(TMap(TMap(I0)))>>),
  Sh("map-of-array-of-refs", {"map", "array", "array-of-refs"}, <<R1(TMap(TArr(TRef("Child")))), Child>>),
  Sh("array-of-map-of-refs", {"map", "array", "map-of-struct"}, <<R1(TArr(TMap(TRef("Child")))), Child>>),
  Sh("map-of-nullable-ref", {"map", "nullable"}, <<R1(TMap(TNullable(TRef("Child")))), Child>>),
  Sh("array-of-refs", {"array", "array-of-refs"}, <<R1(TArr(TRef("Child"))), Child>>),
  Sh("array-of-refs-optional", {"array", "array-of-refs", "optional"}, <<ROpt(TArr(TRef("Child"))), Child>>),
  Sh("array-of-scalars", {"array"}, <<RF(<<F("as", TArr(S0)), F("ai", TArr(I0)), F("ab", TArr(TBool)), FOpt("ao", TArr(N0))>>)>>),
  Sh("array-of-arrays", {"array"}, <<RF(<<F("aa", TArr(TArr(S0))), F("aar", TArr(TArr(TRef("Child"))))>>), Child>>),
  Sh("array-of-maps", {"array", "map"}, <<R1(TArr(TMap(S0)))>>),
  Sh("array-of-anon-struct", {"array", "anon-struct"}, <<R1(TArr(TStruct(<<F("c", I0)>>)))>>),
  Sh("array-of-nullable-ref", {"array", "nullable"}, <<R1(TArr(TNullable(TRef("Child")))), Child>>),
  \* ---- enums and constants
  Sh("enum-str", {"enum-str"}, <<RF(<<F("e", E2), FOpt("oe", E2)>>)>>),
  Sh("enum-int", {"enum-int"}, <<RF(<<F("e", TIEnum(<<1, 2>>)), FOpt("oe", TIEnum(<<1, 2>>))>>)>>),
  Sh("enum-top", {"enum-str"}, <<RF(<<F("e", TRef("Color")), FOpt("oe", TRef("Color")), F("ae", TArr(TRef("Color"))), F("me", TMap(TRef("Color")))>>),
                                Def("Color", TEnum(<<"red", "green">>))>>),
  Sh("enum-in-collections", {"enum-str", "array", "map"}, <<RF(<<F("ae", TArr(E2)), F("me", TMap(E2))>>)>>),
  Sh("const-str", {"constant"}, <<RF(<<F("c", TConst(JStr("x"))), FOpt("oc", TConst(JStr("y")))>>)>>),
  Sh("const-int", {"constant"}, <<RF(<<F("c", TConst(JInt(2))), FOpt("oc", TConst(JInt(3)))>>)>>),
  Sh("const-bool", {"constant"}, <<RF(<<F("c", TConst(JBool(TRUE)))>>)>>),
  Sh("const-top", {"constant"}, <<RF(<<F("w", S0)>>), Def("Version", TConst(JStr("v1"))), Def("Answer", TConst(JInt(42)))>>),
  \* ---- defaults of every type
  Sh("default-str", {"default"}, <<RF(<<FDef("s", S0, JStr("ab")), Fld("os", S0, FALSE, FALSE, JStr("cd"))>>)>>),
  Sh("default-bool", {"default"}, <<RF(<<FDef("b", TBool, JBool(TRUE)), Fld("ob", TBool, FALSE, FALSE, JBool(FALSE))>>)>>),
  Sh("default-int", {"default", "default-int"}, <<RF(<<FDef("i", I0, JInt(1)), Fld("oi", I0, FALSE, FALSE, JInt(2))>>)>>),
  Sh("default-num", {"default", "default-num"}, <<RF(<<FDef("n", N0, JNum(15)), Fld("on", N0, FALSE, FALSE, JNum(20))>>)>>),
  Sh("default-enum", {"default", "enum-str"}, <<RF(<<FDef("e", E2, JStr("b")), FDef("re", TRef("Color"), JStr("green"))>>),
                                                Def("Color", TEnum(<<"red", "green">>))>>),
  Sh("default-array", {"default", "array"}, <<RF(<<FDef("as", TArr(S0), JArr(<<JStr("a"), JStr("b")>>)), FDef("ea", TArr(S0), JArr(<<>>))>>)>>),
  Sh("default-array-int", {"default", "array", "default-int"}, <<RF(<<FDef("ai", TArr(I0), JArr(<<JInt(1), JInt(2)>>))>>)>>),
  Sh("default-map", {"default", "map"}, <<RF(<<FDef("m", TMap(S0), JObj(<<P("k1", JStr("a"))>>))>>)>>),
  Sh("default-struct", {"default", "ref"}, <<RF(<<FDef("c", TRef("Named"), JObj(<<P("name", JStr("a"))>>))>>),
                                             Def("Named", TStruct(<<F("name", S0)>>))>>),
  Sh("default-nested", {"default", "ref"}, <<RF(<<F("c", TRef("WithDefaults"))>>),
                                            Def("WithDefaults", TStruct(<<FDef("name", S0, JStr("a")), FDef("on", TBool, JBool(TRUE))>>))>>),
  \* ---- defaults on OPTIONAL and NULLABLE fields of every kind (enum anonymous / named / integer, scalars, reference, collections)
  Sh("default-enum-optional", {"default", "enum-str", "optional"}, <<RF(<<
      Fld("oe", E2, FALSE, FALSE, JStr("b")), Fld("ore", TRef("Color"), FALSE, FALSE, JStr("green")), Fld("oie", TIEnum(<<1, 2>>), FALSE, FALSE, JInt(2))>>),
      Def("Color", TEnum(<<"red", "green">>))>>),
  Sh("default-enum-nullable", {"default", "enum-str", "nullable"}, <<RF(<<
      Fld("one", E2, FALSE, TRUE, JStr("a")), Fld("onre", TRef("Color"), FALSE, TRUE, JStr("red")), Fld("ne", E2, TRUE, TRUE, JStr("b")),
      Fld("nre", TRef("Color"), TRUE, TRUE, JStr("green"))>>), Def("Color", TEnum(<<"red", "green">>))>>),
  Sh("default-scalars-nullable", {"default", "nullable"}, <<RF(<<
      Fld("ns", S0, TRUE, TRUE, JStr("ab")), Fld("ons", S0, FALSE, TRUE, JStr("cd")), Fld("ni", I0, TRUE, TRUE, JInt(1)), Fld("oni", I0, FALSE, TRUE, JInt(2)),
      Fld("nn", N0, TRUE, TRUE, JNum(15)), Fld("onb", TBool, FALSE, TRUE, JBool(TRUE))>>)>>),
  Sh("default-collections-optional", {"default", "optional", "array", "map", "ref"}, <<RF(<<
      Fld("oa", TArr(S0), FALSE, FALSE, JArr(<<JStr("a")>>)), Fld("om", TMap(S0), FALSE, FALSE, JObj(<<P("k1", JStr("a"))>>)),
      Fld("oc", TRef("Named"), FALSE, FALSE, JObj(<<P("name", JStr("a"))>>))>>), Def("Named", TStruct(<<F("name", S0)>>))>>),
  \* ---- number defaults that are whole numbers, negative, large, zero, float32
  Sh("default-num-whole", {"default", "default-num"}, <<RF(<<
      FDef("ten", N0, JNum(100)), Fld("otwo", N0, FALSE, FALSE, JNum(20)), FDef("neg", N0, JNum(-30)), FDef("big", N0, JNum(2000000000)),
      FDef("zero", N0, JNum(0)), FDef("frac", N0, JNum(25)), FDef("f32", TNum("float32", NoB, NoB), JNum(20)),
      Fld("of32", TNum("float32", NoB, NoB), FALSE, FALSE, JNum(-10))>>)>>),
  \* ---- nullable / optional
  Sh("nullable", {"nullable"}, <<RF(<<FNull("ns", S0), FNull("ni", I0), FOptNull("ons", S0), FNull("nt", TTime)>>)>>),
  Sh("optional", {"optional"}, <<RF(<<FOpt("os", S0), FOpt("oi", I0), FOpt("ob", TBool), FOpt("on", N0), FOpt("oc", TRef("Child")),
                                      FOpt("oa", TArr(S0)), FOpt("om", TMap(S0)), FOpt("oin", TStruct(<<F("z", S0)>>))>>), Child>>),
  \* ---- the null type as a property type of its own
  Sh("null-type", {"null"}, <<RF(<<F("w", S0), FOpt("n", [k |-> "null"])>>)>>),
  \* ---- a JSON Schema type list that is not a union of scalars
  Sh("type-list-with-array", {"type-list"}, <<RF(<<F("w", S0), FOpt("m", [k |-> "typelist", types |-> <<"string", "array">>])>>)>>),
  \* ---- references
  Sh("ref", {"ref"}, <<RF(<<F("c", TRef("Child")), FOpt("oc", TRef("Child"))>>), Child>>),
  Sh("recursive", {"ref", "recursive"}, <<RF(<<F("n", TRef("Node")), FOpt("on", TRef("Node"))>>), Node>>),
  Sh("recursive-array", {"ref", "recursive", "array"}, <<RF(<<F("root", TRef("Tree"))>>),
      Def("Tree", TStruct(<<F("v", I0), FOpt("kids", TArr(TRef("Tree"))), FOpt("idx", TMap(TRef("Tree")))>>))>>),
  Sh("alias", {"ref", "alias"}, <<RF(<<F("a", TRef("Alias")), F("s", TRef("StrAlias")), F("l", TRef("ListAlias")), F("m", TRef("MapAlias"))>>),
      Child, Def("Alias", TRef("Child")), Def("StrAlias", S0), Def("ListAlias", TArr(S0)), Def("MapAlias", TMap(I0))>>),
  \* ---- references to NAMED collections (a definition that is an array / a map), optional and nullable
  Sh("named-collections", {"ref", "alias", "named-collection", "array", "map"}, <<RF(<<
      F("l", TRef("Names")), F("m", TRef("Counts")), F("lc", TRef("Kids")), F("mc", TRef("KidsByName"))>>),
      Child, Def("Names", TArr(S0)), Def("Counts", TMap(I0)), Def("Kids", TArr(TRef("Child"))), Def("KidsByName", TMap(TRef("Child")))>>),
  Sh("named-collections-optional", {"ref", "alias", "named-collection", "array", "map", "optional"}, <<RF(<<
      FOpt("l", TRef("Names")), FOpt("m", TRef("Counts")), FOpt("lc", TRef("Kids")), FOpt("mc", TRef("KidsByName")),
      FOpt("ll", TRef("Matrix")), FOpt("mm", TRef("Nested"))>>),
      Child, Def("Names", TArr(S0)), Def("Counts", TMap(I0)), Def("Kids", TArr(TRef("Child"))), Def("KidsByName", TMap(TRef("Child"))),
      Def("Matrix", TArr(TArr(I0))), Def("Nested", TMap(TMap(S0)))>>),
  Sh("named-collections-nullable", {"ref", "alias", "named-collection", "array", "map", "nullable"}, <<RF(<<
      FNull("l", TRef("Names")), FNull("m", TRef("Counts")), FOptNull("lc", TRef("Kids")), FOptNull("mc", TRef("KidsByName"))>>),
      Child, Def("Names", TArr(S0)), Def("Counts", TMap(I0)), Def("Kids", TArr(TRef("Child"))), Def("KidsByName", TMap(TRef("Child")))>>),
  Sh("named-collections-in-collections", {"ref", "alias", "named-collection", "array", "map"}, <<RF(<<
      F("al", TArr(TRef("Names"))), F("ml", TMap(TRef("Names"))), FOpt("am", TArr(TRef("Counts")))>>),
      Def("Names", TArr(S0)), Def("Counts", TMap(I0))>>),
  \* ---- identifier stress: property names that are keywords / builtins of a target language, bare and behind the
  \* prefixes the formatters strip (`_`, `$`), leading digits, dashes, spaces, case collisions
  Sh("identifiers-python", {"identifiers", "identifiers-keyword"}, <<RF([i \in DOMAIN PyWords |-> FOpt(PyWords[i], S0)])>>),
  Sh("identifiers-python-prefixed", {"identifiers", "identifiers-prefixed"}, <<RF([i \in DOMAIN PyPrefixed |-> FOpt(PyPrefixed[i], S0)])>>),
  Sh("identifiers-go", {"identifiers", "identifiers-keyword"}, <<RF([i \in DOMAIN GoWords |-> FOpt(GoWords[i], S0)])>>),
  Sh("identifiers-go-prefixed", {"identifiers", "identifiers-prefixed"}, <<RF([i \in DOMAIN GoPrefixed |-> FOpt(GoPrefixed[i], S0)])>>),
  Sh("identifiers-java", {"identifiers", "identifiers-keyword"}, <<RF([i \in DOMAIN JavaWords |-> FOpt(JavaWords[i], S0)])>>),
  Sh("identifiers-java-prefixed", {"identifiers", "identifiers-prefixed"}, <<RF([i \in DOMAIN JavaPrefixed |-> FOpt(JavaPrefixed[i], S0)])>>),
  Sh("identifiers-php-ts", {"identifiers", "identifiers-keyword"}, <<RF([i \in DOMAIN PhpTsWords |-> FOpt(PhpTsWords[i], S0)])>>),
  Sh("identifiers-php-ts-prefixed", {"identifiers", "identifiers-prefixed"}, <<RF([i \in DOMAIN PhpTsPrefixed |-> FOpt(PhpTsPrefixed[i], S0)])>>),
  Sh("identifiers-odd", {"identifiers", "identifiers-odd"}, <<RF([i \in DOMAIN OddWords |-> FOpt(OddWords[i], S0)])>>),
  Sh("identifiers-required-typed", {"identifiers", "identifiers-prefixed"}, <<RF(<<F("_class", I0), F("$from", TBool), F("__import", TArr(S0)), F("def", TRef("Child")),
      F("type", TMap(S0)), F("1st", S0), F("a-b", I0), FDef("_lambda", S0, JStr("x")), FOpt("$ref", E2)>>), Child>>),
  \* ---- audit of notes/MUTATION_CLASSES.md: falsy defaults (5), one type reused in every mode (6), width boundaries (7), depth 3 (8),
  \* alias chains of 2 and 3 hops (13), enums whose first member is not representative (4)
  Sh("default-falsy", {"default"}, <<RF(<<FDef("s", S0, JStr("")), FDef("i", I0, JInt(0)), FDef("n", N0, JNum(0)), FDef("b", TBool, JBool(FALSE)),
      FDef("a", TArr(S0), JArr(<<>>)), FDef("m", TMap(S0), JObj(<<>>)), Fld("os", S0, FALSE, FALSE, JStr("")), Fld("oi", I0, FALSE, FALSE, JInt(0)),
      Fld("ob", TBool, FALSE, FALSE, JBool(FALSE)), Fld("oe", E2, FALSE, FALSE, JStr("a"))>>)>>),
  Sh("default-int-widths", {"default", "default-int"}, <<RF(<<FDef("i8", TInt("int8", NoB, NoB), JInt(127)), FDef("ni8", TInt("int8", NoB, NoB), JInt(-128)),
      FDef("u8", TInt("uint8", NoB, NoB), JInt(255)), FDef("i16", TInt("int16", NoB, NoB), JInt(32767)), FDef("u16", TInt("uint16", NoB, NoB), JInt(65535)),
      FDef("i32", TInt("int32", NoB, NoB), JInt(214748364)), FDef("i64", I0, JInt(-214748364))>>)>>),
  Sh("optional-reuse-modes", {"optional", "nullable", "ref", "dunion", "union-scalars"}, <<RF(<<
      F("r", TRef("Child")), FOpt("o", TRef("Child")), FNull("n", TRef("Child")), FOptNull("on", TRef("Child")), F("r2", TRef("Child")),
      F("du", DU), FOpt("odu", DU), F("u", TUnion(<<S0, I0>>)), FOpt("ou", TUnion(<<S0, I0>>)), F("e", TRef("Color")), FOpt("oe", TRef("Color")),
      FNull("ne", TRef("Color")), F("ar", TArr(TNullable(TRef("Child")))), FOpt("oar", TArr(TRef("Child")))>>), Child, DA, DB, Def("Color", TEnum(<<"red", "green">>))>>),
  Sh("array-of-depth-3", {"array", "map"}, <<RF(<<F("aaa", TArr(TArr(TArr(S0)))), F("mmm", TMap(TMap(TMap(I0)))), F("ama", TArr(TMap(TArr(TRef("Child"))))),
      FOpt("oaaa", TArr(TArr(TArr(TRef("Child")))))>>), Child>>),
  Sh("alias-chains", {"ref", "alias"}, <<RF(<<F("s3", TRef("S3")), F("c3", TRef("C3")), F("e2", TRef("E2a")), FOpt("os3", TRef("S3")), F("l2", TRef("L2")),
      FDef("ds2", TRef("S2"), JStr("x"))>>), Child, Def("S1", TStr(1, -1)), Def("S2", TRef("S1")), Def("S3", TRef("S2")), Def("C1", TRef("Child")),
      Def("C2", TRef("C1")), Def("C3", TRef("C2")), Def("E1", TEnum(<<"a", "b">>)), Def("E2a", TRef("E1")), Def("L1", TArr(TRef("C1"))), Def("L2", TRef("L1"))>>),
  Sh("enum-mixed-members", {"enum-str"}, <<RF(<<F("e", TEnum(<<"1x", "b", "a-b", "B">>)), FOpt("oe", TEnum(<<"b", "1x">>)), F("re", TRef("Mixed"))>>),
      Def("Mixed", TEnum(<<"2nd", "first", "third one">>))>>),
  \* ---- named scalars / enums / collections that carry constraints, referenced in every mode and from collections (audit 13 / 6)
  Sh("alias-constrained", {"ref", "alias", "bounds"}, <<RF(<<
      F("lv", TRef("Level")), FOpt("olv", TRef("Level")), FNull("nlv", TRef("Level")), FOptNull("onlv", TRef("Level")),
      F("nm", TRef("Name")), FOpt("onm", TRef("Name")), FOpt("ort", TRef("Ratio")), F("alv", TArr(TRef("Level"))), F("mnm", TMap(TRef("Name"))),
      FOpt("oalv", TArr(TRef("Level"))), FOpt("ocl", TRef("Color")), FOpt("otags", TRef("Tags")), FDef("dlv", TRef("Level"), JInt(2))>>),
      Def("Level", TInt("int64", Ge(1), Le(5))), Def("Name", TStr(1, 9)), Def("Ratio", TNum("float64", Gt(0), NoB)),
      Def("Color", TEnum(<<"red", "green">>)), Def("Tags", TArr(TStr(1, -1)))>>),
  \* ---- a struct-valued default that gives only SOME fields of the referred struct, the missing ones being references themselves
  Sh("default-struct-partial", {"default", "ref"}, <<RF(<<FDef("w", TRef("Wrapper"), JObj(<<P("label", JStr("x"))>>)),
      Fld("ow", TRef("Wrapper"), FALSE, FALSE, JObj(<<P("label", JStr("y"))>>)), F("plain", TRef("Wrapper"))>>),
      Def("Wrapper", TStruct(<<F("label", S0), F("nested", TRef("Nested")), FOpt("onested", TRef("Nested")), F("kids", TArr(TRef("Nested"))),
                               F("color", TRef("Color"))>>)),
      Def("Nested", TStruct(<<F("n", I0)>>)), Def("Color", TEnum(<<"red", "green">>))>>),
  \* ---- unions of scalars WITH collection, enum and any branches
  Sh("union-scalars-collections", {"union-scalars", "map", "array"}, <<RF(<<
      F("sm", TUnion(<<S0, TMap(S0)>>)), F("sa", TUnion(<<S0, TArr(S0)>>)), FOpt("ima", TUnion(<<I0, TMap(I0), TArr(S0)>>)),
      F("bm", TUnion(<<TBool, TMap(TBool)>>)), FOpt("se", TUnion(<<E2, I0>>)), F("san", TUnion(<<S0, TArr(TAny)>>)),
      F("am", TArr(TUnion(<<S0, TMap(S0)>>)))>>)>>),
  \* ---- date-time, any
  Sh("time", {"time"}, <<RF(<<F("t", TTime), FOpt("ot", TTime), F("at", TArr(TTime)), F("mt", TMap(TTime))>>)>>),
  Sh("any", {"any"}, <<RF(<<F("an", TAny), FOpt("oan", TAny), F("aan", TArr(TAny)), F("man", TMap(TAny))>>)>>),
  \* ---- intersections / allOf
  Sh("intersection", {"intersection"}, <<RF(<<F("i", TRef("Ext"))>>), Def("Base", TStruct(<<F("b", S0)>>)),
                                        Def("Ext", TInter(<<"Base">>, <<F("x", I0)>>))>>),
  Sh("intersection-refs", {"intersection"}, <<RF(<<F("i", TRef("Both"))>>), Def("Base", TStruct(<<F("b", S0)>>)),
                                             Def("Other", TStruct(<<F("o", TBool)>>)), Def("Both", TInter(<<"Base", "Other">>, <<>>))>>),
  \* ---- nested anonymous structs
  Sh("anon-struct", {"anon-struct"}, <<RF(<<F("inl", TStruct(<<F("z", I0)>>)), FOpt("oinl", TStruct(<<F("y", S0)>>))>>)>>),
  Sh("anon-struct-nested", {"anon-struct"}, <<RF(<<F("l1", TStruct(<<F("l2", TStruct(<<F("z", I0), FOpt("e", E2)>>)), F("a", TArr(TStruct(<<F("q", S0)>>)))>>))>>)>>),
  \* ---- composites (several constructs side by side in one package)
  Sh("kitchen-sink", {"composite"}, <<
    RF(<<F("id", TInt("int64", Ge(0), Le(2))), F("name", TStr(1, 2)), FOpt("ratio", TNum("float64", Gt(0), NoB)),
         FOptNull("on", S0), FNull("nn", S0), F("kids", TArr(TRef("Child"))), F("labels", TMap(TStr(1, -1))),
         FOpt("mk", TMap(TRef("Child"))), F("u", TUnion(<<S0, I0>>)), F("du", DU), FOpt("e", E2), FOpt("ie", TIEnum(<<1, 2>>)),
         FOpt("c", TConst(JStr("x"))), F("when", TTime), F("an", TAny), F("inl", TStruct(<<F("z", TInt("int64", Ge(1), NoB))>>)),
         FOpt("rec", TRef("Node")), FOpt("oa", TArr(S0)), FDef("ds", S0, JStr("ab")), FDef("db", TBool, JBool(TRUE))>>),
    Child, Node, DA, DB>>),
  Sh("collections-of-collections", {"composite"}, <<
    RF(<<F("m", TMap(TArr(TRef("Mid")))), F("aa", TArr(TArr(TMap(S0))))>>),
    Def("Mid", TStruct(<<F("inner", TMap(TStr(1, 2))), FOpt("leaf", TRef("Child")), F("us", TArr(TUnion(<<S0, TBool>>)))>>)), Child>>)
>>

ShapeExpressible(s) == [l \in Langs |-> Expressible(l, s.constructs)]

AllConfigs == UNION {Lattice(L) : L \in Langs}
NoCfg == [lang |-> "none", out |-> {}, on |-> {}]

Init == IF Mode = "configs" THEN cfg \in AllConfigs /\ si = 0
        ELSE cfg = NoCfg /\ si \in DOMAIN Shapes
Next == UNCHANGED vars
Spec == Init /\ [][Next]_vars

\* the covering-array universe is what the harness must cover: print it once per language
PairUniverse == [L \in Langs |-> Cardinality(AllPairs(L))]
ASSUME PrintT(<<"PAIRS", ToJson(PairUniverse)>>)
ASSUME PrintT(<<"INEXPRESSIBLE", ToJson(Inexpressible)>>)
\* sanity of the lattice itself: the documented exclusion removes exactly the skip_runtime /\ builders corner
ASSUME \A L \in Langs : \A c \in Configs(L) : (c \notin Lattice(L)) <=> ("skip_runtime" \in c.on /\ "builders" \in c.out)
ASSUME \A L \in Langs : PairwiseCovers(L, Lattice(L))

Emit ==
  IF Mode = "configs"
  THEN PrintT(<<"CONFIG", ToJson([lang |-> cfg.lang, out |-> cfg.out, on |-> cfg.on])>>)
  ELSE PrintT(<<"SHAPE", ToJson([id |-> si, name |-> Shapes[si].name, constructs |-> Shapes[si].constructs,
                                 schema |-> Shapes[si].schema, expressible |-> ShapeExpressible(Shapes[si])])>>)
===============================================================================
