------------------------------ MODULE Pipeline2 ------------------------------
(* Self-composition of Pipeline (DESIGN 3.7, A.4): two runs on RELATED inputs and configurations,      *)
(* each drawing its own map orders. The hyper-properties of C03 and C07 are invariants of the pair:    *)
(*   rel = "same"   same inputs and configuration              -> Deterministic            (C03)       *)
(*   rel = "langs"  run 2 generates a subset of run 1's languages -> LanguageIndependent   (C07)       *)
(*   rel = "perm"   two inputs of different packages swapped   -> InputOrderIndependent    (C07)       *)
(*   rel = "extra"  run 2 has one more input, of a package nothing references -> UnrelatedInputIrrelevant *)
(*                  (ExtraInputs: one such package ordered AFTER every other one, one ordered BEFORE them; either *)
(*                  first or last in the list of inputs)                                                         *)
(* plus the single-run invariants MergeIsUnionOrConflict and InputsNeverMutated of each copy.          *)
(* Baseline1 = TRUE fixes run 1 to the canonical schedule (determinism: "every schedule agrees with    *)
(* the canonical one" is equivalent to "any two schedules agree" and has far fewer witnesses).         *)
EXTENDS Naturals, Sequences, FiniteSets, TLC, Json

CONSTANTS AsCoded, Faults, Rank, DrawAll, Langs, InputSeqs, Cfgs, Baseline1, Rels, ExtraInputs

VARIABLES rel,
          inputs1, cfg1, pc1, loaded1, S1, handed1, ctx1, files1, dir1, err1, todo1, cur1, sched1,
          inputs2, cfg2, pc2, loaded2, S2, handed2, ctx2, files2, dir2, err2, todo2, cur2, sched2

R1 == INSTANCE Pipeline WITH FixedSched <- Baseline1,
        inputs <- inputs1,
        cfg <- cfg1,
        pc <- pc1,
        loaded <- loaded1,
        S <- S1,
        handed <- handed1,
        ctx <- ctx1,
        files <- files1,
        dir <- dir1,
        err <- err1,
        todo <- todo1,
        cur <- cur1,
        sched <- sched1

R2 == INSTANCE Pipeline WITH FixedSched <- FALSE,
        inputs <- inputs2,
        cfg <- cfg2,
        pc <- pc2,
        loaded <- loaded2,
        S <- S2,
        handed <- handed2,
        ctx <- ctx2,
        files <- files2,
        dir <- dir2,
        err <- err2,
        todo <- todo2,
        cur <- cur2,
        sched <- sched2

vars1 == <<inputs1, cfg1, pc1, loaded1, S1, handed1, ctx1, files1, dir1, err1, todo1, cur1, sched1>>
vars2 == <<inputs2, cfg2, pc2, loaded2, S2, handed2, ctx2, files2, dir2, err2, todo2, cur2, sched2>>
obs1 == <<inputs1, cfg1, pc1, loaded1, S1, handed1, ctx1, files1, dir1, err1, todo1, cur1>>
obs2 == <<inputs2, cfg2, pc2, loaded2, S2, handed2, ctx2, files2, dir2, err2, todo2, cur2>>
vars == <<rel, vars1, vars2>>
view == <<rel, obs1, obs2>>

PkgsOfInputs(i) == {i[k].pkg : k \in DOMAIN i}
Related(r, i, c) ==
  CASE r = "same"  -> {<<i, c>>}
    [] r = "langs" -> {<<i, [c EXCEPT !.langs = ls]>> : ls \in (SUBSET c.langs) \ {{}, c.langs}}
    [] r = "perm"  -> IF Len(i) = 2 /\ i[1].pkg # i[2].pkg THEN {<<<<i[2], i[1]>>, c>>} ELSE {}
    [] r = "extra" -> UNION {{<<Append(i, e), c>>, <<<<e>> \o i, c>>} : e \in {x \in ExtraInputs : x.pkg \notin PkgsOfInputs(i)}}

Init == \E r \in Rels, i \in InputSeqs, c \in Cfgs : \E ic \in Related(r, i, c) :
           rel = r /\ R1!InitWith(i, c) /\ R2!InitWith(ic[1], ic[2])

Next == /\ ~(R1!Finished /\ R2!Finished)
        /\ IF R1!Finished THEN UNCHANGED vars1 ELSE R1!Next
        /\ IF R2!Finished THEN UNCHANGED vars2 ELSE R2!Next
        /\ rel' = rel
Spec == Init /\ [][Next]_vars

BothDone == R1!Finished /\ R2!Finished

--------------------------------------------------------------------------------
(* C03: "running the same pipeline twice ... produces exactly the same set of file paths with byte-identical
   contents, and the same intermediate representation as shown by cog inspect" *)
SameFiles == pc1 = pc2 /\ files1 = files2
SameIR == S1 = S2 /\ ctx1 = ctx2
Deterministic == (rel = "same" /\ BothDone) => (SameFiles /\ SameIR)

(* C07: "the files generated for a language are identical whether it is generated alone or together with any other languages" *)
LanguageIndependent == (rel = "langs" /\ BothDone) => (pc1 = pc2 /\ (pc1 = "done" => \A L \in cfg2.langs : files1[L] = files2[L]))

(* C07: "reordering inputs that define different packages changes no generated file" *)
InputOrderIndependent == (rel = "perm" /\ BothDone) => SameFiles

(* C07: "adding an input whose package nothing else references changes no file generated for the other packages"
   (files specific to a package: path[3] is that package; the shared runtime file is not compared, DESIGN 6.0) *)
UnrelatedInputIrrelevant ==
  (rel = "extra" /\ BothDone) =>
     /\ pc1 = pc2
     /\ pc1 = "done" => \A L \in cfg1.langs : \A path \in DOMAIN files1[L] :
           path[3] # "runtime" => (path \in DOMAIN files2[L] /\ files2[L][path] = files1[L][path])

MergeIsUnionOrConflict == R1!MergeIsUnionOrConflict /\ R2!MergeIsUnionOrConflict
InputsNeverMutated == R1!InputsNeverMutated /\ R2!InputsNeverMutated

--------------------------------------------------------------------------------
(* Witness generation (as-coded configuration): the SHAPE of every input/configuration for which some
   schedule disagrees with the canonical one, with the components that differ. *)
MaxOver(Sset) == IF Sset = {} THEN 0 ELSE CHOOSE m \in Sset : \A x \in Sset : x <= m
Shape ==
  [ninputs  |-> Len(inputs1),
   npkgs    |-> Cardinality(PkgsOfInputs(inputs1)),
   ncands   |-> MaxOver(UNION {{Cardinality(inputs1[k].objs[n].cands) : n \in DOMAIN inputs1[k].objs} : k \in DOMAIN inputs1}),
   ndefkeys |-> Cardinality(cfg1.defaults),
   ndefvals |-> Cardinality({d.val : d \in cfg1.defaults}),
   ncompose |-> IF cfg1.builders THEN Cardinality(cfg1.compose) ELSE 0,
   nested   |-> cfg1.params = "nested",
   collide  |-> \E k \in DOMAIN inputs1 : inputs1[k].coll,
   nlangs   |-> Cardinality(cfg1.langs),
   builders |-> cfg1.builders]
Differs == (IF dir1 # dir2 THEN {"dir"} ELSE {}) \cup (IF S1 # S2 THEN {"S"} ELSE {}) \cup
           (IF ctx1 # ctx2 THEN {"ctx"} ELSE {}) \cup (IF files1 # files2 THEN {"files"} ELSE {}) \cup
           (IF pc1 # pc2 THEN {"outcome"} ELSE {})
EmitWitness == (rel = "same" /\ BothDone /\ Differs # {}) =>
                  PrintT(<<"WITNESS", ToJson([shape |-> Shape, differs |-> Differs, stages |-> {sched2[k][1] : k \in DOMAIN sched2}])>>)

(* Case generation for the real C07 runs: every related pair of (inputs, configuration) of the bounded universe *)
InputJ(i) == [k \in DOMAIN i |-> [pkg |-> i[k].pkg, coll |-> i[k].coll,
                                 objs |-> [n \in DOMAIN i[k].objs |-> [body |-> i[k].objs[n].body, ncands |-> Cardinality(i[k].objs[n].cands)]]]]
EmitCase == (pc1 = "config" /\ pc2 = "config") =>
               PrintT(<<"CASE", ToJson([rel |-> rel, inputs1 |-> InputJ(inputs1), inputs2 |-> InputJ(inputs2),
                                        langs1 |-> cfg1.langs, langs2 |-> cfg2.langs, builders |-> cfg1.builders,
                                        allowed |-> cfg1.allowed, ndefkeys |-> Cardinality(cfg1.defaults)])>>)
================================================================================
