------------------------------- MODULE MalformedMC -------------------------------
(* Bounded universe of C04: TLC enumerates every (family, base document, site,   *)
(* mutation) and prints the mutated document as one CASE line.                    *)
(* Families: jsonschema, openapi (documents), cue (expression x position),        *)
(* pipeline, passes, veneers (YAML configuration trees, written in YAML's JSON    *)
(* subset). "@...@" strings are file-system placeholders the harness fills in.    *)
EXTENDS Malformed, Json

CONSTANTS Families      \* subset of {"jsonschema","openapi","cue","pipeline","passes","veneers","sequences","parameters","cycles","cyclepasses","cycleveneers","veneerpaths","ifexpr","discriminators","handtypes","handtypeveneers","drafts"} to emit

VARIABLES fam, base, m
vars == <<fam, base, m>>

O(ps)      == JObj(ps)
A(xs)      == JArr(xs)
S(s)       == JStr(s)
Ty(t)      == P("type", S(t))
StrT       == O(<<Ty("string")>>)
IntT       == O(<<Ty("integer")>>)

(* ====================================================================== schema documents *)
\* the same well-formed definitions for JSON Schema (draft-07) and OpenAPI 3.0; pre = reference prefix
Ref(pre, n) == O(<<P("$ref", S(pre \o n))>>)
Defs(pre, oa) == <<
  P("Root", O(<<Ty("object"), P("required", A(<<S("id"), S("kids")>>)), P("additionalProperties", JBool(FALSE)),
    P("properties", O(<<
      P("id", O(<<Ty("integer"), P("minimum", JInt(0)), P("maximum", JInt(10))>>)),
      P("name", O(<<Ty("string"), P("minLength", JInt(1)), P("maxLength", JInt(9)), P("default", S("ab")), P("description", S("a name"))>>)),
      P("ratio", O(<<Ty("number")>> \o (IF oa THEN <<P("format", S("double"))>> ELSE <<P("exclusiveMinimum", JInt(0))>>))),
      P("on", O(<<Ty("boolean"), P("default", JBool(TRUE))>>)),
      P("kids", O(<<Ty("array"), P("items", Ref(pre, "Child"))>>)),
      P("tags", O(<<Ty("array"), P("items", StrT), P("default", A(<<S("a")>>))>>)),
      P("labels", O(<<Ty("object"), P("additionalProperties", StrT)>>)),
      P("mk", O(<<Ty("object"), P("additionalProperties", Ref(pre, "Child"))>>)),
      P("mode", O(<<Ty("string"), P("enum", A(<<S("a"), S("b")>>)), P("default", S("a"))>>)),
      P("level", O(<<Ty("integer"), P("enum", A(<<JInt(1), JInt(2)>>))>>)),
      P("when", O(<<Ty("string"), P("format", S("date-time"))>>)),
      P("anything", O(<<>>)),
      P("u", O(<<P("oneOf", A(<<StrT, IntT>>))>>)),
      P("du", O(<<P("oneOf", A(<<Ref(pre, "A"), Ref(pre, "B")>>))>>
                  \o (IF oa THEN <<P("discriminator", O(<<P("propertyName", S("kind")),
                                       P("mapping", O(<<P("a", S(pre \o "A")), P("b", S(pre \o "B"))>>))>>))>> ELSE <<>>))),
      P("maybe", IF oa THEN O(<<Ty("string"), P("nullable", JBool(TRUE))>>)
                 ELSE O(<<P("anyOf", A(<<Ref(pre, "Child"), O(<<Ty("null")>>)>>))>>)),
      P("inl", O(<<Ty("object"), P("properties", O(<<P("z", IntT), P("y", StrT)>>))>>)),
      P("color", Ref(pre, "Color")),
      P("alias", Ref(pre, "Alias")),
      P("next", Ref(pre, "Root"))>>))>>)),
  P("Child", O(<<Ty("object"), P("required", A(<<S("cid")>>)), P("properties", O(<<P("cid", O(<<Ty("integer"), P("minimum", JInt(1))>>))>>))>>)),
  P("A", O(<<Ty("object"), P("required", A(<<S("kind")>>)), P("properties", O(<<
      P("kind", IF oa THEN O(<<Ty("string"), P("enum", A(<<S("a")>>))>>) ELSE O(<<Ty("string"), P("const", S("a"))>>)), P("x", IntT)>>))>>)),
  P("B", O(<<Ty("object"), P("required", A(<<S("kind")>>)), P("properties", O(<<
      P("kind", IF oa THEN O(<<Ty("string"), P("enum", A(<<S("b")>>))>>) ELSE O(<<Ty("string"), P("const", S("b"))>>)), P("y", StrT)>>))>>)),
  P("Color", O(<<Ty("string"), P("enum", A(<<S("red"), S("green")>>))>>)),
  P("Alias", Ref(pre, "Child"))
>>
\* numeric defaults and allOf live in a document of their own: on the unchanged tree they take the Java and the Python
\* target down for every document that contains them, which would hide everything else those targets do
ExtraDefs(pre) == <<
  P("Root", O(<<Ty("object"), P("properties", O(<<
      P("count", O(<<Ty("integer"), P("default", JInt(1))>>)), P("ratio", O(<<Ty("number"), P("default", JNum(15))>>)),
      P("nums", O(<<Ty("array"), P("items", IntT), P("default", A(<<JInt(1), JInt(2)>>))>>)),
      P("ext", Ref(pre, "Ext"))>>))>>)),
  P("Child", O(<<Ty("object"), P("properties", O(<<P("cid", IntT)>>))>>)),
  P("Ext", O(<<P("allOf", A(<<Ref(pre, "Child"), O(<<Ty("object"), P("properties", O(<<P("x", IntT)>>))>>)>>))>>))
>>
\* reference cycles and self references (every one of them is itself a degenerate document)
CycleDefs(pre) == <<
  P("Root", O(<<Ty("object"), P("properties", O(<<P("a", Ref(pre, "LoopA")), P("s", Ref(pre, "Self")), P("l", Ref(pre, "ArrLoop")),
                                                  P("m", Ref(pre, "MapLoop")), P("x", Ref(pre, "AllOfLoop")), P("o", Ref(pre, "OneOfLoop"))>>))>>)),
  P("LoopA", Ref(pre, "LoopB")), P("LoopB", Ref(pre, "LoopA")), P("Self", Ref(pre, "Self")),
  P("ArrLoop", O(<<Ty("array"), P("items", Ref(pre, "ArrLoop"))>>)),
  P("MapLoop", O(<<Ty("object"), P("additionalProperties", Ref(pre, "MapLoop"))>>)),
  P("AllOfLoop", O(<<P("allOf", A(<<Ref(pre, "AllOfLoop"), O(<<Ty("object"), P("properties", O(<<P("x", IntT)>>))>>)>>))>>)),
  P("OneOfLoop", O(<<P("oneOf", A(<<Ref(pre, "OneOfLoop"), StrT>>))>>))
>>
JsPre == "#/definitions/"
OaPre == "#/components/schemas/"
JsDoc(defs) == O(<<P("$schema", S("http://json-schema.org/draft-07/schema#")), P("$ref", S(JsPre \o "Root")), P("definitions", O(defs))>>)
OaDoc(defs) == O(<<P("openapi", S("3.0.0")), P("info", O(<<P("title", S("t")), P("version", S("0.0"))>>)), P("paths", O(<<>>)),
                   P("components", O(<<P("schemas", O(defs))>>))>>)

\* degenerate / ill-typed spellings offered at every site of a schema document
SchemaAlphabet(pre) == <<
  S("x"), S(""), S("1"), JInt(1), JInt(-1), JNum(15), JBool(TRUE), JBool(FALSE), JNull,
  A(<<>>), O(<<>>), A(<<S("")>>), A(<<JInt(1), S("a")>>), A(<<JNull>>), A(<<O(<<>>)>>),
  A(<<StrT, IntT>>),                                   \* tuple form / list of schemas
  StrT, O(<<Ty("array")>>), O(<<Ty("object")>>), O(<<Ty("null")>>),
  Ref(pre, "Nowhere"), Ref(pre, "Root"), Ref(pre, "Alias"),
  S(pre \o "Nowhere"), S(pre \o "Alias"), S(pre \o "Root"), S("#"), S("nowhere.json#/x"),
  S("array"), S("object"), S("null"), S("integer"), S("string"), S("date-time"), S("int32"),
  A(<<S("string"), S("null")>>), A(<<S("string"), S("array")>>), A(<<S("kind")>>), A(<<S("missing")>>)
>>

(* ====================================================================== CUE *)
CueExprs == <<
  "string", "int", "number", "float", "bool", "bytes", "null", "_", "_|_", "\"a\"", "1", "1.5", "true", "\"\"",
  "uint8", "int32", "float32", "-1", "0x10", "1e400", "99999999999999999999", "'abc'",
  "string | int", "string | null", "\"a\" | \"b\"", "\"a\" | \"\"", "1 | 2", "\"a\" | 1", "*\"a\" | \"b\"", "*1 | string",
  "string | *1", "string | *\"x\"", "int | *\"x\"", "int & >5 & <3", "int & string", ">=0", "<10 & >0", "int & >=0 & <=10",
  "int32 & >300000000000", "number & >0.5", "!=\"\"", "=~\"^a\"",
  "[...string]", "[...]", "[]", "[string, int]", "[...#Child]", "[...#Nowhere]", "[...[...string]]", "[...string] | *[\"a\"]",
  "[...#Child] | *[]", "[...string | int]", "[...{a: int}]",
  "{[string]: int}", "{[string]: #Child}", "{[string]: _}", "{[=~\"^a\"]: int}", "{[string]: [...string]}", "{[string]: {a: int}}",
  "{}", "{...}", "close({})", "{a: int}", "{a?: int}", "{a: int, ...}", "{a: {b: {c: int}}}", "{\"a b\": int}", "{\"\": int}", "{\"1x\": int}",
  "#Child", "#Nowhere", "#Self", "#LoopA", "#Child & {x: int}", "#Child & #Other", "#Child | #Other", "#Child | string",
  "#Child | null", "*#Child | null", "{a: int} | {b: string}", "#KindA | #KindB", "#Child.cid", "#Color", "#Color & \"red\"",
  "time.Time", "strings.MinRunes(1)", "string & strings.MinRunes(1)", "string & strings.MaxRunes(-1)",
  "string @cog(kind=\"enum\")", "\"a\" | \"b\" @cog(kind=\"enum\",memberNames=\"A\")", "1 | 2 @cog(kind=\"enum\",memberNames=\"A|B|C\")",
  "1 | 2 @cog(kind=\"enum\",memberNames=\"One|Two\")", "1 | 2", "int @cog(kind=)", "string @cog(", "\"a\" | \"b\" @cog(kind=\"nonsense\")",
  "len(\"a\")", "[for x in [1,2] {x}]", "if true {1}", "Root", "x", "1 + 2", "\"a\" + \"b\"", "\"\\(1)\""
>>
CuePositions == <<"definition", "field", "optional-field", "list-element", "map-value", "disjunction-branch", "default-value", "nested-field",
                  "embedded", "top-level-field">>

(* ====================================================================== YAML configuration *)
Flag(k, b) == P(k, JBool(b))
PipelineBase == O(<<
  Flag("debug", FALSE),
  P("parameters", O(<<P("p", S("v"))>>)),
  P("inputs", A(<<
     O(<<P("jsonschema", O(<<P("path", S("@JS@")), P("package", S("cfgt")), P("allowed_objects", A(<<S("Root"), S("Child"), S("A"), S("B")>>)),
                             P("transformations", A(<<S("@PASSES@")>>)),
                             P("metadata", O(<<P("kind", S("core")), P("variant", S("")), P("identifier", S("Cfgt"))>>))>>))>>),
     O(<<P("openapi", O(<<P("path", S("@OA@")), P("package", S("cfgo")), Flag("no_validate", FALSE)>>))>>),
     O(<<P("if", S("true")), P("cue", O(<<P("entrypoint", S("@CUE@")), P("package", S("cfgc")), P("forced_envelope", S("")), P("cue_imports", A(<<>>))>>))>>)>>)),
  P("transformations", O(<<P("schemas", A(<<S("@PASSES@")>>)), P("builders", A(<<S("@VENEERS@")>>))>>)),
  P("output", O(<<
     P("directory", S("out/%l")), Flag("types", TRUE), Flag("builders", TRUE), Flag("converters", TRUE), Flag("api_reference", TRUE),
     P("templates_data", O(<<P("k", S("%p%"))>>)),
     P("languages", A(<<
        O(<<P("go", O(<<P("package_root", S("genmod/out/go")), Flag("generate_json_marshaller", TRUE), Flag("generate_strict_unmarshaller", TRUE),
                        Flag("generate_equal", TRUE), Flag("generate_validate", TRUE), Flag("any_as_interface", FALSE), Flag("skip_runtime", FALSE),
                        Flag("skip_post_formatting", FALSE), P("overrides_templates", A(<<>>)), P("extra_files_templates", A(<<>>))>>))>>),
        O(<<P("python", O(<<P("path_prefix", S("")), Flag("generate_json_marshaller", TRUE), Flag("skip_runtime", FALSE)>>))>>),
        O(<<P("java", O(<<P("package_path", S("gen")), Flag("generate_json_marshaller", TRUE), Flag("skip_runtime", FALSE),
                          P("builder_factories_class_map", O(<<P("cfgt", S("Factory"))>>))>>))>>),
        O(<<P("typescript", O(<<P("path_prefix", S("src")), Flag("skip_runtime", FALSE), Flag("skip_index", FALSE), Flag("enums_as_union_types", TRUE),
                                P("packages_import_map", O(<<P("cfgt", S("./cfgt"))>>))>>))>>),
        O(<<P("php", O(<<P("namespace_root", S("Gen")), Flag("generate_json_marshaller", TRUE)>>))>>),
        O(<<P("jsonschema", O(<<Flag("compact", FALSE)>>))>>),
        O(<<P("openapi", O(<<Flag("compact", TRUE)>>))>>)>>))>>))>>)
ConfigAlphabet == <<S("x"), S(""), JInt(1), JInt(-1), JBool(TRUE), JBool(FALSE), JNull, A(<<>>), O(<<>>), A(<<S("x")>>), A(<<JNull>>),
                    O(<<P("x", S("y"))>>), S("/nonexistent/path"), S("%l"), S("%nope%"), S("%p%"), S("1 +"), S("semver(\"x\")"), S("\"notbool\"")>>

\* ---- schema transformations: one well-formed pass per file, over the package cfgt (= the jsonschema base document)
StrType == O(<<P("kind", S("scalar")), P("scalar", O(<<P("scalar_kind", S("string"))>>))>>)
IntType == O(<<P("kind", S("scalar")), P("scalar", O(<<P("scalar_kind", S("int64"))>>))>>)
StructType(fs) == O(<<P("kind", S("struct")), P("struct", O(<<P("fields", A(fs))>>))>>)
FieldT(n, t) == O(<<P("name", S(n)), P("type", t), Flag("required", TRUE)>>)
Pass(k, body) == O(<<P("passes", A(<<O(<<P(k, body)>>)>>))>>)
PassBases == <<
  Pass("entrypoint_identification", O(<<>>)), Pass("dataquery_identification", O(<<>>)), Pass("unspec", O(<<>>)),
  Pass("replace_reference", O(<<P("from", S("cfgt.Child")), P("to", S("cfgt.A"))>>)),
  Pass("fields_set_default", O(<<P("defaults", O(<<P("cfgt.Root.name", S("zz")), P("cfgt.Root.id", JInt(3))>>))>>)),
  Pass("fields_set_required", O(<<P("fields", A(<<S("cfgt.Root.name")>>))>>)),
  Pass("fields_set_not_required", O(<<P("fields", A(<<S("cfgt.Root.id")>>))>>)),
  Pass("omit", O(<<P("objects", A(<<S("cfgt.B")>>))>>)),
  Pass("add_fields", O(<<P("to", S("cfgt.Child")), P("fields", A(<<FieldT("extra", StrType)>>))>>)),
  Pass("name_anonymous_struct", O(<<P("field", S("cfgt.Root.inl")), P("as", S("Inline"))>>)),
  Pass("add_object", O(<<P("object", S("cfgt.Added")), P("as", StructType(<<FieldT("f", StrType)>>)), P("comments", A(<<S("c")>>))>>)),
  Pass("rename_object", O(<<P("from", S("cfgt.Child")), P("to", S("Kid"))>>)),
  Pass("retype_object", O(<<P("object", S("cfgt.Alias")), P("as", StrType), P("comments", A(<<>>))>>)),
  Pass("hint_object", O(<<P("object", S("cfgt.Child")), P("hints", O(<<P("k", S("v"))>>))>>)),
  Pass("retype_field", O(<<P("field", S("cfgt.Root.name")), P("as", StrType), P("comments", A(<<>>))>>)),
  Pass("omit_fields", O(<<P("fields", A(<<S("cfgt.Root.when")>>))>>)),
  Pass("schema_set_identifier", O(<<P("package", S("cfgt")), P("identifier", S("Ident"))>>)),
  Pass("schema_set_entry_point", O(<<P("package", S("cfgt")), P("entry_point", S("Root"))>>)),
  Pass("duplicate_object", O(<<P("object", S("cfgt.Child")), P("as", S("cfgt.Twin")), P("omit_fields", A(<<S("cid")>>))>>)),
  Pass("trim_enum_values", O(<<>>)),
  Pass("constant_to_enum", O(<<P("objects", A(<<S("cfgt.Color")>>))>>)),
  Pass("anonymous_structs_to_named", O(<<>>)), Pass("disjunction_to_type", O(<<>>)),
  Pass("disjunction_of_anonymous_structs_to_explicit", O(<<>>)), Pass("disjunction_infer_mapping", O(<<>>)),
  Pass("disjunction_with_constant_to_default", O(<<>>))
>>
PassAlphabet == <<S("x"), S(""), S("."), S("cfgt."), S(".Root"), S("cfgt.Root"), S("cfgt.Nowhere"), S("nopkg.Root"), S("cfgt.Root.name"),
                  S("cfgt.Root.nofield"), S("cfgt.Root.du"), S("cfgt.Root.kids"), S("cfgt.Color"), S("cfgt.Color.x"), S("cfgt.Alias.cid"), S("cfgt.root"), S("CFGT.Root"), S("cfgt.ROOT.NAME"), S("Root"), S("cfgt.Root.name.more"),
                  JInt(1), JBool(TRUE), JNull, A(<<>>), O(<<>>), A(<<S("")>>), A(<<S("cfgt.Nowhere.f")>>), A(<<JNull>>),
                  O(<<P("kind", S("struct"))>>), O(<<P("kind", S("array"))>>), O(<<P("kind", S("map"))>>), O(<<P("kind", S("ref"))>>),
                  O(<<P("kind", S("enum")), P("enum", O(<<P("values", A(<<>>))>>))>>), O(<<P("kind", S("disjunction"))>>),
                  O(<<P("kind", S("scalar"))>>), O(<<P("kind", S("nonsense"))>>), O(<<P("kind", S("intersection"))>>),
                  O(<<P("kind", S("ref")), P("ref", O(<<P("referred_pkg", S("cfgt")), P("referred_type", S("Nowhere"))>>))>>),
                  O(<<P("kind", S("ref")), P("ref", O(<<P("referred_pkg", S("cfgt")), P("referred_type", S("Added"))>>))>>),
                  O(<<P("kind", S("struct")), P("scalar", O(<<P("scalar_kind", S("string"))>>))>>)>>

\* ---- builder transformations: one well-formed rule per file (package cfgt)
Veneer(section, k, body) == O(<<P("language", S("all")), P("package", S("cfgt")), P(section, A(<<O(<<P(k, body)>>)>>))>>)
ByObj(n)  == P("by_object", S(n))
ByOpt(n)  == P("by_name", S(n))
VeneerBases == <<
  Veneer("builders", "omit", O(<<ByObj("Child")>>)),
  Veneer("builders", "rename", O(<<ByObj("Root"), P("as", S("Main"))>>)),
  Veneer("builders", "merge_into", O(<<P("destination", S("Root")), P("source", S("Child")), P("under_path", S("alias")),
                                       P("exclude_options", A(<<>>)), P("rename_options", O(<<P("cid", S("childId"))>>))>>)),
  Veneer("builders", "properties", O(<<ByObj("Root"), P("set", A(<<FieldT("extra", StrType)>>))>>)),
  Veneer("builders", "duplicate", O(<<ByObj("Root"), P("as", S("Copy")), P("exclude_options", A(<<S("name")>>))>>)),
  Veneer("builders", "initialize", O(<<ByObj("Root"), P("set", A(<<O(<<P("property", S("name")), P("value", S("x"))>>)>>))>>)),
  Veneer("builders", "promote_options_to_constructor", O(<<ByObj("Root"), P("options", A(<<S("name")>>))>>)),
  Veneer("builders", "compose", O(<<ByObj("Root"), P("source_builder_name", S("Child")), P("plugin_discriminator_field", S("kind")),
                                    P("exclude_options", A(<<>>)), P("composition_map", O(<<P("a", S("b"))>>)), P("composed_builder_name", S("")),
                                    Flag("preserve_original_builders", FALSE)>>)),
  Veneer("builders", "omit", O(<<P("by_name", S("Root"))>>)),
  Veneer("builders", "omit", O(<<P("by_variant", S("dataquery"))>>)),
  Veneer("builders", "omit", O(<<Flag("generated_from_disjunction", TRUE)>>)),
  Veneer("options", "omit", O(<<ByOpt("Root.on")>>)),
  Veneer("options", "rename", O(<<ByOpt("Root.name"), P("as", S("title"))>>)),
  Veneer("options", "rename_arguments", O(<<ByOpt("Root.name"), P("as", A(<<S("title")>>))>>)),
  Veneer("options", "unfold_boolean", O(<<ByOpt("Root.on"), P("true_as", S("enable")), P("false_as", S("disable"))>>)),
  Veneer("options", "struct_fields_as_arguments", O(<<ByOpt("Root.inl"), P("fields", A(<<S("z")>>))>>)),
  Veneer("options", "struct_fields_as_options", O(<<ByOpt("Root.inl"), P("fields", A(<<S("z")>>))>>)),
  Veneer("options", "array_to_append", O(<<ByOpt("Root.tags")>>)),
  Veneer("options", "map_to_index", O(<<ByOpt("Root.labels")>>)),
  Veneer("options", "disjunction_as_options", O(<<ByOpt("Root.u"), P("argument_index", JInt(0))>>)),
  Veneer("options", "duplicate", O(<<ByOpt("Root.name"), P("as", S("nameAgain"))>>)),
  Veneer("options", "add_comments", O(<<ByOpt("Root.name"), P("comments", A(<<S("c")>>))>>)),
  Veneer("builders", "add_option", O(<<ByObj("Root"), P("option", O(<<P("name", S("withName")), P("comments", A(<<S("c")>>)),
      P("arguments", A(<<O(<<P("name", S("n")), P("type", StrType)>>)>>)),
      P("assignments", A(<<O(<<P("path", S("name")), P("method", S("direct")), P("value", O(<<P("argument", O(<<P("name", S("n")), P("type", StrType)>>))>>))>>)>>))>>))>>)),
  Veneer("builders", "add_option", O(<<ByObj("Root"), P("option", O(<<P("name", S("child")), P("arguments", A(<<O(<<P("name", S("id")), P("type", IntType)>>)>>)),
      P("assignments", A(<<O(<<P("path", S("alias")), P("method", S("direct")), P("value", O(<<P("envelope", O(<<P("values", A(<<
          O(<<P("field", S("cid")), P("value", O(<<P("argument", O(<<P("name", S("id")), P("type", IntType)>>))>>))>>)>>))>>))>>))>>)>>))>>))>>)),
  Veneer("builders", "add_option", O(<<ByObj("Root"), P("option", O(<<P("name", S("fixed")), P("arguments", A(<<>>)),
      P("assignments", A(<<O(<<P("path", S("on")), P("method", S("direct")), P("value", O(<<P("constant", JBool(TRUE))>>))>>),
                           O(<<P("path", S("tags")), P("method", S("append")), P("value", O(<<P("constant", S("t"))>>))>>)>>))>>))>>)),
  Veneer("builders", "add_factory", O(<<ByObj("Root"), P("factory", O(<<P("name", S("Small")), P("arguments", A(<<O(<<P("name", S("n")), P("type", StrType)>>)>>)),
      P("options", A(<<O(<<P("name", S("name")), P("parameters", A(<<O(<<P("argument", O(<<P("name", S("n")), P("type", StrType)>>))>>)>>))>>)>>))>>))>>)),
  Veneer("options", "add_assignment", O(<<ByOpt("Root.name"), P("assignment", O(<<P("path", S("alias")), P("method", S("direct")),
      P("value", O(<<P("envelope", O(<<P("values", A(<<O(<<P("field", S("cid")), P("value", O(<<P("constant", JInt(1))>>))>>)>>))>>))>>))>>))>>)),
  Veneer("options", "omit", O(<<P("by_builder", S("Root.on"))>>)),
  Veneer("options", "omit", O(<<P("by_names", O(<<P("object", S("Root")), P("options", A(<<S("on"), S("name")>>))>>))>>))
>>
VeneerAlphabet == <<S("x"), S(""), S("."), S("Root."), S(".name"), S("Root"), S("Child"), S("Nowhere"), S("Root.name"), S("Root.on"), S("Root.u"),
                    S("Root.du"), S("Root.tags"), S("Root.labels"), S("Root.inl"), S("Root.kids"), S("Root.next"), S("Root.id"), S("Root.nowhere"),
                    S("Nowhere.x"), S("name.x"), S("kids.cid"), S("alias.cid"), S("root.name"), S("ROOT.Name"), S("go"), S("cfgo"), JInt(0), JInt(1), JInt(5), JInt(-1), JBool(TRUE), JNull, A(<<>>), O(<<>>),
                    A(<<S("")>>), A(<<S("nowhere")>>), A(<<S("z"), S("z")>>), A(<<JNull>>), O(<<P("x", S("y"))>>)>>

(* ---- sequences of TWO option rules on the same option (a rule changes the option's arguments, the next one meets the result) *)
OptTargets == <<"Root.labels", "Root.tags", "Root.inl", "Root.on", "Root.u", "Root.name", "Root.kids", "Root.mk">>
OR(k, body) == O(<<P(k, body)>>)
NOptRules == 17
OptRuleN(n, t) ==
  CASE n = 1  -> OR("omit", O(<<ByOpt(t)>>))
    [] n = 2  -> OR("rename", O(<<ByOpt(t), P("as", S("title"))>>))
    [] n = 3  -> OR("rename_arguments", O(<<ByOpt(t), P("as", A(<<>>))>>))
    [] n = 4  -> OR("rename_arguments", O(<<ByOpt(t), P("as", A(<<S("one")>>))>>))
    [] n = 5  -> OR("rename_arguments", O(<<ByOpt(t), P("as", A(<<S("one"), S("two")>>))>>))
    [] n = 6  -> OR("rename_arguments", O(<<ByOpt(t), P("as", A(<<S("one"), S("two"), S("three")>>))>>))
    [] n = 7  -> OR("unfold_boolean", O(<<ByOpt(t), P("true_as", S("enable")), P("false_as", S("disable"))>>))
    [] n = 8  -> OR("struct_fields_as_arguments", O(<<ByOpt(t)>>))
    [] n = 9  -> OR("struct_fields_as_arguments", O(<<ByOpt(t), P("fields", A(<<S("z")>>))>>))
    [] n = 10 -> OR("struct_fields_as_options", O(<<ByOpt(t)>>))
    [] n = 11 -> OR("array_to_append", O(<<ByOpt(t)>>))
    [] n = 12 -> OR("map_to_index", O(<<ByOpt(t)>>))
    [] n = 13 -> OR("disjunction_as_options", O(<<ByOpt(t), P("argument_index", JInt(0))>>))
    [] n = 14 -> OR("disjunction_as_options", O(<<ByOpt(t), P("argument_index", JInt(1))>>))
    [] n = 15 -> OR("duplicate", O(<<ByOpt(t), P("as", S("again"))>>))
    [] n = 16 -> OR("add_comments", O(<<ByOpt(t), P("comments", A(<<S("c")>>))>>))
    [] n = 17 -> OR("add_assignment", O(<<ByOpt(t), P("assignment", O(<<P("path", S("name")), P("method", S("direct")),
                                                                        P("value", O(<<P("constant", S("x"))>>))>>))>>))
SeqDoc(t, a, b) == O(<<P("language", S("all")), P("package", S("cfgt")),
                       P("options", A(<<OptRuleN(a, OptTargets[t]), OptRuleN(b, OptTargets[t])>>))>>)

(* ---- parameter environments: values that mention themselves, each other, nothing, something undefined *)
ParamValues == <<"v", "%p%", "%q%", "%p%/x", "%q%/y", "%nope%", "">>
ParamUses   == <<"out", "%p%", "%q%/o", "%p%%q%">>
ParamDoc(pv, qv, u) == O(<<
  P("parameters", O(<<P("p", S(ParamValues[pv])), P("q", S(ParamValues[qv]))>>)),
  P("inputs", A(<<O(<<P("jsonschema", O(<<P("path", S("@JS@")), P("package", S("cfgt"))>>))>>)>>)),
  P("output", O(<<P("directory", S(ParamUses[u])), Flag("types", TRUE),
                  P("templates_data", O(<<P("k", S(ParamUses[u]))>>)),
                  P("languages", A(<<O(<<P("go", O(<<P("package_root", S("genmod/" \o ParamUses[u]))>>))>>)>>))>>))>>)

(* ---- reference cycles, generically: n objects N1 -> N2 -> ... -> N1, every link of one kind, reached from Root in one way.   *)
(* The harness renders each abstract cycle in EVERY input language (CUE as definitions and as plain fields, JSON Schema,         *)
(* OpenAPI). "alias" links (an object that IS a reference) never reach a type; the other link kinds are recursive structures,    *)
(* some legitimate (optional field, array, map), some without a base case (required field, allOf, embedding).                    *)
CycleLens    == 1..3
CycleLinks   == <<"alias", "field", "optional-field", "items", "map-values", "allOf", "oneOf-branch", "nullable", "default", "alias-then-field">>
CycleEntries == <<"root-field", "root-optional-field", "root-array", "root-alias", "unreferenced">>
CycleLangs   == <<"cue-definitions", "cue-fields", "jsonschema", "openapi">>

(* ---- cycles CREATED by configuration: schema transformations whose result closes a reference cycle, builder rules that merge / *)
(* compose / duplicate builders into each other. Base package cfgt: Alias is a reference to Child.                                *)
RefTo(n) == O(<<P("kind", S("ref")), P("ref", O(<<P("referred_pkg", S("cfgt")), P("referred_type", S(n))>>))>>)
Passes2(ps) == O(<<P("passes", A(ps))>>)
PS(k, body) == O(<<P(k, body)>>)
CyclePassDocs == <<
  Passes2(<<PS("replace_reference", O(<<P("from", S("cfgt.Child")), P("to", S("cfgt.Alias"))>>))>>),          \* Alias: ref Child becomes ref Alias
  Passes2(<<PS("retype_object", O(<<P("object", S("cfgt.Child")), P("as", RefTo("Alias"))>>))>>),               \* Child -> Alias -> Child
  Passes2(<<PS("retype_object", O(<<P("object", S("cfgt.Alias")), P("as", RefTo("Alias"))>>))>>),               \* Alias -> Alias
  Passes2(<<PS("retype_object", O(<<P("object", S("cfgt.Root")), P("as", RefTo("Root"))>>))>>),                 \* the entry point itself
  Passes2(<<PS("add_object", O(<<P("object", S("cfgt.Loop")), P("as", RefTo("Loop"))>>))>>),
  Passes2(<<PS("add_object", O(<<P("object", S("cfgt.LoopA")), P("as", RefTo("LoopB"))>>)),
            PS("add_object", O(<<P("object", S("cfgt.LoopB")), P("as", RefTo("LoopA"))>>))>>),
  Passes2(<<PS("add_object", O(<<P("object", S("cfgt.LoopA")), P("as", RefTo("LoopB"))>>)),
            PS("add_object", O(<<P("object", S("cfgt.LoopB")), P("as", RefTo("LoopC"))>>)),
            PS("add_object", O(<<P("object", S("cfgt.LoopC")), P("as", RefTo("LoopA"))>>))>>),
  Passes2(<<PS("add_object", O(<<P("object", S("cfgt.Loop")), P("as", RefTo("Loop"))>>)),
            PS("retype_field", O(<<P("field", S("cfgt.Root.name")), P("as", RefTo("Loop"))>>))>>),               \* reached through a struct field only
  Passes2(<<PS("retype_field", O(<<P("field", S("cfgt.Child.cid")), P("as", RefTo("Child"))>>))>>),             \* required field of its own type
  Passes2(<<PS("add_fields", O(<<P("to", S("cfgt.Child")), P("fields", A(<<FieldT("self", RefTo("Child"))>>))>>))>>),
  Passes2(<<PS("add_object", O(<<P("object", S("cfgt.Dangling")), P("as", RefTo("Nowhere"))>>)),
            PS("retype_field", O(<<P("field", S("cfgt.Root.name")), P("as", RefTo("Dangling"))>>))>>),           \* alias chain that ends nowhere
  Passes2(<<PS("rename_object", O(<<P("from", S("cfgt.Child")), P("to", S("Alias"))>>))>>),                    \* renaming onto its own alias
  Passes2(<<PS("duplicate_object", O(<<P("object", S("cfgt.Alias")), P("as", S("cfgt.Child"))>>))>>),
  Passes2(<<PS("retype_object", O(<<P("object", S("cfgt.Color")), P("as", O(<<P("kind", S("array")), P("array", O(<<P("value_type", RefTo("Color"))>>))>>))>>))>>),
  Passes2(<<PS("retype_object", O(<<P("object", S("cfgt.Alias")), P("as", O(<<P("kind", S("disjunction")),
            P("disjunction", O(<<P("branches", A(<<RefTo("Alias"), StrType>>))>>))>>))>>))>>)
>>
VeneerDoc(bs, os) == O(<<P("language", S("all")), P("package", S("cfgt")), P("builders", A(bs)), P("options", A(os))>>)
Merge(dst, src, under) == PS("merge_into", O(<<P("destination", S(dst)), P("source", S(src)), P("under_path", S(under))>>))
CycleVeneerDocs == <<
  VeneerDoc(<<Merge("Root", "Root", "next")>>, <<>>),                                                             \* a builder merged into itself
  VeneerDoc(<<Merge("Root", "Child", "alias"), Merge("Child", "Root", "cid")>>, <<>>),                             \* A into B, B into A
  VeneerDoc(<<Merge("Child", "Root", "cid")>>, <<>>),
  VeneerDoc(<<Merge("Root", "Root", "")>>, <<>>),
  VeneerDoc(<<PS("duplicate", O(<<ByObj("Root"), P("as", S("Root"))>>))>>, <<>>),                                  \* duplicate onto itself
  VeneerDoc(<<PS("duplicate", O(<<ByObj("Root"), P("as", S("Child"))>>))>>, <<>>),
  VeneerDoc(<<PS("rename", O(<<ByObj("Root"), P("as", S("Child"))>>)), PS("rename", O(<<ByObj("Child"), P("as", S("Root"))>>))>>, <<>>),
  VeneerDoc(<<PS("compose", O(<<ByObj("Root"), P("source_builder_name", S("Root")), P("plugin_discriminator_field", S("name")),
                                P("composition_map", O(<<P("__schema_entrypoint", S("next"))>>)), P("composed_builder_name", S("Root"))>>))>>, <<>>),
  VeneerDoc(<<PS("compose", O(<<ByObj("Child"), P("source_builder_name", S("Root")), P("plugin_discriminator_field", S("kind")),
                                P("composition_map", O(<<P("cid", S("next"))>>)), Flag("preserve_original_builders", TRUE)>>)),
              PS("compose", O(<<ByObj("Root"), P("source_builder_name", S("Child")), P("plugin_discriminator_field", S("kind")),
                                P("composition_map", O(<<P("next", S("cid"))>>))>>))>>, <<>>),
  VeneerDoc(<<PS("initialize", O(<<ByObj("Root"), P("set", A(<<O(<<P("property", S("next.next.next")), P("value", S("x"))>>)>>))>>))>>, <<>>),
  VeneerDoc(<<PS("promote_options_to_constructor", O(<<ByObj("Root"), P("options", A(<<S("next"), S("next")>>))>>))>>, <<>>),
  VeneerDoc(<<>>, <<PS("struct_fields_as_options", O(<<ByOpt("Root.next")>>)), PS("struct_fields_as_arguments", O(<<ByOpt("Root.next")>>))>>),
  VeneerDoc(<<>>, <<PS("struct_fields_as_arguments", O(<<ByOpt("Root.next")>>)), PS("struct_fields_as_arguments", O(<<ByOpt("Root.next")>>))>>),
  VeneerDoc(<<>>, <<PS("duplicate", O(<<ByOpt("Root.name"), P("as", S("name"))>>))>>)
>>

(* ---- every rule parameter that is a path / property / field / option name x degenerate spellings (dense: run in every tier) *)
PathKeys     == {"under_path", "property", "path", "field", "fields", "options", "exclude_options", "source", "destination", "source_builder_name",
                 "plugin_discriminator_field", "composition_map", "rename_options", "by_name", "by_object", "by_builder", "as", "name"}
PathAlphabet == <<S(""), S(" "), S("."), S(".."), S(".name"), S("name."), S("nowhere"), S("name.x"), S("next.next.name"), S("kids.cid"), S("alias.cid"), S("next"),
                  S("Root."), S(".Root"), S("Root..name")>>
PathSites(doc) == {p \in Sites(doc) : AtPath(doc, p).j = "str" /\ LET kp == KeyPath(doc, p) IN
                                        \E i \in DOMAIN kp : i >= Len(kp) - 1 /\ kp[i] \in PathKeys}
PathMutants(doc) == {[path |-> p, mut |-> 0] : p \in PathSites(doc)}
                    \cup UNION {{[path |-> p, mut |-> n] : n \in {k \in DOMAIN PathAlphabet : PathAlphabet[k] # AtPath(doc, p)}} : p \in PathSites(doc)}

(* ---- `if:` of an input: expressions of the expr language - statically boolean, statically not boolean, dynamically typed *)
(* (index / member / conditional / nil), failing at compile time, failing at run time                                         *)
IfExprs == <<"true", "false", "not true", "1 == 1", "1 < 2 and 2 < 3", "\"a\" in [\"a\"]", "len([1]) > 0", "semver(\"1.2.3\").Major > 0",
             "sprintf(\"%d\", 1) == \"1\"", "1", "1.5", "\"yes\"", "nil", "[1, 2]", "{\"a\": 1}", "sprintf(\"%d\", 1)", "semver(\"1.2.3\")",
             "[true][0]", "[1, \"yes\", true][0]", "[1, \"yes\", true][2]", "{\"enabled\": \"yes\"}.enabled", "{\"enabled\": true}.enabled",
             "{\"a\": 1}.b", "{\"a\": {\"b\": true}}.a.b", "true ? 1 : false", "true ? true : 1", "1 == 1 ? nil : true", "nil ?? true", "nil ?? 1",
             "[1][5]", "1 / 0 > 0", "1 % 0 == 0", "semver(\"x\").Major > 0", "semver(nil)", "int(\"x\") > 0", "unknownVariable", "unknownFunc()", "1 +", "(",
             "", " ", "true &&", "true && nil", "nil == nil", "[] == nil", "map([1], # > 0)[0]", "filter([1, 2], # > 5)[0]", "first([])", "first([true])",
             "toJSON(1)", "fromJSON(\"true\")", "fromJSON(\"1\")", "fromJSON(\"x\")", "let x = true; x", "true; false">>
IfDoc(e) == O(<<
  P("inputs", A(<<O(<<P("if", S(IfExprs[e])), P("jsonschema", O(<<P("path", S("@JS@")), P("package", S("cfgt"))>>))>>)>>)),
  P("output", O(<<P("directory", S("out")), Flag("types", TRUE), P("languages", A(<<O(<<P("go", O(<<P("package_root", S("genmod/out"))>>))>>)>>))>>))>>)

(* ---- unions of references to structs and what could discriminate them: a constant field of every scalar kind, shared by all / *)
(* some / no branches, with distinct or conflicting values, one or two candidate fields; rendered in every input language        *)
DiscKinds    == <<"string", "int", "float", "bool", "mixed">>
DiscSharing  == <<"all-distinct", "all-same-value", "first-only", "different-names", "two-candidates", "none">>
DiscPlaces   == <<"field", "optional-field", "array", "map", "definition">>
DiscLangs    == <<"cue", "jsonschema", "openapi">>

(* ---- hand-written types (add_fields / add_object / retype_object / retype_field): a type is a tree, and the hole a malformed   *)
(* type can sit in is ANY position of that tree - the type itself, the value type of an array, the INDEX type and the value type *)
(* of a map, the type of a struct field, a branch of a disjunction or of an intersection - one or two levels deep. Every filler   *)
(* (a kind that announces a definition the type does not carry, for every kind; the definition of another kind; an unknown or    *)
(* missing kind; definitions whose own members are missing or empty; values that are not a mapping at all; two well-formed       *)
(* controls) x every position x every pass that carries a hand-written type. Dense: run completely in every tier.                *)
MapT(i, v)  == O(<<P("kind", S("map")), P("map", O(<<P("indextype", i), P("valuetype", v)>>))>>)
ArrT(v)     == O(<<P("kind", S("array")), P("array", O(<<P("value_type", v)>>))>>)
DisjT(bs)   == O(<<P("kind", S("disjunction")), P("disjunction", O(<<P("branches", A(bs))>>))>>)
InterT(bs)  == O(<<P("kind", S("intersection")), P("intersection", O(<<P("branches", A(bs))>>))>>)
KindOnly(k) == O(<<P("kind", S(k))>>)
TypePositions == <<"type", "array-value", "map-index", "map-value", "struct-field", "disjunction-branch", "intersection-branch">>
InPos(c, t) ==
  CASE c = 1 -> t
    [] c = 2 -> ArrT(t)
    [] c = 3 -> MapT(t, StrType)
    [] c = 4 -> MapT(StrType, t)
    [] c = 5 -> StructType(<<FieldT("f", t)>>)
    [] c = 6 -> DisjT(<<StrType, t>>)
    [] c = 7 -> InterT(<<RefTo("Child"), t>>)
TypeFillers == <<
  KindOnly("scalar"), KindOnly("ref"), KindOnly("enum"), KindOnly("struct"), KindOnly("array"), KindOnly("map"), KindOnly("disjunction"),
  KindOnly("intersection"), KindOnly("constant_ref"), KindOnly("composable_slot"), KindOnly("nonsense"), O(<<>>),
  O(<<P("kind", S("struct")), P("scalar", O(<<P("scalar_kind", S("string"))>>))>>),                 \* the definition of another kind
  O(<<P("kind", S("scalar")), P("ref", O(<<P("referred_pkg", S("cfgt")), P("referred_type", S("Child"))>>))>>),
  O(<<P("scalar", O(<<P("scalar_kind", S("string"))>>))>>),                                          \* a definition, no kind
  O(<<P("kind", S("enum")), P("enum", O(<<P("values", A(<<>>))>>))>>),
  O(<<P("kind", S("array")), P("array", O(<<>>))>>),
  O(<<P("kind", S("map")), P("map", O(<<>>))>>),
  O(<<P("kind", S("map")), P("map", O(<<P("indextype", StrType)>>))>>),
  O(<<P("kind", S("map")), P("map", O(<<P("valuetype", StrType)>>))>>),
  O(<<P("kind", S("struct")), P("struct", O(<<P("fields", A(<<O(<<P("name", S("g"))>>)>>))>>))>>),  \* a field without a type
  O(<<P("kind", S("disjunction")), P("disjunction", O(<<P("branches", A(<<O(<<>>)>>))>>))>>),
  JNull, S("x"), A(<<>>),
  StrType, RefTo("Child")                                                                              \* well-formed controls
>>
TypeCarriers == <<"retype_field", "retype_object", "add_object", "add_fields">>
CarrierDoc(k, t) ==
  CASE k = 1 -> Pass("retype_field", O(<<P("field", S("cfgt.Root.name")), P("as", t), P("comments", A(<<>>))>>))
    [] k = 2 -> Pass("retype_object", O(<<P("object", S("cfgt.Alias")), P("as", t), P("comments", A(<<>>))>>))
    [] k = 3 -> Pass("add_object", O(<<P("object", S("cfgt.Added")), P("as", t)>>))
    [] k = 4 -> Pass("add_fields", O(<<P("to", S("cfgt.Child")), P("fields", A(<<FieldT("extra", t)>>))>>))
\* outer = 1: the hole is at depth one (or is the type itself); two levels deep only through retype_field
HandTypeCases == {[path |-> <<>>, mut |-> f, pos |-> 1, t |-> c, lang |-> k] : f \in DOMAIN TypeFillers, c \in DOMAIN TypePositions, k \in DOMAIN TypeCarriers}
                 \cup {[path |-> <<>>, mut |-> f, pos |-> o, t |-> c, lang |-> 1] : f \in DOMAIN TypeFillers, o \in 2..Len(TypePositions), c \in 2..Len(TypePositions)}
HandType(mm) == InPos(mm.pos, InPos(mm.t, TypeFillers[mm.mut]))

\* the same positions and fillers in the types a builder transformation carries (properties / add_option / add_factory)
VeneerTypeCarriers == <<"properties", "add_option", "add_factory">>
VeneerCarrierDoc(k, t) ==
  CASE k = 1 -> Veneer("builders", "properties", O(<<ByObj("Root"), P("set", A(<<FieldT("extra", t)>>))>>))
    [] k = 2 -> Veneer("builders", "add_option", O(<<ByObj("Root"), P("option", O(<<P("name", S("withName")), P("comments", A(<<S("c")>>)),
                  P("arguments", A(<<O(<<P("name", S("n")), P("type", t)>>)>>)),
                  P("assignments", A(<<O(<<P("path", S("name")), P("method", S("direct")), P("value", O(<<P("argument", O(<<P("name", S("n")), P("type", t)>>))>>))>>)>>))>>))>>))
    [] k = 3 -> Veneer("builders", "add_factory", O(<<ByObj("Root"), P("factory", O(<<P("name", S("Small")), P("arguments", A(<<O(<<P("name", S("n")), P("type", t)>>)>>)),
                  P("options", A(<<O(<<P("name", S("name")), P("parameters", A(<<O(<<P("argument", O(<<P("name", S("n")), P("type", t)>>))>>)>>))>>)>>))>>))>>))
VeneerHandTypeCases == {[path |-> <<>>, mut |-> f, pos |-> 1, t |-> c, lang |-> k] : f \in DOMAIN TypeFillers, c \in DOMAIN TypePositions, k \in DOMAIN VeneerTypeCarriers}

(* ---- JSON Schema drafts: what the schema compiler lets through to cog's parser depends on the `$schema` the document names     *)
(* (the draft-04/06/07 meta-schemas refuse an empty `enum`, draft-04 an empty `required`, ...; a document without `$schema` is    *)
(* read as 2020-12). Every container- or string-valued site of a document that is valid under every draft, replaced by the EMPTY *)
(* value of its kind ([] {} ""), under every draft the compiler knows and under none. Dense: run completely in every tier.       *)
DraftIds == <<"", "http://json-schema.org/draft-04/schema#", "http://json-schema.org/draft-06/schema#", "http://json-schema.org/draft-07/schema#",
              "https://json-schema.org/draft/2019-09/schema", "https://json-schema.org/draft/2020-12/schema">>
DraftDefs(pre) == <<
  P("Root", O(<<Ty("object"), P("required", A(<<S("id")>>)), P("properties", O(<<
      P("id", IntT),
      P("mode", O(<<Ty("string"), P("enum", A(<<S("a"), S("b")>>)), P("default", S("a"))>>)),
      P("level", O(<<Ty("integer"), P("enum", A(<<JInt(1), JInt(2)>>))>>)),
      P("free", O(<<P("enum", A(<<S("x"), S("y")>>))>>)),
      P("nn", O(<<P("type", A(<<S("string"), S("null")>>))>>)),
      P("tags", O(<<Ty("array"), P("items", StrT), P("default", A(<<S("a")>>))>>)),
      P("labels", O(<<Ty("object"), P("additionalProperties", StrT)>>)),
      P("u", O(<<P("oneOf", A(<<StrT, IntT>>))>>)),
      P("maybe", O(<<P("anyOf", A(<<Ref(pre, "Child"), O(<<Ty("null")>>)>>))>>)),
      P("inl", O(<<Ty("object"), P("required", A(<<S("z")>>)), P("properties", O(<<P("z", IntT)>>))>>)),
      P("when", O(<<Ty("string"), P("format", S("date-time"))>>)),
      P("color", Ref(pre, "Color"))>>))>>)),
  P("Child", O(<<Ty("object"), P("required", A(<<S("cid")>>)), P("properties", O(<<P("cid", IntT)>>))>>)),
  P("Color", O(<<Ty("string"), P("enum", A(<<S("red"), S("green")>>))>>))
>>
DraftExtraDefs(pre) == <<
  P("Root", O(<<Ty("object"), P("properties", O(<<
      P("k", O(<<Ty("string"), P("const", S("a"))>>)),
      P("obj", O(<<Ty("object"), P("default", O(<<P("cid", JInt(1))>>)), P("properties", O(<<P("cid", IntT)>>))>>)),
      P("ext", Ref(pre, "Ext"))>>))>>)),
  P("Child", O(<<Ty("object"), P("properties", O(<<P("cid", IntT)>>))>>)),
  P("Ext", O(<<P("allOf", A(<<Ref(pre, "Child"), O(<<Ty("object"), P("properties", O(<<P("x", IntT)>>))>>)>>))>>))
>>
DraftDoc(d, defs) == O((IF DraftIds[d] = "" THEN <<>> ELSE <<P("$schema", S(DraftIds[d]))>>)
                       \o <<P("$ref", S(JsPre \o "Root")), P("definitions", O(defs))>>)
DraftBases(d) == <<DraftDoc(d, DraftDefs(JsPre)), DraftDoc(d, DraftExtraDefs(JsPre))>>
EmptyOf(v) == CASE v.j = "arr" -> A(<<>>) [] v.j = "obj" -> O(<<>>) [] OTHER -> S("")
\* sites are computed on the document WITHOUT `$schema` (the same sites under every draft; `$schema` itself is not one of them)
EmptySites(doc) == {p \in Sites(doc) : AtPath(doc, p).j \in {"arr", "obj", "str"} /\ AtPath(doc, p) # EmptyOf(AtPath(doc, p))}
DraftPath(d, p) == IF DraftIds[d] = "" THEN p ELSE <<[s |-> "o", i |-> p[1].i + 1]>> \o Tail(p)

(* ====================================================================== enumeration *)
Bases(f) ==
  CASE f = "jsonschema" -> <<JsDoc(Defs(JsPre, FALSE)), JsDoc(CycleDefs(JsPre)), JsDoc(ExtraDefs(JsPre))>>
    [] f = "openapi"    -> <<OaDoc(Defs(OaPre, TRUE)), OaDoc(CycleDefs(OaPre)), OaDoc(ExtraDefs(OaPre))>>
    [] f = "pipeline"   -> <<PipelineBase>>
    [] f = "passes"     -> PassBases
    [] f = "veneers"    -> VeneerBases
    [] OTHER            -> <<>>
Alphabet(f) ==
  CASE f = "jsonschema" -> SchemaAlphabet(JsPre)
    [] f = "openapi"    -> SchemaAlphabet(OaPre)
    [] f = "pipeline"   -> ConfigAlphabet
    [] f = "passes"     -> PassAlphabet
    [] f = "veneers"    -> VeneerAlphabet
    [] OTHER            -> <<>>

AsIs == [path |-> <<>>, mut |-> -1]           \* the base document itself (the cycle documents are degenerate as they stand)
CueCase(e, p) == [path |-> <<>>, mut |-> e, pos |-> p]

SeqCase(t, a, b) == [path |-> <<>>, mut |-> a, pos |-> b, t |-> t]
Init == /\ fam \in Families
        /\ CASE fam = "cue" -> base = 1 /\ m \in {CueCase(e, p) : e \in DOMAIN CueExprs, p \in DOMAIN CuePositions}
             [] fam = "sequences" -> base = 1 /\ m \in {SeqCase(t, a, b) : t \in DOMAIN OptTargets, a \in 1..NOptRules, b \in 1..NOptRules}
             [] fam = "cycles" -> base = 1 /\ m \in {[path |-> <<>>, mut |-> n, pos |-> k, t |-> e, lang |-> g] :
                                                     n \in CycleLens, k \in DOMAIN CycleLinks, e \in DOMAIN CycleEntries, g \in DOMAIN CycleLangs}
             [] fam = "veneerpaths" -> base \in DOMAIN VeneerBases /\ m \in PathMutants(VeneerBases[base])
             [] fam = "ifexpr" -> base = 1 /\ m \in {[path |-> <<>>, mut |-> e] : e \in DOMAIN IfExprs}
             [] fam = "discriminators" -> base = 1 /\ m \in {[path |-> <<>>, mut |-> k, pos |-> sh, t |-> pl, lang |-> g] :
                                                     k \in DOMAIN DiscKinds, sh \in DOMAIN DiscSharing, pl \in DOMAIN DiscPlaces, g \in DOMAIN DiscLangs}
             [] fam = "handtypes" -> base = 1 /\ m \in HandTypeCases
             [] fam = "handtypeveneers" -> base = 1 /\ m \in VeneerHandTypeCases
             [] fam = "drafts" -> base \in DOMAIN DraftBases(1) /\ m \in {[path |-> p, mut |-> d] : p \in EmptySites(DraftBases(1)[base]), d \in DOMAIN DraftIds}
             [] fam = "cyclepasses" -> base \in DOMAIN CyclePassDocs /\ m = AsIs
             [] fam = "cycleveneers" -> base \in DOMAIN CycleVeneerDocs /\ m = AsIs
             [] fam = "parameters" -> base = 1 /\ m \in {SeqCase(u, pv, qv) : u \in DOMAIN ParamUses, pv \in DOMAIN ParamValues, qv \in DOMAIN ParamValues}
             [] OTHER -> base \in DOMAIN Bases(fam) /\ m \in ({AsIs} \cup Mutants(Bases(fam)[base], Alphabet(fam)))
Next == UNCHANGED vars
Spec == Init /\ [][Next]_vars

Doc == Bases(fam)[base]
Emit ==
  IF fam = "veneerpaths"
  THEN PrintT(<<"CASE", ToJson([fam |-> fam, base |-> base, class |-> IF m.mut = 0 THEN "absent" ELSE "path",
                                keyword |-> Keyword(VeneerBases[base], m.path), path |-> KeyPath(VeneerBases[base], m.path), mut |-> m.mut,
                                doc |-> IF m.mut = 0 THEN Remove(VeneerBases[base], m.path) ELSE Replace(VeneerBases[base], m.path, PathAlphabet[m.mut])])>>)
  ELSE IF fam = "handtypes"
  THEN PrintT(<<"CASE", ToJson([fam |-> fam, base |-> base, class |-> "hand-written-type", keyword |-> TypePositions[m.t], path |-> <<>>, mut |-> m.mut,
                                carrier |-> TypeCarriers[m.lang], outer |-> TypePositions[m.pos], inner |-> TypePositions[m.t], filler |-> m.mut,
                                doc |-> CarrierDoc(m.lang, HandType(m))])>>)
  ELSE IF fam = "handtypeveneers"
  THEN PrintT(<<"CASE", ToJson([fam |-> fam, base |-> base, class |-> "hand-written-type", keyword |-> TypePositions[m.t], path |-> <<>>, mut |-> m.mut,
                                carrier |-> VeneerTypeCarriers[m.lang], outer |-> TypePositions[m.pos], inner |-> TypePositions[m.t], filler |-> m.mut,
                                doc |-> VeneerCarrierDoc(m.lang, HandType(m))])>>)
  ELSE IF fam = "drafts"
  THEN LET doc == DraftBases(m.mut)[base]
           p   == DraftPath(m.mut, m.path)
       IN PrintT(<<"CASE", ToJson([fam |-> fam, base |-> base, class |-> "degenerate", keyword |-> Keyword(doc, p), path |-> KeyPath(doc, p), mut |-> m.mut,
                                   draft |-> DraftIds[m.mut], doc |-> Replace(doc, p, EmptyOf(AtPath(doc, p)))])>>)
  ELSE IF fam = "ifexpr"
  THEN PrintT(<<"CASE", ToJson([fam |-> fam, base |-> base, class |-> "if-expression", keyword |-> "if", path |-> <<>>, mut |-> m.mut,
                                expr |-> IfExprs[m.mut], doc |-> IfDoc(m.mut)])>>)
  ELSE IF fam = "discriminators"
  THEN PrintT(<<"CASE", ToJson([fam |-> fam, base |-> base, class |-> "discriminator", keyword |-> DiscSharing[m.pos], path |-> <<>>,
                                kind |-> DiscKinds[m.mut], sharing |-> DiscSharing[m.pos], place |-> DiscPlaces[m.t], lang |-> DiscLangs[m.lang]])>>)
  ELSE IF fam = "cycles"
  THEN PrintT(<<"CASE", ToJson([fam |-> fam, base |-> base, class |-> "cycle", keyword |-> CycleLinks[m.pos], path |-> <<>>,
                                n |-> m.mut, link |-> CycleLinks[m.pos], entry |-> CycleEntries[m.t], lang |-> CycleLangs[m.lang]])>>)
  ELSE IF fam \in {"cyclepasses", "cycleveneers"}
  THEN PrintT(<<"CASE", ToJson([fam |-> fam, base |-> base, class |-> "config-cycle", keyword |-> "", path |-> <<>>, mut |-> -1,
                                doc |-> IF fam = "cyclepasses" THEN CyclePassDocs[base] ELSE CycleVeneerDocs[base]])>>)
  ELSE IF fam = "sequences"
  THEN PrintT(<<"CASE", ToJson([fam |-> fam, base |-> base, class |-> "sequence", keyword |-> OptTargets[m.t], path |-> <<>>,
                                mut |-> m.mut, second |-> m.pos, t |-> m.t, doc |-> SeqDoc(m.t, m.mut, m.pos)])>>)
  ELSE IF fam = "parameters"
  THEN PrintT(<<"CASE", ToJson([fam |-> fam, base |-> base, class |-> "environment", keyword |-> "parameters", path |-> <<>>,
                                mut |-> m.mut, second |-> m.pos, t |-> m.t, doc |-> ParamDoc(m.mut, m.pos, m.t)])>>)
  ELSE IF fam = "cue"
  THEN PrintT(<<"CASE", ToJson([fam |-> fam, base |-> base, class |-> "expression", keyword |-> CuePositions[m.pos],
                                expr |-> CueExprs[m.mut], pos |-> CuePositions[m.pos], e |-> m.mut])>>)
  ELSE IF m.mut = -1
  THEN PrintT(<<"CASE", ToJson([fam |-> fam, base |-> base, class |-> "as-is", keyword |-> "", path |-> <<>>, mut |-> -1, doc |-> Doc])>>)
  ELSE PrintT(<<"CASE", ToJson([fam |-> fam, base |-> base, class |-> ClassOf(Doc, Alphabet(fam), m), keyword |-> Keyword(Doc, m.path),
                                path |-> KeyPath(Doc, m.path), mut |-> m.mut, doc |-> Apply(Doc, Alphabet(fam), m)])>>)
===============================================================================
