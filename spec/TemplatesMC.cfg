SPECIFICATION Spec
CONSTANTS
  MaxFiles = 2
  MaxSrc = 2
VIEW View
INVARIANTS FoldIsDeclaration EmptyNeverHides LastFileWins Terminates Emit
CHECK_DEADLOCK FALSE
