------------------------------- MODULE LangChains -------------------------------
(* Per-language normal forms (property C06) and reference preservation by the  *)
(* built-in chains (C05, second clause).  The predicates are the clauses of    *)
(* the property, evaluated on the intermediate representation the REAL chain   *)
(* of a language produced (`cog inspect --language L`).                        *)
EXTENDS IR

(* children that are part of the type itself: hints (which may keep the former *)
(* union for the generators' benefit) are not types of the normal form         *)
ChildrenNH(t) ==
  CASE t.k = "array"  -> {t.elem}
    [] t.k = "map"    -> {t.idx, t.elem}
    [] t.k = "struct" -> {t.fields[i].type : i \in DOMAIN t.fields}
    [] t.k = "disj"   -> Range(t.branches)
    [] t.k = "inter"  -> Range(t.branches)
    [] OTHER          -> {}
RECURSIVE SubTypesNH(_)
SubTypesNH(t) == {t} \cup UNION {SubTypesNH(c) : c \in ChildrenNH(t)}
Nested(t) == UNION {SubTypesNH(c) : c \in ChildrenNH(t)}        \* everything strictly below t

ObjTypes(S) == {o.type : o \in AllObjects(S)}

\* "no union type remains anywhere"
UnionsIn(S) == {o.name : o \in {x \in AllObjects(S) : \E t \in SubTypesNH(x.type) : t.k = "disj"}}
NoUnion(S)  == UnionsIn(S) = {}

\* "every enum is a named object": an enum occurs only as the type of an object
AnonEnumsIn(S) == {o.name : o \in {x \in AllObjects(S) : \E t \in Nested(x.type) : t.k = "enum"}}
EnumsNamed(S)  == AnonEnumsIn(S) = {}

\* "every struct outside an allOf composition is a named object": everything below an
\* intersection counts as inside the composition (the reading under which more code passes)
RECURSIVE HasAnonStruct(_, _)
HasAnonStruct(t, ok) == (t.k = "struct" /\ ~ok) \/ (t.k # "inter" /\ \E c \in ChildrenNH(t) : HasAnonStruct(c, FALSE))
AnonStructsIn(S) == {o.name : o \in {x \in AllObjects(S) : HasAnonStruct(x.type, TRUE)}}
StructsNamedOutsideAllOf(S) == AnonStructsIn(S) = {}

\* "every non-required field is nullable"
NonNullableOptionalIn(S) ==
  {o.name : o \in {x \in AllObjects(S) :
      \E t \in SubTypesNH(x.type) : t.k = "struct" /\ \E i \in DOMAIN t.fields :
          ~t.fields[i].required /\ IsType(t.fields[i].type) /\ ~t.fields[i].type.nullable}}
NonRequiredIsNullable(S) == NonNullableOptionalIn(S) = {}

\* "no two-branch `T | null` union remains"
IsNullT(t) == t.k = "scalar" /\ t.sk = "null"
TOrNullIn(S) ==
  {o.name : o \in {x \in AllObjects(S) :
      \E t \in SubTypesNH(x.type) : t.k = "disj" /\ Len(t.branches) = 2 /\ \E b \in DOMAIN t.branches : IsNullT(t.branches[b])}}
NoTOrNull(S) == TOrNullIn(S) = {}

\* enum member names of named enum objects; the string facts TLA+ cannot compute
\* (prefixed by the object's name, purely numeric, empty, leading sign) are recorded
\* with each member by the projection (fields pfx, numeric, empty, sign)
NamedEnums(S) == {o \in AllObjects(S) : o.type.k = "enum"}
GoPrefixed(S)   == \A o \in NamedEnums(S) : \A i \in DOMAIN o.type.members : o.type.members[i].pfx
NotNumeric(S)   == \A o \in NamedEnums(S) : \A i \in DOMAIN o.type.members : ~o.type.members[i].numeric
PhpSanitised(S) == \A o \in NamedEnums(S) : \A i \in DOMAIN o.type.members :
                      ~o.type.members[i].empty /\ ~o.type.members[i].sign

\* what the prefix is FOR: Go has one name space per package, so no enum member may bear the name of an object of its
\* package or of a member of another enum of that package
EnumObjsOf(sc) == {j \in DOMAIN sc.objects : sc.objects[j].type.k = "enum"}
MemberNames(o) == {o.type.members[i].name : i \in DOMAIN o.type.members}
GoNamesDistinct(S) ==
  \A p \in DOMAIN S : \A j \in EnumObjsOf(S[p]) :
     /\ MemberNames(S[p].objects[j]) \cap {S[p].objects[k].name : k \in DOMAIN S[p].objects \ {j}} = {}    \* (a member named like its OWN enum - a name made of signs only camel-cases to nothing - is the sanitiser's business)
     /\ \A k \in EnumObjsOf(S[p]) \ {j} : MemberNames(S[p].objects[j]) \cap MemberNames(S[p].objects[k]) = {}

Clauses(L) ==
  CASE L = "go"         -> {"NoUnion", "EnumsNamed", "StructsNamed", "NonRequiredIsNullable", "NoTOrNull", "GoPrefixed", "GoNamesDistinct"}
    [] L = "java"       -> {"NoUnion", "EnumsNamed", "StructsNamed", "NonRequiredIsNullable", "NoTOrNull"}
    [] L = "php"        -> {"EnumsNamed", "StructsNamed", "NonRequiredIsNullable", "NoTOrNull", "PhpSanitised"}
    [] L = "python"     -> {"StructsNamed", "NonRequiredIsNullable", "NoTOrNull", "NotNumeric"}
    [] L = "typescript" -> {"NotNumeric"}
    [] OTHER            -> {}
Holds(c, S) ==
  CASE c = "NoUnion"               -> NoUnion(S)
    [] c = "EnumsNamed"            -> EnumsNamed(S)
    [] c = "StructsNamed"          -> StructsNamedOutsideAllOf(S)
    [] c = "NonRequiredIsNullable" -> NonRequiredIsNullable(S)
    [] c = "NoTOrNull"             -> NoTOrNull(S)
    [] c = "GoPrefixed"            -> GoPrefixed(S)
    [] c = "GoNamesDistinct"       -> GoNamesDistinct(S)
    [] c = "NotNumeric"            -> NotNumeric(S)
    [] c = "PhpSanitised"          -> PhpSanitised(S)
ViolatedClauses(L, S) == {c \in Clauses(L) : ~Holds(c, S)}
NormalForm(L, S) == ViolatedClauses(L, S) = {}

\* builders (C05: "builder targets included"): the built object and every object an
\* option argument refers to exist.  B: sequence of [pkg, name, forpkg, forname, refs: Seq([pkg, name])]
BuilderDangling(S, B) ==
  {[kind |-> "builder_for", pkg |-> B[i].forpkg, name |-> B[i].forname] :
      i \in {j \in DOMAIN B : Loaded(S, B[j].forpkg) /\ ~HasObject(S, B[j].forpkg, B[j].forname)}}
  \cup UNION {{[kind |-> "builder_arg", pkg |-> B[i].refs[r].pkg, name |-> B[i].refs[r].name] :
                  r \in {x \in DOMAIN B[i].refs : Loaded(S, B[i].refs[x].pkg) /\ ~HasObject(S, B[i].refs[x].pkg, B[i].refs[x].name)}}
              : i \in DOMAIN B}
===============================================================================
