---------------------------------- MODULE IR ----------------------------------
(* The abstract intermediate representation of cog (DESIGN.md 3.2).          *)
(* Values have exactly the JSON shape harness/cmd/worker/ir.go produces, so   *)
(* the same operators judge states enumerated by TLC and states recorded     *)
(* from the real code.                                                       *)
EXTENDS Naturals, Sequences, FiniteSets

CONSTANT FoldTable      \* function: name -> its case-folded form (names outside it fold to themselves)

Fold(s) == IF s \in DOMAIN FoldTable THEN FoldTable[s] ELSE s
SameFold(a, b) == Fold(a) = Fold(b)

Range(s) == {s[i] : i \in DOMAIN s}

(* ------------------------------- values -------------------------------- *)
VNil      == [t |-> "nil", s |-> ""]
VStr(x)   == [t |-> "string", s |-> x]
VInt(x)   == [t |-> "int64", s |-> x]        \* x: decimal text
VBool(b)  == [t |-> "bool", s |-> IF b THEN "true" ELSE "false"]

(* ---------------------------- constructors ----------------------------- *)
TNone == [k |-> "none"]
TScalarC(sk, v, cons) == [k |-> "scalar", nullable |-> FALSE, def |-> VNil, hints |-> <<>>,
                          sk |-> sk, val |-> v, cons |-> cons]
TScalar(sk)      == TScalarC(sk, VNil, <<>>)
TConst(sk, v)    == TScalarC(sk, v, <<>>)
TString          == TScalar("string")
TRef(p, n)       == [k |-> "ref", nullable |-> FALSE, def |-> VNil, hints |-> <<>>, pkg |-> p, name |-> n]
TConstRef(p, n, v) == [k |-> "constref", nullable |-> FALSE, def |-> VNil, hints |-> <<>>,
                       pkg |-> p, name |-> n, val |-> v]
TArray(e)        == [k |-> "array", nullable |-> FALSE, def |-> VNil, hints |-> <<>>, elem |-> e]
TMap(i, e)       == [k |-> "map", nullable |-> FALSE, def |-> VNil, hints |-> <<>>, idx |-> i, elem |-> e]
Field(n, t, req) == [name |-> n, type |-> t, required |-> req, comments |-> <<>>]
FieldC(n, t, req, c) == [name |-> n, type |-> t, required |-> req, comments |-> c]
TStruct(fields)  == [k |-> "struct", nullable |-> FALSE, def |-> VNil, hints |-> <<>>, fields |-> fields]
Member(n, v, sk) == [name |-> n, val |-> v, sk |-> sk]
TEnum(members)   == [k |-> "enum", nullable |-> FALSE, def |-> VNil, hints |-> <<>>, members |-> members]
MapTo(key, to)   == [key |-> key, to |-> to]
TDisj(bs, discr, mapping) == [k |-> "disj", nullable |-> FALSE, def |-> VNil, hints |-> <<>>,
                              branches |-> bs, discr |-> discr, mapping |-> mapping]
TInter(bs)       == [k |-> "inter", nullable |-> FALSE, def |-> VNil, hints |-> <<>>, branches |-> bs]
TSlot(v)         == [k |-> "slot", nullable |-> FALSE, def |-> VNil, hints |-> <<>>, variant |-> v]
TNull            == TScalar("null")

AsNullable(t)    == [t EXCEPT !.nullable = TRUE]
WithDef(t, v)    == [t EXCEPT !.def = v]
WithHints(t, h)  == [t EXCEPT !.hints = h]
Hint(k, v)       == [key |-> k, val |-> v]

ObjC(p, n, t, c) == [name |-> n, comments |-> c, type |-> t, selfpkg |-> p, selfname |-> n]
Obj(p, n, t)     == ObjC(p, n, t, <<>>)
NoMeta           == [kind |-> "", variant |-> "", id |-> ""]
SchemaOf(p, objs) == [pkg |-> p, meta |-> NoMeta, entry |-> "", entrytype |-> TNone, objects |-> objs]

IsType(t) == t.k # "none" /\ t.k # "illformed"

(* ------------------------- generic traversal --------------------------- *)
\* children of a type, in every position that holds a type (map KEYS included,
\* former disjunctions kept in hints included)
HintTypes(t) == IF "hints" \in DOMAIN t
                THEN {t.hints[i].val.type : i \in {j \in DOMAIN t.hints : "type" \in DOMAIN t.hints[j].val}}
                ELSE {}
Children(t) ==
  (CASE t.k = "array"  -> {t.elem}
     [] t.k = "map"    -> {t.idx, t.elem}
     [] t.k = "struct" -> {t.fields[i].type : i \in DOMAIN t.fields}
     [] t.k = "disj"   -> Range(t.branches)
     [] t.k = "inter"  -> Range(t.branches)
     [] OTHER          -> {}) \cup HintTypes(t)

RECURSIVE SubTypes(_)
SubTypes(t) == {t} \cup UNION {SubTypes(c) : c \in Children(t)}

\* bottom-up rewrite: children first, then F on the rebuilt node.  F is applied
\* at EVERY position that holds a type.
RECURSIVE Walk(_, _)
Walk(F(_), t) ==
  IF ~IsType(t) THEN t ELSE
  LET t1 == CASE t.k = "array"  -> [t EXCEPT !.elem = Walk(F, t.elem)]
              [] t.k = "map"    -> [t EXCEPT !.idx = Walk(F, t.idx), !.elem = Walk(F, t.elem)]
              [] t.k = "struct" -> [t EXCEPT !.fields = [i \in DOMAIN t.fields |->
                                      [t.fields[i] EXCEPT !.type = Walk(F, t.fields[i].type)]]]
              [] t.k = "disj"   -> [t EXCEPT !.branches = [i \in DOMAIN t.branches |-> Walk(F, t.branches[i])]]
              [] t.k = "inter"  -> [t EXCEPT !.branches = [i \in DOMAIN t.branches |-> Walk(F, t.branches[i])]]
              [] OTHER          -> t
      t2 == [t1 EXCEPT !.hints = [i \in DOMAIN t1.hints |->
                 IF "type" \in DOMAIN t1.hints[i].val
                 THEN [t1.hints[i] EXCEPT !.val = [t1.hints[i].val EXCEPT !.type = Walk(F, t1.hints[i].val.type)]]
                 ELSE t1.hints[i]]]
  IN F(t2)

(* --------------------------- schemas, lookup --------------------------- *)
Pkgs(S)          == {S[i].pkg : i \in DOMAIN S}
Loaded(S, p)     == p \in Pkgs(S)
SchemaIdx(S, p)  == CHOOSE i \in DOMAIN S : S[i].pkg = p
ObjectsOf(S, p)  == IF Loaded(S, p) THEN S[SchemaIdx(S, p)].objects ELSE <<>>
NamesOf(S, p)    == {ObjectsOf(S, p)[i].name : i \in DOMAIN ObjectsOf(S, p)}
HasObject(S, p, n) == n \in NamesOf(S, p)
ObjectAt(S, p, n) == LET os == ObjectsOf(S, p) IN os[CHOOSE i \in DOMAIN os : os[i].name = n]
AllObjects(S)    == UNION {Range(S[i].objects) : i \in DOMAIN S}

(* ------------------------------ references ----------------------------- *)
\* every place that names another object (anchored state of C05):
\*   refs, constant refs, discriminator-mapping targets (name only), entry points
RefsOfNode(t) ==
  CASE t.k = "ref"      -> {[kind |-> "ref", pkg |-> t.pkg, name |-> t.name]}
    [] t.k = "constref" -> {[kind |-> "constant_ref", pkg |-> t.pkg, name |-> t.name]}
    [] OTHER            -> {}
RefsOfType(t) == UNION {RefsOfNode(s) : s \in SubTypes(t)}

\* discriminator-mapping targets carry a bare name; it must name an object of the
\* package of one of the union's reference branches (or of the enclosing schema)
MappingTargets(t, home) ==
  UNION {IF s.k = "disj"
         THEN {[kind |-> "mapping", name |-> s.mapping[i].to,
                pkgs |-> {home} \cup {s.branches[b].pkg : b \in {x \in DOMAIN s.branches : s.branches[x].k = "ref"}}]
               : i \in DOMAIN s.mapping}
         ELSE {} : s \in SubTypes(t)}

RefResolves(S, r) == Loaded(S, r.pkg) => HasObject(S, r.pkg, r.name)
MappingResolves(S, m) ==
  (\E p \in m.pkgs : Loaded(S, p)) => (\E p \in m.pkgs : HasObject(S, p, m.name))

DanglingInType(S, t, home) ==
  {r \in RefsOfType(t) : ~RefResolves(S, r)} \cup
  {[kind |-> "mapping", pkg |-> home, name |-> m.name] : m \in {x \in MappingTargets(t, home) : ~MappingResolves(S, x)}}

DanglingInSchema(S, sc) ==
  UNION {DanglingInType(S, sc.objects[i].type, sc.pkg) : i \in DOMAIN sc.objects}
  \cup (IF IsType(sc.entrytype) THEN {[r EXCEPT !.kind = "entrypoint_type"] : r \in DanglingInType(S, sc.entrytype, sc.pkg)} ELSE {})
  \cup (IF sc.entry # "" /\ ~HasObject(S, sc.pkg, sc.entry)
        THEN {[kind |-> "entrypoint", pkg |-> sc.pkg, name |-> sc.entry]} ELSE {})

Dangling(S) == UNION {DanglingInSchema(S, S[i]) : i \in DOMAIN S}
AllRefsResolve(S) == Dangling(S) = {}

\* self references agree with the object's own name and package
SelfRefsOK(S) == \A i \in DOMAIN S : \A j \in DOMAIN S[i].objects :
                   S[i].objects[j].selfpkg = S[i].pkg /\ S[i].objects[j].selfname = S[i].objects[j].name
NoDupObjects(S) == \A i \in DOMAIN S : \A a, b \in DOMAIN S[i].objects :
                   S[i].objects[a].name = S[i].objects[b].name => a = b

\* reachability over references and constant references (for allowed_objects).  Discriminator-mapping
\* targets are bare names that the union's reference branches already cover; following them as well
\* is not required (the reading under which more implementations pass) -- whether they still
\* resolve afterwards is judged by AllRefsResolve on the real result
DirectDeps(S, p, n) ==
  IF ~HasObject(S, p, n) THEN {} ELSE
  LET t == ObjectAt(S, p, n).type IN
    {<<r.pkg, r.name>> : r \in {x \in RefsOfType(t) : HasObject(S, x.pkg, x.name)}}
RECURSIVE ReachFrom(_, _, _)
ReachFrom(S, seen, frontier) ==
  IF frontier = {} THEN seen
  ELSE LET new == (UNION {DirectDeps(S, x[1], x[2]) : x \in frontier}) \ (seen \cup frontier)
       IN ReachFrom(S, seen \cup frontier, new)
Reach(S, roots) == ReachFrom(S, {}, {r \in roots : HasObject(S, r[1], r[2])})
===============================================================================
