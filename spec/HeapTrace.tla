------------------------------ MODULE HeapTrace ------------------------------
(* Trace validation for C18.  One record = one REAL original with two copies:  *)
(*   shape, plan   what was instantiated and which mutation plan was executed  *)
(*   cells, o,k,k2 the heap graph extracted by reflection from the original    *)
(*                 value (root o) and from what two calls of the real DeepCopy *)
(*                 method on it returned (roots k, k2); cells are identified   *)
(*                 by address, so a cell two roots reach is a shared cell      *)
(*   steps         per plan step: the value it was performed through (a), the  *)
(*                 mutation kind and every write performed (Heap.tla records)  *)
(*   leaks         OBSERVED: "a>v" = after a step through a, a deep snapshot   *)
(*                 of v (taken by an independent walk) had changed             *)
(* The operators of Heap.tla judge the record:                                 *)
(*   Iso       IsoV(cells, o, k) /\ IsoV(cells, o, k2)       sentence 1        *)
(*   Disjoint  pairwise disjoint MutableReach               sentence 2, 1st   *)
(*   Snapshot  no leak observed                             sentence 2, 2nd   *)
(* and the model is confronted with the observation (never a verdict on cog):  *)
(*   Drift     replaying the recorded writes step by step on the extracted    *)
(*             heap predicts exactly the observed leaks; and                   *)
(*             Iso /\ Disjoint => no leak observed (theorem Safe of HeapMC)    *)
(* Report mode prints one FAIL line per violating record; Strict stops.        *)
EXTENDS Heap, Json

CONSTANTS Strict
Trace == ndJsonDeserialize("trace.ndjson")

VARIABLE l
TInit == l = 1
TNext == l <= Len(Trace) /\ l' = l + 1
TSpec == TInit /\ [][TNext]_l

Step == Trace[l - 1]

Val(r, w) == IF w = "o" THEN r.o ELSE IF w = "k" THEN r.k ELSE r.k2
Names == {"o", "k", "k2"}

IsoR(r)      == IsoV(r.cells, r.o, r.k) /\ IsoV(r.cells, r.o, r.k2)
DisjointR(r) == /\ Disjoint(r.cells, r.o, r.k) /\ Disjoint(r.cells, r.o, r.k2) /\ Disjoint(r.cells, r.k, r.k2)

RECURSIVE LeaksFrom(_, _, _)
LeaksFrom(h, steps, r) ==
  IF steps = <<>> THEN {}
  ELSE LET st == Head(steps)
           h2 == ApplyMuts(h, st.muts)
       IN {st.a \o ">" \o w : w \in {x \in Names \ {st.a} : Snapshot(h2, Val(r, x)) # Snapshot(h, Val(r, x))}}
          \cup LeaksFrom(h2, Tail(steps), r)
Observed(r)  == {r.leaks[i] : i \in 1..Len(r.leaks)}
DriftR(r)    == \/ LeaksFrom(r.cells, r.steps, r) # Observed(r)
                \/ (IsoR(r) /\ DisjointR(r) /\ Observed(r) # {})

Violated(r) == (IF IsoR(r) THEN {} ELSE {"Iso"})
          \cup (IF DisjointR(r) THEN {} ELSE {"Disjoint"})
          \cup (IF Observed(r) # {} THEN {"Snapshot"} ELSE {})
          \cup (IF DriftR(r) THEN {"Drift"} ELSE {})

Verdict == l = 1 \/ Violated(Step) = {} \/
           (~Strict /\ PrintT(<<"FAIL", ToJson([l |-> l - 1, violated |-> Violated(Step),
                                                nshared |-> Cardinality(SharedCells(Step.cells, Step.o, Step.k)),
                                                predicted |-> LeaksFrom(Step.cells, Step.steps, Step)])>>))
Done == l = Len(Trace) + 1 => PrintT(<<"CONSUMED", l - 1>>)
===============================================================================
