------------------------------ MODULE HeapTrace ------------------------------
(* Trace validation for C18.  One record = one REAL copy:                      *)
(*   shape, plan   what was instantiated and which mutation plan was executed  *)
(*   cells, o, k   the heap graph extracted by reflection from the original    *)
(*                 value (root o) and from what the real DeepCopy method       *)
(*                 returned (root k); cells are identified by address, so a    *)
(*                 cell both roots reach is a cell the two values share        *)
(*   muts          every write the plan performed on the copy (Heap.tla        *)
(*                 mutation records, in order)                                 *)
(*   changed       OBSERVED: a deep snapshot of the original taken before the  *)
(*                 copy differs from one taken after the mutations             *)
(* The operators of Heap.tla judge the record:                                 *)
(*   Iso       IsoV(cells, o, k)                         sentence 1            *)
(*   Disjoint  MutableReach(o) \cap MutableReach(k) = {} sentence 2, 1st half  *)
(*   Snapshot  ~changed                                  sentence 2, 2nd half  *)
(* and the model is confronted with the observation (never a verdict on cog):  *)
(*   Drift     replaying muts on the extracted heap predicts a change of       *)
(*             Snapshot(o) iff one was observed; and Iso /\ Disjoint => no     *)
(*             change observed (the design-level theorem of HeapMC)            *)
(* Report mode prints one FAIL line per violating record; Strict stops.        *)
EXTENDS Heap, Json

CONSTANTS Strict
Trace == ndJsonDeserialize("trace.ndjson")

VARIABLE l
TInit == l = 1
TNext == l <= Len(Trace) /\ l' = l + 1
TSpec == TInit /\ [][TNext]_l

Step == Trace[l - 1]

IsoR(r)      == IsoV(r.cells, r.o, r.k)
DisjointR(r) == Disjoint(r.cells, r.o, r.k)
Predicted(r) == Snapshot(ApplyMuts(r.cells, r.muts), r.o) # Snapshot(r.cells, r.o)
DriftR(r)    == \/ Predicted(r) # r.changed
                \/ (IsoR(r) /\ DisjointR(r) /\ r.changed)

Violated(r) == (IF IsoR(r) THEN {} ELSE {"Iso"})
          \cup (IF DisjointR(r) THEN {} ELSE {"Disjoint"})
          \cup (IF r.changed THEN {"Snapshot"} ELSE {})
          \cup (IF DriftR(r) THEN {"Drift"} ELSE {})

Verdict == l = 1 \/ Violated(Step) = {} \/
           (~Strict /\ PrintT(<<"FAIL", ToJson([l |-> l - 1, violated |-> Violated(Step),
                                                nshared |-> Cardinality(SharedCells(Step.cells, Step.o, Step.k))])>>))
Done == l = Len(Trace) + 1 => PrintT(<<"CONSUMED", l - 1>>)
===============================================================================
