CONSTANTS
  Mode = "index"
  Ids = {1}
  TwoIds = {}
  Fuel = 3
SPECIFICATION DSpec
INVARIANTS DLabelsConsistent DNormSane DEmit
CHECK_DEADLOCK FALSE
