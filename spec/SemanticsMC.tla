------------------------------ MODULE SemanticsMC ------------------------------
(* Bounded universe for Semantics.tla (C01, C08, C13 and the later generated-   *)
(* code properties): a catalogue of schemas = a fixed covering list plus the    *)
(* combinatorial nesting  leaf kind x position  (top field, optional, nullable, *)
(* inside array / map / referenced struct / union branch / anonymous struct /   *)
(* recursive struct, and two-level compositions of those).                      *)
(*                                                                              *)
(* Mode = "index": one state per schema, prints INDEX {id, tags, schema}.       *)
(* Mode = "cases": one state per (schema in Ids, document in Docs(schema)),     *)
(*                 prints CASE {id, doc, f, p, accepts, norm, strictRejects,    *)
(*                 validateErrs}: the expectations the real generated code is   *)
(*                 compared with.                                               *)
EXTENDS Semantics, Json

CONSTANTS Mode,   \* "index" | "cases"
          Ids,    \* schema ids to expand in "cases" mode
          Fuel    \* depth budget for references (optional fields of recursive structs)

VARIABLES si, dx
vars == <<si, dx>>

(* ------------------------------- leaves --------------------------------- *)
L(n, t, c) == [name |-> n, t |-> t, cons |-> c]
ConsLeaves == <<
  L("int-ge",      TInt("int64", Ge(0), NoB), TRUE),
  L("int-le",      TInt("int64", NoB, Le(2)), TRUE),
  L("str-min",     TStr(1, -1), TRUE),
  L("str-max",     TStr(-1, 2), TRUE),
  L("num-gt",      TNum("float64", Gt(0), NoB), TRUE),
  L("num-le",      TNum("float64", NoB, Le(2)), TRUE),
  L("int-gt-lt",   TInt("int64", Gt(0), Lt(300)), TRUE),
  L("int32-range", TInt("int32", Ge(0), Le(2)), TRUE),
  L("num-ge",      TNum("float64", Ge(0), NoB), TRUE),
  L("str-range",   TStr(1, 2), TRUE),
  \* half-open ranges, one exclusive bound only, in both orientations; 2 sits ON the upper bound
  L("num-ge-lt",   TNum("float64", Ge(0), Lt(2)), TRUE),
  L("int-gt-le",   TInt("int64", Gt(0), Le(2)), TRUE)
>>
NDeep == 6     \* the first NDeep constraint leaves are also placed at the two-level positions
PlainLeaves == <<
  L("int8",    TInt("int8", NoB, NoB), FALSE),    L("int16",   TInt("int16", NoB, NoB), FALSE),
  L("int32",   TInt("int32", NoB, NoB), FALSE),   L("int64",   TInt("int64", NoB, NoB), FALSE),
  L("uint8",   TInt("uint8", NoB, NoB), FALSE),   L("uint16",  TInt("uint16", NoB, NoB), FALSE),
  L("uint32",  TInt("uint32", NoB, NoB), FALSE),  L("uint64",  TInt("uint64", NoB, NoB), FALSE),
  L("float32", TNum("float32", NoB, NoB), FALSE), L("float64", TNum("float64", NoB, NoB), FALSE),
  L("bool",    TBool, FALSE),                     L("string",  TStr(-1, -1), FALSE),
  L("enum",    TEnum(<<"a", "b">>), FALSE),       L("ienum",   TIEnum(<<1, 2>>), FALSE),
  L("const-str", TConst(JStr("x")), FALSE),       L("const-int", TConst(JInt(2)), FALSE),
  L("time",    TTime, FALSE),                     L("any",     TAny, FALSE),
  L("union-str-int", TUnion(<<TStr(-1, -1), TInt("int64", NoB, NoB)>>), FALSE),
  L("union-str-bool-num", TUnion(<<TStr(-1, -1), TBool, TNum("float64", NoB, NoB)>>), FALSE),
  \* unions of scalars whose branches are different NUMERIC kinds: 1 and 1.5 must both survive
  L("union-int-num", TUnion(<<TInt("int64", NoB, NoB), TNum("float64", NoB, NoB)>>), FALSE),
  L("union-int32-int64", TUnion(<<TInt("int32", NoB, NoB), TInt("int64", NoB, NoB)>>), FALSE)
>>

(* ------------------------------ positions ------------------------------- *)
\* a position = field modifier of Root.v  +  chain of wrappers applied to the leaf, innermost first
Pos(n, m, c) == [name |-> n, mod |-> m, chain |-> c]
BasicPos == <<
  Pos("top", "req", <<>>),            Pos("optional", "opt", <<>>),
  Pos("array", "req", <<"arr">>),     Pos("map", "req", <<"map">>),
  Pos("ref", "req", <<"ref">>),       Pos("union-branch", "req", <<"union">>),
  Pos("nullable", "null", <<>>),      Pos("optional-nullable", "optnull", <<>>),
  Pos("anon-struct", "req", <<"anon">>),
  Pos("optional-array", "opt", <<"arr">>), Pos("optional-map", "opt", <<"map">>), Pos("optional-ref", "opt", <<"ref">>),
  \* absent, null and [] are three documents for one value: the non-trivial transitivity witnesses of C13
  Pos("optional-nullable>array", "optnull", <<"arr">>)
>>
NPlainPos == 6  \* plain (unconstrained) leaves are placed at the first NPlainPos positions
DeepPos == <<
  Pos("array>array", "req", <<"arr", "arr">>),         Pos("map>array", "req", <<"arr", "map">>),
  Pos("array>map", "req", <<"map", "arr">>),           Pos("array>ref", "req", <<"ref", "arr">>),
  Pos("map>ref", "req", <<"ref", "map">>),             Pos("ref>array", "req", <<"arr", "ref">>),
  Pos("ref>map", "req", <<"map", "ref">>),             Pos("ref>optional", "req", <<"refopt">>),
  Pos("ref>ref", "req", <<"ref", "ref">>),             Pos("array>anon-struct", "req", <<"anon", "arr">>),
  Pos("array>union-branch", "req", <<"union", "arr">>), Pos("union-branch>ref", "req", <<"ref", "union">>),
  Pos("array>nullable-ref", "req", <<"ref", "nullable", "arr">>),
  Pos("map>nullable-ref", "req", <<"ref", "nullable", "map">>),
  Pos("recursive", "opt", <<"rec">>),                  Pos("ref>nullable", "req", <<"refnull">>),
  \* three levels: collections of collections of referenced structs
  Pos("array>array>ref", "req", <<"ref", "arr", "arr">>), Pos("map>array>ref", "req", <<"ref", "arr", "map">>),
  Pos("array>map>ref", "req", <<"ref", "map", "arr">>),   Pos("map>map>ref", "req", <<"ref", "map", "map">>),
  \* maps nested in maps inside one generated method (keys differ per level, see Semantics!MapRank)
  Pos("map>map", "req", <<"map", "map">>),                Pos("map>array>map", "req", <<"map", "arr", "map">>),
  \* references to NAMED collections (definitions that are arrays / maps, not structs): optional and nullable fields
  \* become pointers to the named slice / map type
  Pos("optional-named-array", "opt", <<"refarr">>),       Pos("optional-named-map", "opt", <<"refmap">>),
  Pos("nullable-named-array", "null", <<"refarr">>),      Pos("nullable-named-map", "null", <<"refmap">>),
  Pos("named-array", "req", <<"refarr">>),                Pos("named-map>map", "req", <<"map", "refmap">>),
  \* values that are optional scalars; structs behind an alias object; named scalar objects
  Pos("map>nullable", "req", <<"nullable", "map">>),      Pos("array>nullable", "req", <<"nullable", "arr">>),
  Pos("alias", "req", <<"alias">>),                       Pos("optional-alias", "opt", <<"alias">>),
  Pos("array>alias", "req", <<"alias", "arr">>),          Pos("named-scalar", "req", <<"refscalar">>),
  Pos("optional-named-scalar", "opt", <<"refscalar">>),   Pos("array>ref>optional-named-scalar", "req", <<"refscalar", "refopt", "arr">>),
  \* a named scalar behind a CHAIN of alias objects (two and three hops), as field, optional field, array item
  Pos("alias>named-scalar", "req", <<"refscalar", "aliasref">>),  Pos("optional-alias>named-scalar", "opt", <<"refscalar", "aliasref">>),
  Pos("alias>alias>named-scalar", "req", <<"refscalar", "aliasref", "aliasref">>),
  Pos("array>alias>named-scalar", "req", <<"refscalar", "aliasref", "arr">>),
  Pos("alias>alias>ref", "opt", <<"alias", "aliasref">>),
  \* nested collections whose INNERMOST items are nullable scalars
  Pos("array>array>nullable", "req", <<"nullable", "arr", "arr">>), Pos("map>array>nullable", "req", <<"nullable", "arr", "map">>),
  Pos("array>map>nullable", "req", <<"nullable", "map", "arr">>),  Pos("optional>array>array>array>nullable", "opt", <<"nullable", "arr", "arr", "arr">>)
>>

WT(t, defs) == [t |-> t, defs |-> defs]
Wrap(w, x, l) ==
  LET s == ToString(l) IN
  CASE w = "arr"      -> WT(TArr(x), <<>>)
    [] w = "map"      -> WT(TMap(x), <<>>)
    [] w = "nullable" -> WT(TNullable(x), <<>>)
    [] w = "anon"     -> WT(TStruct(<<F("c", x)>>), <<>>)
    [] w = "ref"      -> WT(TRef("C" \o s), <<Def("C" \o s, TStruct(<<F("c", x)>>))>>)
    [] w = "refopt"   -> WT(TRef("C" \o s), <<Def("C" \o s, TStruct(<<FOpt("c", x), F("d", TBool)>>))>>)
    [] w = "refnull"  -> WT(TRef("C" \o s), <<Def("C" \o s, TStruct(<<FNull("c", x), F("d", TBool)>>))>>)
    [] w = "refarr"   -> WT(TRef("L" \o s), <<Def("L" \o s, TArr(x))>>)
    [] w = "refmap"   -> WT(TRef("M" \o s), <<Def("M" \o s, TMap(x))>>)
    [] w = "alias"    -> WT(TRef("Al" \o s), <<Def("Al" \o s, TRef("C" \o s)), Def("C" \o s, TStruct(<<F("c", x), FOpt("o", TStr(-1, -1))>>))>>)
    [] w = "aliasref" -> WT(TRef("Q" \o s), <<Def("Q" \o s, x)>>)          \* an alias object in front of a reference (x must be a ref)
    [] w = "refscalar" -> WT(TRef("S" \o s), <<Def("S" \o s, x)>>)
    [] w = "rec"      -> WT(TRef("N" \o s), <<Def("N" \o s, TStruct(<<F("c", x), FOpt("next", TRef("N" \o s))>>))>>)
    [] w = "union"    -> WT(TDUnion("kind", <<"A" \o s, "B" \o s>>),
                            <<Def("A" \o s, TStruct(<<F("kind", TConst(JStr("a"))), F("c", x)>>)),
                              Def("B" \o s, TStruct(<<F("kind", TConst(JStr("b"))), F("s", TStr(-1, -1))>>))>>)
RECURSIVE WrapAll(_, _, _)
WrapAll(x, chain, l) ==
  IF l > Len(chain) THEN x
  ELSE LET w == Wrap(chain[l], x.t, l) IN WrapAll(WT(w.t, x.defs \o w.defs), chain, l + 1)

Schema(leaf, pos) ==
  LET w == WrapAll(WT(leaf.t, <<>>), pos.chain, 1)
      v == CASE pos.mod = "req"     -> F("v", w.t)
             [] pos.mod = "opt"     -> FOpt("v", w.t)
             [] pos.mod = "null"    -> FNull("v", w.t)
             [] pos.mod = "optnull" -> FOptNull("v", w.t)
  IN [defs |-> <<Def("Root", TStruct(<<F("w", TStr(-1, -1)), v>>))>> \o w.defs, root |-> "Root"]
Entry(leaf, pos) == [schema |-> Schema(leaf, pos), leaf |-> leaf.name, pos |-> pos.name, cons |-> leaf.cons]

(* --------------------------- fixed covering list ------------------------ *)
Fixed(n, defs, cons) == [schema |-> [defs |-> defs, root |-> "Root"], leaf |-> n, pos |-> "fixed", cons |-> cons]
Child == Def("Child", TStruct(<<F("cid", TInt("int64", Ge(1), NoB))>>))
FixedList == <<
  \* one struct carrying most constructs at once (the shape used in the round-0 probes)
  Fixed("kitchen-sink", <<
    Def("Root", TStruct(<<
      F("id", TInt("int64", Ge(0), Le(2))), F("name", TStr(1, 2)), FOpt("ratio", TNum("float64", Gt(0), NoB)),
      FOptNull("on", TStr(-1, -1)), FNull("nn", TStr(-1, -1)),
      F("kids", TArr(TRef("Child"))), F("labels", TMap(TStr(1, -1))), FOpt("mk", TMap(TRef("Child"))),
      F("u", TUnion(<<TStr(-1, -1), TInt("int64", NoB, NoB)>>)), F("du", TDUnion("kind", <<"A", "B">>)),
      FOpt("e", TEnum(<<"a", "b">>)), FOpt("ie", TIEnum(<<1, 2>>)), FOpt("c", TConst(JStr("x"))),
      F("when", TTime), F("an", TAny), F("inl", TStruct(<<F("z", TInt("int64", Ge(1), NoB))>>)),
      FOpt("rec", TRef("Node")), FOpt("oa", TArr(TStr(-1, -1)))>>)),
    Child,
    Def("Node", TStruct(<<F("v", TStr(1, -1)), FOpt("next", TRef("Node"))>>)),
    Def("A", TStruct(<<F("kind", TConst(JStr("a"))), F("x", TInt("int64", Ge(0), NoB))>>)),
    Def("B", TStruct(<<F("kind", TConst(JStr("b"))), F("y", TStr(-1, -1))>>))>>, TRUE),
  \* required fields WITH defaults: their absence is not a rejection cause (C08), defaults are C10's subject
  Fixed("defaults", <<
    Def("Root", TStruct(<<
      FDef("s", TStr(-1, -1), JStr("ab")), FDef("b", TBool, JBool(TRUE)), FDef("i", TInt("int64", NoB, NoB), JInt(1)),
      FDef("n", TNum("float64", NoB, NoB), JNum(15)), FDef("e", TEnum(<<"a", "b">>), JStr("b")),
      F("plain", TStr(-1, -1))>>))>>, FALSE),
  Fixed("defaults-str-bool", <<
    Def("Root", TStruct(<<
      FDef("s", TStr(1, -1), JStr("ab")), FDef("b", TBool, JBool(TRUE)), F("plain", TInt("int64", Ge(0), NoB))>>))>>, TRUE),
  \* C13's quantifier: nested arrays/maps of nullable references, optional scalars, enums, any-typed fields, union structs
  Fixed("equality", <<
    Def("Root", TStruct(<<
      F("aon", TArr(TNullable(TRef("Child")))), F("mon", TMap(TNullable(TRef("Child")))),
      F("aa", TArr(TArr(TRef("Child")))), F("ma", TMap(TArr(TStr(-1, -1)))),
      FOpt("os", TStr(-1, -1)), FOpt("oi", TInt("int64", NoB, NoB)), FOpt("ob", TBool), FOpt("of", TNum("float64", NoB, NoB)),
      F("e", TEnum(<<"a", "b">>)), F("an", TAny), FOpt("oan", TAny), F("du", TDUnion("kind", <<"A", "B">>)),
      F("u", TUnion(<<TStr(-1, -1), TBool>>))>>)),
    Child,
    Def("A", TStruct(<<F("kind", TConst(JStr("a"))), F("x", TInt("int64", NoB, NoB))>>)),
    Def("B", TStruct(<<F("kind", TConst(JStr("b"))), F("y", TStr(-1, -1))>>))>>, TRUE),
  \* more of C13's territory: maps / arrays whose values are optional scalars or optional enum references, structs reached
  \* through an ALIAS object (a definition that is itself a reference), NAMED scalar objects behind optional fields
  Fixed("equality-2", <<
    Def("Root", TStruct(<<
      F("mos", TMap(TNullable(TStr(-1, -1)))), F("moi", TMap(TNullable(TInt("int64", NoB, NoB)))),
      FOpt("moe", TMap(TNullable(TRef("Level")))), F("aos", TArr(TNullable(TStr(-1, -1)))),
      F("anchor", TRef("Anchor")), FOpt("fallback", TRef("Anchor")), F("guides", TArr(TRef("Anchor"))),
      F("owner", TRef("Uid")), FOpt("datasource", TRef("Uid")), FOpt("weight", TRef("Weight")),
      F("rows", TArr(TRef("Row"))),
      FOpt("items", TArr(TAny)), FOpt("bag", TMap(TAny)), FOptNull("nitems", TArr(TAny)), F("grid", TArr(TArr(TNullable(TNum("float64", NoB, NoB))))),
      FOpt("lvls", TMap(TArr(TNullable(TRef("Level")))))>>)),
    Def("Level", TEnum(<<"a", "b">>)),
    Def("Anchor", TRef("Position")),
    Def("Position", TStruct(<<F("x", TInt("int64", NoB, NoB)), FOpt("unit", TStr(-1, -1))>>)),
    Def("Uid", TStr(-1, -1)), Def("Weight", TNum("float64", NoB, NoB)),
    Def("Row", TStruct(<<F("id", TRef("Uid")), FOpt("ds", TRef("Uid")), FOpt("at", TRef("Anchor"))>>))>>, FALSE),
  \* required fields whose default is the ZERO value of their type: their absence is still not a rejection cause (C08)
  Fixed("falsy-defaults", <<
    Def("Root", TStruct(<<
      FDef("s", TStr(-1, -1), JStr("")), FDef("b", TBool, JBool(FALSE)), FDef("i", TInt("int64", NoB, NoB), JInt(0)),
      FDef("n", TNum("float64", NoB, NoB), JNum(0)), FDef("a", TArr(TStr(-1, -1)), JArr(<<>>)),
      F("plain", TStr(-1, -1))>>))>>, FALSE),
  \* one union of three branches including null, used several times: as nullable fields, as array item, as map value (C01)
  Fixed("reused-nullable-union", <<
    Def("Root", TStruct(<<
      FNull("first", TUnion(<<TStr(-1, -1), TBool>>)), FNull("second", TUnion(<<TStr(-1, -1), TBool>>)),
      FOptNull("third", TUnion(<<TStr(-1, -1), TBool>>)),
      F("items", TArr(TNullable(TUnion(<<TStr(-1, -1), TBool>>)))), F("m", TMap(TNullable(TUnion(<<TStr(-1, -1), TBool>>))))>>))>>, FALSE),
  \* the SAME union typing positions of different nullability, in both orders (optional first / required first): a null is a
  \* fault exactly at the required non-nullable uses (C08), a valid value at the nullable ones (C01)
  Fixed("reused-union-orders", <<
    Def("Root", TStruct(<<
      FOpt("a", TUnion(<<TStr(-1, -1), TBool>>)), F("b", TUnion(<<TStr(-1, -1), TBool>>)), FNull("c", TUnion(<<TStr(-1, -1), TBool>>)),
      F("d", TUnion(<<TStr(-1, -1), TBool>>)), FOptNull("e", TUnion(<<TStr(-1, -1), TBool>>)), F("f", TUnion(<<TStr(-1, -1), TBool>>)),
      F("g", TArr(TUnion(<<TStr(-1, -1), TBool>>)))>>))>>, FALSE),
  Fixed("reused-union-orders-reversed", <<
    Def("Root", TStruct(<<
      F("a", TUnion(<<TStr(-1, -1), TBool>>)), FOpt("b", TUnion(<<TStr(-1, -1), TBool>>)), F("c", TUnion(<<TStr(-1, -1), TBool>>)),
      FNull("d", TUnion(<<TStr(-1, -1), TBool>>)), F("e", TUnion(<<TStr(-1, -1), TBool>>))>>))>>, FALSE),
  \* OPTIONAL fields with defaults (non-zero and zero): a document giving them the zero value of their type must round-trip
  Fixed("optional-defaults", <<
    Def("Root", TStruct(<<
      FOptDef("s", TStr(-1, -1), JStr("ab")), FOptDef("b", TBool, JBool(TRUE)), FOptDef("i", TInt("int64", NoB, NoB), JInt(1)),
      FOptDef("n", TNum("float64", NoB, NoB), JNum(15)), FOptDef("e", TEnum(<<"a", "b">>), JStr("b")),
      FOptDef("z", TInt("int64", NoB, NoB), JInt(0)), FOptDef("f", TBool, JBool(FALSE)), FOptDef("a", TArr(TStr(-1, -1)), JArr(<<>>)),
      FOptDef("iv", TInt("int64", Ge(1), NoB), JInt(2)), FOptDef("sv", TStr(1, -1), JStr("ab")), FOptDef("nv", TNum("float64", Gt(0), NoB), JNum(15)),
      F("plain", TStr(-1, -1))>>))>>, TRUE),
  \* unions of structs carrying TWO constant fields, one shared and same-valued, one discriminating, in both declaration
  \* orders and both alphabetical orders (the shared one is called `version` - after `kind` - or `aversion` - before it)
  Fixed("union-two-constants", <<
    Def("Root", TStruct(<<
      F("p", TDUnion("kind", <<"A1", "B1">>)), F("q", TDUnion("kind", <<"A2", "B2">>)),
      F("r", TDUnion("kind", <<"A3", "B3">>)), F("s", TArr(TDUnion("kind", <<"A4", "B4">>)))>>)),
    Def("A1", TStruct(<<F("version", TConst(JStr("v1"))), F("kind", TConst(JStr("a"))), F("x", TInt("int64", NoB, NoB))>>)),
    Def("B1", TStruct(<<F("version", TConst(JStr("v1"))), F("kind", TConst(JStr("b"))), F("y", TStr(-1, -1))>>)),
    Def("A2", TStruct(<<F("kind", TConst(JStr("a"))), F("version", TConst(JStr("v1"))), F("x", TInt("int64", NoB, NoB))>>)),
    Def("B2", TStruct(<<F("kind", TConst(JStr("b"))), F("version", TConst(JStr("v1"))), F("y", TStr(-1, -1))>>)),
    Def("A3", TStruct(<<F("aversion", TConst(JStr("v1"))), F("kind", TConst(JStr("a"))), F("x", TInt("int64", NoB, NoB))>>)),
    Def("B3", TStruct(<<F("aversion", TConst(JStr("v1"))), F("kind", TConst(JStr("b"))), F("y", TStr(-1, -1))>>)),
    Def("A4", TStruct(<<F("kind", TConst(JStr("a"))), F("aversion", TConst(JStr("v1"))), F("x", TInt("int64", NoB, NoB))>>)),
    Def("B4", TStruct(<<F("kind", TConst(JStr("b"))), F("aversion", TConst(JStr("v1"))), F("y", TStr(-1, -1))>>))>>, FALSE),
  \* the SAME referenced struct typing positions of different nullability, in both orders
  Fixed("reused-ref-orders", <<
    Def("Root", TStruct(<<
      FOpt("a", TRef("Child")), F("b", TRef("Child")), FNull("c", TRef("Child")), F("d", TRef("Child")),
      F("e", TArr(TNullable(TRef("Child")))), F("f", TArr(TRef("Child"))), FOptNull("g", TRef("Child"))>>)),
    Child>>, TRUE),
  \* bounds whose argument is NEGATIVE, integers and floats; -1 and 0 sit on either side of each
  Fixed("negative-bounds", <<
    Def("Root", TStruct(<<
      F("a", TInt("int64", Gt(-1), NoB)), F("b", TInt("int64", NoB, Le(-1))), F("c", TInt("int64", Ge(-1), Le(2))),
      F("d", TNum("float64", Gt(-1), NoB)), F("e", TNum("float64", NoB, Le(-1))), FOpt("f", TInt("int64", NoB, Lt(0))),
      FOpt("g", TArr(TNum("float64", Ge(-1), NoB))), FOpt("h", TMap(TInt("int64", Gt(-1), NoB)))>>))>>, TRUE),
  \* required properties whose names ro / wo / dep make the OpenAPI rendering annotate them readOnly / writeOnly / deprecated:
  \* annotations do not change required-ness (the other renderings are plain)
  Fixed("openapi-annotations", <<
    Def("Root", TStruct(<<
      F("ro", TStr(1, -1)), F("wo", TInt("int64", Ge(0), NoB)), F("dep", TBool), FOpt("oro", TStr(-1, -1)), F("plain", TStr(-1, -1)),
      F("sub", TRef("Sub"))>>)),
    Def("Sub", TStruct(<<F("ro", TInt("int64", NoB, NoB)), FOpt("wo", TStr(-1, -1))>>))>>, TRUE),
  \* half-open numeric ranges in both orientations, integer and float, required and optional: 0 and 2 sit ON the bounds
  Fixed("half-open-ranges", <<
    Def("Root", TStruct(<<
      F("a", TNum("float64", Ge(0), Lt(2))), F("b", TNum("float64", Gt(0), Le(2))),
      F("c", TInt("int64", Ge(0), Lt(2))), F("d", TInt("int64", Gt(0), Le(2))),
      FOpt("e", TNum("float64", Ge(0), Lt(2))), FOpt("f", TArr(TInt("int64", Gt(0), Le(2))))>>))>>, TRUE),
  \* declared properties that differ only by letter case, one required and one optional (C01)
  Fixed("case-twins", <<
    Def("Root", TStruct(<<
      F("userID", TStr(1, -1)), FOpt("userId", TStr(1, -1)), FOpt("name", TStr(-1, -1)),
      FOpt("p", TRef("ItemID")), FOpt("q", TRef("ItemId"))>>)),
    Def("ItemID", TStruct(<<F("n", TInt("int64", Ge(0), NoB))>>)),
    Def("ItemId", TStruct(<<F("n", TStr(1, -1)), FOpt("o", TBool)>>))>>, TRUE),
  \* TWO packages (definitions named "x.Name" live in a second input file / Go package): named collections with the SAME
  \* bare name in both, the foreign unconstrained one first in field order, plus a foreign struct
  Fixed("two-packages", <<
    Def("Root", TStruct(<<
      F("a", TRef("x.Coll")), F("b", TRef("Coll")), F("c", TRef("x.List")), F("d", TRef("List")),
      FOpt("e", TRef("x.Child")), FOpt("f", TArr(TRef("x.Child"))), F("g", TRef("x.Tags")), F("h", TRef("Tags")),
      FOpt("i", TRef("x.Dict")), FOpt("j", TRef("Dict")), FOpt("k", TRef("x.Unit")), FOpt("l", TRef("Unit")),
      FOpt("m", TRef("x.Item")), FOpt("n", TRef("Item"))>>)),
    Def("Unit", TStr(1, -1)), Def("x.Unit", TStr(-1, -1)),
    Def("Item", TStruct(<<F("n", TInt("int64", Ge(0), NoB)), FOpt("o", TStr(-1, -1))>>)), Def("x.Item", TStruct(<<F("n", TInt("int64", NoB, NoB))>>)),
    Def("Tags", TArr(TNullable(TStr(-1, -1)))), Def("x.Tags", TArr(TStr(-1, -1))),
    Def("Dict", TMap(TNullable(TInt("int64", NoB, NoB)))), Def("x.Dict", TMap(TInt("int64", NoB, NoB))),
    Def("Coll", TMap(TStr(1, -1))), Def("List", TArr(TInt("int64", Ge(0), NoB))),
    Def("x.Coll", TMap(TStr(-1, -1))), Def("x.List", TArr(TInt("int64", NoB, NoB))),
    Def("x.Child", TStruct(<<F("cid", TInt("int64", Ge(1), NoB)), FOpt("tags", TRef("x.Coll")), FOpt("list", TArr(TStr(-1, -1))), FOpt("dict", TMap(TInt("int64", NoB, NoB)))>>))>>, TRUE),
  \* control: the constrained own collection first
  Fixed("two-packages-reversed", <<
    Def("Root", TStruct(<<
      F("a", TRef("Coll")), F("b", TRef("x.Coll")), F("c", TRef("List")), F("d", TRef("x.List")),
      F("g", TRef("Tags")), F("h", TRef("x.Tags")), FOpt("i", TRef("Dict")), FOpt("j", TRef("x.Dict")),
      FOpt("k", TRef("Unit")), FOpt("l", TRef("x.Unit")), FOpt("m", TRef("Item")), FOpt("n", TRef("x.Item"))>>)),
    Def("Unit", TStr(1, -1)), Def("x.Unit", TStr(-1, -1)),
    Def("Item", TStruct(<<F("n", TInt("int64", Ge(0), NoB)), FOpt("o", TStr(-1, -1))>>)), Def("x.Item", TStruct(<<F("n", TInt("int64", NoB, NoB))>>)),
    Def("Tags", TArr(TNullable(TStr(-1, -1)))), Def("x.Tags", TArr(TStr(-1, -1))),
    Def("Dict", TMap(TNullable(TInt("int64", NoB, NoB)))), Def("x.Dict", TMap(TInt("int64", NoB, NoB))),
    Def("Coll", TMap(TStr(1, -1))), Def("List", TArr(TInt("int64", Ge(0), NoB))),
    Def("x.Coll", TMap(TStr(-1, -1))), Def("x.List", TArr(TInt("int64", NoB, NoB)))>>, TRUE),
  \* a tree: recursion through an array and through an optional reference
  Fixed("tree", <<
    Def("Root", TStruct(<<F("root", TRef("Node"))>>)),
    Def("Node", TStruct(<<F("v", TInt("int64", Ge(0), NoB)), FOpt("kids", TArr(TRef("Node"))), FOpt("next", TRef("Node"))>>))>>, TRUE),
  \* every scalar width side by side
  Fixed("widths", <<
    Def("Root", TStruct(<<
      F("i8", TInt("int8", NoB, NoB)), F("i16", TInt("int16", NoB, NoB)), F("i32", TInt("int32", NoB, NoB)), F("i64", TInt("int64", NoB, NoB)),
      F("u8", TInt("uint8", NoB, NoB)), F("u16", TInt("uint16", NoB, NoB)), F("u32", TInt("uint32", NoB, NoB)), F("u64", TInt("uint64", NoB, NoB)),
      F("f32", TNum("float32", NoB, NoB)), F("f64", TNum("float64", NoB, NoB)), F("b", TBool), F("s", TStr(-1, -1))>>))>>, FALSE),
  \* optional collections and optional nested structs (C01's explicit-null / empty-collection corner)
  Fixed("optional-collections", <<
    Def("Root", TStruct(<<
      FOpt("oa", TArr(TInt("int64", NoB, NoB))), FOpt("om", TMap(TStr(-1, -1))), FOptNull("ons", TStr(-1, -1)),
      FOpt("oc", TRef("Child")), FOpt("oaa", TArr(TArr(TStr(-1, -1)))), FOpt("oin", TStruct(<<F("z", TStr(-1, -1))>>)),
      F("a", TArr(TStr(-1, -1))), F("m", TMap(TInt("int64", NoB, NoB)))>>)),
    Child>>, TRUE),
  \* optional / nullable date-times and numeric unions side by side (C01: absent, null and present date-times; 1 and 1.5)
  Fixed("times-and-numeric-unions", <<
    Def("Root", TStruct(<<
      F("createdAt", TTime), FOpt("archivedAt", TTime), FNull("deletedAt", TTime), FOptNull("seenAt", TTime),
      F("stamps", TArr(TTime)), FOpt("byKey", TMap(TTime)),
      F("value", TUnion(<<TInt("int64", NoB, NoB), TNum("float64", NoB, NoB)>>)),
      FOpt("ovalue", TUnion(<<TInt("int64", NoB, NoB), TNum("float64", NoB, NoB)>>)),
      F("wide", TUnion(<<TInt("int32", NoB, NoB), TInt("int64", NoB, NoB)>>)),
      F("values", TArr(TUnion(<<TNum("float64", NoB, NoB), TStr(-1, -1)>>)))>>))>>, FALSE),
  \* three-level nesting of constraints: map of arrays of referenced structs holding a map
  Fixed("deep", <<
    Def("Root", TStruct(<<F("m", TMap(TArr(TRef("Mid"))))>>)),
    Def("Mid", TStruct(<<F("inner", TMap(TStr(1, 2))), FOpt("leaf", TRef("Leaf"))>>)),
    Def("Leaf", TStruct(<<F("n", TInt("int64", Ge(0), Le(2))), FOpt("f", TNum("float64", NoB, Lt(2)))>>))>>, TRUE),
  \* union of three struct branches, one of them carrying nested constraints
  Fixed("union-3", <<
    Def("Root", TStruct(<<F("items", TArr(TDUnion("kind", <<"A", "B", "C">>))), FOpt("one", TDUnion("kind", <<"A", "B", "C">>))>>)),
    Def("A", TStruct(<<F("kind", TConst(JStr("a"))), F("tags", TArr(TStr(1, -1)))>>)),
    Def("B", TStruct(<<F("kind", TConst(JStr("b"))), FOpt("n", TInt("int64", NoB, Le(2)))>>)),
    Def("C", TStruct(<<F("kind", TConst(JStr("c"))), F("child", TRef("Child"))>>)),
    Child>>, TRUE)
>>

(* fixed schemas added after the catalogue was first numbered: appended at the END so that no id changes *)
TailList == <<
  \* ONE side of a number carrying BOTH the inclusive and the exclusive keyword (JSON Schema `minimum` + `exclusiveMinimum`,
  \* CUE `>=a & >b`): the same value on both (the exclusive one decides: the value ON the bound is invalid), the inclusive one
  \* tighter, the exclusive one tighter; integers and floats; required, optional, array item, map value, referenced struct.
  \* 0, 1, 1.5, 2 sit on / between the bounds, so a reader that keeps only ONE of the two keywords is seen whichever it keeps.
  Fixed("double-bounds", <<
    Def("Root", TStruct(<<
      F("a", TNum("float64", GeGt(0, 0), NoB)),  F("b", TNum("float64", NoB, LeLt(2, 2))),
      F("c", TInt("int64", GeGt(0, 0), LeLt(2, 2))),
      F("d", TNum("float64", GeGt(2, 0), NoB)),  F("e", TNum("float64", GeGt(0, 1), NoB)),
      F("f", TNum("float64", NoB, LeLt(1, 2))),  F("g", TInt("int64", NoB, LeLt(2, 1))),
      FOpt("h", TArr(TInt("int64", GeGt(0, 0), NoB))), FOpt("i", TMap(TNum("float64", NoB, LeLt(2, 2)))),
      FOpt("j", TNum("float64", GeGt(0, 0), Le(2))), F("r", TRef("Sub"))>>)),
    Def("Sub", TStruct(<<F("n", TInt("int64", GeGt(1, 1), NoB)), FOpt("m", TNum("float64", Ge(0), LeLt(2, 2)))>>))>>, TRUE)
>>

(* ------------------------------ catalogue ------------------------------- *)
\* CoreCatalogue: what EmitSchemaMC (C12) builds on; Catalogue: what the generated-code checks enumerate
CoreCatalogue ==
  FixedList
  \o [i \in 1..(Len(ConsLeaves) * Len(BasicPos)) |->
        Entry(ConsLeaves[((i - 1) \div Len(BasicPos)) + 1], BasicPos[((i - 1) % Len(BasicPos)) + 1])]
  \o [i \in 1..(NDeep * Len(DeepPos)) |->
        Entry(ConsLeaves[((i - 1) \div Len(DeepPos)) + 1], DeepPos[((i - 1) % Len(DeepPos)) + 1])]
  \o [i \in 1..(Len(PlainLeaves) * NPlainPos) |->
        Entry(PlainLeaves[((i - 1) \div NPlainPos) + 1], BasicPos[((i - 1) % NPlainPos) + 1])]
Catalogue == CoreCatalogue \o TailList

Marker == [d |-> NoJ, f |-> "index", p |-> <<>>]
Init == IF Mode = "index"
        THEN si \in DOMAIN Catalogue /\ dx = Marker
        ELSE si \in (Ids \cap DOMAIN Catalogue) /\ dx \in Docs(Catalogue[si].schema, Fuel)
Next == UNCHANGED vars
Spec == Init /\ [][Next]_vars

(* ------------- design-level sanity of the specification itself (checked by TLC on every state) ------------- *)
\* the labels Variants attaches to a document agree with what Accepts / StrictRejects / ValidateErrs say about it
CurS == DefsFn(Catalogue[si].schema)
CurT == CurS[Catalogue[si].schema.root]
LabelsConsistent ==
  Mode = "cases" =>
    LET ac == Accepts(CurS, CurT, dx.d)
        sr == StrictRejects(CurS, CurT, dx.d)
        ve == ValidateErrs(CurS, CurT, dx.d, <<>>)
    IN /\ dx.f \in {"base", "alt"} => (ac /\ ~sr /\ ve = {})
       /\ dx.f \in {"DropRequired", "NullRequired", "AddUndeclared", "WrongType"} => (~ac /\ sr)
       /\ dx.f = "BreakBound" => (~ac /\ ~sr /\ ve # {})
       /\ dx.f = "DropDefaulted" => (~ac /\ ~sr)
       /\ dx.f = "NonMember" => ~ac
       /\ ac => (~sr /\ ve = {})                       \* a document the schema accepts is never rejected and never invalid
\* Norm is idempotent, keeps acceptance and changes nothing but optional explicit nulls (so it is Eq-neutral)
NormSane ==
  (Mode = "cases" /\ Accepts(CurS, CurT, dx.d)) =>
    LET n == Norm(CurS, CurT, dx.d) IN
    /\ Accepts(CurS, CurT, n)
    /\ Norm(CurS, CurT, n) = n
    /\ Eq(n, dx.d)
\* Eq is reflexive and coarser than JSON equality
EqSane == Mode = "cases" => (Eq(dx.d, dx.d) /\ JsonEq(dx.d, dx.d))

Emit ==
  IF Mode = "index"
  THEN PrintT(<<"INDEX", ToJson([id |-> si, leaf |-> Catalogue[si].leaf, pos |-> Catalogue[si].pos,
                                  cons |-> Catalogue[si].cons, schema |-> Catalogue[si].schema])>>)
  ELSE PrintT(<<"CASE", ToJson([id |-> si] @@ Expect(Catalogue[si].schema, dx))>>)
===============================================================================
