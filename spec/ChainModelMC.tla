------------------------------ MODULE ChainModelMC ------------------------------
(* Design-level check of the ORDER of the built-in passes (C06, DESIGN.md 3.4). *)
(* Over the input universe of LangChainsMC (shape x leaf x position, plus a few *)
(* inputs whose root object is named like the package so that InferEntrypoint   *)
(* has something to do) and the seven languages, TLC evaluates the chain of     *)
(* IDEAL passes (ChainModel.tla) in the REAL order (ChainModelReal.tla, written *)
(* from `worker chain-list` at check time) and checks                           *)
(*   (a) NormalForm(L, result), AllRefsResolve(result), objects well formed;    *)
(*   (b) every pass finds what it relies on, establishes its clause, keeps the  *)
(*       clauses established before it, and keeps every reference resolving.    *)
(* Each state also prints a summary of the ideal result (violated clauses,      *)
(* number of objects per kind, passes that changed the state) that the check    *)
(* compares with the REAL result of the same input (MODEL-DRIFT, diagnostic).   *)
EXTENDS ChainModel, LangChainsMC, ChainModelReal

CONSTANTS Strict        \* TRUE: a fault is an invariant violation (self-test, replay); FALSE: report mode

VARIABLES lang, stage

CMFold == [x \in {"P"} |-> "p"]
CMNumeric == {"0", "1", "2", "10", "20", "-1"}
CMSigned  == {"-1"}

\* inputs for InferEntrypoint: the object under test is named like the package
EntryCases == {[shape |-> s, leaf |-> l, pos |-> "entry"] : s \in Shapes(1), l \in DOMAIN Leaves}
InputIR(x) ==
  IF x.pos = "entry"
  THEN <<SchemaOf("p", <<Obj("p", "P", TypeOf(x.shape, x.leaf)), SObj, S2Obj, EObj, UObj, A1Obj, A2Obj, SgObj, EonObj, ArrObj, AArrObj>>)>>
  ELSE CaseIR(x.shape, x.leaf, x.pos)
AllCases == {x \in Cases : InSlice(x.shape, x.leaf)} \cup EntryCases

\* TLC evaluates the invariants of initial states (and of all successors of ONE state) on one thread: the
\* universe is reached in two steps (language x leaf, then the cases of that leaf) so that the workers share it
NoCase == [shape |-> <<>>, leaf |-> 0, pos |-> "-"]
MInit == c = NoCase /\ lang = "-" /\ stage = 0
MNext == \/ /\ stage = 0
            /\ stage' = 1
            /\ lang' \in DOMAIN RealChain
            /\ c' \in {[NoCase EXCEPT !.leaf = l] : l \in DOMAIN Leaves}
         \/ /\ stage = 1
            /\ stage' = 2
            /\ lang' = lang
            /\ c' \in {x \in AllCases : x.leaf = c.leaf}
MSpec == MInit /\ [][MNext]_<<c, lang, stage>>

AllInlineKinds == {"scalar", "array", "map", "disj"}
Report ==
  LET in == Prep(InputIR(c))
      r  == ChainReport(lang, RealChain[lang], RealInlineKinds[lang], in)
      alone == IF lang = "go" THEN {p \in PassNames : ApplyPass(p, AllInlineKinds, in) # in} ELSE {}
  IN [shape |-> c.shape, leaf |-> c.leaf, pos |-> c.pos, lang |-> lang,
      faults |-> r.faults, changing |-> r.changing, alone |-> alone, viol |-> r.viol, kinds |-> r.kinds,
      input |-> IF r.faults = {} THEN <<>> ELSE InputIR(c)]     \* the witness, for the confirming real run

InputOK == stage = 2 => AllRefsResolve(InputIR(c)) /\ SelfRefsOK(InputIR(c)) /\ NoDupObjects(InputIR(c))
\* (a) and (b) as one invariant; in report mode every state prints its summary and the faults are collected
Shards == stage = 1 => PrintT(<<"SHARD", lang, c.leaf>>)
ChainsReachNormalForm ==
  stage = 2 => LET r == Report IN PrintT(<<"MODEL", ToJson(r)>>) /\ (Strict => r.faults = {})
===============================================================================
