------------------------------- MODULE ConfigLang -------------------------------
(* C20 - the configuration language of cog's three kinds of YAML files          *)
(* (pipeline, schema transformations = "compiler", builder transformations =    *)
(* "veneers") and the two statements the property makes about it:               *)
(*                                                                              *)
(*  Strict        a document is accepted by the loader  <=>  every mapping node *)
(*                only carries keys of the configuration language at that path  *)
(*                /\ every rule entry has a recognised action                   *)
(*  SameLanguage  the published JSON Schemas declare exactly the keys the       *)
(*                loaders accept, at every key path                             *)
(*                                                                              *)
(* The language is given twice, as two values of the same shape:                *)
(*   KPublished  extracted from /repo/schemas/*.json at check time              *)
(*   KLoader     extracted by reflection from the structs the loaders decode    *)
(*               into (codegen.Pipeline, yaml.Compiler, yaml.Veneers)           *)
(* A grammar is  [file |-> [root |-> id, nodes |-> [id |-> node]]]  with        *)
(*   node = [kind |-> "map" | "free" | "list" | "scalar",                       *)
(*           open |-> BOOLEAN        (a map that also takes undeclared keys)    *)
(*           keys |-> << [k |-> key, c |-> child id], ... >>,                   *)
(*           elem |-> id of the element node of a list]                         *)
(* "free" nodes are free-form by design in BOTH grammars (any, map[string]any,  *)
(* map[string]string: hints, defaults, parameters, templates_data, ...): every  *)
(* key is part of the language there (DESIGN 6.0).  The grammars are graphs     *)
(* (ast.Type is recursive); a key path is a walk from the root.                 *)
(*                                                                              *)
(* The second half of the module is the document generator: a state is one      *)
(* document (a walk from the root = the minimal document that reaches a key     *)
(* path), the actions extend the walk by one key (Descend), inject an unknown   *)
(* key at mapping nodes of a valid document (InjectUnknownKey), or leave a rule *)
(* entry without any action (the walk stops at the rule entry: EmptyRule).      *)
(* TLC enumerates every such document; Emit prints it with the verdicts the     *)
(* two grammars give it, Diff prints every node where the grammars differ.      *)
EXTENDS Sequences, FiniteSets, Integers, TLC, Json

CONSTANTS KPublished, KLoader,
          Files,       \* the file kinds explored in this run
          Unknown,     \* a key that neither grammar declares anywhere
          MaxVisits,   \* unrolling: how often the same (published, loader) node pair may occur on one walk
          MaxInject,   \* number of unknown keys injected into one document (1 or 2)
          Styles,      \* how the unknown key is spelled: "fresh" (Unknown itself), "case" (a declared key of the
                       \* same node with its first letter in upper case: `Passes`) - both are outside the language
          MaxPos,      \* a rule entry is tried at positions 0..MaxPos of a list of MaxPos+1 rules
          Forms,       \* other ways to write the LAST key / entry of a walk: "null" (`key: ~`, `- ~`, a dangling `-`) and
                       \* "empty" (`{}` without anything, `[]`, "", false, 0) - values that are falsy, not absent
          Carriers,    \* how the unknown key reaches the file: "plain", "merge" (`<<: {k: v}`), "bom" (plain, the file starts
                       \* with a byte order mark), "seconddoc" (in a further YAML document of the file, after `---`)
          MaxGap,      \* "seconddoc": the further document comes after 0..MaxGap EMPTY documents (it is the 2nd .. (MaxGap+2)th
                       \* document of the stream): a loader that stops looking at the first empty document never sees it
          EmptyDocs,   \* how those empty documents are written: "bare" (`---` directly followed by `---`), "comment" (a
                       \* comment line only), "null" (`--- ~`), "end" (`---` closed by the document end marker `...`)
          DocLoads,    \* what the further document carries: "key" (the unknown key at its root), "rule" (a rule list whose
                       \* only entry has no action: `passes: [{}]`)
          MaxSteps,    \* longest walk (mapping nodes, root included); 2 = root and the entries of its lists, which is
                       \* what the quick tier uses to try an EMPTY rule at every position among valid rules
          Slice, NSlices \* quick tier: only every NSlices-th member of a rule union is entered (NSlices = 1: all)

(* "rule entry": an element of the rule lists of the two transformation files   *)
(* (property: "a rule entry with no recognised action is rejected").  Entries   *)
(* of `inputs` / `languages` are not rule entries.                              *)
RuleLists == { <<"compiler", <<"passes", "[]">> >>,
               <<"veneers",  <<"builders", "[]">> >>,
               <<"veneers",  <<"options", "[]">> >> }

(* ------------------------------- grammars -------------------------------- *)
Node(G, f, id) == G[f].nodes[id]
KeySet(n)      == {n.keys[i].k : i \in DOMAIN n.keys}
Child(n, k)    == n.keys[CHOOSE i \in DOMAIN n.keys : n.keys[i].k = k].c
IsMapping(n)   == n.kind \in {"map", "free"}

(* node reached by a path (sequence of keys and "[]"); "free" = somewhere below *)
(* a free-form node, "none" = the path leaves the grammar                       *)
RECURSIVE WalkFrom(_, _, _, _)
WalkFrom(G, f, id, segs) ==
  IF segs = <<>> \/ id \in {"none", "free"} THEN id
  ELSE LET n == Node(G, f, id)
           h == Head(segs)
           next == CASE n.kind = "list" -> IF h = "[]" THEN n.elem ELSE "none"
                     [] n.kind = "map"  -> IF h \in KeySet(n) THEN Child(n, h)
                                           ELSE IF n.open THEN "free" ELSE "none"
                     [] n.kind = "free" -> "free"
                     [] OTHER           -> "none"
       IN WalkFrom(G, f, next, Tail(segs))
Walk(G, f, segs) == WalkFrom(G, f, G[f].root, segs)

(* Keys(file, path): the keys of the language at the mapping node `at`, as a    *)
(* predicate (free-form nodes take every key): LegalAt(id, k) for the node id    *)
(* the path reaches                                                             *)
LegalAt(G, f, id, k) ==
    CASE id = "free" -> TRUE
      [] id = "none" -> FALSE
      [] OTHER -> LET n == Node(G, f, id) IN
                    \/ n.kind = "free"
                    \/ n.kind = "map" /\ (n.open \/ k \in KeySet(n))
Legal(G, f, at, k) == LegalAt(G, f, Walk(G, f, at), k)
(* the declared keys themselves (empty for free-form nodes, whose keys are not enumerable) *)
Keys(G, f, at) == LET id == Walk(G, f, at) IN IF id \in {"free", "none"} THEN {} ELSE KeySet(Node(G, f, id))

(* ------------------------------- documents ------------------------------- *)
(* A document is [file, nodes]: nodes = sequence of [at |-> path, keys |-> set,  *)
(* nulls |-> the keys whose value is null] with one element per mapping node of *)
(* the YAML file (list entries share the path of their list: "[]" carries no    *)
(* index; the mapping nodes of every YAML document of a multi-document file are *)
(* all listed: a key in a second document is a key of the file).               *)
KeysOK(G, d)      == \A i \in DOMAIN d.nodes : LET id == Walk(G, d.file, d.nodes[i].at)
                                              IN \A k \in d.nodes[i].keys : LegalAt(G, d.file, id, k)
IsRuleEntry(d, i) == <<d.file, d.nodes[i].at>> \in RuleLists
(* an action named with a null value (`- omit: ~`) is no action: yaml leaves the member unset *)
HasAction(G, d, i) == \E k \in d.nodes[i].keys \ d.nodes[i].nulls : Legal(G, d.file, d.nodes[i].at, k)
RulesOK(G, d)     == \A i \in DOMAIN d.nodes : IsRuleEntry(d, i) => HasAction(G, d, i)
ShouldAccept(G, d) == KeysOK(G, d) /\ RulesOK(G, d)

(* the two sentences of the property, for one observed (document, verdicts)     *)
Strict(G, d, accepted) == accepted <=> ShouldAccept(G, d)
(* "the schemas accept exactly the keys the loaders accept": a statement about  *)
(* keys - the published schemas say nothing about empty rule entries            *)
PublishedKeys(G, d, accepted) == accepted <=> KeysOK(G, d)

(* ------------------------ generator: state = document -------------------- *)
VARIABLES file,    \* file kind
          steps,   \* the walk: <<[at, pub, ldr]>> one element per mapping node, root first
          leaf,    \* last key when it does not lead to a mapping node that is expanded
          inj,     \* indices of steps carrying the Unknown key
          style,   \* spelling of the injected key(s)
          pos,     \* position of the entry in the innermost list of the walk
          form,    \* "map" | "null" | "empty": how the last key / entry of the walk is written
          carrier, \* how the unknown key reaches the file
          tail     \* carrier "seconddoc": [gap |-> number of empty documents before the further document, empty |-> how they
                   \* are written, load |-> <<>> (the unknown key at the root) or the path of the rule list with the empty entry]
vars == <<file, steps, leaf, inj, style, pos, form, carrier, tail>>

NoLeaf == [k |-> "", why |-> "", pub |-> "", ldr |-> ""]
NoTail == [gap |-> 0, empty |-> "", load |-> <<>>]
Deepest == steps[Len(steps)]
P == Node(KPublished, file, Deepest.pub)
L == Node(KLoader, file, Deepest.ldr)

Init == /\ file \in Files
        /\ steps = << [at |-> <<>>, pub |-> KPublished[file].root, ldr |-> KLoader[file].root] >>
        /\ leaf = NoLeaf /\ inj = {} /\ style = "fresh" /\ pos = 0 /\ form = "map" /\ carrier = "plain" /\ tail = NoTail

RECURSIVE Unlist(_, _, _, _)
Unlist(f, p, l, at) ==
  IF Node(KPublished, f, p).kind = "list" /\ Node(KLoader, f, l).kind = "list"
  THEN Unlist(f, Node(KPublished, f, p).elem, Node(KLoader, f, l).elem, Append(at, "[]"))
  ELSE [pub |-> p, ldr |-> l, at |-> at]

Visits(p, l) == Cardinality({i \in DOMAIN steps : steps[i].pub = p /\ steps[i].ldr = l})
KeyIdx(n, k) == CHOOSE i \in DOMAIN n.keys : n.keys[i].k = k
InSlice(k)   == (NSlices > 1 /\ <<file, Deepest.at>> \in RuleLists /\ k \in KeySet(L)) => KeyIdx(L, k) % NSlices = Slice
Pristine == inj = {} /\ form = "map" /\ carrier = "plain"
Growing == leaf.k = "" /\ Pristine

(* extend the walk by one key of either grammar *)
Descend(k) ==
  /\ Growing /\ P.kind = "map" /\ L.kind = "map"
  /\ k \in KeySet(P) \cup KeySet(L)
  /\ InSlice(k)
  /\ Len(steps) < MaxSteps
  /\ UNCHANGED <<file, inj, style, form, carrier, tail>>
  /\ IF k \notin KeySet(L)
     THEN leaf' = [k |-> k, why |-> "only-published", pub |-> Child(P, k), ldr |-> ""] /\ UNCHANGED <<steps, pos>>
     ELSE IF k \notin KeySet(P)
     THEN leaf' = [k |-> k, why |-> "only-loader", pub |-> "", ldr |-> Child(L, k)] /\ UNCHANGED <<steps, pos>>
     ELSE LET u  == Unlist(file, Child(P, k), Child(L, k), Append(Deepest.at, k))
              pn == Node(KPublished, file, u.pub)
              ln == Node(KLoader, file, u.ldr)
              lf(why) == [k |-> k, why |-> why, pub |-> Child(P, k), ldr |-> Child(L, k)]
          IN IF IsMapping(pn) /\ IsMapping(ln)
             THEN IF Visits(u.pub, u.ldr) < MaxVisits
                  THEN /\ steps' = Append(steps, u) /\ leaf' = leaf
                       /\ IF u.at[Len(u.at)] = "[]" THEN pos' \in 0..MaxPos ELSE pos' = pos   \* entering a list: choose the position
                  ELSE leaf' = lf("cut") /\ UNCHANGED <<steps, pos>>
             ELSE IF pn.kind = ln.kind
             THEN leaf' = lf("scalar") /\ UNCHANGED <<steps, pos>>
             ELSE leaf' = lf("kind-drift") /\ UNCHANGED <<steps, pos>>

(* one or two unknown keys at mapping nodes of a valid document *)
InjectUnknownKey(S, u, c) ==
  /\ Pristine
  /\ S # {} /\ Cardinality(S) <= MaxInject
  /\ c \in Carriers \ {"seconddoc"}
  /\ c # "plain" => (u = "fresh" /\ Cardinality(S) = 1)
  /\ c = "bom" => S = {1}
  \* the further spellings and the merge-key carrier are tried at the deepest node of the walk only: every node of the
  \* grammar is the deepest node of some walk, so every node kind still meets every spelling and carrier
  /\ (u \in {"midcase", "param"} \/ c = "merge") => S = {Len(steps)}
  /\ inj' = S /\ style' = u /\ carrier' = c
  /\ UNCHANGED <<file, steps, leaf, pos, form, tail>>
(* the unknown key (or a rule entry without action) in a FURTHER YAML document of the same file: the document right    *)
(* after the configuration, or one that only comes after g empty documents - wherever it stands in the stream, what it  *)
(* holds is part of the file                                                                                            *)
DocLoadsOf(f) == (IF "key" \in DocLoads THEN {<<>>} ELSE {})
                 \cup (IF "rule" \in DocLoads THEN {rl[2] : rl \in {x \in RuleLists : x[1] = f}} ELSE {})
SecondDocument(g, e, ld) ==
  /\ Pristine /\ "seconddoc" \in Carriers
  /\ Len(steps) = 1 /\ leaf.k = ""       \* a property of the file, not of a node: once per file kind
  /\ g \in 0..MaxGap /\ e \in (IF g = 0 THEN {""} ELSE EmptyDocs) /\ ld \in DocLoadsOf(file)
  /\ carrier' = "seconddoc" /\ tail' = [gap |-> g, empty |-> e, load |-> ld]
  /\ UNCHANGED <<file, steps, leaf, inj, style, pos, form>>

(* EmptyRule: the walk stopped at a rule entry - the entry `{}` has no action.   *)
(* It is not a separate action: the state reached by descending into the rule   *)
(* list IS that document.  ValueForm rewrites the last key / entry of any walk:  *)
(* "null" (`key: ~`; for a list entry `- ~` or a dangling `-`: an entry of a     *)
(* rule list that names no action either) or "empty" (the empty value of its     *)
(* kind).  Neither adds or removes a key, so every such document loads unless    *)
(* it leaves a rule entry without action (`- {}`, `- ~`, `- omit: ~`).           *)
AtEmptyRule == leaf.k = "" /\ <<file, Deepest.at>> \in RuleLists
HasLast == Len(steps) > 1 \/ leaf.k # ""
ValueForm(f) ==
  /\ Pristine /\ HasLast /\ f \in Forms
  /\ ~(f = "empty" /\ AtEmptyRule)          \* `{}` at a rule entry is the state itself
  /\ leaf.why \notin {"only-published", "only-loader"}
  /\ form' = f
  /\ UNCHANGED <<file, steps, leaf, inj, style, pos, carrier, tail>>

Next == \/ \E k \in KeySet(P) \cup KeySet(L) : Descend(k)
        \/ \E S \in SUBSET (DOMAIN steps), u \in Styles, c \in Carriers : InjectUnknownKey(S, u, c)
        \/ \E g \in 0..MaxGap, e \in EmptyDocs \cup {""}, ld \in DocLoadsOf(file) : SecondDocument(g, e, ld)
        \/ \E f \in Forms : ValueForm(f)
Spec == Init /\ [][Next]_vars

(* the document a state stands for, as the generator knows it (the renderer     *)
(* adds companion keys that well-formedness of VALUES needs - a selector, a     *)
(* package name - and the trace specification re-evaluates the full tree)       *)
ViaKey(i) == steps[i + 1].at[Len(steps[i].at) + 1]
StepKeys(i) == (IF i < Len(steps) THEN {ViaKey(i)} ELSE IF leaf.k # "" THEN {leaf.k} ELSE {})
               \cup (IF i \in inj THEN {Unknown} ELSE {})
LastIsEntry == Deepest.at # <<>> /\ Deepest.at[Len(Deepest.at)] = "[]"
(* a null written where a mapping node (not an entry of a rule list) would be: the node is not there *)
Dropped == form = "null" /\ leaf.k = "" /\ Len(steps) > 1 /\ <<file, Deepest.at>> \notin RuleLists
StepNulls(i) == IF form # "null" THEN {}
                ELSE IF leaf.k # "" THEN (IF i = Len(steps) THEN {leaf.k} ELSE {})
                ELSE IF i = Len(steps) - 1 /\ ~LastIsEntry THEN {ViaKey(i)} ELSE {}
WalkNodes == [i \in 1..(IF Dropped THEN Len(steps) - 1 ELSE Len(steps)) |->
                [at |-> steps[i].at, keys |-> StepKeys(i), nulls |-> StepNulls(i)]]
(* the mapping nodes of the further document (empty documents have none) *)
TailNodes == IF carrier # "seconddoc" THEN <<>>
             ELSE IF tail.load = <<>> THEN << [at |-> <<>>, keys |-> {Unknown}, nulls |-> {}] >>
             ELSE << [at |-> <<>>, keys |-> {tail.load[1]}, nulls |-> {}], [at |-> tail.load, keys |-> {}, nulls |-> {}] >>
Doc == [file |-> file, nodes |-> WalkNodes \o TailNodes]

(* ------------------------------ SameLanguage ----------------------------- *)
(* evaluated at every node pair the walks reach: complete for the (infinite)    *)
(* language because both grammars are deterministic (key -> child)              *)
NodeDiff == IF ~Growing THEN {}
            ELSE (IF P.kind # L.kind THEN {"kind"} ELSE {})
            \cup (IF P.kind = "map" /\ L.kind = "map" /\ P.open # L.open THEN {"open"} ELSE {})
            \cup (IF P.kind = "map" /\ L.kind = "map" /\ KeySet(P) # KeySet(L) THEN {"keys"} ELSE {})
SameLanguageHere == NodeDiff = {}
SameLanguage == SameLanguageHere   \* as a plain invariant (stops at the first differing node); the check uses Diff (report mode)
OnlyPublished == IF P.kind = "map" /\ L.kind = "map" THEN KeySet(P) \ KeySet(L) ELSE {}
OnlyLoader    == IF P.kind = "map" /\ L.kind = "map" THEN KeySet(L) \ KeySet(P) ELSE {}

(* ------------------------------- invariants ------------------------------ *)
TypeOK == IsMapping(P) /\ IsMapping(L) /\ inj \subseteq DOMAIN steps /\ (carrier # "seconddoc" => tail = NoTail)
(* to be ASSUMEd by the model: Unknown really is unknown, the roots are mappings *)
UnknownIsUnknown ==
  \A f \in Files : /\ \A id \in DOMAIN KLoader[f].nodes : Unknown \notin KeySet(KLoader[f].nodes[id])
                   /\ \A id \in DOMAIN KPublished[f].nodes : Unknown \notin KeySet(KPublished[f].nodes[id])
                   /\ IsMapping(Node(KLoader, f, KLoader[f].root)) /\ IsMapping(Node(KPublished, f, KPublished[f].root))

(* design-level sanity of the two definitions on every enumerated document      *)
InjectionIsRejected ==
  (\E i \in inj : LET n == Node(KLoader, file, steps[i].ldr) IN n.kind = "map" /\ ~n.open) => ~ShouldAccept(KLoader, Doc)
EmptyRuleIsRejected == AtEmptyRule => ~ShouldAccept(KLoader, Doc)
SecondDocumentIsRejected == carrier = "seconddoc" => ~ShouldAccept(KLoader, Doc)
ValidIsAccepted ==
  (Pristine /\ ~AtEmptyRule /\ leaf.why \notin {"only-published", "only-loader"})
     => (ShouldAccept(KLoader, Doc) /\ KeysOK(KPublished, Doc))

Case == [file |-> file, steps |-> steps, leaf |-> leaf, inj |-> inj, style |-> style, pos |-> pos, npos |-> MaxPos + 1, form |-> form, carrier |-> carrier, tail |-> tail,
         expl |-> ShouldAccept(KLoader, Doc), expp |-> KeysOK(KPublished, Doc),
         emptyrule |-> AtEmptyRule]
Emit == PrintT(<<"CASE", ToJson(Case)>>)
Diff == SameLanguageHere \/ PrintT(<<"DIFF", ToJson([file |-> file, at |-> Deepest.at, pub |-> Deepest.pub, ldr |-> Deepest.ldr,
                                                      what |-> NodeDiff, onlypublished |-> OnlyPublished, onlyloader |-> OnlyLoader])>>)
================================================================================
