CONSTANTS
  FoldTable <- RFoldTable
  SingularTable <- RSingular
  LCamelTable <- RLCamel
SPECIFICATION Spec
INVARIANT Emit
CHECK_DEADLOCK FALSE
