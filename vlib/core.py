"""Shared machinery for the /verif checks (standard library only).

A check is a python module in /verif/checks exposing run(ctx). The core gives it:
  * a scratch directory outside /repo and /verif, removed at exit;
  * build_worker(): the Go harness rebuilt from /repo's current tree with -tags verif;
  * run_tlc(): TLC on a copy of spec/ under `timeout`, with its counters parsed;
  * tagged_lines(): JSON payloads that a spec printed with PrintT(<<"TAG", ToJson(..)>>);
  * fail()/finish(): signatures, known findings, replay files, evidence, exit code.

Exit codes: 0 held (possibly with KNOWN-FINDING lines), 1 VIOLATION, 2 inconclusive.
"""
import atexit
import hashlib
import json
import os
import re
import shutil
import subprocess
import sys
import tempfile
import time

VERIF = os.path.dirname(os.path.dirname(os.path.abspath(__file__)))
REPO = os.environ.get("VERIF_REPO", "/repo")
GOENV = {
    "GOFLAGS": "-mod=mod",
    "GOPROXY": "off",
    "GOSUMDB": "off",
    "GOTOOLCHAIN": "local",
}


class Inconclusive(Exception):
    pass


def log(*a):
    print(*a, file=sys.stderr, flush=True)


class Ctx:
    def __init__(self, pid, tier, seed, replay=None, keep=False):
        self.pid = pid
        self.tier = tier
        self.seed = seed
        self.replay = replay
        self.keep = keep
        self.t0 = time.time()
        base = os.environ.get("VERIF_SCRATCH") or tempfile.gettempdir()
        self.scratch = tempfile.mkdtemp(prefix="verif-%s-" % pid, dir=base)
        atexit.register(self._cleanup)
        self.failures = []  # dicts: signature, what, replay (json-able)
        self.coverage = {}
        self.assumptions = []
        self.notes = []
        self.tlc_runs = []
        self._n = 0
        self.worker = None

    def _cleanup(self):
        if not self.keep:
            shutil.rmtree(self.scratch, ignore_errors=True)
        else:
            log("scratch kept:", self.scratch)

    def sub(self, name):
        self._n += 1
        d = os.path.join(self.scratch, "%02d-%s" % (self._n, name))
        os.makedirs(d)
        return d

    def quick(self):
        return self.tier == "quick"

    # ---------------------------------------------------------------- build
    def goenv(self):
        env = dict(os.environ)
        env.update(GOENV)
        env.setdefault("GOCACHE", os.path.expanduser("~/.cache/go-build"))
        return env

    def build_worker(self, overlay=None, tags="verif", name="worker"):
        """Build harness/cmd/worker against /repo's current working tree."""
        d = self.sub("build")
        h = os.path.join(d, "h")
        shutil.copytree(os.path.join(VERIF, "harness"), h, ignore=shutil.ignore_patterns("facade_ext"))
        shutil.copy(os.path.join(REPO, "go.sum"), os.path.join(h, "go.sum"))
        gomod = open(os.path.join(h, "go.mod")).read()
        gomod = re.sub(r"replace github.com/grafana/cog => \S+", "replace github.com/grafana/cog => " + REPO, gomod)
        open(os.path.join(h, "go.mod"), "w").write(gomod)
        out = os.path.join(self.scratch, name)
        cmd = ["go", "build", "-trimpath", "-tags", tags, "-o", out]
        # facade extensions live in /verif (harness/facade_ext/*.go, all `//go:build verif`) and are
        # overlaid into /repo/verifapi at build time: nothing is written under /repo
        ov = {"Replace": {}}
        if overlay:
            ov = json.load(open(overlay))
        ext = os.path.join(VERIF, "harness", "facade_ext")
        for f in sorted(os.listdir(ext)) if os.path.isdir(ext) else []:
            if f.endswith(".go"):
                ov["Replace"][os.path.join(REPO, "verifapi", "ext_" + f)] = os.path.join(ext, f)
        ovp = os.path.join(d, "overlay.json")
        json.dump(ov, open(ovp, "w"))
        if ov["Replace"]:
            cmd += ["-overlay", ovp]
        cmd += ["./cmd/worker"]
        t = time.time()
        p = subprocess.run(cmd, cwd=h, env=self.goenv(), capture_output=True, text=True)
        if p.returncode != 0:
            log(p.stdout + p.stderr)
            raise Inconclusive("worker does not build against the current tree")
        log("worker built in %.1fs" % (time.time() - t))
        if name == "worker":
            self.worker = out
        return out

    def run_worker(self, args, stdin_path=None, stdout_path=None, timeout=3600, worker=None, env=None, cwd=None):
        w = worker or self.worker
        fin = open(stdin_path, "rb") if stdin_path else subprocess.DEVNULL
        fout = open(stdout_path, "wb") if stdout_path else subprocess.PIPE
        e = self.goenv()
        if env:
            e.update(env)
        try:
            p = subprocess.run([w] + args, stdin=fin, stdout=fout, stderr=subprocess.PIPE, timeout=timeout, env=e, cwd=cwd)
        except subprocess.TimeoutExpired:
            raise Inconclusive("worker timed out: %s" % " ".join(args))
        finally:
            if stdin_path:
                fin.close()
            if stdout_path:
                fout.close()
        if p.returncode != 0:
            log(p.stderr.decode(errors="replace")[-4000:])
            raise Inconclusive("worker failed (exit %d): %s" % (p.returncode, " ".join(args)))
        if p.stderr:
            sys.stderr.write(p.stderr.decode(errors="replace")[-2000:])
        return None if stdout_path else p.stdout.decode()

    # ------------------------------------------------------------------ TLC
    def run_tlc(self, module, cfg, workers=1, timeout=900, files=None, simulate=None,
                depth=None, extra=None, constants=None, allow_violation=False, deadlock=False,
                coverage=False, dfs=False):
        """Run TLC on spec/<module>.tla with spec/<cfg> in a scratch copy of spec/.

        files: {name: path-or-bytes} additional files placed next to the spec (traces).
        constants: {name: literal} textual substitution of `name = ...` lines in the cfg.
        Returns dict(out=path, generated, distinct, ok, violated, dir).
        """
        d = self.sub("tlc-" + module)
        spec = os.path.join(VERIF, "spec")
        for f in os.listdir(spec):
            if f.endswith(".tla") or f == cfg:
                shutil.copy(os.path.join(spec, f), d)
        if constants:
            p = os.path.join(d, cfg)
            txt = open(p).read()
            for k, v in constants.items():
                txt, n = re.subn(r"(?m)^(\s*%s\s*=\s*).*$" % re.escape(k), lambda m_: m_.group(1) + str(v), txt)
                if n == 0:
                    raise Inconclusive("constant %s not in %s" % (k, cfg))
            open(p, "w").write(txt)
        for name, src in (files or {}).items():
            dst = os.path.join(d, name)
            if isinstance(src, bytes):
                open(dst, "wb").write(src)
            else:
                shutil.move(src, dst) if src.startswith(self.scratch) else shutil.copy(src, dst)
        out = os.path.join(d, "tlc.out")
        jtmp = os.path.join(d, "jtmp")
        os.makedirs(jtmp, exist_ok=True)
        cmd = ["timeout", str(timeout), "java", "-XX:+UseParallelGC", "-Xss64m", "-Djava.io.tmpdir=" + jtmp]
        if dfs:
            cmd += ["-Dtlc2.tool.queue.IStateQueue=StateDeque"]
        cmd += ["-cp", "/opt/veriftools/tla/tla2tools.jar:/opt/veriftools/tla/CommunityModules-deps.jar",
                "tlc2.TLC", "-workers", str(workers), "-metadir", os.path.join(d, "meta"),
                "-config", cfg]
        if not deadlock:
            pass
        if coverage:
            cmd += ["-coverage", "1"]
        if simulate:
            cmd += ["-simulate", simulate]
            if depth:
                cmd += ["-depth", str(depth)]
            cmd += ["-seed", str(self.seed)]
        if extra:
            cmd += extra
        cmd += [module + ".tla"]
        t = time.time()
        with open(out, "wb") as fo:
            p = subprocess.run(cmd, cwd=d, stdout=fo, stderr=subprocess.STDOUT)
        wall = time.time() - t
        res = {"out": out, "dir": d, "wall": wall, "rc": p.returncode, "cmd": " ".join(cmd[6:]),
               "generated": 0, "distinct": 0, "violated": False, "ok": False}
        shutil.rmtree(jtmp, ignore_errors=True)
        tail = _tail(out, 20000)
        m = None
        for m in re.finditer(r"(\d+) states generated, (\d+) distinct states found", tail):
            pass
        if m:
            res["generated"], res["distinct"] = int(m.group(1)), int(m.group(2))
        elif simulate:
            m2 = None
            for m2 in re.finditer(r"(\d+) states checked", tail):
                pass
            if m2:
                res["generated"] = res["distinct"] = int(m2.group(1))
        res["violated"] = ("is violated" in tail) or ("Invariant" in tail and "violated" in tail)
        if not res["violated"] and p.returncode in (12, 13):
            # TLC's own exit status for a safety / liveness violation; with several workers the lines other workers print after
            # the verdict can push it out of the tail read above, so look through the whole output as well
            with open(out, errors="replace") as fo:
                res["violated"] = any("is violated" in line for line in fo)
        res["ok"] = ("No error has been found" in tail) or (simulate is not None and p.returncode in (0, 124) and "Error:" not in tail)
        if p.returncode == 124 and not simulate:
            raise Inconclusive("TLC timed out after %ss: %s %s" % (timeout, module, cfg))
        if not res["ok"] and not (allow_violation and res["violated"]):
            log(tail[-3000:])
            raise Inconclusive("TLC failed on %s/%s (rc=%d)" % (module, cfg, p.returncode))
        self.tlc_runs.append({k: res[k] for k in ("cmd", "generated", "distinct", "wall")} | {"module": module, "cfg": cfg})
        log("TLC %s/%s: %d generated, %d distinct, %.1fs" % (module, cfg, res["generated"], res["distinct"], wall))
        return res

    # ------------------------------------------------------------- verdicts
    def fail(self, signature, what, replay, key=None):
        """Record a violation observed on the real code. key (optional) identifies the specific input:
        a known-finding entry that lists keys only covers those inputs."""
        self.failures.append({"signature": signature, "what": what, "replay": replay, "key": key})

    def finish(self, level, coverage, assumptions=None):
        return finish(self, level, coverage, assumptions or [])


def _tail(path, n):
    with open(path, "rb") as f:
        f.seek(0, 2)
        size = f.tell()
        f.seek(max(0, size - n))
        return f.read().decode(errors="replace")


_TAG_RE = {}


def tagged_lines(path, tag):
    """Yield the JSON payload of every line `<<"TAG", "json...">>` TLC printed."""
    prefix = '<<"%s", ' % tag
    with open(path, "r", errors="replace") as f:
        for line in f:
            if not line.startswith(prefix):
                continue
            line = line.rstrip("\n")
            if not line.endswith(">>"):
                continue
            body = line[len(prefix):-2]
            try:
                if body.startswith('"'):
                    yield json.loads(json.loads(body))
                else:
                    yield body
            except Exception:
                # TLC string escaping is JSON-compatible for our alphabets; skip garbled lines loudly
                log("unparsable TLC line:", line[:200])
                raise Inconclusive("unparsable TLC output line")


def tagged_to_file(path, tag, dst, limit=None, every=1, offset=0):
    """Extract tagged payloads to an ndjson file; returns the number written."""
    n = 0
    i = 0
    with open(dst, "w") as out:
        for obj in tagged_lines(path, tag):
            i += 1
            if every > 1 and (i + offset) % every != 0:
                continue
            out.write(json.dumps(obj, separators=(",", ":")) + "\n")
            n += 1
            if limit and n >= limit:
                break
    return n


def load_known():
    p = os.path.join(VERIF, "known_findings.json")
    out = json.load(open(p))["findings"] if os.path.exists(p) else []
    # rehearsals / proposals: additional files with the same layout (maintenance aid, never used by
    # registered commands): VERIF_EXTRA_KNOWN=path[:path...] (VERIF_KNOWN_EXTRA accepted as an alias)
    extras = os.environ.get("VERIF_EXTRA_KNOWN", "").split(":") + os.environ.get("VERIF_KNOWN_EXTRA", "").split(":")
    for extra in filter(None, extras):
        if os.path.exists(extra):
            out += json.load(open(extra))["findings"]
    return out


def finish(ctx, level, coverage, assumptions):
    known = [k for k in load_known() if k["property"] == ctx.pid and k.get("status", "known") == "known"]
    known_sigs = {k["signature"]: k for k in known}
    by_sig = {}
    for f in ctx.failures:
        by_sig.setdefault(f["signature"], []).append(f)
    violations = 0
    printed_known = []
    if os.environ.get("VERIF_DUMP_FAILS"):
        # maintenance aid (never used by registered commands): dump every (signature, key) observed
        with open(os.environ["VERIF_DUMP_FAILS"], "a") as df:
            for f in ctx.failures:
                df.write(json.dumps({"signature": f["signature"], "key": f.get("key"), "what": f["what"]}) + "\n")
    os.makedirs(os.path.join(VERIF, "replays"), exist_ok=True)
    for sig, fs in sorted(by_sig.items()):
        if sig in known_sigs:
            k = known_sigs[sig]
            keys = None
            if k.get("keys_file"):
                keys = set(json.load(open(os.path.join(VERIF, k["keys_file"]))).get(sig, []))
            elif k.get("keys") is not None:
                keys = set(k["keys"])
            covered = [f for f in fs if keys is None or f.get("key") in keys]
            if covered:
                print("KNOWN-FINDING: property=%s %s [%s] (%d occurrence(s) in this run)" % (
                    ctx.pid, k["what"], sig, len(covered)))
                printed_known.append(sig)
            fs = [f for f in fs if not (keys is None or f.get("key") in keys)]
            if not fs:
                continue
            # same class of failure on an input the finding does not list: a different violation
            sig = sig + " (input not among the listed ones: %s)" % fs[0].get("key")
        violations += 1
        h = hashlib.sha1(sig.encode()).hexdigest()[:10]
        rp = os.path.join(VERIF, "replays", "%s-%s.json" % (ctx.pid, h))
        json.dump({"property": ctx.pid, "signature": sig, "what": fs[0]["what"], "occurrences": len(fs),
                   "replay": fs[0]["replay"], "tier": ctx.tier, "seed": ctx.seed}, open(rp, "w"), indent=1)
        print("VIOLATION property=%s replay=%s" % (ctx.pid, rp))
        print("  signature: %s" % sig)
        print("  what: %s" % str(fs[0]["what"])[:600])
    coverage = dict(coverage)
    coverage["known_findings_seen"] = printed_known
    coverage["tlc_runs"] = ctx.tlc_runs
    ev = {
        "property_id": ctx.pid,
        "tier": ctx.tier,
        "seed": ctx.seed,
        "level": level,
        "coverage": coverage,
        "assumptions": assumptions + ctx.assumptions,
        "wall_s": round(time.time() - ctx.t0, 2),
        "violations": violations,
    }
    import re as _re
    if not ctx.replay and not os.environ.get("VERIF_REPO") and _re.fullmatch(r"C\d\d", ctx.pid):   # trial runs against a scratch tree (and stand-alone parts) leave the evidence alone
        os.makedirs(os.path.join(VERIF, "evidence"), exist_ok=True)
        json.dump(ev, open(os.path.join(VERIF, "evidence", ctx.pid + ".json"), "w"), indent=1, sort_keys=True)
    for n in ctx.notes:
        print("NOTE:", n)
    print("%s %s tier=%s seed=%d wall=%.1fs violations=%d known=%d" % (
        ctx.pid, "FAILED" if violations else "ok", ctx.tier, ctx.seed, time.time() - ctx.t0, violations, len(printed_known)))
    return 1 if violations else 0
