"""Shared by C02 and C04: placeholder extraction from cog's current tree, pipeline YAML for one language
configuration, extra renderings (allOf), sharded execution of worker sub-commands, toolchain runners
(go build, python byte-compile + import, javac against Jackson) with per-package attribution.

Standard library only. Nothing is cached across runs.
"""
import collections
import glob
import json
import os
import re
import subprocess

from checks import semantics_common as sc
from vlib import core

CODE_LANGS = ("go", "python", "java", "typescript", "php")
SCHEMA_LANGS = ("jsonschema", "openapi")
LANGS = CODE_LANGS + SCHEMA_LANGS
OUTPUT_KINDS = ("types", "builders", "converters", "api_reference")
JENNY_DIR = {"go": "golang", "python": "python", "java": "java", "typescript": "typescript", "php": "php",
             "jsonschema": "jsonschema", "openapi": "openapi"}
SHORT = {"alt_paths": "altpaths", "compact": "compact", "generate_json_marshaller": "marshal", "generate_strict_unmarshaller": "strict", "generate_equal": "equal",
         "generate_validate": "validate", "any_as_interface": "anyiface", "skip_runtime": "skiprt",
         "enums_as_union_types": "enumsunion", "types": "types", "builders": "builders", "converters": "converters",
         "api_reference": "apiref"}
NPROC = 12


# ----------------------------------------------------------------------------------------------
# placeholder texts: extracted from the jennies' sources and templates of the CURRENT tree
# ----------------------------------------------------------------------------------------------
_KW = re.compile(r"(?i)\b(unknown|unhandled|unimplemented|unsupported|not implemented|not supported|likely a bug)\b")
_GO_STR = re.compile(r'"((?:[^"\\]|\\.)*)"')


def _unquote_go(s):
    try:
        return json.loads('"' + s + '"')
    except Exception:
        return s.replace('\\"', '"')


def _fmt_to_regex(text, word):
    """A printf-style literal -> regex (verbs become wildcards); a bare identifier is matched as a whole word."""
    parts = re.split(r"%(?:\[\d+\])?[#+\-0 ]*\d*(?:\.\d+)?[a-zA-Z]", text)
    rx = r"[^\n]*?".join(re.escape(p) for p in parts)
    if word:
        rx = r"(?<![\w$])" + rx + r"(?![\w$])"
    return rx


def extract_placeholders(repo):
    """Texts that cog's jennies EMIT into generated files for cases they do not handle.

    Go sources: double-quoted literals mentioning unknown/unhandled/unimplemented/unsupported/... that are a value
    (returned, assigned, written), i.e. not the message of an error, panic or log call.
    Templates: text outside {{ }} on lines mentioning unimplemented/unhandled/not implemented.
    Returns [{lang, text, regex, source, kind}] (one entry per distinct (lang, text)).
    """
    out, seen = [], set()

    def add(lang, text, source, kind, word):
        text = text.strip()
        if not text or (lang, text) in seen:
            return
        seen.add((lang, text))
        out.append({"lang": lang, "text": text, "regex": _fmt_to_regex(text, word), "source": source, "kind": kind})

    for lang in LANGS:
        d = os.path.join(repo, "internal", "jennies", JENNY_DIR[lang])
        for p in sorted(glob.glob(os.path.join(d, "*.go"))):
            if p.endswith("_test.go"):
                continue
            rel = os.path.relpath(p, repo)
            for line in open(p, errors="replace"):
                code = line.split("//", 1)[0] if '"' not in line.split("//", 1)[0] or line.count('"') % 2 == 0 else line
                code = re.sub(r"\s//[^\"]*$", "", code)
                if not _KW.search(code):
                    continue
                for m in _GO_STR.finditer(code):
                    lit = _unquote_go(m.group(1))
                    if not _KW.search(lit):
                        continue
                    before = code[:m.start()]
                    # the literal is the message of an error / panic / log call: not emitted into a file
                    if re.search(r"(Errorf|errors\.New|panic|Fprintf|Fprintln|Printf|Println)\s*\(\s*(fmt\.Sprintf\s*\(\s*)?$", before):
                        continue
                    if "%w" in lit:
                        continue
                    add(lang, lit, rel, "go-literal", word=bool(re.fullmatch(r"[\w]+", lit.strip())))
        for p in sorted(glob.glob(os.path.join(d, "templates", "**", "*.tmpl"), recursive=True)):
            rel = os.path.relpath(p, repo)
            txt = open(p, errors="replace").read()
            txt = re.sub(r"\{\{-?\s*/\*.*?\*/\s*-?\}\}", "", txt, flags=re.S)
            for line in txt.split("\n"):
                if not re.search(r"(?i)unimplemented|unhandled|not implemented", line):
                    continue
                segs = [s.strip() for s in re.split(r"\{\{.*?\}\}", line)]
                segs = [s for s in segs if re.search(r"(?i)unimplemented|unhandled|not implemented", s)]
                for s in segs:
                    s = s.split("//")[0].strip() or s
                    add(lang, s, rel, "template-text", word=False)
    return out


class PlaceholderScanner:
    def __init__(self, placeholders):
        self.by_lang = collections.defaultdict(list)
        for p in placeholders:
            self.by_lang[p["lang"]].append((p["text"], re.compile(p["regex"])))
        self.cache = {}

    def scan(self, lang, path):
        """-> list of (placeholder text, line) found in the file (cached per path and mtime-free: one run, one content)."""
        key = (lang, path)
        if key in self.cache:
            return self.cache[key]
        hits = []
        try:
            data = open(path, errors="replace").read()
        except OSError:
            data = ""
        for text, rx in self.by_lang.get(lang, ()):
            m = rx.search(data)
            if m:
                ls = data.rfind("\n", 0, m.start()) + 1
                le = data.find("\n", m.end())
                hits.append((text, data[ls:le if le >= 0 else len(data)].strip()[:200]))
        self.cache[key] = hits
        return hits


# ----------------------------------------------------------------------------------------------
# one language configuration as pipeline YAML
# ----------------------------------------------------------------------------------------------
def yaml_bool(b):
    return "true" if b else "false"


def language_yaml(lang, on, langdir):
    """The `languages:` list item of one configuration. `on` = set of yaml keys switched on (all others off)."""
    from_spec = {
        "go": ("generate_json_marshaller", "generate_strict_unmarshaller", "generate_equal", "generate_validate",
               "any_as_interface", "skip_runtime"),
        "python": ("generate_json_marshaller", "skip_runtime"),
        "java": ("generate_json_marshaller", "skip_runtime"),
        "typescript": ("skip_runtime", "enums_as_union_types"),
        "php": ("generate_json_marshaller",),
        "jsonschema": ("compact",), "openapi": ("compact",),
    }[lang]
    y = "    - %s:\n" % lang
    body = ""
    alt = "alt_paths" in on
    if lang == "go":
        body += "        package_root: '%s/%s'\n" % (sc.MODULE, langdir)
    elif lang == "java":
        body += "        package_path: '%s'\n" % ("com.example.gen" if alt else "gen")
    elif lang == "php":
        body += "        namespace_root: '%s'\n" % ("Acme\\Gen" if alt else "Gen")
    elif lang == "python" and alt:
        body += "        path_prefix: 'pfx'\n"
    elif lang == "typescript" and alt:
        body += "        path_prefix: 'lib'\n        packages_import_map:\n          cog: '@acme/cog'\n"
    for k in from_spec:
        body += "        %s: %s\n" % (k, yaml_bool(k in on))
    if not body:
        return "    - %s: {}\n" % lang
    return y + body


def input_yaml(fmt, path, package):
    if fmt == "cue":
        return "  - cue:\n      entrypoint: '%s'\n      package: %s\n" % (path, package)
    return "  - %s:\n      path: '%s'\n      package: %s\n" % (fmt, path, package)


def pipeline_yaml(inputs_yaml, lang, out, on, langdir, extra=""):
    y = "debug: false\n"
    y += ("inputs:\n" + inputs_yaml) if inputs_yaml else "inputs: []\n"
    y += extra
    y += "output:\n  directory: '%s'\n" % langdir
    for k in OUTPUT_KINDS:
        y += "  %s: %s\n" % (k, yaml_bool(k in out))
    y += "  languages:\n" + language_yaml(lang, on, langdir)
    return y


# ----------------------------------------------------------------------------------------------
# extra renderings: intersections (allOf). Everything else is semantics_common's.
# ----------------------------------------------------------------------------------------------
def _null_js(t, openapi, refprefix):
    if openapi:
        raise sc.NotExpressible("openapi: null type")
    return {"type": "null"}


def _typelist_js(t, openapi, refprefix):
    if openapi:
        raise sc.NotExpressible("openapi: list of types")
    return {"type": list(t["types"])}


def _typelist_cue(cue, t):
    raise sc.NotExpressible("cue: list of types")


sc.JS_EXT["typelist"] = _typelist_js
sc.CUE_EXT["typelist"] = _typelist_cue
sc.JS_EXT["null"] = _null_js
sc.CUE_EXT["null"] = lambda cue, t: "null"


def _struct_js(fields, openapi, refprefix):
    return sc._js_type({"k": "struct", "fields": fields}, openapi, refprefix)


def render_schema(schema, fmt, package):
    """semantics_common.render plus the `inter` kind (allOf of references and an inline struct), top level only."""
    inter = {d["name"]: d["t"] for d in schema["defs"] if d["t"]["k"] == "inter"}
    if not inter:
        return sc.render(schema, fmt, package)
    plain = {"defs": [d for d in schema["defs"] if d["name"] not in inter], "root": schema["root"]}
    if fmt in ("jsonschema", "openapi"):
        openapi = fmt == "openapi"
        prefix = "#/components/schemas/" if openapi else "#/definitions/"
        doc = json.loads(sc.render(plain, fmt, package))
        target = doc["components"]["schemas"] if openapi else doc["definitions"]
        for name, t in inter.items():
            branches = [{"$ref": prefix + r} for r in t["refs"]]
            if t["fields"]:
                branches.append(_struct_js(t["fields"], openapi, prefix))
            target[name] = {"allOf": branches}
        return json.dumps(doc, indent=1)
    # CUE evaluates `#Base & {...}` (rejected for closed definitions) and embeddings into a plain struct: there is no
    # spelling from which cog's CUE parser produces an intersection
    raise sc.NotExpressible("cue: intersection (unification is evaluated away)")


# ----------------------------------------------------------------------------------------------
# sharded execution of a worker sub-command (ndjson jobs in, one ndjson record per job out)
# ----------------------------------------------------------------------------------------------
def run_sharded(ctx, command, jobs, cwd, nproc=NPROC, timeout=3600):
    """jobs: list of dicts with an "id". Returns {id: record}. A worker process that dies is an inconclusive run
    (C02 only drives inputs on which cog does not take the process down; C04 has its own runner)."""
    d = ctx.sub("jobs-" + command)
    shards = [jobs[i::nproc] for i in range(nproc)]
    procs = []
    for i, sh in enumerate(shards):
        if not sh:
            continue
        inp, out = os.path.join(d, "in-%d.ndjson" % i), os.path.join(d, "out-%d.ndjson" % i)
        with open(inp, "w") as f:
            for j in sh:
                f.write(json.dumps(j, separators=(",", ":")) + "\n")
        p = subprocess.Popen([ctx.worker, command], stdin=open(inp), stdout=open(out, "w"), stderr=subprocess.PIPE,
                             env=ctx.goenv(), cwd=cwd)
        procs.append((p, out, sh))
    res = {}
    orphans = []
    for p, out, sh in procs:
        _, err = p.communicate(timeout=timeout)
        recs = []
        for x in open(out):
            try:
                recs.append(json.loads(x))
            except ValueError:
                pass
        for r in recs:
            res[r["id"]] = r
        if p.returncode != 0 or len(recs) != len(sh):
            # the worker died (a fatal error such as a stack overflow is not recoverable): the jobs without a record are run
            # again one per process, so that the death is attributed to ONE job and never turns the run inconclusive
            orphans += [j for j in sh if j["id"] not in res]
    for j in orphans:
        p = subprocess.run([ctx.worker, command], input=(json.dumps(j, separators=(",", ":")) + "\n").encode(), capture_output=True,
                           env=ctx.goenv(), cwd=cwd, timeout=600)
        try:
            res[j["id"]] = json.loads(p.stdout.decode().strip().splitlines()[-1])
        except (ValueError, IndexError):
            tail = p.stderr.decode(errors="replace")
            m = re.search(r"fatal error: (.*)", tail)
            frames = [l.split("(")[0] for l in tail.splitlines() if l.startswith("github.com/grafana/cog/internal")][:6]
            res[j["id"]] = {"id": j["id"], "ok": False, "ms": 0,
                            "panic": "worker process died (exit %s): %s\n%s" % (p.returncode, m.group(1) if m else tail[-200:], "\n".join(frames))}
    return res


# ----------------------------------------------------------------------------------------------
# toolchains
# ----------------------------------------------------------------------------------------------
_STD = {"cog", "fmt", "strconv", "errors", "json", "time", "bytes", "reflect", "variants", "strings", "sort", "math", "typing", "enum",
        "java", "util", "com", "fasterxml", "jackson", "self", "cls", "this"}
_PUNCT = {"{": "lbrace", "}": "rbrace", "(": "lparen", ")": "rparen", ";": "semicolon", "[": "lbracket", "]": "rbracket", ",": "comma",
          "=": "assign", ":": "colon", ".": "dot", "<identifier>": "identifier", "->": "arrow"}


def field_words(shape):
    """lower-case alphanumeric cores of the property names of an identifier-stress shape (its diagnostics name the
    offending property; the class must not)"""
    out = set()
    def rec(t):
        if isinstance(t, dict):
            if t.get("k") == "struct":
                for f in t["fields"]:
                    core_ = re.sub(r"[^a-z0-9]", "", f["n"].lower())
                    if len(core_) >= 2:
                        out.add(core_)
            for v in t.values():
                rec(v)
        elif isinstance(t, list):
            for v in t:
                rec(v)
    rec(shape.get("schema") or shape.get("schemas"))
    return out


def blank_fields(msg, words):
    if not words:
        return msg
    def sub(m):
        tok = m.group(0)
        c = re.sub(r"[^a-z0-9]", "", tok.lower())
        c2 = re.sub(r"^(with|set|get|is|add)", "", c)
        return "F" if (c in words or c2 in words or c.rstrip("_") in words) else tok
    return re.sub(r"[A-Za-z_$][A-Za-z0-9_$]*", sub, msg)


def norm_diag(msg, names=(), types=()):
    """Diagnostic text -> class. Schema-specific spellings are blanked (package names -> PKG, object names -> T,
    selector expressions and generated temporaries -> X, literals -> STR / N); the shape of the message is kept."""
    m = re.match(r'^"([^"]+)" imported (?:as \S+ )?and not used$', msg)
    if m:
        return "imported-and-not-used:" + m.group(1)
    m = re.match(r"^undefined: ([\w.]+)$", msg)
    if m and m.group(1).split(".")[0] in _STD:
        return "undefined:" + m.group(1)
    m = re.match(r"^cannot use .*? \((?:untyped (\w+) constant|(?:variable|value|constant .*?) of type ([^)]+))\) as (\S+) value in ", msg)
    if m:
        src = ("untyped-%s-constant" % m.group(1)) if m.group(1) else _ty(m.group(2), names, types)
        return "cannot-use:%s-as-%s" % (src, _ty(m.group(3), names, types))
    m = re.match(r"^invalid operation: .*\((mismatched types (.+?) and (.+?)|[^()]*)\)$", msg)
    if m:
        if m.group(2):
            return "invalid-operation:mismatched-types:%s:%s" % (_ty(m.group(2), names, types), _ty(m.group(3), names, types))
        why = re.sub(r"^(variable|value) of type ", "cannot-indirect:" if "cannot indirect" in msg else "", m.group(1))
        return "invalid-operation:" + _ty(why, names, types)
    s = msg.replace("<identifier>", "identifier")
    for k, v in _PUNCT.items():
        s = s.replace("'%s'" % k, v)
    s = re.sub(r'"(?:[^"\\]|\\.)*"', "STR", s)
    s = re.sub(r"'(?:[^'\\]|\\.)*'", "STR", s)
    # generated names of unions (AOrB, StringOrInt64) and what is derived from them
    s = re.sub(r"\b[A-Z][A-Za-z0-9]*Or[A-Z][A-Za-z0-9]*?(Deserializer|Serializer|Builder|Converter)?\b", lambda m_: "U" + (m_.group(1) or ""), s)
    s = _blank(s, names, "PKG")
    for n in names:        # names derived from the package (anonymous structs, enums of fields): PkgRootInl
        s = re.sub(r"(?i)(?<![A-Za-z0-9_])%s[A-Z]\w*" % re.escape(n), "T", s)
    # selector expressions rooted in a local (resource.Foo[i1].Bar, other.X, builder.internal.Y) and generated temporaries
    def sel(mm):
        return mm.group(0) if mm.group(1) in _STD or mm.group(1) == "PKG" else "X"
    s = re.sub(r"\b([a-z_]\w*)(?:\.\w+|\[\w+\])+", sel, s)
    s = re.sub(r"\b(?:[a-z]+Depth\d+|key\d+|i\d+|v\d+|arg\d*)\b", "X", s)
    s = _blank(s, types, "T")
    s = _NUM.sub("NUM", s)
    s = re.sub(r"\b\d+(\.\d+)?\b", "N", s)
    s = re.sub(r"[^A-Za-z0-9_.*\[\]]+", "-", s).strip("-")
    return s[:80]


_NUM = re.compile(r"\b(?:u?int(?:8|16|32|64)?|float(?:32|64))\b")


def _ty(t, names, types):
    t = _blank(t, names, "PKG")
    for n in names:
        t = re.sub(r"(?i)(?<![A-Za-z0-9_])%s[A-Z]\w*" % re.escape(n), "T", t)
    t = _blank(t, types, "T").replace("PKG.", "")
    t = _NUM.sub("NUM", t)
    return re.sub(r"[^A-Za-z0-9_.*\[\]]+", "-", t).strip("-")


def _blank(s, names, repl="PKG"):
    for n in sorted(names, key=len, reverse=True):
        if repl == "T":
            # also what is derived from an object name: NewChild, RootEB (enum member of field e of Root), ChildBuilder
            s = re.sub(r"(?<![A-Za-z0-9_])(?:New)?%s(?:[A-Z0-9][A-Za-z0-9]*)?(?![A-Za-z0-9_])" % re.escape(n), repl, s)
        else:
            s = re.sub(r"(?<![A-Za-z0-9_])%s(?![A-Za-z0-9_])" % re.escape(n), repl, s)
    return s


_GO_DIAG = re.compile(r"^(go/(k\d+)/([^/\s]+)/[^:\s]+):(\d+):(\d+): (.*)$")


def go_build(ctx, gen, targets=("./go/...",)):
    """One `go build` over every generated Go package. -> {(cfg dir, pkg): [(file, line, message)]}."""
    p = subprocess.run(["go", "build", "-gcflags=-e"] + list(targets), cwd=gen, env=ctx.goenv(), capture_output=True, text=True)
    diags = collections.defaultdict(list)
    other = []
    for line in (p.stdout + p.stderr).splitlines():
        m = _GO_DIAG.match(line.strip())
        if m:
            diags[(m.group(2), m.group(3))].append((m.group(1), int(m.group(4)), m.group(6)))
        elif line.startswith("#") or not line.strip() or "too many errors" in line:
            continue
        else:
            other.append(line)
    if p.returncode != 0 and not diags:
        core.log("\n".join(other[-30:]))
        raise core.Inconclusive("go build failed without attributable diagnostics")
    return diags, other


_PY_CHECK = r'''
import importlib, json, os, py_compile, sys, traceback
root, top = sys.argv[1], sys.argv[2]
sys.path.insert(0, root)
sys.dont_write_bytecode = True
out = []
for dirpath, dirs, files in os.walk(os.path.join(root, top)):
    dirs.sort()
    for f in sorted(files):
        if not f.endswith(".py"):
            continue
        path = os.path.join(dirpath, f)
        rel = os.path.relpath(path, root)
        mod = rel[:-3].replace(os.sep, ".")
        if mod.endswith(".__init__"):
            mod = mod[:-9]
        rec = {"file": rel, "module": mod, "compile": None, "import": None}
        try:
            compile(open(path, "rb").read(), path, "exec", dont_inherit=True)
        except Exception as e:
            rec["compile"] = "%s: %s" % (type(e).__name__, str(e)[-300:])
        if rec["compile"] is None:
            try:
                importlib.import_module(mod)
            except BaseException as e:
                tb = traceback.extract_tb(e.__traceback__)
                where = ""
                for fr in reversed(tb):
                    if fr.filename.startswith(root):
                        where = os.path.relpath(fr.filename, root)
                        break
                rec["import"] = "%s: %s" % (type(e).__name__, str(e)[:300])
                rec["where"] = where
        out.append(rec)
print(json.dumps(out))
'''


def python_check(ctx, gen, tops):
    """Byte-compile and import every generated module below <gen>/python/<top>. One python3 per configuration root
    (module names repeat across roots). -> {top: [records]}."""
    d = ctx.sub("pycheck")
    script = os.path.join(d, "check.py")
    open(script, "w").write(_PY_CHECK)
    res = {}
    pending = list(tops)
    running = []
    while pending or running:
        while pending and len(running) < NPROC:
            t = pending.pop()
            running.append((t, subprocess.Popen(["/usr/bin/python3", "-B", script, os.path.join(gen, "python"), t],
                                                stdout=subprocess.PIPE, stderr=subprocess.PIPE, cwd=d)))
        t, p = running.pop(0)
        o, e = p.communicate(timeout=900)
        if p.returncode != 0:
            core.log(e.decode(errors="replace")[-2000:])
            raise core.Inconclusive("python import driver failed for %s" % t)
        res[t] = json.loads(o)
    return res


def jackson_classpath():
    jars = {}
    for p in sorted(glob.glob("/opt/veriftools/**/jackson-*.jar", recursive=True)):
        m = re.match(r"jackson-(core|databind|annotations)-(\d+\.\d+\.\d+)\.jar$", os.path.basename(p))
        if m and m.group(2).startswith("2.15"):
            jars[m.group(1)] = p
    if set(jars) != {"core", "databind", "annotations"}:
        raise core.Inconclusive("Jackson 2.15 core/databind/annotations jars not found under /opt/veriftools")
    return jars


_JAVA_DIAG = re.compile(r"^(.*?\.java):(\d+): error: (.*)$")


def javac_check(ctx, gen, tops):
    """javac (17, -proc:none) of every generated .java file below <gen>/java/<top> against the real Jackson jars.
    -> {top: {package dir: [(file, message + symbol line)]}}, {top: [unattributed lines]}"""
    cp = ":".join(jackson_classpath().values())
    d = ctx.sub("javac")
    res, other = {}, {}
    pending = list(tops)
    running = []

    excluded = collections.defaultdict(set)     # top -> package dirs left out of the second pass
    passno = collections.Counter()

    def start(t):
        root = os.path.join(gen, "java", t)
        files = sorted(glob.glob(os.path.join(root, "**", "*.java"), recursive=True))
        files = [f for f in files if os.path.basename(os.path.dirname(f)) not in excluded[t]]
        if not files:
            return None
        passno[t] += 1
        argf = os.path.join(d, "%s.%d.args" % (t, passno[t]))
        open(argf, "w").write("\n".join('"%s"' % f for f in files))
        outd = os.path.join(d, "classes-%s-%d" % (t, passno[t]))
        os.makedirs(outd)
        return subprocess.Popen(["javac", "-proc:none", "-nowarn", "-XDshould-stop.ifError=FLOW", "-Xmaxerrs", "100000", "-encoding", "UTF-8", "-d", outd, "-cp", cp, "@" + argf],
                                stdout=subprocess.PIPE, stderr=subprocess.STDOUT, cwd=root, text=True)

    while pending or running:
        while pending and len(running) < max(2, NPROC // 2):
            t = pending.pop()
            p = start(t)
            if p is None:
                res[t], other[t] = {}, []
                continue
            running.append((t, p))
        if not running:
            break
        t, p = running.pop(0)
        o, _ = p.communicate(timeout=1800)
        root = os.path.join(gen, "java", t)
        by_pkg = collections.defaultdict(list)
        rest = []
        lines = o.splitlines()
        i = 0
        while i < len(lines):
            m = _JAVA_DIAG.match(lines[i])
            if m:
                msg = m.group(3)
                j = i + 1
                extra = []
                while j < len(lines) and not _JAVA_DIAG.match(lines[j]) and not re.match(r"^\d+ errors?$", lines[j]):
                    s = lines[j].strip()
                    if s.startswith("symbol:") or s.startswith("location:"):
                        extra.append(re.sub(r"\s+", " ", s))
                    j += 1
                rel = os.path.relpath(m.group(1), root) if os.path.isabs(m.group(1)) else m.group(1)
                parts = rel.split(os.sep)
                pkg = parts[-2] if len(parts) >= 2 else "?"
                by_pkg[pkg].append((rel, msg + (" [" + "; ".join(extra[:1]) + "]" if extra else "")))
                i = j
            else:
                if lines[i].strip() and not re.match(r"^\d+ errors?$", lines[i]) and not lines[i].startswith("Note:"):
                    rest.append(lines[i])
                i += 1
        if p.returncode != 0 and not by_pkg:
            core.log("\n".join(rest[-20:]))
            raise core.Inconclusive("javac failed without attributable diagnostics for %s" % t)
        if t in res:
            for k_, v_ in by_pkg.items():
                res[t].setdefault(k_, []).extend(v_)
        else:
            res[t], other[t] = dict(by_pkg), rest
        # (-XDshould-stop.ifError=FLOW: javac goes on to type-check every class although some file has a syntax error;
        # without it one unparsable package hides the type errors of all others in the same invocation)
    return res, other
