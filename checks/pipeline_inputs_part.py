"""Input gating and parameters (growth of Pipeline.tla, DESIGN Appendix E.4) - part of C07.

  spec/PipelineInputs.tla       LoadSchemas as a function: parameters (file, CLI override, %name%), `if` (load / skip / error),
                                allowed_objects, per-input transformations, metadata, Consolidate, common passes
  spec/PipelineInputsMC.tla     bounded universe: <= 2 (quick) / 3 (thorough) inputs x parameter environments; one state = one
                                case, printed with the expected outcome and the literal expansion; the laws (skip, error,
                                override, union) checked on every case
  worker inputs-load            the real codegen.PipelineFromFile(yaml, Parameters(cli)).LoadSchemas(), projected; and the
                                same for the literal expansion of the pipeline (no `if`, no parameter), compared in full
  spec/PipelineInputsTrace.tla  the same Expected evaluated on the real records

run_part(ctx) -> dict(fails=[(signature, what, replay, key)], coverage={...}, tlc=[...]); signatures C07/inputs/<clause>/<class>.
"""
import json
import os
import random

from vlib import core
from checks import pipeline_common as pc

UNSET = "<unset>"
IF_TEXT = {
    "none": None, "true": "true", "false": "false", "not_true": "!true",
    "eq_sel_on": '"%sel%" == "on"', "ne_sel_on": '"%sel%" != "on"',
    "sprintf_sel": 'sprintf("%s-x", "%sel%") == "on-x"',
    "semver_ge": 'semver("%ver%").MoreThanEqual(semver("v11.2.x"))',
    "main_or_semver": '"%ver%" == "main" || semver("%ver%").MoreThanEqual(semver("v11.2.x"))',
    "str": '"%sel%"', "num": "1 + 1", "syntax": '"a" ==', "unknown": 'nosuch("x")',
}
META = {"none": None, "m1": {"kind": "core", "identifier": "One"}, "m2": {"kind": "core", "identifier": "Two"}}
META_REAL = {"//": "none", "core//One": "m1", "core//Two": "m2"}
FMT_KEY = {"js": "jsonschema", "oa": "openapi", "cue": "cue"}
PKGTAG = {"p": "p", "q": "q", "%pkg%": "unset"}


def _spec(objs):
    a = ("A", "struct", [("s", "string", True, None), ("n", "int", False, None)]) if objs != "Ay" else ("A", "struct", [("s", "int", True, None)])
    if objs == "AB":
        return [a, ("B", "struct", [("flag", "bool", False, None)])]
    return [a]


def write_shared(d):
    """Schema files shared by every case (the package comes from the pipeline file), transformation files, common passes."""
    for objs in ("A", "AB", "Ay"):
        objects = _spec(objs)
        js = list(objects)
        if objs == "AB":
            js = [("Both", "struct", [("a", ("ref", "A"), False, None), ("b", ("ref", "B"), False, None)])] + js
        open(os.path.join(d, "s_js_%s.json" % objs), "w").write(pc.render_jsonschema({"pkg": "-", "objects": js}))
        open(os.path.join(d, "s_oa_%s.json" % objs), "w").write(pc.render_openapi({"pkg": "-", "objects": objects}))
        cd = os.path.join(d, "cue_%s" % objs)
        os.makedirs(cd, exist_ok=True)
        open(os.path.join(cd, "s.cue"), "w").write(pc.render_cue({"pkg": "-", "objects": objects}, "cue_%s" % objs))
    boolean = {"kind": "scalar", "scalar": {"scalar_kind": "bool"}}
    for pkg, tag in PKGTAG.items():
        open(os.path.join(d, "tf_t1_%s.yaml" % tag), "w").write(pc.yaml_dump({"passes": [{"rename_object": {"from": pkg + ".A", "to": "Z"}}]}))
        open(os.path.join(d, "tf_t2_%s.yaml" % tag), "w").write(pc.yaml_dump({"passes": [
            {"add_object": {"object": pkg + ".Extra", "as": boolean}}, {"omit": {"objects": [pkg + ".B"]}}]}))
    open(os.path.join(d, "common.yaml"), "w").write(pc.yaml_dump({"passes": [
        {"add_object": {"object": pkg + ".Common", "as": boolean}} for pkg in PKGTAG]}))


def _setting(s):
    return s["v"] if s["k"] == "lit" else "%" + s["p"] + "%"


def _location(fmt, objs, k):
    # alternate the two built-in directories: the worker runs with the corpus directory as its working directory
    root = "%__config_dir%" if k % 2 == 0 else "%__current_dir%"
    if fmt == "cue":
        return {"entrypoint": "%s/cue_%s" % (root, objs)}
    return {"path": "%s/s_%s_%s.json" % (root, fmt, objs)}


def render_case(d, name, case):
    """Writes <name>.yaml (parametrised, gated) and, when no error is expected, <name>_lit.yaml (literal expansion)."""
    exp = case["expansion"]
    inputs, literal = [], []
    for k, (inp, ex) in enumerate(zip(case["inputs"], exp)):
        body = _location(inp["fmt"], inp["objs"], k)
        lit = {kk: v.replace("%__current_dir%", d).replace("%__config_dir%", d) for kk, v in body.items()}
        body["package"] = _setting(inp["pkg"])
        lit["package"] = ex["pkg"]
        if inp["allowed"]["k"] != "all":
            body["allowed_objects"] = [_setting(inp["allowed"])]
            lit["allowed_objects"] = [ex["allowed"]]
        if inp["tf"]["k"] != "none":
            tag = PKGTAG.get(ex["pkg"], "unset")
            body["transformations"] = ["%%__config_dir%%/tf_%s_%s.yaml" % (_setting(inp["tf"]), tag)]
            lit["transformations"] = ["%s/tf_%s_%s.yaml" % (d, ex["tf"], tag)]
        if META[inp["meta"]]:
            body["metadata"] = META[inp["meta"]]
            lit["metadata"] = META[inp["meta"]]
        entry = {FMT_KEY[inp["fmt"]]: body}
        if IF_TEXT[inp["cond"]] is not None:
            entry["if"] = IF_TEXT[inp["cond"]]
        inputs.append(entry)
        if ex["gate"] == "T":
            literal.append({FMT_KEY[inp["fmt"]]: lit})
    out = {"directory": "out/%l", "types": True, "languages": [{"go": {"package_root": "example.com/gen"}}]}
    cfg = {}
    fileparams = {k: v for k, v in case["env"]["file"].items() if v != UNSET}
    if fileparams:
        cfg["parameters"] = fileparams
    cfg["inputs"] = inputs
    if case["common"]:
        cfg["transformations"] = {"schemas": ["%__config_dir%/common.yaml"]}
    cfg["output"] = out
    y = os.path.join(d, name + ".yaml")
    open(y, "w").write(pc.yaml_dump(cfg))
    job = {"id": name, "yaml": y, "params": {k: v for k, v in case["env"]["cli"].items() if v != UNSET}, "literal": ""}
    if case["expected"]["err"] == "none" and literal:
        lcfg = {"inputs": literal, "output": out}
        if case["common"]:
            lcfg["transformations"] = {"schemas": [d + "/common.yaml"]}
        ly = os.path.join(d, name + "_lit.yaml")
        open(ly, "w").write(pc.yaml_dump(lcfg))
        job["literal"] = ly
    return job


def case_key(case):
    return "%s|%s|%s" % (case["env"]["name"], "c" if case["common"] else "-",
                         ";".join("%s,%s,%s,%s,%s,%s,%s" % (i["fmt"], _setting(i["pkg"]), i["cond"],
                                                            "all" if i["allowed"]["k"] == "all" else _setting(i["allowed"]),
                                                            "-" if i["tf"]["k"] == "none" else _setting(i["tf"]), i["meta"], i["objs"])
                                  for i in case["inputs"]))


def judge(case, rec):
    """Returns [(clause, class, what)] for one real record, by the same rules as PipelineInputsTrace.tla."""
    out = []
    exp, real = case["expected"], rec["real"]
    rerr = real["class"]
    rpk = {p["pkg"]: (META_REAL.get(p["meta"], p["meta"]), sorted(p["objects"])) for p in real["pkgs"]}
    epk = {p["pkg"]: (p["meta"], sorted(p["objects"])) for p in exp["pkgs"]}
    if rerr == "panic":
        out.append(("Error", "panic", "LoadSchemas panicked: %s" % real["err"][:200]))
        return out
    if exp["err"] in ("nonbool", "compile"):
        if rerr != exp["err"]:
            cls = "silent-skip" if rerr == "none" else "reported-as-" + rerr
            out.append(("Gate", "%s/%s" % (exp["err"], cls), "an `if` that is %s must fail the run; real outcome: %s %s" % (
                "not a boolean" if exp["err"] == "nonbool" else "not compilable", rerr, real["err"][:160])))
        return out
    if rerr != exp["err"]:
        out.append(("Conforms", "outcome/expected-%s-got-%s" % (exp["err"], rerr), "expected %s, real %s %s" % (exp["err"], rerr, real["err"][:200])))
        return out
    if rpk != epk:
        if set(rpk) != set(epk):
            raw = sorted({i["fmt"] for i, ex in zip(case["inputs"], case["expansion"])
                          if ex["gate"] == "T" and i["pkg"]["k"] == "param" and _setting(i["pkg"]) in rpk and _setting(i["pkg"]) != ex["pkg"]})
            cls = "uninterpolated-" + "+".join(raw) if raw else "other"
            out.append(("Conforms", "package-name/" + cls, "packages %s expected, real %s" % (sorted(epk), sorted(rpk))))
        elif any(rpk[p][0] != epk[p][0] for p in epk):
            out.append(("Conforms", "metadata", "metadata %s expected, real %s" % ({p: epk[p][0] for p in epk}, {p: rpk[p][0] for p in rpk})))
        else:
            bad = sorted(p for p in epk if rpk[p][1] != epk[p][1])
            out.append(("Conforms", "objects", "package %s: objects %s expected, real %s" % (bad[0], epk[bad[0]][1], rpk[bad[0]][1])))
    if "expansion_equal" in rec and not rec["expansion_equal"] and not out:
        out.append(("Expansion", "ir-differs", "the pipeline and its literal expansion load different IRs: %s" % json.dumps(rec.get("first_difference") or rec.get("literal"))[:300]))
    return out


def trace_record(case, rec):
    real = rec["real"]
    return {"inputs": case["inputs"], "common": case["common"], "env": case["env"],
            "real": {"err": real["class"], "pkgs": [{"pkg": p["pkg"], "meta": META_REAL.get(p["meta"], p["meta"]), "objects": p["objects"]} for p in real["pkgs"]]},
            "expansion": "not-applicable" if "expansion_equal" not in rec else ("equal" if rec["expansion_equal"] else "differs")}


def validate(ctx, records, strict=False):
    d = ctx.sub("inputs-trace")
    t = os.path.join(d, "inputs_trace.ndjson")
    open(t, "w").write("".join(json.dumps(r) + "\n" for r in records))
    r = ctx.run_tlc("PipelineInputsTrace", "PipelineInputsTrace.cfg", workers=1, timeout=1500, files={"inputs_trace.ndjson": t},
                    constants={"Strict": "TRUE" if strict else "FALSE"}, allow_violation=strict)
    fails = {f["l"]: set(f["violated"]) for f in core.tagged_lines(r["out"], "FAIL")}
    consumed = None
    for line in open(r["out"], errors="replace"):
        if line.startswith('<<"CONSUMED", '):
            consumed = int(line[len('<<"CONSUMED", '):].rstrip(">\n"))
    if not strict and consumed != len(records):
        raise core.Inconclusive("PipelineInputsTrace consumed %s of %d records" % (consumed, len(records)))
    os.remove(r["out"])
    return r, fails


def replay_case(ctx, case):
    d = ctx.sub("inputs-replay")
    write_shared(d)
    job = render_case(d, "replay", case)
    rec = pc.run_jobs(ctx, "inputs-load", [job], parallel=1, cwd=d)[0]
    return judge(case, rec)


def run_part(ctx, budget=None):
    quick = ctx.quick()
    rnd = random.Random(ctx.seed * 31 + 7)
    tlc = []
    r = ctx.run_tlc("PipelineInputsMC", "PipelineInputsMC.cfg", workers=4 if quick else 8, timeout=1500,
                    constants={"MaxInputs": 2 if quick else 3, "Slice": ctx.seed % 5 if not quick else 0, "NSlices": 1 if quick else 5})
    tlc.append(r)
    cases = list(core.tagged_lines(r["out"], "CASE"))
    os.remove(r["out"])
    if len(cases) != r["distinct"]:
        raise core.Inconclusive("PipelineInputsMC printed %d cases for %d states" % (len(cases), r["distinct"]))
    singles = [c for c in cases if len(c["inputs"]) == 1]
    rest = [c for c in cases if len(c["inputs"]) > 1]
    rnd.shuffle(rest)
    n = budget or (1200 if quick else 8000)
    chosen = singles + rest[:max(0, n - len(singles))]

    d = ctx.sub("inputs-corpus")
    write_shared(d)
    jobs, by_id = [], {}
    for k, c in enumerate(chosen):
        name = "c%05d" % k
        jobs.append(render_case(d, name, c))
        by_id[name] = c
    out = pc.run_jobs(ctx, "inputs-load", jobs, parallel=12, timeout=1500, cwd=d)
    res = {o["id"]: o for o in out}
    if len(res) != len(jobs):
        raise core.Inconclusive("inputs-load returned %d of %d cases" % (len(res), len(jobs)))

    fails, records, names = [], [], []
    stats = {"gate": {}, "env": {}, "expected_err": {}, "n_inputs": {}, "all_skipped": 0, "param_package": 0, "filtered": 0, "transformed": 0,
             "with_metadata": 0, "same_package_merges": 0, "expansions_compared": 0, "timeouts": 0}
    py_bad = {}
    for name in sorted(res):
        c, rec = by_id[name], res[name]
        if rec.get("timeout"):
            stats["timeouts"] += 1
        for ex in c["expansion"]:
            stats["gate"][ex["gate"]] = stats["gate"].get(ex["gate"], 0) + 1
        stats["env"][c["env"]["name"]] = stats["env"].get(c["env"]["name"], 0) + 1
        stats["expected_err"][c["expected"]["err"]] = stats["expected_err"].get(c["expected"]["err"], 0) + 1
        stats["n_inputs"][str(len(c["inputs"]))] = stats["n_inputs"].get(str(len(c["inputs"])), 0) + 1
        loaded = [ex for ex in c["expansion"] if ex["gate"] == "T"]
        stats["all_skipped"] += 1 if (not loaded and c["expected"]["err"] == "none") else 0
        stats["param_package"] += 1 if any(i["pkg"]["k"] == "param" for i in c["inputs"]) else 0
        stats["filtered"] += 1 if any(ex["allowed"] != "all" for ex in loaded) else 0
        stats["transformed"] += 1 if any(ex["tf"] != "none" for ex in loaded) else 0
        stats["with_metadata"] += 1 if any(i["meta"] != "none" for i in c["inputs"]) else 0
        stats["same_package_merges"] += 1 if len({ex["pkg"] for ex in loaded}) < len(loaded) else 0
        stats["expansions_compared"] += 1 if "expansion_equal" in rec else 0
        verdicts = judge(c, rec)
        records.append(trace_record(c, rec))
        names.append(name)
        if verdicts:
            py_bad[name] = {v[0] for v in verdicts if v[0] != "Error"} or {"Conforms"}
        for clause, cls, what in verdicts:
            fails.append(("C07/inputs/%s/%s" % (clause, cls), "%s [%s]" % (what, case_key(c)), {"clause": "inputs", "case": c}, case_key(c)))
    if stats["timeouts"]:
        raise core.Inconclusive("inputs: %d loads did not return (watchdog)" % stats["timeouts"])

    tr, tfails = validate(ctx, records)
    tlc.append(tr)
    tlc_bad = {names[l - 1]: v for l, v in tfails.items()}
    if set(tlc_bad) != set(py_bad) or any(not (tlc_bad[k] & py_bad[k]) for k in tlc_bad):
        only_t = sorted(set(tlc_bad) - set(py_bad))[:4]
        only_p = sorted(set(py_bad) - set(tlc_bad))[:4]
        raise core.Inconclusive("PipelineInputsTrace and the oracle disagree: only TLC %s, only oracle %s" % (
            [(k, sorted(tlc_bad[k]), case_key(by_id[k])) for k in only_t], [(k, sorted(py_bad[k]), case_key(by_id[k])) for k in only_p]))

    # binding self-test: a genuine conforming record is accepted, the same record with one object removed is rejected
    good = [rec for rec, nm in zip(records, names) if nm not in py_bad and rec["real"]["pkgs"] and rec["real"]["pkgs"][0]["objects"]]
    selftest = None
    if good:
        g = good[0]
        bad = json.loads(json.dumps(g))
        bad["real"]["pkgs"][0]["objects"] = bad["real"]["pkgs"][0]["objects"][1:]
        r_ok, _ = validate(ctx, [g], strict=True)
        r_bad, _ = validate(ctx, [bad], strict=True)
        tlc += [r_ok, r_bad]
        if r_ok["violated"] or not r_bad["violated"]:
            raise core.Inconclusive("inputs binding self-test failed (genuine rejected=%s, corrupted rejected=%s)" % (r_ok["violated"], r_bad["violated"]))
        selftest = "PipelineInputsTrace(Strict) accepts a genuine record and rejects it once one loaded object is removed"

    for need in ("T", "F", "nonbool", "compile"):
        if not stats["gate"].get(need):
            raise core.Inconclusive("inputs: gate outcome %s never exercised" % need)
    for need in ("all_skipped", "param_package", "filtered", "transformed", "with_metadata", "same_package_merges", "expansions_compared"):
        if not stats[need]:
            raise core.Inconclusive("inputs: %s never exercised" % need)
    if not stats["expected_err"].get("conflict"):
        raise core.Inconclusive("inputs: no conflicting merge in the sample")
    cov = {"tlc_cases": len(cases), "replayed": len(chosen), "conforming": len(chosen) - len(py_bad), "stats": stats, "binding_selftest": selftest,
           "sample": {"case": case_key(chosen[len(chosen) // 2]), "expected": chosen[len(chosen) // 2]["expected"]}}
    return {"fails": fails, "coverage": cov, "tlc": tlc}
