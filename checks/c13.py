"""C13 - generated Equals (Go): an equivalence that agrees with the JSON encodings.

spec: Semantics.tla (Eq = JSON equality modulo absent/null vs empty collection; Base/Variants give, per schema, the base
      value and every single-leaf mutation of it at every depth), SemanticsTrace.tla (Reflexive, Symmetric, Transitive,
      SameJsonEqual, EqualSameJson evaluated by TLC on the RECORDED matrix of the real Equals)
real code: values are obtained by json.Unmarshal of the documents into the generated types; m[i][j] = a_i.Equals(b_j) for
      independently decoded a_i, b_j; encs[i] = json.Marshal(a_i).
"""
import collections
import json

from vlib import core
from checks import semantics_common as sc

CHUNK = 16
LAW_SLUG = {"Reflexive": "reflexive", "Symmetric": "symmetric", "Transitive": "transitive",
            "SameJsonEqual": "same-json-equal", "EqualSameJson": "equal-same-json",
            "NilUnequal": "equals-nil", "ForeignUnequal": "equals-other-dataquery-type"}
NEED_TOKENS = ("top", "optional", "array", "map", "ref", "union-branch", "nullable")
NEED_KINDS = ("any", "enum", "str", "int", "num", "bool", "union")


def canon(v):
    """python twin of Semantics!Canon."""
    if v is None:
        return ("empty",)
    if isinstance(v, list):
        return ("empty",) if not v else ("arr", tuple(canon(x) for x in v))
    if isinstance(v, dict):
        ms = tuple(sorted((k, canon(x)) for k, x in v.items() if canon(x) != ("empty",)))
        return ("empty",) if not ms else ("obj", ms)
    if isinstance(v, bool):
        return ("bool", v)
    if isinstance(v, (int, float)):
        return ("num", float(v))
    return ("str", v)


def laws(encs, m, nil_eq=(), foreign_eq=()):
    n = len(encs)
    out = {}
    R = range(n)
    w = [(i,) for i, x in enumerate(nil_eq) if x]
    if w:
        out["NilUnequal"] = w
    w = [(min(i, n - 1),) for i, x in enumerate(foreign_eq) if x]
    if w:
        out["ForeignUnequal"] = w
    w = [(i,) for i in R if not m[i][i]]
    if w:
        out["Reflexive"] = w
    w = [(i, j) for i in R for j in R if m[i][j] != m[j][i]]
    if w:
        out["Symmetric"] = w
    w = [(i, j, k) for i in R for j in R if m[i][j] for k in R if m[j][k] and not m[i][k]]
    if w:
        out["Transitive"] = w
    w = [(i, j) for i in R for j in R if sc.json_equal(encs[i], encs[j]) and not m[i][j]]
    if w:
        out["SameJsonEqual"] = w
    cs = [canon(e) for e in encs]
    w = [(i, j) for i in R for j in R if m[i][j] and cs[i] != cs[j]]
    if w:
        out["EqualSameJson"] = w
    return out


def run(ctx):
    replay = None
    select = None
    formats = sc.FORMATS_WITH_KIND
    deep = not ctx.quick()
    extra = None
    if ctx.replay:
        replay = json.load(open(ctx.replay))["replay"]
        deep = True
        extra = [{"schema": replay["schema"], "leaf": replay.get("leaf", "replay"), "pos": replay.get("pos", "replay"), "cons": True}]
        select = lambda cat: [min(i for i, e in cat.items() if e["schema"] == replay["schema"])]
        formats = (replay["format"],)
    # the schema written after C13's own quantifier is part of every slice
    batch = sc.run_batch(ctx, select=select, formats=formats, must=("equality", "equality-2", "two-packages", "two-packages-reversed"), deep=deep, extra=extra)
    units = [u for u in batch.units.values() if u["status"] == "ok"]
    cmds, meta = [], {}
    kind_units = sorted([u for u in units if u["fmt"] == "kind"], key=lambda u: u["pkg"])
    for u in units:
        cs = [c for c in batch.cases[u["id"]] if c["accepts"] or set(sc.parts(c["f"])) <= {"base", "alt", "BreakBound"}]
        if replay:
            chunks = [[{"py": d, "f": "replay", "p": [], "n": i} for i, d in enumerate(replay["docs"])]]
        else:
            base = [c for c in cs if c["f"] == "base"]
            rest = [c for c in cs if c["f"] != "base"]
            chunks = [base + rest[i:i + CHUNK - 1] for i in range(0, max(len(rest), 1), CHUNK - 1)]
            if deep and len(rest) > CHUNK - 1:
                # thorough: the same values again in STRIDED chunks, so that triples are drawn from variations at different
                # depths (consecutive documents vary the same place), ...
                k = len(chunks)
                chunks += [base + rest[i::k] for i in range(k)]
            if True:
                # every group of documents that differ only in absent / null / empty collection in one matrix (both tiers)
                groups = collections.defaultdict(list)
                for c in cs:
                    groups[canon(c["py"])].append(c)
                same = [c for g in groups.values() if len(g) > 1 for c in g if c["f"] != "base"]
                chunks += [base + same[i:i + CHUNK - 1] for i in range(0, len(same), CHUNK - 1)]
        for k, ch in enumerate(chunks):
            key = "%s/eq%d" % (u["pkg"], k)
            cmd = {"op": "eq", "id": key, "type": u["type"], "docs": [c["py"] for c in ch]}
            if u["fmt"] == "kind":
                # a value of ANOTHER generated dataquery type: Equals must answer false for it
                others = [x["type"] for x in kind_units if x["pkg"] != u["pkg"]]
                if others:
                    cmd["foreign"] = others[(kind_units.index(u) + 1) % len(others)]
            cmds.append(cmd)
            meta[key] = (u, ch)
    recs = sc.run_driver(ctx, batch, cmds, "eq")
    cmds_by_id = {c["id"]: c for c in cmds}
    tw = sc.TraceWriter(ctx, batch, "c13")
    order = []
    stats = collections.Counter()
    per_tok, per_kind = collections.Counter(), collections.Counter()
    samples = []
    for key in sorted(meta):
        u, ch = meta[key]
        r = recs[key]
        entry = batch.cat[u["id"]]
        schema = entry["schema"]
        if r.get("panic"):
            msg, _, site = r["panic"].partition(" @@ ")
            ctx.fail("C13/go/panic:%s/at:%s" % (sc._slug(msg), sc._site(site)),
                     "Equals / decoding panics: %s" % r["panic"],
                     {"schema_id": u["id"], "format": u["fmt"], "schema": schema, "docs": [c["py"] for c in ch]})
            continue
        if not r.get("has_equals"):
            stats["units_without_equals"] += 1
            continue
        keep = [i for i, d in enumerate(r["decoded"]) if d]
        stats["values_not_decoded"] += len(ch) - len(keep)
        docs = [ch[i] for i in keep]
        encs = [r["encs"][i] for i in keep]
        m = [[r["m"][i][j] for j in keep] for i in keep]
        nil_eq = [r["nil_eq"][i] for i in keep] if r.get("iface_equals") else []
        foreign_eq = [r["foreign_eq"][i] for i in keep] if (r.get("iface_equals") and "foreign" in cmds_by_id[key]) else []
        if foreign_eq:
            # last entry: the zero value of this type against the zero value of the other type (field-wise equal, other type)
            foreign_eq.append(bool(r.get("foreign_eq_zero")))
        try:
            tw.add_eq(u["pkg"], key, encs, m, nil_eq, foreign_eq)
        except sc.NotInUniverse:
            stats["matrices_outside_number_universe"] += 1
            continue
        viol = laws(encs, m, nil_eq, foreign_eq)
        if u["fmt"] == "kind":
            stats["dataquery_variant_matrices"] += 1
            stats["equals_nil_calls"] += len(nil_eq)
            stats["equals_other_dataquery_type_calls"] += len(foreign_eq)
        order.append((key, set(viol)))
        n = len(encs)
        stats["matrices"] += 1
        stats["values"] += n
        stats["pairs"] += n * n
        stats["triples"] += n * n * n
        stats["nontrivial_equal_pairs_of_distinct_documents"] += sum(1 for i in range(n) for j in range(n) if i != j and m[i][j])
        stats["nontrivial_same_json_pairs_of_distinct_documents"] += sum(
            1 for i in range(n) for j in range(n) if i != j and sc.json_equal(encs[i], encs[j]))
        stats["nontrivial_transitive_triples"] += sum(
            1 for i in range(n) for j in range(n) if i != j and m[i][j] for k in range(n) if k != j and k != i and m[j][k])
        # single-leaf mutations: pairs (base, variant)
        if docs and docs[0]["f"] == "base":
            for j in range(1, n):
                if "+" in docs[j]["f"]:
                    stats["two_place_mutation_pairs"] += 1
                    continue
                stats["single_leaf_mutation_pairs"] += 1
                if not m[0][j]:
                    stats["single_leaf_mutation_pairs_unequal"] += 1
                pos, kind, _ = sc.walk(schema, docs[j]["p"], docs[j]["py"])
                for tok in set(pos.split(">")):
                    per_tok[tok] += 1
                per_kind[kind] += 1
        fam = entry["leaf"] + "@fixed" if entry["pos"] == "fixed" else entry["pos"]
        for law, ws in viol.items():
            w = ws[0]
            if law in ("Symmetric", "EqualSameJson"):
                cls = sc.diff_class(schema, encs[w[0]], encs[w[1]])
            elif law in ("NilUnequal", "ForeignUnequal"):
                cls = "dataquery-variant"        # the two guards of the dataquery Equals: one class whatever the schema
            elif law == "Transitive":
                # a.Equals(b), b.Equals(c), not a.Equals(c): the class is the difference the code overlooked
                cls = sc.diff_class(schema, encs[w[0]], encs[w[1]]) if not sc.json_equal(encs[w[0]], encs[w[1]]) \
                    else sc.diff_class(schema, encs[w[1]], encs[w[2]]) if not sc.json_equal(encs[w[1]], encs[w[2]]) else fam
            else:
                cls = fam
            what = {
                "Reflexive": "two independently decoded values of %s are not Equal" % sc.dumps(docs[w[0]]["py"]),
                "Symmetric": "Equals(%s, %s) differs from Equals of the swapped pair",
                "Transitive": "Equals holds for (a,b) and (b,c) but not (a,c)",
                "SameJsonEqual": "values encoding to the same JSON %s are not Equal" % sc.dumps(encs[w[0]]),
                "EqualSameJson": "Equal values encode to different JSON",
                "NilUnequal": "Equals(nil) answers true for the value of %s" % sc.dumps(docs[w[0]]["py"]),
                "ForeignUnequal": "Equals(<value of another dataquery type>) answers true for the value of %s" % sc.dumps(docs[w[0]]["py"]),
            }[law]
            if law in ("Symmetric", "EqualSameJson"):
                what = "%s: %s vs %s" % (what.replace("(%s, %s)", ""), sc.dumps(encs[w[0]]), sc.dumps(encs[w[1]]))
            ctx.fail("C13/go/%s/%s" % (LAW_SLUG[law], cls), "%s (%d witness(es) in this matrix, %s)" % (what, len(ws), u["fmt"]),
                     {"schema_id": u["id"], "format": u["fmt"], "leaf": entry["leaf"], "pos": entry["pos"], "schema": schema,
                      "docs": [docs[i]["py"] for i in sorted(set(w))], "witness": list(w),
                      "encodings": [encs[i] for i in sorted(set(w))]})
        if len(samples) < 2 and n >= 3 and (u["id"] + ctx.seed) % 5 == 0:
            samples.append({"package": u["pkg"], "documents": [d["py"] for d in docs[:4]], "encodings": encs[:4],
                            "equals_matrix": [row[:4] for row in m[:4]]})
    tlc_viol, tr = tw.validate()
    ok = 0
    for i, (key, pv) in enumerate(order):
        tv = tlc_viol.get(i, set())
        if tv != pv:
            raise core.Inconclusive("TLC and the python join disagree on matrix %s: TLC %s, python %s" % (key, sorted(tv), sorted(pv)))
        if not tv:
            ok += 1
    binding = None
    if not replay:
        vac = [k for k in ("matrices", "single_leaf_mutation_pairs", "nontrivial_equal_pairs_of_distinct_documents",
                           "nontrivial_same_json_pairs_of_distinct_documents", "nontrivial_transitive_triples",
                           "dataquery_variant_matrices", "equals_nil_calls", "equals_other_dataquery_type_calls") if stats[k] == 0]
        vac += ["position:" + t for t in NEED_TOKENS if per_tok[t] == 0]
        vac += ["kind:" + k for k in NEED_KINDS if per_kind[k] == 0]
        sc.vacuity_gate(ctx, vac, "vacuous laws / classes")
        binding = selftest(ctx, batch, recs, meta, order)
    status = collections.Counter(u["status"] for u in batch.units.values())
    cov = {
        "states": sum(r["distinct"] for r in ctx.tlc_runs),
        "transitions": sum(r["generated"] for r in ctx.tlc_runs),
        "traces_validated_against_impl": ok,
        "real_records_validated_by_tlc_trace_spec": len(order),
        "exhaustive": not ctx.quick(),
        "evaluations": stats["pairs"],
        "distinct_nontrivial": stats["single_leaf_mutation_pairs"] + stats["nontrivial_equal_pairs_of_distinct_documents"],
        "rule": "one evaluation = one real call a.Equals(b) on two independently decoded values of a generated type; values come from TLC's "
                "documents (base + every one-place variant that decodes) in chunks of <= %d with the base value in every chunk; non-trivial = "
                "pairs (base, single-leaf mutation) plus pairs of distinct documents that the code calls Equal" % CHUNK,
        "schemas": len(batch.ids), "units": dict(status), "stats": dict(stats),
        "single_leaf_mutations_per_position_token": dict(per_tok), "single_leaf_mutations_per_kind": dict(per_kind),
        "timing": batch.timing, "binding_selftest": binding,
        "samples": samples or [{"note": "no sample drawn"}],
        "checker_cmd": "tlc SemanticsMC (index, cases); worker sem-gen; go build; driver eq; tlc SemanticsTrace",
    }
    return ctx.finish("model_checking", cov, sc.COMMON_ASSUMPTIONS[:2] + sc.variant_assumptions(batch) + [
        "values are those json.Unmarshal produces from the documents (valid ones and ones violating only a bound); "
        "Equals is called on two independently decoded values, so reflexivity is tested across distinct Go objects",
        "`same JSON` is JSON equality (numbers by value, key order irrelevant); `up to absent/null vs empty collection` is Semantics!Eq: "
        "null, [] and {} are identified and members carrying them are ignored",
    ])


def selftest(ctx, batch, recs, meta, order):
    """A genuine matrix is accepted in Strict mode; the same matrix with one recorded entry flipped is rejected."""
    good = [key for key, v in order if not v and len([d for d in recs[key]["decoded"] if d]) >= 2]
    if not good:
        raise core.Inconclusive("no clean Equals matrix to run the binding self-test on")
    key = good[ctx.seed % len(good)]
    u, ch = meta[key]
    r = recs[key]
    keep = [i for i, d in enumerate(r["decoded"]) if d]
    encs = [r["encs"][i] for i in keep]
    res = {}
    for name in ("good", "bad"):
        m = [[r["m"][i][j] for j in keep] for i in keep]
        if name == "bad":
            m[0][1] = not m[0][1]
        tw = sc.TraceWriter(ctx, batch, "selftest-" + name)
        tw.add_eq(u["pkg"], key, encs, m)
        _, tr = tw.validate(strict=True, allow_violation=True)
        res[name] = tr["violated"]
    if res["good"] or not res["bad"]:
        raise core.Inconclusive("binding self-test failed: good rejected=%s, corrupted rejected=%s" % (res["good"], res["bad"]))
    return "SemanticsTrace(Strict) accepts a genuine Equals matrix and rejects it once one recorded entry is flipped"
