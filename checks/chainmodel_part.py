"""C06, design-level part: IDEAL passes in the REAL order reach the normal form (DESIGN.md 3.4, second bullet).

  worker chain-list    -> the pass names of Language.CompilerPasses() of the seven languages (read from the code)
  ChainModelReal.tla   -> generated literal  RealChain[L], RealInlineKinds[L]
  TLC ChainModelMC     -> for every input of the LangChainsMC universe (the same slice the real run used) and every
                          language: NormalForm(L, ApplyChain(RealChain[L], S)), AllRefsResolve, per-pass pre/post
                          conditions; one MODEL line per state (faults, summary of the ideal result)
  real records         -> a design fault is a VIOLATION only if the REAL chain run on the witness violates too;
                          every other difference between ideal and real result is MODEL-DRIFT (diagnostic)
  self-test            -> the reference chains with one pass removed / two passes swapped must be rejected by TLC

run_part(ctx, chains) -> dict(fails=[(signature, what, replay, key)], coverage={...}, tlc=[...])
"""
import json
import os
import re
import threading
import time

from vlib import core
from checks import langchains_common as lc

PASS_NAMES = {
    "AnonymousStructsToNamed", "NotRequiredFieldAsNullableType", "DisjunctionWithNullToOptional",
    "DisjunctionOfConstantsToEnum", "AnonymousEnumToExplicitType", "PrefixEnumValues", "FlattenDisjunctions",
    "DisjunctionOfAnonymousStructsToExplicit", "DisjunctionInferMapping", "UndiscriminatedDisjunctionToAny",
    "DisjunctionToType", "RemoveIntersections", "InlineObjectsWithTypes", "SanitizeEnumMemberNames",
    "RenameNumericEnumValues", "InferEntrypoint"}
LANGS = ["go", "java", "jsonschema", "openapi", "php", "python", "typescript"]
MAX_CHAIN = 16
KIND_OF_AST = {"scalar": "scalar", "array": "array", "map": "map", "disjunction": "disj", "struct": "struct", "enum": "enum",
               "ref": "ref", "intersection": "inter", "constant_ref": "constref", "composable_slot": "slot"}


def tla_str(s):
    if not re.fullmatch(r"[A-Za-z0-9_]+", s):
        raise core.Inconclusive("unexpected character in a name read from the code: %r" % s)
    return '"%s"' % s


def real_module(chains):
    """The TLA+ literal for the chains read from the code."""
    rows, kinds = [], []
    for lang in LANGS:
        names = [p["name"] for p in chains[lang]]
        rows.append("  %s |-> <<%s>>" % (lang, ", ".join(tla_str(n) for n in names)))
        ks = []
        for p in chains[lang]:
            if p["name"] == "InlineObjectsWithTypes":
                for k in p["args"].get("InlineTypes", []):
                    if k not in KIND_OF_AST:
                        raise core.Inconclusive("InlineObjectsWithTypes is configured with an unknown kind %r" % k)
                    ks.append(KIND_OF_AST[k])
        kinds.append("  %s |-> {%s}" % (lang, ", ".join(tla_str(k) for k in sorted(set(ks)))))
    return ("---------------------------- MODULE ChainModelReal ----------------------------\n"
            "(* generated from `worker chain-list` *)\n"
            "RealChain == [\n" + ",\n".join(rows) + "]\n"
            "RealInlineKinds == [\n" + ",\n".join(kinds) + "]\n"
            "===============================================================================\n")


def read_chains(ctx):
    if not ctx.worker:
        ctx.build_worker()
    chains = json.loads(ctx.run_worker(["chain-list"]))
    for lang in LANGS:
        if lang not in chains:
            raise core.Inconclusive("chain-list does not list language %s" % lang)
        names = [p["name"] for p in chains[lang]]
        unknown = [n for n in names if n not in PASS_NAMES]
        if unknown:
            raise core.Inconclusive("the %s chain contains passes the model does not describe: %s" % (lang, unknown))
        if len(names) > MAX_CHAIN:
            raise core.Inconclusive("the %s chain has %d passes (model unrolls %d)" % (lang, len(names), MAX_CHAIN))
    return chains


def reference_chains():
    """The chains of the committed ChainModelReal.tla (a known-good order): base of the self-test mutations."""
    txt = open(os.path.join(core.VERIF, "spec", "ChainModelReal.tla")).read()
    out = {}
    for lang in LANGS:
        m = re.search(r"\b%s \|-> <<([^>]*)>>" % lang, txt)
        out[lang] = [{"name": n, "args": {}} for n in re.findall(r'"(\w+)"', m.group(1))]
    for p in out["php"]:
        if p["name"] == "InlineObjectsWithTypes":
            p["args"] = {"InlineTypes": ["scalar", "array", "map", "disjunction"]}
    return out


def model_key(r):
    return "%s|%s|%s|%s" % (r["lang"], r["pos"], ">".join(r["shape"]), r["leaf"])


def shape_class(r):
    """The constructor directly around the leaf (or the position of a bare leaf): coarse and present in every universe."""
    return ("in:" + r["shape"][-1]) if r["shape"] else ("at:" + r["pos"])


def fault_clause(f):
    return f["clause"] if f["kind"] == "final" else "%s:%s:%s" % (f["kind"], f["pass"], f["clause"])


def _locked_sub(ctx):
    """ctx.sub is not re-entrant: serialise it while TLC runs of this part overlap."""
    lock = threading.Lock()
    orig = ctx.sub

    def sub(name):
        with lock:
            return orig(name)
    ctx.sub = sub
    return orig


def _confirm_real(ctx, witnesses):
    """Run the REAL chains on witness inputs that have no real record yet; returns key -> (err, violated clause set)."""
    case_file = os.path.join(ctx.scratch, "cm-witness-cases.txt")
    seen = {}
    with open(case_file, "w") as f:
        for w in witnesses:
            ck = "%s|%s|%s" % (w["pos"], ">".join(w["shape"]), w["leaf"])
            if ck in seen:
                continue
            seen[ck] = True
            obj = {"shape": w["shape"], "leaf": w["leaf"], "pos": w["pos"], "schemas": w["input"]}
            f.write('<<"CASE", ' + json.dumps(json.dumps(obj)) + ">>\n")
    trace = os.path.join(ctx.scratch, "cm-witness-trace.ndjson")
    ctx.run_worker(["c06-run", "-in", case_file, "-out", trace], timeout=600)
    lines = open(trace).read().splitlines()
    tr = ctx.run_tlc("LangChainsTrace", "LangChainsTrace.cfg", workers=1, timeout=600, files={"trace.ndjson": trace})
    out = {}
    for line in lines:
        rec = json.loads(line)
        out[lc.case_key(rec)] = (bool(rec["err"]), set())
    for fl in core.tagged_lines(tr["out"], "FAIL"):
        rec = json.loads(lines[fl["l"] - 1])
        out[lc.case_key(rec)] = (bool(rec["err"]), set(fl["clauses"]) | ({"AllRefsResolve"} if fl["dangling"] else set()))
    return out, tr


def run_part(ctx, chains_out=None):
    t0 = time.time()
    if chains_out is None:
        chains_out = lc.run_chains(ctx)
    chains = read_chains(ctx)
    consts = dict(chains_out["consts"])
    orig_sub = _locked_sub(ctx)
    results = {}
    errors = []

    def guarded(name, fn):
        def run():
            try:
                results[name] = fn()
            except BaseException as e:   # re-raised on the main thread
                errors.append(e)
        th = threading.Thread(target=run)
        th.start()
        return th

    # ---- main run: ideal passes, real order, the universe the real run used
    main_consts = dict(consts)
    main_consts["Strict"] = "FALSE"
    threads = [guarded("main", lambda: ctx.run_tlc("ChainModelMC", "ChainModelMC.cfg", workers=16, timeout=3000, constants=main_consts,
                                                   files={"ChainModelReal.tla": real_module(chains).encode()}))]
    # ---- self-test (binding/vacuity of the invariants): mutations of the reference order must be rejected
    ref = reference_chains()
    mut_a = {k: list(v) for k, v in ref.items()}
    mut_a["python"] = [p for p in mut_a["python"] if p["name"] != "DisjunctionWithNullToOptional"]
    mut_b = {k: list(v) for k, v in ref.items()}
    names_go = [p["name"] for p in mut_b["go"]]
    i, j = names_go.index("DisjunctionOfConstantsToEnum"), names_go.index("AnonymousEnumToExplicitType")
    mut_b["go"][i], mut_b["go"][j] = mut_b["go"][j], mut_b["go"][i]
    small = {"MaxDepth": 1, "Slice": 0, "NSlices": 1}
    threads.append(guarded("selfA", lambda: ctx.run_tlc("ChainModelMC", "ChainModelMC.cfg", workers=2, timeout=600, allow_violation=True,
                                                        constants=dict(small, Strict="TRUE"),
                                                        files={"ChainModelReal.tla": real_module(mut_a).encode()})))
    threads.append(guarded("selfB", lambda: ctx.run_tlc("ChainModelMC", "ChainModelMC.cfg", workers=2, timeout=600,
                                                        constants=dict(small, Strict="FALSE"),
                                                        files={"ChainModelReal.tla": real_module(mut_b).encode()})))
    # ---- summary of the real records (object kinds), while TLC runs
    summ_path = os.path.join(ctx.scratch, "c06-summary.ndjson")
    summ_stats = json.loads(ctx.run_worker(["c06-summary", "-in", chains_out["trace"], "-out", summ_path], timeout=1200))
    for th in threads:
        th.join()
    ctx.sub = orig_sub
    if errors:
        raise errors[0]
    main, self_a, self_b = results["main"], results["selfA"], results["selfB"]

    # ---- self-test verdicts
    if not self_a["violated"]:
        raise core.Inconclusive("self-test: TLC accepted the python chain without DisjunctionWithNullToOptional")
    b_faults = {}
    for r in core.tagged_lines(self_b["out"], "MODEL"):
        for f in r["faults"]:
            b_faults.setdefault(r["lang"], set()).add(fault_clause(f))
    if "EnumsNamed" not in b_faults.get("go", set()) or set(b_faults) != {"go"}:
        raise core.Inconclusive("self-test: swapping DisjunctionOfConstantsToEnum and AnonymousEnumToExplicitType in the go chain gave %s" % b_faults)

    # ---- model lines
    model = {}
    faulty = []
    changing = {}
    alone = {n: 0 for n in PASS_NAMES}
    for r in core.tagged_lines(main["out"], "MODEL"):
        k = model_key(r)
        model[k] = (sorted(r["viol"]), r["kinds"])
        if r["faults"]:
            faulty.append(r)
        for p in r["changing"]:
            changing[(r["lang"], p)] = changing.get((r["lang"], p), 0) + 1
        for p in r["alone"]:
            alone[p] += 1
    shards = sum(1 for line in open(main["out"], errors="replace") if line.startswith('<<"SHARD", '))
    expect_states = main["distinct"] - 1 - shards     # one initial state, one state per (language, leaf) shard, then the cases
    if len(model) != expect_states or not model:
        raise core.Inconclusive("ChainModelMC printed %d summaries for %d states" % (len(model), expect_states))
    never = sorted(n for n, v in alone.items() if v == 0)
    if never:
        raise core.Inconclusive("vacuous: the model of %s changes no input of the universe" % never)
    noop_in_chain = sorted("%s/%s" % (lang, p["name"]) for lang in LANGS for p in chains[lang] if changing.get((lang, p["name"]), 0) == 0)

    # ---- the real records: violated clauses (TLC LangChainsTrace) and kinds (worker)
    real_viol = {}
    for f in chains_out["fails"]:
        if f["rec"].get("source") == "repository-tests" or str(f["rec"].get("lang", "")).startswith("shared:"):
            continue       # (shared:<lang> records: the chains run in sequence on shared schemas; they have no model counterpart)
        real_viol[lc.case_key(f["rec"])] = set(f["clauses"]) | ({"AllRefsResolve"} if f["dangling"] else set())
    real = {}
    shared_skipped = 0
    with open(summ_path) as f:
        for line in f:
            r = json.loads(line)
            if str(r.get("lang", "")).startswith("shared:"):
                shared_skipped += 1
                continue
            real[model_key(r)] = (bool(r["err"]), r["kinds"])
    if summ_stats["records"] - shared_skipped != len(real):
        raise core.Inconclusive("real summary has %d records for %d keys" % (summ_stats["records"], len(real)))

    # ---- design faults: confirmed by the real run of the witness => VIOLATION, otherwise drift
    tlc = [main, self_a, self_b]
    need = [r for r in faulty if model_key(r) not in real]
    extra = {}
    if need:
        extra, tr = _confirm_real(ctx, need)
        tlc.append(tr)
    fails = []
    design = {}
    unconfirmed = {}
    groups = {}
    for r in faulty:
        k = model_key(r)
        if k in real:
            err, viol = real[k][0], real_viol.get(k, set())
        elif k in extra:
            err, viol = extra[k]
        else:
            raise core.Inconclusive("no real run for the TLC witness %s" % k)
        for f in r["faults"]:
            # only the final state of the real chain is observable: a fault is confirmed when the real run of the
            # witness violates the same clause; faults of intermediate states (pre/post/destroyed/refs) are design-only
            confirmed = f["kind"] == "final" and f["clause"] in viol
            groups.setdefault((r["lang"], fault_clause(f)), []).append((r, f, confirmed))
    for (lang, cl), items in sorted(groups.items()):
        design["%s/%s" % (lang, cl)] = len(items)
        conf = [(r, f) for r, f, c in items if c]
        order = lambda rf: (len(rf[0]["shape"]), rf[0]["shape"], rf[0]["leaf"], rf[0]["pos"])
        chain_names = [p["name"] for p in chains[lang]]
        if conf:
            r, f = min(conf, key=order)     # the smallest confirmed witness names the class (depth < 3 is in every universe)
            sig = "C06/chain-order:%s/%s/%s" % (lang, cl, shape_class(r))
            what = ("with IDEAL passes in the order of %s's CompilerPasses() clause %s fails for %d input(s), and the REAL chain run on "
                    "%d of them violates it too; chain %s; smallest confirmed witness: shape %s leaf %s at %s" % (
                        lang, f["clause"], len(items), len(conf), chain_names, r["shape"], r["leaf"], r["pos"]))
            fails.append((sig, what, {"lang": lang, "shape": r["shape"], "leaf": r["leaf"], "pos": r["pos"], "fault": f,
                                      "chain": chain_names, "schemas": r["input"]}, model_key(r)))
        else:
            r, f = min([(r, f) for r, f, c in items], key=order)
            unconfirmed["%s/%s" % (lang, cl)] = len(items)
            if f["kind"] == "final":
                why = "the real chain run on every witness satisfies the clause: model drift, not a violation"
            else:
                why = "fault of an intermediate state of the ideal chain: diagnostic, only final-state clauses are decided on the real code"
            ctx.notes.append("DESIGN-FAULT ideal passes in the order of %s's CompilerPasses(): %s %s %s on %d input(s), e.g. shape %s leaf %s at %s (%s)" % (
                lang, f["kind"], f["pass"], f["clause"], len(items), r["shape"], r["leaf"], r["pos"], why))

    # ---- MODEL-DRIFT (diagnostic): ideal result vs real result of the same input
    classes = {}
    examples = {}
    compared = differing = 0

    def note(cls, key):
        classes[cls] = classes.get(cls, 0) + 1
        examples.setdefault(cls, key)
    for k, (err, kinds) in real.items():
        if k not in model:
            continue
        compared += 1
        lang = k.split("|", 1)[0]
        mviol, mkinds = model[k]
        diff = False
        if err:
            note("%s/real-chain-error" % lang, k)
            differing += 1
            continue
        rv = real_viol.get(k, set()) - {"AllRefsResolve"}
        for c in sorted(rv - set(mviol)):
            note("%s/clause:real-only:%s" % (lang, c), k)
            diff = True
        for c in sorted(set(mviol) - rv):
            note("%s/clause:model-only:%s" % (lang, c), k)
            diff = True
        delta = []
        for kd in sorted(set(mkinds) | set(kinds)):
            d = kinds.get(kd, 0) - mkinds.get(kd, 0)
            if d:
                delta.append("%s%+d" % (kd, d))
        if delta:
            note("%s/kinds(real-model):%s" % (lang, ",".join(delta)), k)
            diff = True
        differing += diff
    if compared != len(real):
        raise core.Inconclusive("only %d of %d real records have a model counterpart" % (compared, len(real)))
    top = sorted(classes.items(), key=lambda kv: (-kv[1], kv[0]))
    drift = {"records_compared": compared, "records_differing": differing, "classes": len(classes),
             "by_class": {k: v for k, v in top[:40]}, "example_per_class": {k: examples[k] for k, _ in top[:40]},
             "design_faults_not_confirmed_by_real_run": unconfirmed}
    cov = {
        "real_chain": {lang: [p["name"] for p in chains[lang]] for lang in LANGS},
        "inline_kinds": {lang: p["args"].get("InlineTypes", []) for lang in LANGS for p in chains[lang] if p["name"] == "InlineObjectsWithTypes"},
        "model_states": len(model), "tlc_distinct": main["distinct"], "tlc_wall_s": round(main["wall"], 1),
        "design_faults": design, "real_order_reaches_normal_form": not design,
        "pass_changes_alone": alone, "pass_changes_in_chain": {"%s/%s" % k: v for k, v in sorted(changing.items())},
        "noop_in_chain": noop_in_chain,
        "self_test": {"python_without_DisjunctionWithNullToOptional": "rejected (invariant violated)",
                      "go_swap_DisjunctionOfConstantsToEnum_AnonymousEnumToExplicitType": sorted(b_faults["go"])},
        "model_drift": drift,
        "witnesses_run_on_real_code": len(extra),
        "wall_s": round(time.time() - t0, 1),
    }
    return {"fails": fails, "coverage": cov, "tlc": tlc}
