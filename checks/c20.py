"""C20 - configuration files are decoded strictly and match the published config schemas.

spec: ConfigLang.tla (grammars, Strict, SameLanguage, document generator), ConfigLangMC.tla (model: the two
      grammars read from JSON extracted at check time), ConfigLangTrace.tla (validation of observed verdicts)
real code: codegen.PipelineFromFile, yaml.CompilerLoader.Load, yaml.VeneersLoader.RewriterFrom on generated YAML;
      reflection over codegen.Pipeline / yaml.Compiler / yaml.Veneers (KLoader); /repo/schemas/*.json (KPublished)
      validated with python jsonschema (reference validator, one subprocess).

Every verdict comes from an observed pair (real loader verdict, reference-validator verdict) on a concrete
document; the static comparison KPublished = KLoader (DIFF lines) only tells which documents must disagree.
"""
import json
import os
import subprocess
import time

from vlib import core
from checks import configlang_common as cl

UNKNOWN = "zz_unknown"
# carrier "seconddoc": the unknown key (or a rule entry without action) in the 2nd, 3rd and 4th YAML document of the file, the
# documents in between being empty in each of the four spellings (a loader that gives up at the first empty document, or looks
# at one further document only, never reaches it)
FURTHER_DOCS = {"MaxGap": 2, "EmptyDocs": '{"bare", "comment", "null", "end"}', "DocLoads": '{"key", "rule"}'}
FILES = ["pipeline", "compiler", "veneers"]


# --------------------------------------------------------------------------- helpers
def validate_published(ctx, repo, records_path, out_path):
    """python3-vt subprocess: every document against the published schema of its file kind."""
    script = os.path.join(core.VERIF, "checks", "c20_validate.py")
    inp = os.path.join(ctx.scratch, "docs-%d.ndjson" % len(os.listdir(ctx.scratch)))
    with open(records_path) as f, open(inp, "w") as o:
        for line in f:
            r = json.loads(line)
            o.write(json.dumps({"id": r["id"], "file": r["file"], "doc": r["doc"], "extra": r.get("extra") or []}) + "\n")
    t0 = time.time()
    with open(inp) as fi, open(out_path, "w") as fo:
        p = subprocess.run(["python3-vt", script, os.path.join(repo, "schemas")], stdin=fi, stdout=fo,
                           stderr=subprocess.PIPE, timeout=3000)
    if p.returncode != 0:
        core.log(p.stderr.decode(errors="replace")[-3000:])
        raise core.Inconclusive("reference validator (python jsonschema) failed on the published schemas")
    res = {}
    for line in open(out_path):
        v = json.loads(line)
        res[v["id"]] = v
    os.remove(inp)
    core.log("reference validator: %d documents in %.1fs" % (len(res), time.time() - t0))
    return res


def trace_record(r, pv):
    c = r.get("case")
    return {
        "file": r["file"],
        "nodes": [{"at": n["at"], "keys": n["keys"], "nulls": n.get("nulls") or []} for n in r["nodes"]],
        "loader": "accept" if r["loader"]["accept"] else "reject",
        "lclass": r["loader"]["class"],
        "published": "accept" if pv["accept"] else "reject",
        "pclass": pv["class"],
        "expl": ("yes" if c["expl"] else "no") if c else "none",
        "expp": ("yes" if c["expp"] else "no") if c else "none",
        "routes": [{"name": rt["name"], "v": "accept" if rt["accept"] else "reject", "judged": rt["class"] in ("ok", "key", "empty", "document")}
                   for rt in r.get("routes") or []],
    }


def walk(g, f, at):
    """python twin of ConfigLang!Walk (only used to NAME the offending keys in signatures)"""
    nid = g[f]["root"]
    for seg in at:
        if nid in ("none", "free"):
            return nid
        n = g[f]["nodes"][nid]
        if n["kind"] == "list":
            nid = n["elem"] if seg == "[]" else "none"
        elif n["kind"] == "map":
            c = [k["c"] for k in n["keys"] if k["k"] == seg]
            nid = c[0] if c else ("free" if n["open"] else "none")
        elif n["kind"] == "free":
            nid = "free"
        else:
            nid = "none"
    return nid


def _declares(g, f, nid, k):
    gn = g[f]["nodes"].get(nid)
    return bool(gn) and (gn["kind"] == "free" or (gn["kind"] == "map" and (gn["open"] or k in {x["k"] for x in gn["keys"]})))


def strict_witness(kl, f, at, nid):
    """node kind that let an unknown key through ("second-document": a further YAML document of the file is never looked at;
    "later-document": a document that comes after an empty document is never looked at, the one right after the configuration is);
    below a node decoded by a custom UnmarshalYAML it is that unmarshaler (a nested decoder is not strict: every node below
    it is lax because of it)"""
    if nid in ("second-document", "later-document"):
        return nid
    for i in range(len(at) + 1):
        n = kl[f]["nodes"].get(walk(kl, f, at[:i]))
        if n and n.get("custom"):
            return "custom-unmarshaler:" + (n.get("customby") or "?")
    return nid


def further_document(doc):
    """witness for what a further YAML document of the file holds: the document right after the configuration, or one that
    stands behind at least one empty document (a loader may look at the former and still never reach the latter)"""
    return "second-document" if doc == 2 else "later-document"


def illegal_keys(g, f, nodes):
    """[(at, key, node id)] for every key of the file that grammar g does not declare at its node (node id "second-document" /
    "later-document" for the mapping nodes of a further YAML document of the file)"""
    out = []
    for n in nodes:
        if n.get("doc", 1) > 1:
            out += [(n["at"], k, further_document(n["doc"])) for k in n["keys"]
                    for nid2 in [walk(g, f, n["at"])] if nid2 != "free" and not _declares(g, f, nid2, k)]
            continue
        nid = walk(g, f, n["at"])
        if nid == "free":
            continue
        gn = g[f]["nodes"].get(nid)
        if gn is None:
            out += [(n["at"], k, "none") for k in n["keys"]]
        elif gn["kind"] == "map" and not gn["open"]:
            known = {k["k"] for k in gn["keys"]}
            out += [(n["at"], k, nid) for k in n["keys"] if k not in known]
        elif gn["kind"] != "free" and gn["kind"] != "map":
            out += [(n["at"], k, nid) for k in n["keys"]]
    return out


RULE_LISTS = {"compiler": ["passes"], "veneers": ["builders", "options"]}


def empty_rule_entries(r):
    """[(rule list, "" | ":null")] for the entries of rule lists that have no key at all"""
    out = []
    for i, doc in enumerate([r["doc"]] + list(r.get("extra") or []), start=1):
        if not isinstance(doc, dict):
            continue
        where = "" if i == 1 else further_document(i) + ":"
        for lst in RULE_LISTS.get(r["file"], []):
            for e in doc.get(lst) or []:
                if e is None:
                    out.append((where + lst + "[]", ":null"))
                elif e == {}:
                    out.append((where + lst + "[]", ""))
    return out


def loader_sigs(r, v, facts, kl, suffix=""):
    """Strict / EmptyRule signatures for one loader verdict v (the primary loader or one of the routes) that is not the one
    Strict demands"""
    f = r["file"]
    acc, okl, rules = v["accept"], facts["keysok_loader"], facts["rulesok"]
    who = "the loader" if not suffix else "the route %s" % suffix[1:]
    sigs = []
    if acc and not okl:
        for at, k, nid in illegal_keys(kl, f, r["nodes"]):
            sigs.append(("C20/%s/Strict/%s%s" % (f, strict_witness(kl, f, at, nid), suffix),
                         "%s accepted a document with a key that is not part of the configuration language" % who))
    elif acc and not rules:
        for lst, form in empty_rule_entries(r) or [("?", "")]:
            sigs.append(("C20/%s/EmptyRule/%s%s%s" % (f, lst, form, suffix),
                         "%s accepted a rule entry without any recognised action%s" % (who, " (a null entry is silently dropped)" if form else "")))
    elif not acc and okl and rules:
        if v["class"] == "empty":
            sigs.append(("C20/%s/EmptyRule/spurious%s" % (f, suffix), "%s reported an empty rule for an entry that has a recognised action" % who))
        else:
            sigs.append(("C20/%s/Strict/rejects-declared:%s.%s%s" % (f, v["type"] or "?", v["key"] or "?", suffix),
                         "%s rejected a key the loader's own structs declare" % who))
    return sigs


def same_sigs(r, pv, facts, kl, kp):
    """SameLanguage signatures: the loader behaved as its own grammar says, the published schema differs.
    witness = <node kind>.<key>: one signature per drifted key however many key paths reach its (recursive) type"""
    f = r["file"]
    lacc, pacc = r["loader"]["accept"], pv["accept"]
    okp = facts["keysok_published"]
    sigs = []
    if pacc and not okp:
        for at, k, nid in illegal_keys(kp, f, r["nodes"]):
            sigs.append(("C20/%s/SameLanguage/published-open:%s" % (f, walk(kp, f, at)), "the published schema accepts an undeclared key at %s" % cl.path_str(at)))
    elif lacc and not pacc:
        for k in pv["keys"]:
            sigs.append(("C20/%s/SameLanguage/%s.%s" % (f, walk(kl, f, k["at"]), k["key"]),
                         "the loader accepts %s, the published schema rejects it" % cl.path_str(k["at"], k["key"])))
        if pv["class"] == "structure":
            # no key is unknown to the schema: it rejects the COMBINATION of keys the loader accepts (minProperties, maxProperties,
            # required, oneOf, ...): witness = keyword and the definition it sits in
            for kw in pv.get("keywords") or ["?"]:
                sigs.append(("C20/%s/SameLanguage/published-rejects:%s" % (f, kw),
                             "the loader accepts a document the published schema rejects because of %s" % kw))
    elif pacc and not lacc and r["loader"]["class"] == "key":
        for at, k, nid in illegal_keys(kl, f, r["nodes"]):
            pid = walk(kp, f, at)
            pn = kp[f]["nodes"].get(pid)
            if pid == "free" or (pn and (pn["kind"] == "free" or k not in {x["k"] for x in pn["keys"]})):
                # the published schema does not declare the key either: it is open (or free-form) where the loader is closed
                sigs.append(("C20/%s/SameLanguage/published-open:%s" % (f, pid),
                             "the published schema accepts undeclared keys at %s, the loader rejects them" % cl.path_str(at)))
        if not sigs:
            sigs.append(("C20/%s/SameLanguage/%s" % (f, _lkey_kind(r)), "the published schema accepts %s, the loader rejects it" % _lkey_path(r)))
    return sigs or [("C20/%s/SameLanguage/verdicts-differ" % f, "loader and published schema disagree")]


def classify(r, pv, facts, kl, kp):
    """signatures C20/<file>/<clause>/<witness>[@route] for one failing record.

    Strict       a loader accepted a key its own grammar does not declare (witness: kind of the node that let it through;
                 collapsed to any-node by the caller when the root lets it through too) / rejected a declared one
    EmptyRule    a loader accepted a rule entry without action (witness: the rule list, `:null` for a null entry)
    SameLanguage loader and published schema disagree about a key one of them declares (witness: the key), or about a
                 combination of declared keys (witness: the schema keyword and definition)
    @route       the verdict is the one of a file-name based entry point (PassesFrom, a pipeline naming the file)
    """
    f = r["file"]
    violated = set(facts["violated"])
    lacc, pacc = r["loader"]["accept"], pv["accept"]
    okl, okp, rules = facts["keysok_loader"], facts["keysok_published"], facts["rulesok"]
    sigs = []
    if "LoaderStrict" in violated:
        if not lacc and okl and rules and r["loader"]["class"] == "key" and okp and pacc:
            sigs.append(("C20/%s/SameLanguage/%s" % (f, _lkey_kind(r)), "the published schema accepts %s, the loader rejects it" % _lkey_path(r)))
        else:
            sigs += loader_sigs(r, r["loader"], facts, kl)
        if lacc and not okl and pacc and not okp:
            for at, k, nid in illegal_keys(kp, f, r["nodes"]):
                sigs.append(("C20/%s/SameLanguage/published-open:%s" % (f, nid), "the published schema accepts an undeclared key"))
    elif violated & {"SameVerdict", "PublishedKeys"}:
        sigs += same_sigs(r, pv, facts, kl, kp)
    if "RouteStrict" in violated:
        for rt in r["routes"]:
            if rt["class"] in ("ok", "key", "empty", "document") and rt["accept"] != (okl and rules):
                if "LoaderStrict" in violated and rt["accept"] == lacc:
                    continue   # the route only inherits the primary loader's defect, reported above
                sigs += loader_sigs(r, rt, facts, kl, "@" + rt["name"])
    return sigs


def _is_rule(f, at):
    return (f, tuple(at)) in {("compiler", ("passes", "[]")), ("veneers", ("builders", "[]")), ("veneers", ("options", "[]"))}


def _lkey_kind(r):
    return "%s.%s" % (r["loader"]["type"] or "?", r["loader"]["key"] or "?")


def _lkey_path(r):
    key, typ = r["loader"]["key"], r["loader"]["type"]
    cands = [n for n in r["nodes"] if key in n["keys"]]
    exact = [n for n in cands if n["ldr"] == typ]
    for n in exact or cands:
        return cl.path_str(n["at"], key)
    return "%s.%s" % (typ, key)


# ------------------------------------------------------------------------------ run
class Run:
    def __init__(self, ctx):
        self.ctx = ctx
        self.repo = core.REPO
        self.records = 0
        self.validated = 0
        self.counters = {}       # file -> action -> count
        self.kinds = {}          # file -> node kind -> {"inject": n, "valid": n}
        self.unjudged = []
        self.samples = []
        self.inconclusive = []
        self.sampled = set()
        self.seen = set()        # hashes of (file, YAML text): distinct documents over all plans
        self.nontrivial = 0
        self.routes = {}         # file -> route -> {accept, reject, not_judged}
        self.route_unjudged = []
        self.partial_drift = 0
        self.pending = []
        self.clean_reject = None   # a record the trace specification accepted: material for the binding self-test
        self.tlc = []

    def count(self, f, action, n=1):
        self.counters.setdefault(f, {}).setdefault(action, 0)
        self.counters[f][action] += n

    def count_kind(self, f, kind, what):
        d = self.kinds.setdefault(f, {}).setdefault(kind, {"valid": 0, "inject": 0})
        d[what] += 1

    def grammars(self):
        ctx = self.ctx
        self.kp = cl.extract_published(self.repo)
        out = ctx.run_worker(["c20-grammar"])
        self.kl = json.loads(out)
        for f in FILES:
            for nid, n in self.kl[f]["nodes"].items():
                if n["t"].startswith("unsupported") or n["t"].startswith("dict:structured"):
                    # not a reason to give up: the node is taken as the extractor approximated it, the observed verdicts decide
                    ctx.notes.append("loader node %s has a type the key grammar does not model (%s): approximated" % (nid, n["t"]))
                if n["custom"]:
                    ctx.notes.append("loader node %s has a custom UnmarshalYAML: its keys are taken from the struct fields and "
                                     "checked against the decoder's observed behaviour" % nid)
        for f in FILES:
            if self.kp[f]["unmodelled"]:
                ctx.notes.append("schemas/%s uses keywords the key grammar cannot express (%s): KPublished is an approximation there, "
                                 "documents are judged loader-vs-validator only" % (cl.FILES[f], "; ".join(self.kp[f]["unmodelled"][:4])))
        self.gdir = ctx.sub("grammars")
        self.kp_path = os.path.join(self.gdir, "kpublished.json")
        self.kl_path = os.path.join(self.gdir, "kloader.json")
        json.dump(self.kp, open(self.kp_path, "w"))
        json.dump(self.kl, open(self.kl_path, "w"))

    def gfiles(self):
        # the two grammars as a generated TLA+ module (TLC evaluates the definitions once)
        return {"ConfigLangData.tla": cl.data_module(self.kp, self.kl)}

    def generate(self, name, consts):
        """one exhaustive TLC run of the generator; returns (tlc result, DIFF list)"""
        c = {"MaxVisits": 1, "MaxInject": 1, "MaxPos": 0, "MaxSteps": 99, "Slice": 0, "NSlices": 1, "Styles": '{"fresh"}',
             "Forms": '{}', "Carriers": '{"plain"}', "MaxGap": 0, "EmptyDocs": '{"bare"}', "DocLoads": '{"key"}'}
        c.update(consts)
        r = self.ctx.run_tlc("ConfigLangMC", "ConfigLangMC.cfg", workers=8, timeout=2400, files=self.gfiles(), constants=c)
        diffs = list(core.tagged_lines(r["out"], "DIFF"))
        self.tlc.append(r)
        return r, diffs

    def judge(self, recs_path, label, expect_cases=None):
        """reference validator + trace validation + classification for a file of worker records"""
        ctx = self.ctx
        pub = validate_published(ctx, self.repo, recs_path, os.path.join(ctx.scratch, "pub-%s.ndjson" % label))
        trace = os.path.join(ctx.scratch, "trace-%s.ndjson" % label)
        n = 0
        with open(recs_path) as f, open(trace, "w") as t:
            for line in f:
                r = json.loads(line)
                pv = pub.get(r["id"])
                if pv is None:
                    raise core.Inconclusive("reference validator returned no verdict for record %d" % r["id"])
                t.write(json.dumps(trace_record(r, pv)) + "\n")
                n += 1
        if expect_cases is not None and n != expect_cases:
            raise core.Inconclusive("worker rendered %d of %d TLC cases" % (n, expect_cases))
        files = self.gfiles()
        files["trace.ndjson"] = trace
        tr = ctx.run_tlc("ConfigLangTrace", "ConfigLangTrace.cfg", workers=1, timeout=2400, files=files)
        self.tlc.append(tr)
        consumed = [int(x) for x in _ints(tr["out"], "CONSUMED")]
        if not consumed or consumed[-1] != n:
            raise core.Inconclusive("ConfigLangTrace consumed %s of %d records" % (consumed, n))
        fails = {f["l"]: f for f in core.tagged_lines(tr["out"], "FAIL")}
        os.remove(tr["out"])
        os.remove(os.path.join(tr["dir"], "trace.ndjson"))
        for i, line in enumerate(open(recs_path), start=1):   # second pass, streamed: record i <-> trace record i
            r = json.loads(line)
            pv = pub[r["id"]]
            self.records += 1
            self.account(r, pv)
            facts = fails.get(i)
            lj = r["loader"]["class"] in ("ok", "key", "empty", "document")
            pj = pv["class"] in ("ok", "key", "structure")
            for rt in r.get("routes") or []:
                d = self.routes.setdefault(r["file"], {}).setdefault(rt["name"], {"accept": 0, "reject": 0, "not_judged": 0})
                d["not_judged" if rt["class"] not in ("ok", "key", "empty", "document") else "accept" if rt["accept"] else "reject"] += 1
                if rt["class"] not in ("ok", "key", "empty", "document") and len(self.route_unjudged) < 5:
                    self.route_unjudged.append({"route": rt["name"], "err": rt["err"][:300], "yaml": r["yaml"][:300]})
            if not lj or not pj:
                self.unjudged.append({"id": r["id"], "file": r["file"], "loader": r["loader"], "published": pv,
                                      "yaml": r["yaml"],
                                      # null / empty VALUES are value-level by construction: never a reason to stop
                                      "expected_to_load": bool(r.get("case") and r["case"]["expl"] and r["case"]["form"] == "map")})
            if r.get("stale"):
                self.inconclusive.append("value tables name Go fields that no longer exist: %s" % sorted(set(r["stale"])))
            if not facts:
                if lj and pj:
                    self.validated += 1
                    if self.clean_reject is None and r["loader"]["class"] == "key" and not pv["accept"]:
                        self.clean_reject = trace_record(r, pv)
                continue
            if self.kp[r["file"]].get("unmodelled") and "PublishedKeys" in facts["violated"]:
                # KPublished is only an approximation of this schema (keywords the grammar cannot express): its own verdict is
                # not trusted (soundness rule 4); the observed loader-vs-validator comparison (SameVerdict) still is
                facts["violated"] = [v for v in facts["violated"] if v != "PublishedKeys"]
                self.partial_drift += 1
                if not facts["violated"]:
                    continue
            if "GeneratorAgrees" in facts["violated"]:
                self.inconclusive.append("generator and full-tree verdicts differ for case %s: %s" % (json.dumps(r.get("case"))[:300], r["yaml"][:300]))
            sigs = classify(r, pv, facts, self.kl, self.kp)
            replay = {"file": r["file"], "yaml": r["yaml"], "doc": r["doc"], "extra": r.get("extra") or [], "case": r.get("case"), "origin": r.get("origin"),
                      "loader": r["loader"], "routes": r.get("routes") or [], "published": pv, "violated": sorted(facts["violated"])}
            for sig, what in dict(sigs).items():
                self.pending.append((sig, "%s: loader=%s (%s) published=%s (%s) on\n%s" % (
                    what, "accept" if r["loader"]["accept"] else "reject", r["loader"]["err"][:160],
                    "accept" if pv["accept"] else "reject", pv["msg"][:160], r["yaml"][:400]), replay))

    def report(self):
        """Strict failures of a whole decoder (the root node lets unknown keys through as well) are one defect, not one per
        node kind: collapse them to <file>/Strict/any-node."""
        def split(sig):
            parts = sig.split("/", 3)
            witness, _, route = parts[3].partition("@")
            return parts[1], parts[2], witness, ("@" + route if route else "")
        lax = {(f, route) for f, clause, witness, route in map(split, (p[0] for p in self.pending))
               if clause == "Strict" and witness == self.kl[f]["root"]}
        for sig, what, replay in self.pending:
            f, clause, witness, route = split(sig)
            if clause == "Strict" and (f, route) in lax and not witness.startswith("rejects-declared"):
                sig = "C20/%s/Strict/any-node%s" % (f, route)
            self.ctx.fail(sig, what, replay)
        self.pending = []

    def account(self, r, pv):
        f = r["file"]
        c = r.get("case")
        h = hash((f, r["yaml"]))
        if h not in self.seen:
            self.seen.add(h)
            # trivial: a document made of the root node (and value companions) only, without any fault
            if c is None or c["inj"] or c["emptyrule"] or len(c["steps"]) > 1 or c["leaf"]["k"]:
                self.nontrivial += 1
        if c is None:
            self.count(f, "real-injected" if r["inj"] else "real-valid")
            return
        if c["carrier"] != "plain":
            self.count(f, "carrier-" + c["carrier"])
        if c["carrier"] == "seconddoc":
            t = c["tail"]
            self.count(f, "further-document-%d%s" % (t["gap"] + 2, "-empty-rule" if t["load"] else ""))
            if t["gap"]:
                self.count(f, "empty-document-" + t["empty"])
            if r["loader"]["class"] not in ("ok", "key", "empty", "document"):
                # the file must be a well-formed YAML stream whose only fault is what the further document holds
                self.inconclusive.append("a multi-document file was rejected for a reason that is not about its documents or keys: %s\n%s"
                                         % (r["loader"]["err"][:200], r["yaml"][:300]))
        if c["form"] != "map" and not c["emptyrule"]:
            self.count(f, "value-%s%s" % (c["form"], "" if c["expl"] else "-leaves-rule-without-action"))
        if c["emptyrule"] and not c["inj"]:
            self.count(f, "empty-rule" if c["form"] == "map" else "empty-rule-null")
            if c["npos"] > 1:
                self.count(f, "empty-rule%s-at-%d-of-%d" % ("" if c["form"] == "map" else "-null", c["pos"], c["npos"]))
            self.count_kind(f, c["steps"][-1]["ldr"], "valid")
        elif c["inj"]:
            free = all((self.kl[f]["nodes"].get(i["ldr"]) or {"kind": "free"})["kind"] == "free" for i in r["inj"])
            self.count(f, "inject-free-form" if free else ("inject-%d" % len(c["inj"])))
            if not free and c["style"] != "fresh":
                self.count(f, "inject-spelling-" + c["style"])
            for i in r["inj"]:
                self.count_kind(f, i["ldr"] or "free-form", "inject")
        else:
            self.count(f, "valid-key-path" if c["leaf"]["why"] not in ("only-published", "only-loader") else "drift-key-path")
            self.count_kind(f, c["steps"][-1]["ldr"], "valid")
        if c["npos"] > 1 and len(c["steps"]) > 1 and _is_rule(f, c["steps"][1]["at"]):
            self.count(f, "rule-position-%d" % c["pos"])
        cat = ("empty-rule" if c["emptyrule"] and not c["inj"] else "injected" if c["inj"] else
               "valid" if len(c["steps"]) >= 5 else None)
        if cat and cat not in self.sampled:
            self.sampled.add(cat)
            self.samples.append({"kind": cat, "file": f, "key_path": cl.path_str(c["steps"][-1]["at"], c["leaf"]["k"] or None),
                                 "injected_at": [cl.path_str(i["at"], i["key"]) for i in r["inj"]], "yaml": r["yaml"],
                                 "spec_says_loader_accepts": c["expl"], "loader": r["loader"]["accept"], "loader_error": r["loader"]["err"][:200],
                                 "published_schema_accepts": pv["accept"]})


def _ints(path, tag):
    import re
    out = []
    pat = re.compile(r'^<<"%s", (\d+)>>' % tag)
    with open(path, errors="replace") as f:
        for line in f:
            m = pat.match(line)
            if m:
                out.append(int(m.group(1)))
    return out


def replay(ctx):
    """re-run one recorded document through the real loader and the reference validator"""
    rp = json.load(open(ctx.replay))
    doc = rp["replay"]
    run = Run(ctx)
    ctx.build_worker()
    run.grammars()
    rec = os.path.join(ctx.scratch, "replay.ndjson")
    src = os.path.join(ctx.scratch, "replay-in.json")
    json.dump({"file": doc["file"], "doc": doc["doc"], "extra": doc.get("extra") or [], "text": doc.get("yaml") or ""}, open(src, "w"))
    ctx.run_worker(env={"TMPDIR": ctx.scratch}, args=["c20-doc", "-in", src, "-kloader", run.kl_path, "-kpublished", run.kp_path], stdout_path=rec)
    run.judge(rec, "replay")
    run.report()
    return ctx.finish("model_checking", {"evaluations": 1, "distinct_nontrivial": 1}, [])


def run(ctx):
    if ctx.replay:
        return replay(ctx)
    quick = ctx.quick()
    run_ = Run(ctx)
    ctx.build_worker()
    run_.grammars()

    # (A) TLC enumerates the documents; (B) the worker pushes each through the real loaders
    if quick:
        plans = [("base", {"MaxVisits": 1, "Styles": '{"fresh", "case", "midcase", "param"}', "Forms": '{"null", "empty"}',
                           "Carriers": '{"plain", "merge", "bom", "seconddoc"}', **FURTHER_DOCS}),
                 # an EMPTY rule first, in the middle and last among valid rules, in every rule list (a conversion loop that
                 # lets a later valid rule wipe the error of an earlier empty one only shows when the empty rule is not last)
                 ("empty-rule-positions", {"MaxVisits": 1, "MaxPos": 2, "MaxSteps": 2, "Forms": '{"null"}', "_siblings": True}),
                 ("deep-compiler", {"MaxVisits": 2, "Files": '{"compiler"}'}),
                 # members of the rule unions are cut into 12 classes by position; only classes 5, 9, 10, 11 contain members
                 # with recursive types (properties, add_option, add_factory, add_assignment): the seed picks one of them, the
                 # other members gain nothing from a second unrolling and are complete in "base"
                 ("deep-veneers-slice", {"MaxVisits": 2, "Files": '{"veneers"}', "NSlices": 12, "Slice": [5, 9, 10, 11][ctx.seed % 4],
                                         "MaxSteps": 12})]   # walks of <= 12 mapping nodes (the longest has 15; thorough has no cap)
    else:
        plans = [("deep", {"MaxVisits": 2}),
                 ("deeper-compiler", {"MaxVisits": 3, "Files": '{"compiler"}'}),
                 ("two-injections", {"MaxVisits": 1, "MaxInject": 2, "Styles": '{"fresh", "case", "midcase", "param"}',
                                     "Forms": '{"null", "empty"}', "Carriers": '{"plain", "merge", "bom", "seconddoc"}', **FURTHER_DOCS}),
                 ("positions", {"MaxVisits": 1, "MaxPos": 2, "Forms": '{"null"}', "_siblings": True})]
    all_diffs = {}
    ncases = 0
    for name, consts in plans:
        r, diffs = run_.generate(name, {k: v for k, v in consts.items() if not k.startswith("_")})
        for d in diffs:
            all_diffs[(d["file"], tuple(d["at"]))] = d
        recs = os.path.join(ctx.scratch, "records-%s.ndjson" % name)
        t0 = time.time()
        ctx.run_worker(env={"TMPDIR": ctx.scratch}, args=["c20-run", "-in", r["out"], "-kloader", run_.kl_path, "-kpublished", run_.kp_path, "-unknown", UNKNOWN]
                       + (["-siblings"] if consts.get("_siblings") else []),
                       stdout_path=recs, timeout=3000)
        core.log("worker c20-run (%s): %d cases through the real loaders in %.1fs" % (name, r["distinct"], time.time() - t0))
        os.remove(r["out"])
        run_.judge(recs, name, expect_cases=r["distinct"])
        ncases += r["distinct"]
        os.remove(recs)

    # (C') documents TLC did not generate: the repository's own pipeline files, plus the unknown key at each of their mapping nodes
    real = os.path.join(ctx.scratch, "records-real.ndjson")
    ctx.run_worker(env={"TMPDIR": ctx.scratch}, args=["c20-real", "-repo", run_.repo, "-kloader", run_.kl_path, "-kpublished", run_.kp_path, "-unknown", UNKNOWN],
                   stdout_path=real)
    nreal = sum(1 for _ in open(real))
    if nreal:
        run_.judge(real, "real")

    run_.report()
    reproduce(ctx, run_)

    # static SameLanguage report: every DIFF must have been confirmed by an observed disagreement
    by_pair = {}
    for (f, at), d in sorted(all_diffs.items()):
        by_pair.setdefault((f, d["pub"], d["ldr"]), []).append(d)
    for (f, pub, ldr), ds in sorted(by_pair.items()):
        d = ds[0]
        ctx.notes.append("SameLanguage: %s: published %s and loader %s differ (%s): only published=%s only loader=%s; reached by %d key path(s), e.g. %s" % (
            f, pub, ldr, ",".join(d["what"]), d["onlypublished"], d["onlyloader"], len(ds), cl.path_str(d["at"])))

    # soundness gates
    bad_unjudged = [u for u in run_.unjudged if u["expected_to_load"] or u["loader"]["class"] == "panic"]
    if bad_unjudged and not ctx.failures:
        u = bad_unjudged[0]
        raise core.Inconclusive("%d generated document(s) that should load were rejected for a reason that is not about keys "
                                "(value tables in harness/cmd/worker/c20.go need updating): loader=%s published=%s\n%s"
                                % (len(bad_unjudged), u["loader"]["err"][:200], u["published"]["msg"][:200], u["yaml"][:400]))
    if run_.inconclusive and not ctx.failures:
        raise core.Inconclusive(run_.inconclusive[0])
    vac = vacuity(run_, quick)
    if vac and not ctx.failures:
        raise core.Inconclusive("vacuous: " + "; ".join(vac))

    binding = selftest(ctx, run_)

    cov = {
        "states": sum(r["distinct"] for r in run_.tlc),
        "states_generator": sum(r["distinct"] for r in run_.tlc if "ConfigLangMC" in r["cmd"]),
        "states_trace_validation": sum(r["distinct"] for r in run_.tlc if "ConfigLangTrace" in r["cmd"]),
        "transitions": sum(r["generated"] for r in run_.tlc),
        "traces_validated_against_impl": run_.validated,
        "exhaustive": True,
        "evaluations": run_.records,
        "distinct_nontrivial": run_.nontrivial,
        "distinct_documents": len(run_.seen),
        "rule": "one evaluation = one document (one distinct TLC state of the generator, or one variant of a repository config file) "
                "rendered to YAML, loaded by the real loader, validated against the published schema by python jsonschema, and judged "
                "by ConfigLangTrace (Strict / PublishedKeys / SameVerdict); distinct = distinct (file kind, YAML text) over all plans of the run (the plans overlap); "
                "non-trivial = carries a fault (unknown key, empty rule) or reaches at least one key below the root",
        "space": "finite and enumerated completely: every walk through the product of the two grammars in which no node pair repeats more "
                 "than MaxVisits times (every key path of both grammars), every subset of <= MaxInject mapping nodes of each such document for "
                 "the unknown key, every rule list entry left empty ({})" + ("" if quick else ", every rule at list positions 0..2"),
        "plans": [{"name": n, **{k.lstrip("_"): v for k, v in c.items()}} for n, c in plans],
        "generated_cases": ncases,
        "real_documents": nreal,
        "grammar_nodes": {f: {"published": len(run_.kp[f]["nodes"]), "loader": len(run_.kl[f]["nodes"])} for f in FILES},
        "same_language_diffs": len(all_diffs),
        "per_file": run_.counters,
        "per_node_kind": run_.kinds,
        "not_judged_value_level_rejections": len(run_.unjudged),
        "routes": run_.routes,
        "route_verdicts_not_judged_examples": run_.route_unjudged,
        "published_schema_keywords": {f: {"combination": run_.kp[f]["combination"], "unmodelled": run_.kp[f]["unmodelled"]} for f in FILES},
        "published_grammar_partial_disagreements_ignored": run_.partial_drift,
        "binding_selftest": binding,
        "samples": run_.samples[:3] or [{"note": "no sample drawn"}],
        "checker_cmd": "worker c20-grammar; extract schemas/*.json; tlc ConfigLangMC (%s); worker c20-run; python3-vt c20_validate.py; "
                       "tlc ConfigLangTrace; worker c20-real" % ", ".join(n for n, _ in plans),
    }
    return ctx.finish("model_checking", cov, [
        "free-form nodes (any, map[string]any, map[string]string: hints, defaults, parameters, templates_data, ...) accept every key in both grammars by design",
        "'rule entry' = an element of passes / builders / options; entries of inputs / languages are not rule entries; an entry with two actions is outside the claim",
        "the published schemas are compared on keys only: they do not (and are not claimed to) reject an empty rule entry",
        "generated values are well-formed (object / field references, selectors, a package name) so that only keys decide; rejections for value reasons are counted, not judged",
        "KLoader is extracted by reflection following gopkg.in/yaml.v3's struct-tag rules; the observed decoder verdict, not the extraction, decides",
    ])


def reproduce(ctx, run_):
    """soundness rule 1: the first witness of every signature is loaded and validated a second time in a fresh process"""
    first = {}
    for f in ctx.failures:
        first.setdefault(f["signature"], f["replay"])
    if not first:
        return
    d = ctx.sub("reproduce")
    src, rec = os.path.join(d, "in.ndjson"), os.path.join(d, "rec.ndjson")
    sigs = sorted(first)
    open(src, "w").write("".join(json.dumps({"file": first[s]["file"], "doc": first[s]["doc"], "extra": first[s].get("extra") or [],
                                             "text": first[s]["yaml"]}) + "\n" for s in sigs))
    ctx.run_worker(env={"TMPDIR": ctx.scratch}, args=["c20-doc", "-in", src, "-kloader", run_.kl_path, "-kpublished", run_.kp_path], stdout_path=rec)
    pub = validate_published(ctx, run_.repo, rec, os.path.join(d, "pub.ndjson"))
    for s, line in zip(sigs, open(rec)):
        r = json.loads(line)
        if (r["loader"]["accept"] != first[s]["loader"]["accept"] or pub[r["id"]]["accept"] != first[s]["published"]["accept"]
                or [x["accept"] for x in r.get("routes") or []] != [x["accept"] for x in first[s].get("routes") or []]):
            raise core.Inconclusive("witness of %s did not reproduce" % s)


def vacuity(run_, quick):
    out = []
    need = ["valid-key-path", "inject-1", "inject-spelling-case", "inject-spelling-midcase", "inject-spelling-param",
            "carrier-merge", "carrier-bom", "carrier-seconddoc", "value-null", "value-empty"]
    for f in FILES:
        c = run_.counters.get(f, {})
        for a in need:
            if c.get(a, 0) == 0:
                out.append("%s/%s never exercised" % (f, a))
        for d in (2, 3, 4):
            for load in ("", "-empty-rule") if f != "pipeline" else ("",):
                if c.get("further-document-%d%s" % (d, load), 0) == 0:
                    out.append("%s/further-document-%d%s never exercised" % (f, d, load))
        for e in ("bare", "comment", "null", "end"):
            if c.get("empty-document-" + e, 0) == 0:
                out.append("%s/empty-document-%s never exercised" % (f, e))
        if f != "pipeline":
            if c.get("empty-rule", 0) == 0:
                out.append("%s/empty-rule never exercised" % f)
            # one per rule list of the file (compiler: passes; veneers: builders, options) at each position
            nlists = {"compiler": 1, "veneers": 2}[f]
            for p in (0, 1, 2):
                for form in ("", "-null"):
                    if c.get("empty-rule%s-at-%d-of-3" % (form, p), 0) < nlists:
                        out.append("%s/empty rule (%s) at position %d of 3 not exercised in every rule list" % (f, form or "{}", p))
        want = {"compiler": ["PassesFrom", "pipeline:transformations.schemas", "pipeline:inputs[].transformations"],
                "veneers": ["RewriterFrom[valid,file,valid]", "pipeline:transformations.builders"],
                "pipeline": ["PipelineFromFile+Parameters"]}[f]
        for name in want:
            d = run_.routes.get(f, {}).get(name, {"accept": 0, "reject": 0})
            if d["accept"] == 0 or d["reject"] == 0:
                out.append("%s route %s: judged accepts=%d rejects=%d" % (f, name, d["accept"], d["reject"]))
        if c.get("inject-free-form", 0) == 0:
            out.append("%s/inject-free-form never exercised" % f)
        if not quick:
            if c.get("inject-2", 0) == 0:
                out.append("%s/inject-2 never exercised" % f)
            if f != "pipeline" and any(c.get("rule-position-%d" % p, 0) == 0 for p in (0, 1, 2)):
                out.append("%s/rule positions not all exercised" % f)
        # every mapping node kind of the loader grammar must have been an injection site and a deepest node
        for nid, n in run_.kl[f]["nodes"].items():
            if n["kind"] != "map":
                continue
            k = run_.kinds.get(f, {}).get(nid, {"valid": 0, "inject": 0})
            if k["inject"] == 0 or k["valid"] == 0:
                out.append("%s node kind %s: valid=%d inject=%d" % (f, nid, k["valid"], k["inject"]))
    return out


def selftest(ctx, run_):
    """binding: ConfigLangTrace (Strict mode) accepts a genuine record of this run and rejects it once the recorded loader
    verdict is flipped."""
    good = run_.clean_reject
    if good is None:
        if ctx.failures:
            return "skipped: no record of this run was accepted by the trace specification"
        raise core.Inconclusive("binding self-test: no genuine rejected-document record to corrupt")
    d = ctx.sub("selftest")
    bad = dict(good)
    bad["loader"], bad["lclass"] = "accept", "ok"
    res = {}
    for name, t in (("good", good), ("bad", bad)):
        tp = os.path.join(d, name + ".ndjson")
        open(tp, "w").write(json.dumps(t) + "\n")
        files = run_.gfiles()
        files["trace.ndjson"] = tp
        x = ctx.run_tlc("ConfigLangTrace", "ConfigLangTrace.cfg", workers=1, timeout=300, files=files,
                        constants={"StrictMode": "TRUE"}, allow_violation=True)
        res[name] = x["violated"]
    if res["good"] or not res["bad"]:
        if ctx.failures:   # never turn observed violations into exit 2
            return "FAILED (genuine record rejected=%s, corrupted record rejected=%s); violations are reported regardless" % (res["good"], res["bad"])
        raise core.Inconclusive("binding self-test failed: genuine record rejected=%s, corrupted record rejected=%s" % (res["good"], res["bad"]))
    return ("ConfigLangTrace(StrictMode) accepts a genuine record of this run (a document with an unknown key, rejected by the real loader and by "
            "the published schema) and rejects the same record with the loader verdict flipped to accept")
