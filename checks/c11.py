"""C11 - generated Python round-trips accepted documents and agrees with generated Go on the wire.

spec: Semantics.tla (Accepts, Norm, Base/Variants), SemanticsDefaults.tla (PyRoundTripOK, WireOK), SemanticsDefaultsMC.tla (CASE emission
      for both catalogues), SemanticsPyTrace.tla (TLC recomputes Norm and JSON equality on the recorded real encodings)
real code: cog's pipeline generates Go and Python (generate_json_marshaller) for each schema rendered as JSON Schema, OpenAPI and CUE;
      every document the reference validator of the source format accepts goes through `Root.from_json(doc)` + the generated
      JSONEncoder (one python3 process) and through json.Unmarshal + json.Marshal (compiled reflection driver).
"""
import collections
import json
import random
import re

from vlib import core
from checks import semantics_common as sc
from checks import python_common as pc

POSITION_CLASSES = ("top", "optional", "array", "map", "ref", "union-branch")
KINDS = ("enum", "struct", "union")
MAX_DISAGREE = 0.03


def select_for(ctx, replay):
    def select(cat):
        if replay:
            return [replay["schema_id"]]
        base = {i: e for i, e in cat.items() if i < pc.ID_BASE}
        dids = sorted(i for i in cat if i > pc.ID_BASE and (not ctx.quick() or i < pc.DEEP_BASE))
        if not ctx.quick():
            # thorough: both enumerated catalogues + SemanticsDefaultsDeepMC (ids 20001..) + the seeded generated schemas (ids 30001..)
            return sorted(base) + dids
        rng = random.Random(ctx.seed)
        fixed = [i for i in dids if cat[i]["pos"] == "fixed"]
        rest = [i for i in dids if cat[i]["pos"] != "fixed"]
        rng.shuffle(rest)
        # optional fields with a declared default are where Python and Go part ways: keep that position in every slice
        opt = [i for i in rest if cat[i]["pos"] == "optional"][:5]
        return sc.select_schemas(ctx, base, 30) + fixed + opt + [i for i in rest if i not in opt][:5]
    return select


def node_at(schema, path, doc=None):
    """(struct field the path ends at or None, type node reached), following the branch of a union that accepts the document's value"""
    S = sc.defs_of(schema)
    t = S[schema["root"]]
    v = doc
    f = None
    for seg in path:
        while t["k"] in ("ref", "nullable"):
            t = S[t["name"]] if t["k"] == "ref" else t["t"]
        if t["k"] == "dunion":
            hit = [S[r] for r in t["refs"] if isinstance(v, dict) and sc.accepts_py(S, S[r], v)] or \
                  [S[r] for r in t["refs"] if pc._field(S[r], seg) is not None]
            if not hit:
                return None, None
            t = hit[0]
        if t["k"] == "struct":
            f = pc._field(t, seg)
            if f is None:
                return None, None
            t = f["t"]
            v = v.get(seg) if isinstance(v, dict) else None
        elif t["k"] == "arr":
            f = None
            t = t["t"]
            try:
                v = v[int(seg[1:])] if isinstance(v, list) else None
            except (ValueError, IndexError):
                v = None
        elif t["k"] == "map":
            f = None
            t = t["t"]
            v = v.get(seg) if isinstance(v, dict) else None
        else:
            return None, None
    while t["k"] in ("ref", "nullable"):
        t = S[t["name"]] if t["k"] == "ref" else t["t"]
    return f, t


def field_at(schema, path, doc=None):
    return node_at(schema, path, doc)[0]


def _at(v, path):
    for seg in path:
        try:
            v = v[int(seg[1:])] if isinstance(v, list) else v.get(seg) if isinstance(v, dict) else None
        except (ValueError, IndexError):
            return None
    return v


def diff_class(schema, doc, want, got, got_is="python"):
    """witness class of the first difference between two encodings (want -> got)"""
    d = sc.first_diff(want, got)
    if d is None:
        return "no-difference", None
    path, what = d
    pos, kind, _ = sc.walk(schema, list(path), doc)
    f, node = node_at(schema, path, want)
    S = sc.defs_of(schema)
    if what == "added" and f is not None and not f["req"]:
        if f["def"]["j"] != "none":
            return "absent-optional-default-materialised", path
        if sc.resolve(S, f["t"])["k"] == "const":
            return "absent-optional-constant-materialised", path
        if _at(got, path) in ([], {}) and got_is == "python-vs-go":
            return "optional-empty-collection-omitted-by-go", path
    if what == "changed" and f is not None and f["null"] and f["def"]["j"] != "none" and _at(want, path) is None:
        return "explicit-null-replaced-by-default", path      # a nullable field with a declared default, given as null
    if what == "changed" and node is not None:
        # classes that name the cause rather than the place (they occur at every position)
        wv, gv = _at(want, path), _at(got, path)
        if node["k"] == "arr" and sc.resolve(S, node["t"])["k"] == "int" and sc.resolve(S, node["t"])["w"] == "uint8" and (isinstance(wv, str) or isinstance(gv, str)):
            return "uint8-array-as-base64-string", path
        if node["k"] == "num" and node["w"] == "float32":
            return "changed:float32-value", path
        if node["k"] in ("int", "num") and any(isinstance(x, (int, float)) and not isinstance(x, bool) and abs(x) >= 7770000 for x in (wv, gv)):
            return "changed:%s-beyond-2^53@%s" % (kind, pos), path
    return "%s:%s@%s" % (what, kind, pos), path


def null_for_nullable_field(schema, doc):
    """does the document hold null for a nullable struct FIELD whose type is an array / map / struct (needs decoding)"""
    S = sc.defs_of(schema)

    def walk(t, v):
        t = sc.resolve(S, t)
        if t["k"] == "nullable":
            return walk(t["t"], v) if v is not None else False
        if t["k"] == "arr" and isinstance(v, list):
            return any(walk(t["t"], x) for x in v if x is not None)
        if t["k"] == "map" and isinstance(v, dict):
            return any(walk(t["t"], x) for x in v.values() if x is not None)
        if t["k"] == "struct" and isinstance(v, dict):
            for f in t["fields"]:
                if f["n"] in v:
                    if v[f["n"]] is None:
                        if f["null"] and sc.resolve(S, f["t"])["k"] in ("arr", "map", "struct", "dunion"):
                            return True
                    elif walk(f["t"], v[f["n"]]):
                        return True
            return False
        if t["k"] == "dunion" and isinstance(v, dict):
            return any(walk(S[r], v) for r in t["refs"] if sc.accepts_py(S, S[r], v))
        return False
    return walk(S[schema["root"]], doc)


def null_in_collection(schema, doc):
    """does the document hold a null as an array element / map value (nullable element types)"""
    def rec(v, inside):
        if v is None:
            return inside
        if isinstance(v, list):
            return any(rec(x, True) for x in v)
        if isinstance(v, dict):
            return any(rec(x, False) for x in v.values())
        return False
    S = sc.defs_of(schema)

    def walk(t, v):
        t = sc.resolve(S, t)
        if t["k"] == "nullable":
            return walk(t["t"], v) if v is not None else False
        if t["k"] == "arr" and isinstance(v, list):
            return any(x is None or walk(t["t"], x) for x in v)
        if t["k"] == "map" and isinstance(v, dict):
            return any(x is None or walk(t["t"], x) for x in v.values())
        if t["k"] == "struct" and isinstance(v, dict):
            return any(walk(f["t"], v[f["n"]]) for f in t["fields"] if f["n"] in v and v[f["n"]] is not None)
        if t["k"] == "dunion" and isinstance(v, dict):
            return any(walk(S[r], v) for r in t["refs"] if sc.accepts_py(S, S[r], v))
        return False
    return walk(S[schema["root"]], doc)


def run(ctx):
    replay = None
    formats = sc.FORMATS
    if ctx.replay:
        replay = json.load(open(ctx.replay))["replay"]
        formats = (replay["format"],)
        if replay["schema_id"] > pc.GEN_BASE:
            ctx.seed = json.load(open(ctx.replay)).get("seed", ctx.seed)      # generated schemas are a function of the seed
    deep = (not ctx.quick() and not replay) or bool(replay and (replay["schema_id"] > pc.DEEP_BASE or replay.get("deep")))
    batch = pc.run_batch(ctx, select_for(ctx, replay), want_cases=True, formats=formats, deep=deep)
    for cs in batch.cases.values():
        for c in cs:
            c["real"] = pc.detok(c["py"])       # tokens -> the real strings / integers the generated code and the validators see
    if replay and batch.cat[replay["schema_id"]]["schema"] != replay["schema"]:
        raise core.Inconclusive("the catalogue changed: schema %d is no longer the replay's schema" % replay["schema_id"])

    units = [u for u in batch.units.values() if u.get("py") == "ok" and u["status"] in ("ok", "not_executable")]
    # ---- reference validators: which documents does the source schema accept
    ref = pc.ref_validate(ctx, batch, [(u["pkg"], [c["real"] for c in batch.cases[u["id"]]]) for u in units])
    # ---- Go: json.Unmarshal + json.Marshal of every document (existing `doc` op)
    gocmds = []
    for u in units:
        if u["status"] == "ok":
            for c in batch.cases[u["id"]]:
                gocmds.append({"op": "doc", "id": "%s/%d" % (u["pkg"], c["n"]), "type": u["type"], "doc": c["real"]})
    gores = pc.run_driver_safe(ctx, batch, gocmds, "docs") if gocmds else {}
    # ---- Python: from_json + generated encoder for every accepted document
    pycmds = []
    accepted = {}
    dropped = collections.Counter()
    n_docs = 0
    for u in units:
        racc = ref.get(u["pkg"])
        if racc is None:
            u["status_c11"] = "refval_schema_error"
            dropped["refval_schema_error(unit)"] += 1
            continue
        root = batch.cat[u["id"]]["schema"]["root"]
        if root not in u.get("py_classes", []):
            dropped["no python class for the root object"] += 1
            continue
        prev = None
        for c, ra in zip(batch.cases[u["id"]], racc):
            n_docs += 1
            if c["f"] != "AddUndeclared" and ra != c["accepts"]:
                dropped["spec-validator-disagree"] += 1      # DESIGN 7 rule 4: the validators are the authority
                continue
            if not (c["accepts"] and ra is True):
                continue
            accepted[(u["pkg"], c["n"])] = c
            pycmds.append({"op": "roundtrip", "id": "%s/%d" % (u["pkg"], c["n"]), "module": u["pkg"], "cls": root, "doc": c["real"]})
            if c["f"] == "base":
                pycmds.append({"op": "encode", "id": "%s/%d/e" % (u["pkg"], c["n"]), "module": u["pkg"], "cls": root, "doc": c["real"]})
            if prev is not None:
                # the same document decoded AFTER another one of the same class (whose result was mutated in place)
                pycmds.append({"op": "roundtrip2", "id": "%s/%d/2" % (u["pkg"], c["n"]), "module": u["pkg"], "cls": root, "first": prev["real"], "doc": c["real"]})
            prev = c
    if not pycmds:
        raise core.Inconclusive("no accepted document reaches executable python")
    pyres = pc.run_pydriver_safe(ctx, batch, pycmds, "roundtrip")

    # ---- thorough: both directions. What Go wrote is read (and written again) by Python, what Python wrote by Go:
    #      "data written by one generated SDK is readable by the other"
    cross_py, cross_go = {}, {}
    if deep:
        c2py, c2go = [], []
        for (pkg, n), c in accepted.items():
            u = batch.units[pkg]
            p, g = pyres["%s/%d" % (pkg, n)], gores.get("%s/%d" % (pkg, n))
            if g is not None and g.get("std_err") is None and "enc" in g and not g.get("enc_err") and not g.get("panic"):
                c2py.append({"op": "roundtrip", "id": "%s/%d" % (pkg, n), "module": pkg, "cls": batch.cat[u["id"]]["schema"]["root"], "doc": g["enc"]})
            if p["ok"] and u["status"] == "ok":
                c2go.append({"op": "doc", "id": "%s/%d" % (pkg, n), "type": u["type"], "doc": p["enc"]})
        cross_py = pc.run_pydriver_safe(ctx, batch, c2py, "go-to-python") if c2py else {}
        cross_go = pc.run_driver_safe(ctx, batch, c2go, "python-to-go") if c2go else {}

    # ---- join
    tw = pc.PyTraceWriter(ctx, batch, "c11")
    soft = []           # reasons that make the run inconclusive unless violations were observed (pc.settle)
    if getattr(batch, "go_unusable", None):
        soft.append("Go side unusable (wire agreement not judged): " + batch.go_unusable)
    order = []
    cross_implied = 0
    per_pos, per_kind, per_fmt, per_label, per_clause = (collections.Counter() for _ in range(5))
    samples = []
    for (pkg, n), c in sorted(accepted.items()):
        u = batch.units[pkg]
        entry = batch.cat[u["id"]]
        schema = entry["schema"]
        S = sc.defs_of(schema)
        root = S[schema["root"]]
        p = pyres["%s/%d" % (pkg, n)]
        py_ok = bool(p["ok"])
        py_enc = pc.tok(p.get("enc")) if py_ok else None
        g = gores.get("%s/%d" % (pkg, n))
        has_go = bool(g is not None and g.get("std_err") is None and "enc" in g and not g.get("enc_err") and not g.get("panic"))
        go_enc = pc.tok(g["enc"]) if has_go else None
        want = sc.jv_to_py(c["norm"])
        if not sc.json_equal(sc.norm_py(S, root, c["py"]), want):
            raise core.Inconclusive("python and TLC disagree on Norm of %s" % sc.dumps(c["py"]))
        verdict = set()
        rt_ok = py_ok and sc.json_equal(sc.norm_py(S, root, py_enc), want)
        if not rt_ok:
            verdict.add(("RoundTrip",))
        wire_ok = not (py_ok and has_go) or sc.json_equal(sc.norm_py(S, root, py_enc), sc.norm_py(S, root, go_enc))
        if not wire_ok:
            verdict.add(("Wire",))
        if not tw.add_pyrt(pkg, c, True, py_ok, py_enc, has_go, go_enc):
            dropped["outside-number-universe"] += 1
            continue
        order.append((pkg, c, verdict))
        pos, kind, _ = sc.walk(schema, c["p"], c["py"])
        cls = "%s:%s@%s" % (c["f"], kind, pos)
        per_label[c["f"]] += 1
        per_fmt[u["fmt"]] += 1
        per_clause["roundtrip"] += 1
        if py_ok and has_go:
            per_clause["wire-agreement"] += 1
        for tok in set(pos.split(">")):
            per_pos[tok] += 1
        per_kind[{"ienum": "enum", "dunion": "union", "const": "enum"}.get(kind, kind)] += 1
        base = {"schema_id": u["id"], "leaf": entry["leaf"], "pos": entry["pos"], "format": u["fmt"], "schema": schema, "schema_text": u["text"],
                "doc": c["py"], "label": c["f"], "path": c["p"], "expected_norm": want,
                "real": {"python": py_enc, "python_error": None if py_ok else "%s: %s" % (p.get("stage"), p.get("err")), "go": go_enc}}
        if not py_ok:
            exc = (p.get("err") or "error").split(":")[0]
            # class of an exception: where a null sits if the document has one the decoder must look at, else the message itself
            # (without package / class names): the same defect shows at every position and under every label
            about_none = "NoneType" in (p.get("err") or "")
            ecls = "null-element-of-collection" if (about_none and null_in_collection(schema, c["py"])) else \
                "null-for-nullable-field" if (about_none and null_for_nullable_field(schema, c["py"])) else \
                "-".join(re.findall(r"[a-z_]+", re.sub(r"@\S+", "", (p.get("err") or "").split(":", 1)[-1]).lower())[:8])
            ctx.fail("C11/python/roundtrip/raises-%s-in-%s:%s/%s" % (exc, p.get("stage"), ecls, u["fmt"]),
                     "from_json/to_json of the accepted document %s raises %s (stage %s)" % (sc.dumps(c["py"]), p.get("err"), p.get("stage")), base)
        elif not rt_ok:
            dcls, dpath = diff_class(schema, c["py"], want, sc.norm_py(S, root, py_enc))
            ctx.fail("C11/python/roundtrip/%s/%s" % (dcls, u["fmt"]),
                     "to_json(from_json(%s)) = %s: differs at %s" % (sc.dumps(c["py"]), sc.dumps(py_enc), ".".join(dpath)), base)
        if not wire_ok:
            dcls, dpath = diff_class(schema, c["py"], sc.norm_py(S, root, go_enc), sc.norm_py(S, root, py_enc), "python-vs-go")
            ctx.fail("C11/python/wire-agreement/%s/%s" % (dcls, u["fmt"]),
                     "for the document %s Go writes %s, Python writes %s: differ at %s" % (sc.dumps(c["py"]), sc.dumps(go_enc), sc.dumps(py_enc), ".".join(dpath)), base)
        second = pyres.get("%s/%d/2" % (pkg, n))
        if second is not None and py_ok:
            per_clause["second-from_json"] += 1
            s_ok = bool(second["ok"])
            s_enc = pc.tok(second["enc"]) if s_ok else None
            if tw.add_pyrt(pkg, c, True, s_ok, s_enc, False, None):
                sv = set() if (s_ok and sc.json_equal(sc.norm_py(S, root, s_enc), want)) else {("RoundTrip",)}
                order.append((pkg, dict(c, cross="second from_json"), sv))
                if sv and rt_ok:      # only when the document decoded on its own round-trips: the state of the first from_json leaked
                    ctx.fail("C11/python/roundtrip/state-survives-between-from_json:%s/%s" % (
                                 "raises" if not s_ok else diff_class(schema, c["py"], want, sc.norm_py(S, root, s_enc))[0], u["fmt"]),
                             "%s decoded after another document of the same class: %s (decoded on its own it round-trips)" % (
                                 sc.dumps(c["real"]), "raises %s" % second.get("err") if not s_ok else "to_json gives %s" % sc.dumps(pc.detok(s_enc))), base)
        e = pyres.get("%s/%d/e" % (pkg, n))
        if e is not None and py_ok and (not e["ok"] or not sc.json_equal(pc.tok(e["enc"]), py_enc)):
            ctx.fail("C11/python/roundtrip/encoder-differs-from-to_json:%s/%s" % (cls, u["fmt"]),
                     "encoding the object through the generated JSONEncoder gives %s, encoding its to_json() gives %s" % (
                         sc.dumps(py_enc), sc.dumps(e.get("enc")) if e["ok"] else e.get("err")), base)
        # ---- both directions (thorough): the other SDK reads what this one wrote and writes it back unchanged
        for direction, res, src in (("python-reads-go", cross_py.get("%s/%d" % (pkg, n)), go_enc),
                                    ("go-reads-python", cross_go.get("%s/%d" % (pkg, n)), py_enc)):
            if res is None or src is None or not has_go:      # a document Go cannot decode at all is C01's (decode), not a wire matter
                continue
            acc = sc.accepts_py(S, root, src)
            if direction == "python-reads-go":
                ok = bool(res["ok"])
                err = None if ok else "%s: %s" % (res.get("stage"), res.get("err"))
            else:
                ok = bool(res.get("std_err") is None and "enc" in res and not res.get("enc_err") and not res.get("panic"))
                err = None if ok else (res.get("std_err") or res.get("enc_err") or res.get("panic"))
            out = pc.tok(res["enc"]) if ok else None
            cv = set()
            if acc and not (ok and sc.json_equal(sc.norm_py(S, root, out), sc.norm_py(S, root, src))):
                cv.add(("Cross",))
            if not tw.add_cross(pkg, c, src, acc, ok, out):
                dropped["outside-number-universe"] += 1
                continue
            order.append((pkg, dict(c, cross=direction), cv))
            per_clause[direction] += 1 if acc else 0
            if cv and verdict:
                cross_implied += 1        # the direct comparison of this document already failed: reported there
            elif cv:
                if not ok:
                    dcls, dpath = "raises:" + "-".join(re.findall(r"[a-z]+", (err or "").lower())[:6]), ()
                else:
                    dcls, dpath = diff_class(schema, c["py"], sc.norm_py(S, root, src), sc.norm_py(S, root, out))
                ctx.fail("C11/python/wire-agreement/%s:%s/%s" % (direction, dcls, u["fmt"]),
                         "%s: %s wrote %s for the document %s; the other SDK %s" % (
                             direction, "Go" if direction == "python-reads-go" else "Python", sc.dumps(pc.detok(src)), sc.dumps(c["real"]),
                             "fails to read it: %s" % err if not ok else "reads it and writes %s (differs at %s)" % (sc.dumps(pc.detok(out)), ".".join(dpath))),
                         dict(base, deep=True, cross={"direction": direction, "source": pc.detok(src), "output": pc.detok(out) if ok else None, "error": err}))
        if len(samples) < 3 and c["f"] != "base" and (n + ctx.seed) % 11 == 0:
            samples.append({"package": pkg, "leaf": entry["leaf"], "pos": entry["pos"], "label": c["f"], "path": c["p"], "doc": c["py"],
                            "expected_norm": want, "python": py_enc, "go": go_enc, "violated": sorted(v[0] for v in verdict)})
    if replay:
        ctx.failures = [f for f in ctx.failures if sc.json_equal(f["replay"]["doc"], replay["doc"])]

    # ---- TLC recomputes every verdict
    tlc_viol, tr = tw.validate()
    agree_n = 0
    for i, (pkg, c, verdict) in enumerate(order):
        tv = tlc_viol.get(i, set())
        if ("SpecVsValidator",) in tv:
            soft.append("TLC: Accepts rejects a document the harness judged accepted (%s #%d)" % (pkg, c["n"]))
        elif tv != verdict:
            soft.append("TLC and the python join disagree on %s #%d%s (%s): TLC %s, python %s" % (
                pkg, c["n"], " " + c["cross"] if c.get("cross") else "", sc.dumps(c["py"]), sorted(tv), sorted(verdict)))
        elif not tv:
            agree_n += 1

    if not replay:
        vac = [k for k in ("roundtrip", "wire-agreement") if per_clause[k] == 0]
        vac += ["position:" + p for p in POSITION_CLASSES if per_pos[p] == 0]
        vac += ["kind:" + k for k in KINDS if per_kind[k] == 0]
        vac += ["format:" + f for f in sc.FORMATS if per_fmt[f] == 0]
        if vac:
            soft.append("vacuous clauses / classes (never exercised on executable code): %s" % vac)
        if n_docs and dropped["spec-validator-disagree"] > MAX_DISAGREE * n_docs:
            soft.append("Accepts and the reference validators disagree on %d of %d documents" % (dropped["spec-validator-disagree"], n_docs))

    binding = None
    good = [(pkg, c) for pkg, c, v in order if not v and not c.get("cross") and gores.get("%s/%d" % (pkg, c["n"]))]
    if good and not replay:
        pkg, c = good[ctx.seed % len(good)]
        p = pyres["%s/%d" % (pkg, c["n"])]
        g = gores["%s/%d" % (pkg, c["n"])]
        bad = dict(p["enc"]) if isinstance(p["enc"], dict) else {}
        bad["corruptedBySelftest"] = 1
        try:
            binding = pc.selftest(ctx, batch, lambda tw_: tw_.add_pyrt(pkg, c, True, True, pc.tok(p["enc"]), True, pc.tok(g["enc"])),
                                  lambda tw_: tw_.add_pyrt(pkg, c, True, True, pc.tok(bad), True, pc.tok(g["enc"])),
                                  "SemanticsPyTrace(Strict) accepts a genuine round-trip record (%s #%d) and rejects it once a member is added to the "
                                  "recorded Python encoding" % (pkg, c["n"]))
        except core.Inconclusive as e:
            soft.append(str(e))
    elif not replay:
        soft.append("no record that holds: binding self-test impossible")

    pc.settle(ctx, soft)
    witnesses = collections.defaultdict(set)
    for f in ctx.failures:
        witnesses[f["signature"]].add("%s@%s %s" % (f["replay"]["leaf"], f["replay"]["pos"], f["replay"]["label"]))
    cov = {
        "failure_witnesses": {k: sorted(v)[:25] for k, v in sorted(witnesses.items())},
        "cross_direction_failures_implied_by_the_direct_comparison": cross_implied,
        "generated_schema_pool": batch.generated_pool,
        "states": sum(r["distinct"] for r in ctx.tlc_runs),
        "transitions": sum(r["generated"] for r in ctx.tlc_runs),
        "traces_validated_against_impl": agree_n,
        "real_records_validated_by_tlc_trace_spec": len(order),
        "exhaustive": not ctx.quick(),
        "evaluations": len(order),
        "distinct_nontrivial": sum(v for k, v in per_label.items() if k != "base"),
        "rule": "one evaluation = one (schema, input format, accepted document) triple: the schema term is rendered in that format, the real cog "
                "pipeline generates Python and Go, the document goes through Root.from_json + the generated JSONEncoder in python3 and through "
                "json.Unmarshal + json.Marshal in the compiled driver; documents are TLC's Base + one-place Variants that Accepts and the reference "
                "validator of the format both accept; non-trivial = not the base document",
        "schemas": len(batch.ids), "catalogue_size": len(batch.cat), "documents": n_docs,
        "units_go": dict(collections.Counter(u["status"] for u in batch.units.values())),
        "units_python": dict(collections.Counter(u.get("py", "absent") for u in batch.units.values())),
        "units_not_observed": pc.unit_problems(batch), "documents_dropped": dict(dropped),
        "per_label": dict(per_label), "per_position_token": dict(per_pos), "per_kind": dict(per_kind), "per_format": dict(per_fmt),
        "per_clause": dict(per_clause),
        "unused_imports_removed": sorted({"%s:%s" % (batch.units[p]["fmt"], i) for p, i in batch.unused_imports_removed}),
        "timing": batch.timing, "binding_selftest": binding, "samples": samples or [{"note": "no sample drawn"}],
        "checker_cmd": "tlc SemanticsMC (index) + SemanticsDefaultsMC (index, cases); worker sem-gen; go build; driver doc; "
                       "python3 harness/pydriver/driver.py; python3-vt jsonschema + worker sem-validate; tlc SemanticsPyTrace",
    }
    a = sc.COMMON_ASSUMPTIONS + [
        "the catalogue of spec/SemanticsDefaultsMC.tla (schemas declaring defaults) is part of the universe",
        "JSON-equal (DESIGN 6.0): numbers by value, key order irrelevant; an optional property given as explicit null may be omitted "
        "(Semantics!Norm on both sides), also when Python's encoding is compared with Go's",
        "Python that does not import is excluded and counted (C02); Go that does not compile only removes the wire-agreement clause of that unit",
        "the wire-agreement clause compares Python's encoding with json.Marshal of the value json.Unmarshal decoded from the same document",
    ]
    if batch.unused_imports_removed:
        a.append("packages whose only compiler diagnostics were `imported and not used` were recompiled after deleting exactly those import lines")
    return ctx.finish("model_checking", cov, a)
