"""C11 - generated Python round-trips accepted documents and agrees with generated Go on the wire.

spec: Semantics.tla (Accepts, Norm, Base/Variants), SemanticsDefaults.tla (PyRoundTripOK, WireOK), SemanticsDefaultsMC.tla (CASE emission
      for both catalogues), SemanticsPyTrace.tla (TLC recomputes Norm and JSON equality on the recorded real encodings)
real code: cog's pipeline generates Go and Python (generate_json_marshaller) for each schema rendered as JSON Schema, OpenAPI and CUE;
      every document the reference validator of the source format accepts goes through `Root.from_json(doc)` + the generated
      JSONEncoder (one python3 process) and through json.Unmarshal + json.Marshal (compiled reflection driver).
"""
import collections
import json
import random

from vlib import core
from checks import semantics_common as sc
from checks import python_common as pc

POSITION_CLASSES = ("top", "optional", "array", "map", "ref", "union-branch")
KINDS = ("enum", "struct", "union")
MAX_DISAGREE = 0.03


def select_for(ctx, replay):
    def select(cat):
        if replay:
            return [replay["schema_id"]]
        base = {i: e for i, e in cat.items() if i < pc.ID_BASE}
        dids = sorted(i for i in cat if i > pc.ID_BASE)
        if not ctx.quick():
            return sorted(base) + dids
        rng = random.Random(ctx.seed)
        fixed = [i for i in dids if cat[i]["pos"] == "fixed"]
        rest = [i for i in dids if cat[i]["pos"] != "fixed"]
        rng.shuffle(rest)
        # optional fields with a declared default are where Python and Go part ways: keep that position in every slice
        opt = [i for i in rest if cat[i]["pos"] == "optional"][:5]
        return sc.select_schemas(ctx, base, 30) + fixed + opt + [i for i in rest if i not in opt][:5]
    return select


def field_at(schema, path):
    """the struct field a document path ends at (None when the path ends inside an array / map or is undeclared)"""
    S = sc.defs_of(schema)
    t = S[schema["root"]]
    f = None
    for seg in path:
        while t["k"] in ("ref", "nullable"):
            t = S[t["name"]] if t["k"] == "ref" else t["t"]
        if t["k"] == "dunion":
            hit = [S[r] for r in t["refs"] if pc._field(S[r], seg) is not None]
            if not hit:
                return None
            t = hit[0]
        if t["k"] == "struct":
            f = pc._field(t, seg)
            if f is None:
                return None
            t = f["t"]
        elif t["k"] in ("arr", "map"):
            f = None
            t = t["t"]
        else:
            return None
    return f


def diff_class(schema, doc, want, got, got_is="python"):
    """witness class of the first difference between two encodings (want -> got)"""
    d = sc.first_diff(want, got)
    if d is None:
        return "no-difference", None
    path, what = d
    pos, kind, _ = sc.walk(schema, list(path), doc)
    f = field_at(schema, path)
    S = sc.defs_of(schema)
    if what == "added" and f is not None and not f["req"]:
        if f["def"]["j"] != "none":
            return "absent-optional-default-materialised", path
        if sc.resolve(S, f["t"])["k"] == "const":
            return "absent-optional-constant-materialised", path
        val = got
        for seg in path:
            val = val[int(seg[1:])] if isinstance(val, list) else val.get(seg)
        if val in ([], {}) and got_is == "python-vs-go":
            return "optional-empty-collection-omitted-by-go", path
    return "%s:%s@%s" % (what, kind, pos), path


def null_in_collection(schema, doc):
    """does the document hold a null as an array element / map value (nullable element types)"""
    def rec(v, inside):
        if v is None:
            return inside
        if isinstance(v, list):
            return any(rec(x, True) for x in v)
        if isinstance(v, dict):
            return any(rec(x, False) for x in v.values())
        return False
    S = sc.defs_of(schema)

    def walk(t, v):
        t = sc.resolve(S, t)
        if t["k"] == "nullable":
            return walk(t["t"], v) if v is not None else False
        if t["k"] == "arr" and isinstance(v, list):
            return any(x is None or walk(t["t"], x) for x in v)
        if t["k"] == "map" and isinstance(v, dict):
            return any(x is None or walk(t["t"], x) for x in v.values())
        if t["k"] == "struct" and isinstance(v, dict):
            return any(walk(f["t"], v[f["n"]]) for f in t["fields"] if f["n"] in v and v[f["n"]] is not None)
        if t["k"] == "dunion" and isinstance(v, dict):
            return any(walk(S[r], v) for r in t["refs"] if sc.accepts_py(S, S[r], v))
        return False
    return walk(S[schema["root"]], doc)


def run(ctx):
    replay = None
    formats = sc.FORMATS
    if ctx.replay:
        replay = json.load(open(ctx.replay))["replay"]
        formats = (replay["format"],)
    batch = pc.run_batch(ctx, select_for(ctx, replay), want_cases=True, formats=formats)
    if replay and batch.cat[replay["schema_id"]]["schema"] != replay["schema"]:
        raise core.Inconclusive("the catalogue changed: schema %d is no longer the replay's schema" % replay["schema_id"])

    units = [u for u in batch.units.values() if u.get("py") == "ok" and u["status"] in ("ok", "not_executable")]
    # ---- reference validators: which documents does the source schema accept
    ref = sc.ref_validate(ctx, batch, [(u["pkg"], [c["py"] for c in batch.cases[u["id"]]]) for u in units])
    # ---- Go: json.Unmarshal + json.Marshal of every document (existing `doc` op)
    gocmds = []
    for u in units:
        if u["status"] == "ok":
            for c in batch.cases[u["id"]]:
                gocmds.append({"op": "doc", "id": "%s/%d" % (u["pkg"], c["n"]), "type": u["type"], "doc": c["py"]})
    gores = sc.run_driver(ctx, batch, gocmds, "docs") if gocmds else {}
    # ---- Python: from_json + generated encoder for every accepted document
    pycmds = []
    accepted = {}
    dropped = collections.Counter()
    n_docs = 0
    for u in units:
        racc = ref.get(u["pkg"])
        if racc is None:
            u["status_c11"] = "refval_schema_error"
            dropped["refval_schema_error(unit)"] += 1
            continue
        root = batch.cat[u["id"]]["schema"]["root"]
        if root not in u.get("py_classes", []):
            dropped["no python class for the root object"] += 1
            continue
        for c, ra in zip(batch.cases[u["id"]], racc):
            n_docs += 1
            if c["f"] != "AddUndeclared" and ra != c["accepts"]:
                dropped["spec-validator-disagree"] += 1      # DESIGN 7 rule 4: the validators are the authority
                continue
            if not (c["accepts"] and ra is True):
                continue
            accepted[(u["pkg"], c["n"])] = c
            pycmds.append({"op": "roundtrip", "id": "%s/%d" % (u["pkg"], c["n"]), "module": u["pkg"], "cls": root, "doc": c["py"]})
            if c["f"] == "base":
                pycmds.append({"op": "encode", "id": "%s/%d/e" % (u["pkg"], c["n"]), "module": u["pkg"], "cls": root, "doc": c["py"]})
    if not pycmds:
        raise core.Inconclusive("no accepted document reaches executable python")
    pyres = pc.run_pydriver(ctx, batch, pycmds, "roundtrip")

    # ---- join
    tw = pc.PyTraceWriter(ctx, batch, "c11")
    order = []
    per_pos, per_kind, per_fmt, per_label, per_clause = (collections.Counter() for _ in range(5))
    samples = []
    for (pkg, n), c in sorted(accepted.items()):
        u = batch.units[pkg]
        entry = batch.cat[u["id"]]
        schema = entry["schema"]
        S = sc.defs_of(schema)
        root = S[schema["root"]]
        p = pyres["%s/%d" % (pkg, n)]
        py_ok = bool(p["ok"])
        py_enc = p.get("enc") if py_ok else None
        g = gores.get("%s/%d" % (pkg, n))
        has_go = bool(g is not None and g.get("std_err") is None and "enc" in g and not g.get("enc_err") and not g.get("panic"))
        go_enc = g["enc"] if has_go else None
        want = sc.jv_to_py(c["norm"])
        if not sc.json_equal(sc.norm_py(S, root, c["py"]), want):
            raise core.Inconclusive("python and TLC disagree on Norm of %s" % sc.dumps(c["py"]))
        verdict = set()
        rt_ok = py_ok and sc.json_equal(sc.norm_py(S, root, py_enc), want)
        if not rt_ok:
            verdict.add(("RoundTrip",))
        wire_ok = not (py_ok and has_go) or sc.json_equal(sc.norm_py(S, root, py_enc), sc.norm_py(S, root, go_enc))
        if not wire_ok:
            verdict.add(("Wire",))
        if not tw.add_pyrt(pkg, c, True, py_ok, py_enc, has_go, go_enc):
            dropped["outside-number-universe"] += 1
            continue
        order.append((pkg, c, verdict))
        pos, kind, _ = sc.walk(schema, c["p"], c["py"])
        cls = "%s:%s@%s" % (c["f"], kind, pos)
        per_label[c["f"]] += 1
        per_fmt[u["fmt"]] += 1
        per_clause["roundtrip"] += 1
        if py_ok and has_go:
            per_clause["wire-agreement"] += 1
        for tok in set(pos.split(">")):
            per_pos[tok] += 1
        per_kind[{"ienum": "enum", "dunion": "union", "const": "enum"}.get(kind, kind)] += 1
        base = {"schema_id": u["id"], "leaf": entry["leaf"], "pos": entry["pos"], "format": u["fmt"], "schema": schema, "schema_text": u["text"],
                "doc": c["py"], "label": c["f"], "path": c["p"], "expected_norm": want,
                "real": {"python": py_enc, "python_error": None if py_ok else "%s: %s" % (p.get("stage"), p.get("err")), "go": go_enc}}
        if not py_ok:
            exc = (p.get("err") or "error").split(":")[0]
            ecls = "null-element-of-collection" if null_in_collection(schema, c["py"]) else cls
            ctx.fail("C11/python/roundtrip/raises-%s-in-%s:%s/%s" % (exc, p.get("stage"), ecls, u["fmt"]),
                     "from_json/to_json of the accepted document %s raises %s (stage %s)" % (sc.dumps(c["py"]), p.get("err"), p.get("stage")), base)
        elif not rt_ok:
            dcls, dpath = diff_class(schema, c["py"], want, sc.norm_py(S, root, py_enc))
            ctx.fail("C11/python/roundtrip/%s/%s" % (dcls, u["fmt"]),
                     "to_json(from_json(%s)) = %s: differs at %s" % (sc.dumps(c["py"]), sc.dumps(py_enc), ".".join(dpath)), base)
        if not wire_ok:
            dcls, dpath = diff_class(schema, c["py"], sc.norm_py(S, root, go_enc), sc.norm_py(S, root, py_enc), "python-vs-go")
            ctx.fail("C11/python/wire-agreement/%s/%s" % (dcls, u["fmt"]),
                     "for the document %s Go writes %s, Python writes %s: differ at %s" % (sc.dumps(c["py"]), sc.dumps(go_enc), sc.dumps(py_enc), ".".join(dpath)), base)
        e = pyres.get("%s/%d/e" % (pkg, n))
        if e is not None and py_ok and (not e["ok"] or not sc.json_equal(e["enc"], py_enc)):
            ctx.fail("C11/python/roundtrip/encoder-differs-from-to_json:%s/%s" % (cls, u["fmt"]),
                     "encoding the object through the generated JSONEncoder gives %s, encoding its to_json() gives %s" % (
                         sc.dumps(py_enc), sc.dumps(e.get("enc")) if e["ok"] else e.get("err")), base)
        if len(samples) < 3 and c["f"] != "base" and (n + ctx.seed) % 11 == 0:
            samples.append({"package": pkg, "leaf": entry["leaf"], "pos": entry["pos"], "label": c["f"], "path": c["p"], "doc": c["py"],
                            "expected_norm": want, "python": py_enc, "go": go_enc, "violated": sorted(v[0] for v in verdict)})
    if replay:
        ctx.failures = [f for f in ctx.failures if sc.json_equal(f["replay"]["doc"], replay["doc"])]

    # ---- TLC recomputes every verdict
    tlc_viol, tr = tw.validate()
    agree_n = 0
    for i, (pkg, c, verdict) in enumerate(order):
        tv = tlc_viol.get(i, set())
        if ("SpecVsValidator",) in tv:
            raise core.Inconclusive("TLC: Accepts rejects a document the harness judged accepted (%s #%d)" % (pkg, c["n"]))
        if tv != verdict:
            raise core.Inconclusive("TLC and the python join disagree on %s #%d (%s): TLC %s, python %s" % (
                pkg, c["n"], sc.dumps(c["py"]), sorted(tv), sorted(verdict)))
        if not tv:
            agree_n += 1

    if not replay:
        vac = [k for k in ("roundtrip", "wire-agreement") if per_clause[k] == 0]
        vac += ["position:" + p for p in POSITION_CLASSES if per_pos[p] == 0]
        vac += ["kind:" + k for k in KINDS if per_kind[k] == 0]
        vac += ["format:" + f for f in sc.FORMATS if per_fmt[f] == 0]
        if vac:
            raise core.Inconclusive("vacuous clauses / classes (never exercised on executable code): %s" % vac)
        if n_docs and dropped["spec-validator-disagree"] > MAX_DISAGREE * n_docs:
            raise core.Inconclusive("Accepts and the reference validators disagree on %d of %d documents" % (dropped["spec-validator-disagree"], n_docs))

    binding = None
    good = [(pkg, c) for pkg, c, v in order if not v and gores.get("%s/%d" % (pkg, c["n"]))]
    if good and not replay:
        pkg, c = good[ctx.seed % len(good)]
        p = pyres["%s/%d" % (pkg, c["n"])]
        g = gores["%s/%d" % (pkg, c["n"])]
        bad = dict(p["enc"]) if isinstance(p["enc"], dict) else {}
        bad["corruptedBySelftest"] = 1
        binding = pc.selftest(ctx, batch, lambda tw_: tw_.add_pyrt(pkg, c, True, True, p["enc"], True, g["enc"]),
                              lambda tw_: tw_.add_pyrt(pkg, c, True, True, bad, True, g["enc"]),
                              "SemanticsPyTrace(Strict) accepts a genuine round-trip record (%s #%d) and rejects it once a member is added to the "
                              "recorded Python encoding" % (pkg, c["n"]))
    elif not replay:
        raise core.Inconclusive("no record that holds: binding self-test impossible")

    cov = {
        "states": sum(r["distinct"] for r in ctx.tlc_runs),
        "transitions": sum(r["generated"] for r in ctx.tlc_runs),
        "traces_validated_against_impl": agree_n,
        "real_records_validated_by_tlc_trace_spec": len(order),
        "exhaustive": not ctx.quick(),
        "evaluations": len(order),
        "distinct_nontrivial": sum(v for k, v in per_label.items() if k != "base"),
        "rule": "one evaluation = one (schema, input format, accepted document) triple: the schema term is rendered in that format, the real cog "
                "pipeline generates Python and Go, the document goes through Root.from_json + the generated JSONEncoder in python3 and through "
                "json.Unmarshal + json.Marshal in the compiled driver; documents are TLC's Base + one-place Variants that Accepts and the reference "
                "validator of the format both accept; non-trivial = not the base document",
        "schemas": len(batch.ids), "catalogue_size": len(batch.cat), "documents": n_docs,
        "units_go": dict(collections.Counter(u["status"] for u in batch.units.values())),
        "units_python": dict(collections.Counter(u.get("py", "absent") for u in batch.units.values())),
        "units_not_observed": pc.unit_problems(batch), "documents_dropped": dict(dropped),
        "per_label": dict(per_label), "per_position_token": dict(per_pos), "per_kind": dict(per_kind), "per_format": dict(per_fmt),
        "per_clause": dict(per_clause),
        "unused_imports_removed": sorted({"%s:%s" % (batch.units[p]["fmt"], i) for p, i in batch.unused_imports_removed}),
        "timing": batch.timing, "binding_selftest": binding, "samples": samples or [{"note": "no sample drawn"}],
        "checker_cmd": "tlc SemanticsMC (index) + SemanticsDefaultsMC (index, cases); worker sem-gen; go build; driver doc; "
                       "python3 harness/pydriver/driver.py; python3-vt jsonschema + worker sem-validate; tlc SemanticsPyTrace",
    }
    a = sc.COMMON_ASSUMPTIONS + [
        "the catalogue of spec/SemanticsDefaultsMC.tla (schemas declaring defaults) is part of the universe",
        "JSON-equal (DESIGN 6.0): numbers by value, key order irrelevant; an optional property given as explicit null may be omitted "
        "(Semantics!Norm on both sides), also when Python's encoding is compared with Go's",
        "Python that does not import is excluded and counted (C02); Go that does not compile only removes the wire-agreement clause of that unit",
        "the wire-agreement clause compares Python's encoding with json.Marshal of the value json.Unmarshal decoded from the same document",
    ]
    if batch.unused_imports_removed:
        a.append("packages whose only compiler diagnostics were `imported and not used` were recompiled after deleting exactly those import lines")
    return ctx.finish("model_checking", cov, a)
