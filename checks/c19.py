"""C19 — the insertion-ordered map behaves like a map with first-insertion order.

spec: OrderedMap.tla (abstract), OrderedMapImpl.tla (records+order, refinement),
      OrderedMapHist.tla (history generator), OrderedMapTrace.tla (trace validation)
real code: internal/orderedmap.Map[string,int] through verifapi (hook H1) and
      VerifState (hook H4).
"""
import json
import os
import re

from vlib import core


def classify(last_op, failure):
    head = failure.split(":", 1)[0]
    if head.startswith("panic/"):
        msg = failure.split(":", 1)[1] if ":" in failure else ""
        msg = re.sub(r"[^a-z]+", "-", msg.lower()).strip("-")[:60]
        return "C19/%s/panic/%s" % (head.split("/", 1)[1], msg)
    return "C19/%s/%s" % (last_op, head)


def run(ctx):
    quick = ctx.quick()
    ctx.build_worker()
    cov = {"samples": []}
    hist_file = os.path.join(ctx.scratch, "hist.ndjson")

    if ctx.replay:
        rp = json.load(open(ctx.replay))
        open(hist_file, "w").write(json.dumps(rp["replay"]) + "\n")
        res = os.path.join(ctx.scratch, "replay.out")
        ctx.run_worker(["c19-replay", "-keyform", rp["replay"].get("keyform", "plain")], stdin_path=hist_file, stdout_path=res)
        for line in open(res):
            r = json.loads(line)
            if "failure" in r:
                op = r["hist"][r["step"]]["op"] if r["hist"] else "new"
                ctx.fail(classify(op, r["failure"]), r["failure"], rp["replay"])
        return ctx.finish("model_checking", {"evaluations": 1, "distinct_nontrivial": 0}, [])

    # (A) design level: implementation-shaped model refines the abstract map; bijection invariant
    r1 = ctx.run_tlc("OrderedMapImplMC", "OrderedMapImplMC.cfg", workers=4, timeout=300)
    r2 = ctx.run_tlc("OrderedMapImplMC", "OrderedMapImplSortMC.cfg", workers=4, timeout=300)

    # (B) every history up to MaxLen, replayed on the real map
    maxlen = 4 if quick else 5
    r3 = ctx.run_tlc("OrderedMapHistMC", "OrderedMapHistMC.cfg", workers=16, timeout=1500,
                     constants={"MaxLen": maxlen})
    n_hist = core.tagged_to_file(r3["out"], "HIST", hist_file)
    if n_hist != r3["distinct"]:
        raise core.Inconclusive("TLC printed %d histories for %d distinct states" % (n_hist, r3["distinct"]))
    os.remove(r3["out"])
    # the abstract keys are realised twice: as themselves, and with a suffix of characters that JSON must escape
    # (control characters, quote, backslash, U+2028, ...: harness c19.go ck/ak), so that encode/decode is judged on both
    replayed = failed = 0
    for keyform in ("plain", "escaped"):
        res = os.path.join(ctx.scratch, "replay_%s.out" % keyform)
        ctx.run_worker(["c19-replay", "-keyform", keyform], stdin_path=hist_file, stdout_path=res)
        done = 0
        for line in open(res):
            r = json.loads(line)
            if "replayed" in r:
                done = r["replayed"]
                failed += r["failed"]
                continue
            op = r["hist"][r["step"]]["op"] if r["hist"] else "new"
            ctx.fail(classify(op, r["failure"]), r["failure"] + (" (keys realised with characters that need escaping)" if keyform == "escaped" else ""),
                     {"hist": r["hist"], "m": r["m"], "keyform": keyform})
        if done != n_hist:
            raise core.Inconclusive("worker replayed %d of %d histories (%s keys)" % (done, n_hist, keyform))
        replayed += done
    cov["key_realisations"] = ["plain", "escaped (suffix of control characters, DEL, quote, backslash, <, &, U+2028, U+00E9, U+E0001)"]
    with open(hist_file) as f:
        for i, line in enumerate(f):
            if i in (7, 1000, n_hist - 1):
                cov["samples"].append(json.loads(line))

    # (C) random long histories on the real map, validated by TLC against the abstract spec
    traces = 40 if quick else 400
    length = 200 if quick else 300
    trace = os.path.join(ctx.scratch, "c19_trace.ndjson")
    ctx.run_worker(["c19-random", "-seed", str(ctx.seed), "-traces", str(traces), "-len", str(length)], stdout_path=trace)
    recs = [json.loads(x) for x in open(trace)]
    r4 = ctx.run_tlc("OrderedMapTrace", "OrderedMapTrace.cfg", workers=1, timeout=900, files={"c19_trace.ndjson": trace})
    consumed = [int(x) for x in _ints(r4["out"], "CONSUMED")]
    if not consumed or consumed[-1] != len(recs):
        raise core.Inconclusive("trace spec consumed %s of %d records" % (consumed, len(recs)))
    nfail = 0
    trace_no, t = [], 0
    for r in recs:
        t += 1 if r["ev"] == "reset" else 0
        trace_no.append(t)
    bad_traces = set()
    for idx in _ints(r4["out"], "FAIL"):
        rec = recs[idx - 1]
        nfail += 1
        bad_traces.add(trace_no[idx - 1])
        # rebuild the history of this trace up to the failing record for the replay file
        j = idx - 1
        hist = []
        while j >= 0 and recs[j]["ev"] != "reset":
            hist.insert(0, {k: v for k, v in recs[j].items() if k in ("op", "k", "v", "by", "keep", "pairs") and v not in ("", 0, [])})
            j -= 1
        f = rec["failure"] or "iterate: observed state differs from the specification's"
        pre = recs[idx - 2]["post"] if idx >= 2 and recs[idx - 2]["ev"] == "op" else []
        ctx.fail(classify(rec["op"], f), f + " (random trace, record %d)" % idx, {"hist": hist, "m": _expected(pre, rec),
                  "keyform": "escaped" if (trace_no[idx - 1] - 1) % 2 == 1 else "plain"})
    ops_validated = sum(1 for r in recs if r["ev"] == "op") - nfail

    # binding self-test: a corrupted record must be rejected in strict mode
    bad = [dict(r) for r in recs[:60]]
    flipped = False
    for r in bad:
        if r["ev"] == "op" and len(r["post"]) >= 2 and not r["failure"]:
            r["post"] = [r["post"][1], r["post"][0]] + r["post"][2:]
            flipped = True
            break
    if flipped:
        badf = os.path.join(ctx.scratch, "bad.ndjson")
        open(badf, "w").write("".join(json.dumps(r) + "\n" for r in bad))
        r5 = ctx.run_tlc("OrderedMapTrace", "OrderedMapTrace.cfg", workers=1, timeout=300,
                         files={"c19_trace.ndjson": badf}, constants={"Strict": "TRUE"}, allow_violation=True)
        if not r5["violated"]:
            raise core.Inconclusive("binding self-test: corrupted trace was accepted")
        cov["binding_selftest"] = "corrupted record rejected by OrderedMapTrace (Strict)"

    # thorough: unbounded-history argument for the representation invariant (Apalache, inductive)
    if not quick:
        cov["apalache"] = apalache_indinv(ctx)

    cov.update({
        "states": r1["distinct"] + r2["distinct"] + r3["distinct"] + r4["distinct"],
        "transitions": r1["generated"] + r2["generated"] + r3["generated"] + r4["generated"],
        "traces_validated_against_impl": replayed - failed + traces - len(bad_traces),
        "exhaustive": True,
        "evaluations": replayed + ops_validated + nfail,
        "distinct_nontrivial": n_hist - 1,
        "rule": "one evaluation = one history replayed on the real map from New() with all observers compared "
                "(exhaustive: every history of <=%d state-changing operations over 19 operation instances) "
                "or one operation of a random history validated by TLC; non-trivial = non-empty history, "
                "histories are distinct by construction (one per TLC state)" % maxlen,
        "histories_exhaustive": n_hist, "max_len": maxlen,
        "random_histories": traces, "random_ops_validated_by_tlc": ops_validated,
        "checker_cmd": "tlc OrderedMapImplMC; tlc OrderedMapHistMC (MaxLen=%d); worker c19-replay; worker c19-random | tlc OrderedMapTrace" % maxlen,
    })
    return ctx.finish("model_checking", cov, [
        "keys are strings and values ints (the instantiation ast.Schema uses has string keys)",
        "Sort is exercised with three comparison functions (ascending, descending, a coarse one for stability)",
    ])



def _ints(path, tag):
    out = []
    pat = re.compile(r'^<<"%s", (\d+)>>' % tag)
    with open(path, errors="replace") as f:
        for line in f:
            m = pat.match(line)
            if m:
                out.append(int(m.group(1)))
    return out


def _expected(pre, rec):
    # expected state is recomputed by the worker from the spec only in TLC; for the replay file we
    # keep the observed pre-state and the operation, the replay re-checks all observers
    return pre


def apalache_indinv(ctx):
    import shutil
    import subprocess
    d = ctx.sub("apalache")
    shutil.copy(os.path.join(core.VERIF, "spec", "OrderedMapApa.tla"), d)
    outs = []
    for args in (["--init=Init", "--inv=IndInv", "--length=0"], ["--init=IndInit", "--inv=IndInv", "--length=1"]):
        p = subprocess.run(["timeout", "600", "apalache-mc", "check"] + args + ["--out-dir=" + os.path.join(d, "out"), "OrderedMapApa.tla"],
                           cwd=d, capture_output=True, text=True)
        ok = "EXITCODE: OK" in p.stdout
        outs.append({"args": " ".join(args), "ok": ok})
        if not ok:
            core.log(p.stdout[-2000:])
            raise core.Inconclusive("apalache inductive check failed: %s" % " ".join(args))
    return outs
