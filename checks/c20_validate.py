"""Reference validator for C20, run with python3-vt (jsonschema) as ONE subprocess for all documents.

stdin : ndjson {"id", "file", "doc"}          argv[1]: directory holding the published schemas
stdout: ndjson {"id", "accept", "class", "keys": [{"at": [...], "key": k}], "msg"}
class: ok | key (every error is an additionalProperties error) | structure (the other errors are about which keys are
       present together: minProperties, maxProperties, required, oneOf, ...) | value (anything else: types, enums, ...)
"""
import json
import os
import sys

import jsonschema

STRUCTURE = {"minProperties", "maxProperties", "required", "oneOf", "anyOf", "allOf", "not", "dependentRequired", "dependentSchemas",
             "dependencies", "propertyNames", "patternProperties", "if", "then", "else", "unevaluatedProperties"}

FILES = {"pipeline": "pipeline.json", "compiler": "compiler_passes.json", "veneers": "veneers.json"}


def main():
    d = sys.argv[1]
    validators = {}
    defs = {}
    for f, fn in FILES.items():
        sch = json.load(open(os.path.join(d, fn)))
        cls = jsonschema.validators.validator_for(sch, default=jsonschema.Draft202012Validator)
        cls.check_schema(sch)
        validators[f] = cls(sch)
        defs[f] = {id(v): k for k, v in (sch.get("$defs") or {}).items()}
    out = sys.stdout
    for line in sys.stdin:
        r = json.loads(line)
        try:
            errs = []
            # every YAML document of the file, as an editor does (a null entry of "extra" is an empty document: nothing to validate)
            for d in [r["doc"]] + [x for x in (r.get("extra") or []) if x is not None]:
                errs += list(validators[r["file"]].iter_errors(d))
        except Exception as ex:  # e.g. a $ref that does not resolve: the published schema cannot be used on this document
            out.write(json.dumps({"id": r["id"], "accept": False, "class": "structure", "keys": [], "keywords": ["schema-error:#"],
                                  "msg": "published schema unusable: %s" % str(ex)[:200]}) + "\n")
            continue
        if not errs:
            out.write(json.dumps({"id": r["id"], "accept": True, "class": "ok", "keys": [], "keywords": [], "msg": ""}) + "\n")
            continue
        keys = []
        other = []
        kinds = set()
        where = []
        for e in errs:
            if e.validator == "additionalProperties" and isinstance(e.instance, dict):
                props = set((e.schema.get("properties") or {}).keys())
                at = ["[]" if isinstance(p, int) else p for p in e.absolute_path]
                for k in sorted(set(e.instance) - props):
                    keys.append({"at": at, "key": k})
            else:
                kinds.add(e.validator)
                # the definition the failing keyword sits in (identity of the sub-schema object), "#" for inline schemas
                name = defs[r["file"]].get(id(e.schema), "#")
                where.append("%s:%s" % (e.validator, name))
                other.append("%s at /%s: %s" % (e.validator, "/".join(str(p) for p in e.absolute_path), e.message[:200]))
        out.write(json.dumps({"id": r["id"], "accept": False, "class": ("key" if not other else "structure" if kinds <= STRUCTURE else "value"),
                              "keys": keys, "keywords": sorted(set(where)),
                              "msg": "; ".join(other)[:600] if other else errs[0].message[:300]}) + "\n")


if __name__ == "__main__":
    main()
