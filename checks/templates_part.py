"""Growth item 7 (DESIGN Appendix E) - template registration, override resolution and rendering.

requirement (spec/Templates.tla): R1 the last non-empty definition of a name (source order, then walk order) renders and an
      empty definition never hides a non-empty one; R2 two non-empty definitions of one name in ONE file fail the set;
      R3 a name exists iff something names it; R4 rendering = concatenation, includeIfExists of an unknown name renders
      nothing, include/template of an unknown name is an error; R5 rendering always terminates (cycles are errors, never a
      stack overflow or a hang); R6 the spelling of an override directory does not matter.
spec: Templates.tla (the registry as text/template keeps it - parse.Tree.add, Template.associate - as a fold, and the
      declarative reading; TLC checks they agree on every history), TemplatesMC.tla (histories of files over the embedded
      source and two override directories; 8 body shapes x 13 definition lists per file name), TemplatesTrace.tla.
real code: internal/jennies/template (New + ParseFS + ParseDirectories, Render, Exists) through the facade extension
      harness/facade_ext/templates.go; every record is judged by TLC (TemplatesTrace recomputes the requirement from
      the recorded files).

None of R1-R4, R6 is one of the listed properties: a mismatch there is printed as an OBSERVATION and counted in the coverage.
R5 is C04's business (no panic, no hang, no stack overflow whatever the user supplies - here: override templates), so a
crash or hang is returned as a C04 failure: signature C04/templates/<panic|hang>/<shape class>.

run_part(ctx) -> dict(fails=[(signature, what, replay, key)], coverage={...}, tlc=[...])
"""
import json
import os

from vlib import core

QUICK_SLICES = 10


def shape_class(rec):
    ks = set()
    for f in rec["files"]:
        for it in f["body"]:
            ks.add(it["k"])
        for d in f["defs"]:
            ks.add("define")
            for it in d["body"]:
                ks.add(it["k"])
    return "+".join(sorted(ks)) or "empty"


def run_trace(ctx, trace_path, strict=False, allow_violation=False):
    r = ctx.run_tlc("TemplatesTrace", "TemplatesTrace.cfg", workers=1, timeout=1800,
                    files={"templates_trace.ndjson": trace_path},
                    constants={"Strict": "TRUE"} if strict else None, allow_violation=allow_violation)
    fails = {f["l"]: f["violated"] for f in core.tagged_lines(r["out"], "FAIL")}
    consumed = [int(x) for x in _ints(r["out"], "CONSUMED")]
    return r, fails, (consumed[-1] if consumed else 0)


def _ints(path, tag):
    pre = '<<"%s", ' % tag
    for line in open(path, errors="replace"):
        if line.startswith(pre):
            yield line[len(pre):].rstrip().rstrip(">")


def replay(ctx, tlc_out, tag, spelling="mixed", slice_=0, of=1):
    """-> (trace path, summary, fatal) ; fatal = the record of a case that killed the worker process (stack overflow, out of
    memory: not recoverable in Go), found by running the cases again one at a time with a progress file."""
    trace = os.path.join(ctx.scratch, "tpl-%s-trace.ndjson" % tag)
    summ = os.path.join(ctx.scratch, "tpl-%s-sum.json" % tag)
    args = ["templates-replay", "-in", tlc_out, "-trace", trace, "-work", os.path.join(ctx.scratch, "tpl-%s-work" % tag),
            "-spelling", spelling, "-slice", str(slice_), "-of", str(of)]
    try:
        ctx.run_worker(args + ["-par", "12"], stdout_path=summ, timeout=3000)
        return trace, json.load(open(summ)), None
    except core.Inconclusive as e:
        if "worker failed" not in str(e):
            raise
    prog = os.path.join(ctx.scratch, "tpl-%s-progress.json" % tag)
    try:
        ctx.run_worker(args + ["-par", "1", "-progress", prog], stdout_path=summ, timeout=6000)
    except core.Inconclusive as e:
        if "worker failed" not in str(e) or not os.path.exists(prog):
            raise
        rec = json.load(open(prog))
        rec.update({"hang": False, "fatal": True, "got": {"failed": False, "panic": "fatal error: the process died", "render": {}, "exists": {}}})
        open(trace, "w").close()
        return trace, {"cases": 0, "set_failed": 0}, rec
    raise core.Inconclusive("the template worker failed with 12 probes in flight but not one at a time")


def judge(ctx, trace, tag):
    recs = [json.loads(x) for x in open(trace)]
    if not recs:
        return recs, {}, []
    keep = os.path.join(ctx.scratch, "tpl-%s-kept.ndjson" % tag)
    with open(keep, "w") as f:
        f.writelines(json.dumps(r) + "\n" for r in recs)
    tr, fails, consumed = run_trace(ctx, trace)
    if consumed != len(recs):
        raise core.Inconclusive("TemplatesTrace consumed %d of %d records" % (consumed, len(recs)))
    return recs, fails, [tr]


def selftest(ctx, recs):
    """The binding has teeth: a real record is accepted by TemplatesTrace(Strict); the same record with the rendered text
    of one query altered, or with `exists` flipped, is rejected."""
    good = next((r for r in recs if not r["got"]["failed"] and any(not v["err"] and v["out"] for v in r["got"]["render"].values())), None)
    if good is None:
        raise core.Inconclusive("templates self-test: no record renders anything")
    q = next(k for k, v in good["got"]["render"].items() if not v["err"] and v["out"])
    bad1 = json.loads(json.dumps(good))
    bad1["got"]["render"][q]["out"] += "x"
    bad2 = json.loads(json.dumps(good))
    bad2["got"]["exists"][q] = not bad2["got"]["exists"][q]
    out = []
    for name, rec, want_reject in (("good", good, False), ("bad-output", bad1, True), ("bad-exists", bad2, True)):
        p = os.path.join(ctx.scratch, "tpl-self-%s.ndjson" % name)
        open(p, "w").write(json.dumps(rec) + "\n")
        r, _f, _c = run_trace(ctx, p, strict=True, allow_violation=True)
        if r["violated"] != want_reject:
            raise core.Inconclusive("templates binding self-test: %s %s" % (name, "accepted" if want_reject else "rejected"))
        out.append(r)
    return "TemplatesTrace(Strict) accepts a real record and rejects it with the rendered text altered / `exists` flipped", out


def run_part(ctx):
    if not getattr(ctx, "worker", None):
        ctx.build_worker()
    thorough = ctx.tier == "thorough"
    tlc, fails, observations = [], [], {}
    cov = {"templates_rule": "every distinct template set of TemplatesMC is rebuilt with the real template package and judged by "
                             "TemplatesTrace (R1-R5); design: fold (as text/template registers) = declaration (R1-R3) on every history"}
    # design check + case emission (exhaustive, 2 files over 3 sources)
    mc = ctx.run_tlc("TemplatesMC", "TemplatesMC.cfg", workers=8, timeout=1800)
    tlc.append(mc)
    nslices = 1 if thorough else QUICK_SLICES
    trace, summ, fatal1 = replay(ctx, mc["out"], "mc", slice_=ctx.seed % nslices, of=nslices)
    recs, tfails, trs = judge(ctx, trace, "mc")
    tlc += trs
    all_recs = [(recs, tfails, "mc")]
    # deeper histories by seeded simulation (3-4 files)
    sim = ctx.run_tlc("TemplatesMC", "TemplatesMC.cfg", workers=1, timeout=1800, simulate="num=%d" % (600 if thorough else 60),
                      depth=7, constants={"MaxFiles": "4"})
    tlc.append(sim)
    # -simulate evaluates Emit on every successor of every state it visits: far more histories than behaviours; a slice is replayed
    sof = 20
    strace, ssumm, fatal2 = replay(ctx, sim["out"], "sim", slice_=ctx.seed % sof, of=sof)
    srecs, sfails, trs = judge(ctx, strace, "sim")
    tlc += trs
    all_recs.append((srecs, sfails, "sim"))
    # R6: the ./ spelling on a small slice (override cases only) - observation only
    dtrace, dsumm, fatal3 = replay(ctx, mc["out"], "dot", spelling="dot", slice_=ctx.seed % 200, of=200)
    drecs, dfails, trs = judge(ctx, dtrace, "dot")
    tlc += trs
    all_recs.append((drecs, dfails, "dot"))

    for rec in (fatal1, fatal2, fatal3):
        if rec:
            cls = shape_class(rec)
            fails.append(("C04/templates/fatal/%s" % cls, "rendering override templates kills the process (fatal error such as a stack "
                          "overflow; not recoverable): files %s" % json.dumps(rec["files"])[:400], {"part": "templates", "record": rec}, None))
    if fails and not recs:
        return {"fails": fails, "coverage": cov, "tlc": tlc}
    judged = accepted = 0
    classes = {}
    samples = []
    for rs, fl, tag in all_recs:
        for i, rec in enumerate(rs, start=1):
            judged += 1
            cls = shape_class(rec)
            classes[cls] = classes.get(cls, 0) + 1
            v = fl.get(i)
            if not v:
                accepted += 1
                continue
            for clause in v:
                if clause == "R5-crash-or-hang":
                    kind = "hang" if rec["hang"] else "panic"
                    sig = "C04/templates/%s/%s" % (kind, cls)
                    what = "template set %s while rendering override templates (%s): files %s" % (
                        "hangs" if rec["hang"] else "panics: " + rec["got"].get("panic", "")[:160], cls, json.dumps(rec["files"])[:400])
                    fails.append((sig, what, {"part": "templates", "record": rec}, None))
                else:
                    key = "%s/%s" % (clause, "dot-spelling" if tag == "dot" else "any-spelling")
                    o = observations.setdefault(key, {"count": 0, "sample": None})
                    o["count"] += 1
                    if o["sample"] is None:
                        o["sample"] = {"files": rec["files"], "spelling": rec["spelling"], "got": rec["got"]}
            if len(samples) < 3:
                samples.append({"files": rec["files"], "violated": v})
    note, self_tlc = selftest(ctx, recs)
    tlc += self_tlc
    for k, o in sorted(observations.items()):
        print("OBSERVATION (outside the listed properties): templates %s x%d, e.g. spelling=%s files=%s" % (
            k, o["count"], o["sample"]["spelling"], json.dumps(o["sample"]["files"])[:300]))
    cov.update({"templates_sets_exhaustive": mc["distinct"], "templates_records_judged_by_tlc": judged,
                "templates_records_accepted": accepted, "templates_shape_classes": len(classes),
                "templates_set_errors_seen": summ.get("set_failed", 0) + ssumm.get("set_failed", 0),
                "templates_observations": {k: o["count"] for k, o in observations.items()},
                "templates_binding_selftest": note,
                "templates_samples": samples})
    if judged == 0 or summ.get("set_failed", 0) == 0:
        raise core.Inconclusive("templates part is vacuous: %d records, %d set errors" % (judged, summ.get("set_failed", 0)))
    return {"fails": fails, "coverage": cov, "tlc": tlc}


def replay_part(ctx, rp):
    """Replay of one stored record: rebuild the set from its files and judge it again."""
    if not getattr(ctx, "worker", None):
        ctx.build_worker()
    rec = rp["record"]
    fake = os.path.join(ctx.scratch, "tpl-replay-cases.txt")
    payload = json.dumps({"files": rec["files"], "expect": {}})
    open(fake, "w").write('<<"CASE", %s>>\n' % json.dumps(payload))
    trace, _, fatal = replay(ctx, fake, "rp", spelling=rec.get("spelling", "abs"))
    if fatal:
        return [("C04/templates/fatal/%s" % shape_class(fatal), "replayed", {"part": "templates", "record": fatal}, None)]
    recs, tfails, _ = judge(ctx, trace, "rp")
    out = []
    for i, r in enumerate(recs, start=1):
        if "R5-crash-or-hang" in tfails.get(i, []):
            kind = "hang" if r["hang"] else "panic"
            out.append(("C04/templates/%s/%s" % (kind, shape_class(r)), "replayed", {"part": "templates", "record": r}, None))
    return out


def run(ctx):
    """Stand-alone entry (./vcheck TEMPLATES_PART): prints the observations, reports crashes/hangs under C04's signatures."""
    part = run_part(ctx)
    for sig, what, rp, key in part["fails"]:
        ctx.fail(sig, what, rp, key)
    cov = part["coverage"]
    for k, v in (("templates_records_accepted", 0), ("templates_records_judged_by_tlc", 1), ("templates_shape_classes", 0), ("templates_samples", [])):
        cov.setdefault(k, v)
    cov.update({"states": sum(r["distinct"] for r in part["tlc"]), "transitions": sum(r["generated"] for r in part["tlc"]),
                "traces_validated_against_impl": cov["templates_records_accepted"], "exhaustive": True,
                "evaluations": cov["templates_records_judged_by_tlc"], "distinct_nontrivial": cov["templates_shape_classes"],
                "rule": cov["templates_rule"], "samples": cov["templates_samples"] or [{"note": "every record accepted"}]})
    return ctx.finish("model_checking", cov, ["template bodies are drawn from 8 shapes; data passed to templates is not modelled"])
