"""C04 - no input or configuration makes cog panic or hang.

spec:  Malformed.tla (the requirement: outcome in {files, error} within bounded time; sites and edits of a JSON document),
       MalformedMC.tla (TLC enumerates every (family, base document, site, mutation): JSON Schema / OpenAPI documents, CUE
       expressions x positions, pipeline / schema-transformation / builder-transformation YAML trees),
       MalformedTrace.tla (TLC re-judges every recorded real outcome).
real:  every case is the WHOLE real pipeline (codegen.PipelineFromFile + Run) in a worker subprocess under recover() and a
       20 s watchdog (worker `c04-run`), first without output languages (parsers, consolidation, common passes), then - when
       that stage returns - once per output language with every output kind and generation flag on (thorough: also under a
       second, seeded member of the flag lattice). A recovered panic, a dead worker (stack overflow, fatal error) or a
       timeout that repeats is a violation with signature C04/<top cog frame>/<panic class>.
       On top: a seeded byte-level mutation sample of the well-formed renderings (truncation, bit flips, splices), labelled
       as sampling.
level: exploration.
"""
import collections
import json
import os
import random
import re
import subprocess
import time

from checks import gencode_common as g
from checks import semantics_common as sc
from vlib import core

FAMILIES = ("jsonschema", "openapi", "cue", "pipeline", "passes", "veneers", "sequences", "parameters")
# small families whose cases are cheap (one JSON Schema input): run completely in every tier
DENSE = ("sequences", "parameters")
TIMEOUT_MS = 20000
NPROC = 12
BUILDER_LANGS = ("go", "python", "java", "typescript", "php")
ALL_ON = {
    "go": ("generate_json_marshaller", "generate_strict_unmarshaller", "generate_equal", "generate_validate"),
    "python": ("generate_json_marshaller",), "java": ("generate_json_marshaller",), "typescript": ("enums_as_union_types",),
    "php": ("generate_json_marshaller",), "jsonschema": (), "openapi": (),
}
ALT_ON = {      # the second configuration of the thorough tier: the other half of every flag
    "go": ("any_as_interface", "skip_runtime"), "python": ("skip_runtime",), "java": ("skip_runtime",), "typescript": ("skip_runtime",),
    "php": (), "jsonschema": (), "openapi": (),
}


# ----------------------------------------------------------------------------------------------
# documents
# ----------------------------------------------------------------------------------------------
def jv(v):
    return sc.jv_to_py(v)


CUE_PRELUDE = {
    "#Child": "#Child: {cid: int}", "#Other": "#Other: {o: string}", "#Self": "#Self: #Self",
    "#LoopA": "#LoopA: #LoopB\n#LoopB: #LoopA", "#KindA": "#KindA: {kind: \"a\", x: int}", "#KindB": "#KindB: {kind: \"b\", y: string}",
    "#Color": "#Color: \"red\" | \"green\" @cog(kind=\"enum\",memberNames=\"red|green\")",
}


def cue_text(expr, pos, package):
    defs = [text for name, text in CUE_PRELUDE.items() if name in expr]
    imports = [i for i in ("time", "strings") if (i + ".") in expr]
    head = "package %s\n\n" % package
    if imports:
        head += "import (\n%s)\n\n" % "".join('\t"%s"\n' % i for i in imports)
    body = {
        "definition": "#Subject: %s\n#Root: {w: string, v: #Subject}" % expr,
        "field": "#Root: {\n\tw: string\n\tv: %s\n}" % expr,
        "optional-field": "#Root: {\n\tw: string\n\tv?: %s\n}" % expr,
        "list-element": "#Root: {\n\tw: string\n\tv: [...%s]\n}" % expr,
        "map-value": "#Root: {\n\tw: string\n\tv: {[string]: %s}\n}" % expr,
        "disjunction-branch": "#Root: {\n\tw: string\n\tv: %s | bool\n}" % expr,
        "default-value": "#Root: {\n\tw: string\n\tv: string | *%s\n}" % expr,
        "nested-field": "#Root: {\n\tw: string\n\tv: {inner: {deep?: %s}}\n}" % expr,
        "embedded": "#Root: {\n\t%s\n\tw: string\n}" % expr,
        "top-level-field": "#Root: {w: string}\nv: %s" % expr,
    }[pos]
    return head + "\n".join(defs) + ("\n" if defs else "") + body + "\n"


WELLFORMED_CUE = ("package cfgc\n\n#Child: {cid: int}\n#Root: {\n\tname: string\n\ton?: bool\n\tkids: [...#Child]\n\tlabels: {[string]: string}\n"
                  "\tu: string | int\n}\n")


def lang_yaml(lang, alt=False):
    on = set(ALT_ON[lang] if alt else ALL_ON[lang])
    return g.language_yaml(lang, on, "out/" + lang)


def out_yaml(lang, alt=False):
    """output section for one language (None = no output language): every output kind on; the alternative
    configuration switches the runtime off and therefore builders/converters too (the lattice's exclusion)."""
    if lang is None:
        return "output:\n  directory: 'out'\n  types: true\n  builders: true\n  converters: true\n  api_reference: true\n  languages: []\n"
    b = "false" if alt and "skip_runtime" in ALT_ON[lang] else "true"
    y = "output:\n  directory: 'out/%%l'\n  types: true\n  builders: %s\n  converters: %s\n  api_reference: true\n  languages:\n" % (b, b)
    return y + lang_yaml(lang, alt)


class Universe:
    """Materialises TLC's cases as files and pipeline YAMLs below one scratch directory."""

    def __init__(self, ctx):
        self.ctx = ctx
        self.dir = ctx.sub("cases")
        self.fixed = os.path.join(self.dir, "_fixed")
        os.makedirs(self.fixed)
        self.n = 0
        self.base_docs = {}

    def write_fixed(self, bases):
        """well-formed companions: the base documents of every family (placeholders of the pipeline family)"""
        f = self.fixed
        open(os.path.join(f, "base.json"), "w").write(json.dumps(jv(bases["jsonschema"]), indent=1))
        open(os.path.join(f, "base.openapi.json"), "w").write(json.dumps(jv(bases["openapi"]), indent=1))
        os.makedirs(os.path.join(f, "cfgc"))
        open(os.path.join(f, "cfgc", "cfgc.cue"), "w").write(WELLFORMED_CUE)
        open(os.path.join(f, "passes.yaml"), "w").write("passes:\n  - entrypoint_identification: {}\n")
        os.makedirs(os.path.join(f, "veneers"))
        open(os.path.join(f, "veneers", "v.yaml"), "w").write("language: all\npackage: cfgt\nbuilders: []\noptions: []\n")
        self.subst = {"@JS@": os.path.join(f, "base.json"), "@OA@": os.path.join(f, "base.openapi.json"), "@CUE@": os.path.join(f, "cfgc"),
                      "@PASSES@": os.path.join(f, "passes.yaml"), "@VENEERS@": os.path.join(f, "veneers")}

    def fill(self, x):
        if isinstance(x, str):
            return self.subst.get(x, x)
        if isinstance(x, list):
            return [self.fill(v) for v in x]
        if isinstance(x, dict):
            return {k: self.fill(v) for k, v in x.items()}
        return x

    def materialise(self, case):
        """-> dict(inputs_yaml | config path, extra) describing how the pipeline YAML of this case is built."""
        self.n += 1
        d = os.path.join(self.dir, "c%06d" % self.n)
        os.makedirs(d)
        fam = case["fam"]
        case["dir"] = d
        if fam in ("jsonschema", "openapi"):
            p = os.path.join(d, "doc.json")
            text = case.get("bytes")
            if text is None:
                text = json.dumps(jv(case["doc"]), indent=1).encode()
            open(p, "wb").write(text)
            case["input"] = g.input_yaml(fam, p, "cfgt") if fam == "jsonschema" else \
                "  - openapi:\n      path: '%s'\n      package: cfgt\n      no_validate: %s\n" % (p, "true" if case.get("no_validate") else "false")
        elif fam == "cue":
            cd = os.path.join(d, "cfgt")
            os.makedirs(cd)
            text = case.get("bytes")
            if text is None:
                text = cue_text(case["expr"], case["pos"], "cfgt").encode()
            open(os.path.join(cd, "cfgt.cue"), "wb").write(text)
            case["input"] = g.input_yaml("cue", cd, "cfgt")
        elif fam == "passes":
            p = os.path.join(d, "passes.yaml")
            open(p, "wb").write(case.get("bytes") or json.dumps(jv(case["doc"]), indent=1).encode())
            case["input"] = g.input_yaml("jsonschema", self.subst["@JS@"], "cfgt")
            case["transforms"] = "transformations:\n  schemas: ['%s']\n" % p
        elif fam in ("veneers", "sequences"):
            vd = os.path.join(d, "veneers")
            os.makedirs(vd)
            open(os.path.join(vd, "v.yaml"), "wb").write(case.get("bytes") or json.dumps(jv(case["doc"]), indent=1).encode())
            case["input"] = g.input_yaml("jsonschema", self.subst["@JS@"], "cfgt")
            case["transforms"] = "transformations:\n  builders: ['%s']\n" % vd
        elif fam in ("pipeline", "parameters"):
            p = os.path.join(d, "pipeline.yaml")
            open(p, "wb").write(case.get("bytes") or json.dumps(self.fill(jv(case["doc"])), indent=1).encode())
            case["yaml"] = p
        return case

    def yaml_for(self, case, lang, alt=False):
        if case["fam"] in ("pipeline", "parameters"):
            return case["yaml"]
        p = os.path.join(case["dir"], "run-%s%s.yaml" % (lang or "none", "-alt" if alt else ""))
        if not os.path.exists(p):
            open(p, "w").write("debug: false\ninputs:\n" + case["input"] + case.get("transforms", "") + out_yaml(lang, alt))
        return p


# ----------------------------------------------------------------------------------------------
# runner: sharded worker subprocesses, restart after a death, second run for timeouts
# ----------------------------------------------------------------------------------------------
def _run_shard(ctx, jobs, cwd, timeout_ms):
    """Runs jobs in order in worker subprocesses; a process death or timeout exit is attributed to the job that had
    begun, the remaining jobs continue in a fresh process. -> {id: record}"""
    res = {}
    todo = list(jobs)
    while todo:
        inp = "".join(json.dumps({"id": j["id"], "yaml": j["yaml"], "timeout_ms": timeout_ms}) + "\n" for j in todo)
        p = subprocess.Popen([ctx.worker, "c04-run"], stdin=subprocess.PIPE, stdout=subprocess.PIPE, stderr=subprocess.PIPE,
                             env=ctx.goenv(), cwd=cwd)
        try:
            out, err = p.communicate(inp.encode(), timeout=len(todo) * (timeout_ms / 1000.0 + 5) + 60)
        except subprocess.TimeoutExpired:
            p.kill()
            out, err = p.communicate()
        begun = None
        for line in out.decode(errors="replace").splitlines():
            try:
                r = json.loads(line)
            except ValueError:
                continue            # cog printing to stdout is not our business
            if "begin" in r:
                begun = r["begin"]
            elif "id" in r and "outcome" in r:
                res[r["id"]] = r
                if begun == r["id"]:
                    begun = None
        done = set(res)
        if begun is not None and begun not in done:
            # the worker died while running `begun`
            res[begun] = {"id": begun, "outcome": "crash", "exit": p.returncode, "stderr": _head_tail(err.decode(errors="replace")), "ms": 0}
            done.add(begun)
        elif p.returncode not in (0, 3):
            core.log(err.decode(errors="replace")[-2000:])
            raise core.Inconclusive("c04-run exited with %s without a job in flight" % p.returncode)
        rest = [j for j in todo if j["id"] not in done]
        if len(rest) == len(todo):
            raise core.Inconclusive("c04-run made no progress")
        todo = rest
    return res


def _head_tail(s, n=12000):
    return s if len(s) <= 2 * n else s[:n] + "\n...\n" + s[-n:]


def run_jobs(ctx, jobs, cwd, nproc=NPROC, timeout_ms=TIMEOUT_MS):
    import concurrent.futures
    shards = [jobs[i::nproc] for i in range(nproc)]
    res = {}
    with concurrent.futures.ThreadPoolExecutor(max_workers=nproc) as ex:
        for r in ex.map(lambda sh: _run_shard(ctx, sh, cwd, timeout_ms) if sh else {}, shards):
            res.update(r)
    # "only reported after the same input timed out twice": run timeouts a second time, alone
    # A systematic hang would otherwise cost 20 s per affected input, twice: at most two inputs per signature are run the
    # second time; the others are recorded as `timeout-once` (neither a regular outcome nor a violation).
    again = [j for j in jobs if res[j["id"]]["outcome"] == "timeout"]
    confirmed = collections.Counter()
    for j in again:
        sig = signature(res[j["id"]])[0]
        if confirmed[sig] >= 2:
            res[j["id"]]["outcome"] = "timeout-once"
            continue
        r2 = _run_shard(ctx, [j], cwd, timeout_ms)[j["id"]]
        if r2["outcome"] != "timeout":
            r2["first_run_timed_out"] = True
            res[j["id"]] = r2
        else:
            res[j["id"]]["confirmed"] = True
            confirmed[sig] += 1
    return res


# ----------------------------------------------------------------------------------------------
# signatures
# ----------------------------------------------------------------------------------------------
_COG = re.compile(r"github\.com/grafana/cog/internal/((?:[\w\-]+/)*)([\w\-]+)\.(.+)$")


def cog_frame(frames, _nested=False):
    """top-most frame inside github.com/grafana/cog (not the verification facade): pkg.Function.
    Receivers, generic instantiations and closure suffixes are dropped; for closures that the compiler inlined into
    their callers (a.B.C.func1) the innermost named function is kept."""
    for f in frames:
        if "github.com/grafana/cog/verifapi" in f:
            continue
        m = _COG.match(f.strip())
        if not m:
            continue
        fn = re.sub(r"\[[^\]]*\]", "", m.group(3))           # generic instantiation
        fn = re.sub(r"\(\*?[\w]+\)\.", "", fn)              # pointer / value receiver in parentheses
        parts = [x for x in fn.split(".") if x and not re.fullmatch(r"func\d+|\d+|gowrap\d+", x)]
        if not parts:
            continue
        name = "%s.%s" % (m.group(2), parts[-1])
        if re.fullmatch(r"ast\.As[A-Z]\w*", name) and not _nested:
            # the accessors of ast.Type dereference the member that `Kind` promises: the defect is in the caller that
            # did not check the kind (or let an ill-formed type through), so the caller is part of the site
            rest = frames[frames.index(f) + 1:] if f in frames else []
            caller = cog_frame([x for x in rest if not re.search(r"/ast\.(?:Type\.)?As[A-Z]\w*$", x.strip())], _nested=True)
            return "%s<-%s" % (name, caller)
        return name
    return "outside-cog"


def recursing_frame(frames):
    """stack overflow / hang: the leaf that happened to be running is arbitrary; name the cog function that occupies
    most of the top of the stack (the recursion), ties broken by first occurrence"""
    names = [cog_frame([f], _nested=True) for f in frames[:40]]
    names = [n for n in names if n != "outside-cog"]
    if not names:
        return cog_frame(frames)        # the recursion is inside a library: name the cog function that called into it
    cnt = collections.Counter(names)
    best = max(cnt.values())
    return next(n for n in names if cnt[n] == best)


def panic_class(msg):
    m = msg or ""
    if "index out of range" in m:
        return "index-out-of-range"
    if "slice bounds out of range" in m:
        return "slice-bounds-out-of-range"
    if "nil pointer dereference" in m:
        return "nil-pointer-dereference"
    if "assignment to entry in nil map" in m:
        return "assignment-to-nil-map"
    if "comparing uncomparable type" in m or "hash of unhashable type" in m:
        return "uncomparable-type"
    if "integer divide by zero" in m:
        return "divide-by-zero"
    if "interface conversion:" in m:
        # the dynamic type found depends on which ill-typed value was offered, not on the defect: not part of the class
        return "interface-conversion"
    if "reflect:" in m:
        return "reflect:" + re.sub(r"[^A-Za-z0-9_.*]+", "-", m.split("reflect:")[1])[:40].strip("-")
    m = m.split(":")[0]                 # explicit panic(fmt...): the part before the first colon names the site's message
    txt = re.sub(r"0x[0-9a-f]+|\d+", "N", m)
    txt = re.sub(r"'[^']*'|\"[^\"]*\"", "STR", txt)
    return "explicit:" + re.sub(r"[^A-Za-z0-9_.*]+", "-", txt).strip("-")[:60]


def crash_info(stderr):
    """fatal runtime error in the worker's stderr -> (class, frames)"""
    cls = "fatal"
    m = re.search(r"fatal error: (.*)", stderr)
    if m:
        cls = "fatal:" + re.sub(r"[^A-Za-z0-9_.*]+", "-", m.group(1)).strip("-")[:40]
    if "stack overflow" in stderr or "stack exceeds" in stderr:
        cls = "stack-overflow"
    m2 = re.search(r"^panic: (.*)$", stderr, re.M)
    if m2 and cls == "fatal":
        cls = panic_class(m2.group(1))
    frames = []
    seen_goroutine = False
    for line in stderr.splitlines():
        if line.startswith("goroutine ") and "[running]" in line:
            seen_goroutine = True
            frames = []
            continue
        if seen_goroutine:
            if not line.strip():
                if frames:
                    break
                continue
            if not line.startswith("\t") and not line.startswith("..."):
                frames.append(re.sub(r"\((?!\*).*$", "", line.strip()))      # drop the argument list, keep a (*T) receiver
    return cls, frames


def signature(rec):
    if rec["outcome"] == "panic":
        return "C04/%s/%s" % (cog_frame(rec.get("stack") or []), panic_class(rec.get("panic"))), rec.get("panic", "")
    if rec["outcome"] == "crash":
        cls, frames = crash_info(rec.get("stderr", ""))
        return "C04/%s/%s" % (recursing_frame(frames) if cls == "stack-overflow" else cog_frame(frames), cls), (rec.get("stderr", "")[:300])
    if rec["outcome"] == "timeout":
        return "C04/%s/timeout" % recursing_frame(rec.get("stack") or []), "no result within %d ms, twice" % TIMEOUT_MS
    return None, None


# ----------------------------------------------------------------------------------------------
# byte-level sample
# ----------------------------------------------------------------------------------------------
def byte_mutants(rng, data, n):
    out = []
    for i in range(n):
        kind = ("truncate", "bitflip", "delete", "duplicate", "insert")[i % 5]
        b = bytearray(data)
        if kind == "truncate":
            b = b[:rng.randrange(0, len(b))]
        elif kind == "bitflip":
            for _ in range(rng.randrange(1, 4)):
                k = rng.randrange(len(b))
                b[k] ^= 1 << rng.randrange(8)
        elif kind == "delete":
            k = rng.randrange(len(b))
            del b[k:k + rng.randrange(1, 12)]
        elif kind == "duplicate":
            k = rng.randrange(len(b))
            l = rng.randrange(1, 40)
            b[k:k] = b[k:k + l]
        else:
            k = rng.randrange(len(b))
            b[k:k] = rng.choice([b"{", b"}", b"[", b"]", b'"', b":", b",", b"\x00", b"\xff\xfe", b"null", b"*", b"&", b"|", b"#", b"- ", b"\n\t", b"%l"])
        out.append((kind, bytes(b)))
    return out


# ----------------------------------------------------------------------------------------------
# the check
# ----------------------------------------------------------------------------------------------
def langs_for(case):
    if case["fam"] in ("veneers", "sequences"):
        return BUILDER_LANGS
    return g.LANGS


def run(ctx):
    quick = ctx.quick()
    ctx.build_worker()
    rng = random.Random(ctx.seed)
    uni = Universe(ctx)

    if ctx.replay:
        return replay(ctx, uni)

    # ---- (A) TLC enumerates the structural universe
    r = ctx.run_tlc("MalformedMC", "MalformedMC.cfg", workers=8, timeout=900,
                    constants={"Families": "{%s}" % ",".join('"%s"' % f for f in FAMILIES)})
    cases = []
    bases = {}
    for c in core.tagged_lines(r["out"], "CASE"):
        if c["class"] == "as-is" and c["base"] == 1 and c["fam"] in ("jsonschema", "openapi"):
            bases[c["fam"]] = c["doc"]
        cases.append(c)
    if len(cases) != r["distinct"]:
        raise core.Inconclusive("MalformedMC: %d CASE lines for %d states" % (len(cases), r["distinct"]))
    os.remove(r["out"])
    if set(bases) != {"jsonschema", "openapi"}:
        raise core.Inconclusive("base documents missing from TLC's output")
    uni.write_fixed(bases)
    total = len(cases)
    per_fam_total = collections.Counter(c["fam"] for c in cases)
    cases.sort(key=lambda c: (c["fam"], c["base"], json.dumps(c.get("path", c.get("e"))), c.get("mut", 0), str(c.get("pos", "")), c.get("second", 0), c.get("t", 0)))
    if quick:
        # seeded slice: every k-th case of each family, offset by the seed; the as-is documents always
        k = 12
        cases = [c for i, c in enumerate(cases) if c["class"] == "as-is" or c["fam"] in DENSE or (i + ctx.seed) % k == 0]
    for i, c in enumerate(cases):
        c["cid"] = "%s-%05d" % (c["fam"], i)
        c["origin"] = "tlc"
    # OpenAPI: cog validates the document first unless no_validate is set; both settings are inputs
    extra = []
    for c in cases:
        if c["fam"] == "openapi" and (not quick or hash(c["cid"]) % 2 == 0):
            c2 = dict(c)
            c2["cid"] = c["cid"] + "-nv"
            c2["no_validate"] = True
            extra.append(c2)
    cases += extra

    # ---- (B) byte-level sample on the well-formed renderings (sampling, not enumeration)
    nbytes = 40 if quick else 400
    seeds = {
        "jsonschema": json.dumps(jv(bases["jsonschema"]), indent=1).encode(),
        "openapi": json.dumps(jv(bases["openapi"]), indent=1).encode(),
        "cue": cue_text("#Child | string", "field", "cfgt").encode() + WELLFORMED_CUE.split("\n", 2)[2].encode(),
        "passes": b"passes:\n  - rename_object:\n      from: cfgt.Child\n      to: Kid\n  - fields_set_default:\n      defaults:\n        cfgt.Root.name: zz\n"
                  b"  - add_object:\n      object: cfgt.Added\n      as:\n        kind: struct\n        struct:\n          fields:\n            - name: f\n"
                  b"              type: {kind: scalar, scalar: {scalar_kind: string}}\n",
        "veneers": b"language: all\npackage: cfgt\nbuilders:\n  - rename:\n      by_object: Root\n      as: Main\noptions:\n  - unfold_boolean:\n"
                   b"      by_name: Root.on\n      true_as: enable\n      false_as: disable\n  - disjunction_as_options:\n      by_name: Root.u\n      argument_index: 0\n",
    }
    pipe_text = None
    for c in cases:
        if c["fam"] == "pipeline" and c["class"] == "as-is":
            pipe_text = json.dumps(uni.fill(jv(c["doc"])), indent=1).encode()
    if pipe_text:
        seeds["pipeline"] = pipe_text
    nb = 0
    for fam, data in sorted(seeds.items()):
        for kind, b in byte_mutants(rng, data, nbytes):
            cases.append({"fam": fam, "base": 0, "class": "bytes:" + kind, "keyword": "", "cid": "%s-bytes-%04d" % (fam, nb), "bytes": b, "origin": "bytes"})
            nb += 1

    for c in cases:
        uni.materialise(c)
    core.log("cases: %d of %d TLC cases (+%d no_validate twins, +%d byte-level)" % (
        sum(1 for c in cases if c["origin"] == "tlc" and not c.get("no_validate")), total, len(extra), nb))

    # ---- stage 1: parsers, consolidation, input and common transformations (no output language)
    t0 = time.time()
    by_cid = {c["cid"]: c for c in cases}
    WHOLE = ("pipeline", "parameters")        # the case IS the pipeline configuration: one run
    stage1 = [{"id": c["cid"] + "|none", "yaml": uni.yaml_for(c, None)} for c in cases if c["fam"] not in WHOLE]
    stage1 += [{"id": c["cid"] + "|config", "yaml": c["yaml"]} for c in cases if c["fam"] in WHOLE]
    res = run_jobs(ctx, stage1, uni.dir)
    t1 = time.time()
    # ---- stage 2: every output language on the cases whose first stage returned
    stage2 = []
    for c in cases:
        if c["fam"] in WHOLE:
            continue
        if res[c["cid"] + "|none"]["outcome"] != "files":
            continue
        for lang in langs_for(c):
            stage2.append({"id": "%s|%s" % (c["cid"], lang), "yaml": uni.yaml_for(c, lang)})
            if not quick:
                stage2.append({"id": "%s|%s-alt" % (c["cid"], lang), "yaml": uni.yaml_for(c, lang, alt=True)})
    res.update(run_jobs(ctx, stage2, uni.dir))
    t2 = time.time()
    core.log("stage 1: %d runs %.1fs; stage 2: %d runs %.1fs" % (len(stage1), t1 - t0, len(stage2), t2 - t1))

    # ---- verdicts
    outcome = collections.Counter()
    per_fam = collections.defaultdict(collections.Counter)
    per_class = collections.defaultdict(collections.Counter)
    per_lang = collections.defaultdict(collections.Counter)
    sig_info = collections.defaultdict(list)
    slow = []
    for jid, rec in sorted(res.items()):
        cid, stage = jid.split("|")
        c = by_cid[cid]
        outcome[rec["outcome"]] += 1
        per_fam[c["fam"]][rec["outcome"]] += 1
        per_class[c["class"].split(":")[0]][rec["outcome"]] += 1
        per_lang[stage][rec["outcome"]] += 1
        if rec.get("ms", 0) > 5000:
            slow.append((jid, rec["ms"]))
        sig, what = signature(rec)
        if sig:
            sig_info[sig].append((jid, what))
    for sig, items in sorted(sig_info.items()):
        jid, what = items[0]
        cid, stage = jid.split("|")
        c = by_cid[cid]
        kws = collections.Counter("%s:%s@%s" % (by_cid[j.split("|")[0]]["fam"], by_cid[j.split("|")[0]]["class"], by_cid[j.split("|")[0]].get("keyword") or
                                                by_cid[j.split("|")[0]].get("pos", "")) for j, _ in items)
        rp = {"family": c["fam"], "class": c["class"], "keyword": c.get("keyword"), "path": c.get("path"), "stage": stage,
              "yaml_text": open(uni.yaml_for(c, None if stage in ("none", "config") else stage.replace("-alt", ""), alt=stage.endswith("-alt"))
                                if c["fam"] not in ("pipeline", "parameters") else c["yaml"], errors="replace").read(),
              "files": case_files(c), "stack": res[jid].get("stack") or crash_info(res[jid].get("stderr", ""))[1][:30]}
        ctx.fail(sig, "%s: %s [%s stage %s; %d run(s); inputs: %s]" % (res[jid]["outcome"], str(what)[:200], c["fam"], stage, len(items),
                                                                       ", ".join("%s x%d" % kv for kv in kws.most_common(6))), rp)

    # ---- trace: TLC re-judges every recorded outcome
    tdir = ctx.sub("trace")
    tpath = os.path.join(tdir, "trace.ndjson")
    order = sorted(res)
    with open(tpath, "w") as f:
        for jid in order:
            rec = res[jid]
            cid, stage = jid.split("|")
            c = by_cid[cid]
            f.write(json.dumps({"case": cid, "fam": c["fam"], "class": c["class"], "stage": stage, "outcome": rec["outcome"],
                                "ms": int(rec.get("ms", 0))}, separators=(",", ":")) + "\n")
    rt = ctx.run_tlc("MalformedTrace", "MalformedTrace.cfg", workers=1, timeout=1800, files={"trace.ndjson": tpath})
    consumed = None
    for line in open(rt["out"], errors="replace"):
        mm = re.match(r'^<<"CONSUMED", (\d+)>>', line)
        if mm:
            consumed = int(mm.group(1))
    if consumed != len(order):
        raise core.Inconclusive("MalformedTrace consumed %s of %d records" % (consumed, len(order)))
    tlc_bad = {f["l"] - 1 for f in core.tagged_lines(rt["out"], "FAIL")}
    py_bad = {i for i, jid in enumerate(order) if signature(res[jid])[0]}
    if tlc_bad != py_bad:
        raise core.Inconclusive("TLC and the harness disagree on %d records" % len(tlc_bad ^ py_bad))
    binding = selftest(ctx, res, order, by_cid)

    # ---- vacuity: every family and every mutation class must have reached real code, some through the second stage
    vac = []
    for fam in FAMILIES:
        if sum(per_fam[fam].values()) == 0:
            vac.append("family:" + fam)
    for cls in ("absent", "ill-typed", "degenerate", "expression", "as-is", "bytes", "sequence", "environment"):
        if sum(per_class[cls].values()) == 0:
            vac.append("class:" + cls)
    for lang in g.LANGS:
        if sum(per_lang[lang].values()) == 0:
            vac.append("language:" + lang)
    if outcome["files"] == 0 or outcome["error"] == 0:
        vac.append("both regular outcomes (files, error) must occur")
    if vac:
        raise core.Inconclusive("vacuous: %s" % vac)
    samples = []
    for jid in order:
        cid, stage = jid.split("|")
        c = by_cid[cid]
        if c["origin"] == "tlc" and c["class"] in ("degenerate", "ill-typed") and (hash(cid) + ctx.seed) % 211 == 0 and len(samples) < 3:
            samples.append({"case": cid, "family": c["fam"], "class": c["class"], "keyword": c.get("keyword"), "path": c.get("path"),
                            "mutation": c.get("mut"), "stage": stage, "outcome": res[jid]["outcome"], "err": (res[jid].get("err") or "")[:200]})
    if not samples:
        jid = order[0]
        samples.append({"case": jid, "outcome": res[jid]["outcome"]})
    distinct = {(by_cid[j.split("|")[0]]["cid"]) for j in order if by_cid[j.split("|")[0]]["class"] != "as-is"}
    cov = {
        "evaluations": len(order),
        "distinct_nontrivial": len(distinct),
        "rule": "one evaluation = one whole real pipeline run (PipelineFromFile + Run) of one case under one output setting in a worker "
                "subprocess with recover() and a 20 s watchdog; a case = one TLC state (family, base document, site, mutation) or one byte-level "
                "mutant; non-trivial = the input differs from the well-formed base document (everything except the as-is documents); distinct by case",
        "states": sum(x["distinct"] for x in ctx.tlc_runs), "transitions": sum(x["generated"] for x in ctx.tlc_runs),
        "traces_validated_against_impl": len(order) - len(py_bad), "real_records_validated_by_tlc_trace_spec": len(order),
        "exhaustive": False,
        "tlc_cases_total": total, "tlc_cases_per_family": dict(per_fam_total),
        "cases_run": len(cases), "byte_level_mutants_sampled": nb, "openapi_no_validate_twins": len(extra),
        "stage1_runs": len(stage1), "stage2_runs": len(stage2),
        "outcomes": dict(outcome), "outcomes_per_family": {k: dict(v) for k, v in per_fam.items()},
        "outcomes_per_mutation_class": {k: dict(v) for k, v in per_class.items()},
        "outcomes_per_stage_or_language": {k: dict(v) for k, v in per_lang.items()},
        "slowest_runs_ms": sorted(slow, key=lambda x: -x[1])[:5], "watchdog_ms": TIMEOUT_MS,
        "signatures": {s: len(v) for s, v in sig_info.items()},
        "timing": {"stage1_s": round(t1 - t0, 1), "stage2_s": round(t2 - t1, 1)},
        "binding_selftest": binding, "samples": samples,
        "checker_cmd": "tlc MalformedMC; worker c04-run (subprocess, recover, watchdog); tlc MalformedTrace",
    }
    return ctx.finish("exploration", cov, ASSUMPTIONS)


def case_files(c):
    out = {}
    for root, _, files in os.walk(c["dir"]):
        for f in files:
            if f.startswith("run-"):
                continue
            p = os.path.join(root, f)
            data = open(p, "rb").read()
            try:
                out[os.path.relpath(p, c["dir"])] = data.decode()
            except UnicodeDecodeError:
                out[os.path.relpath(p, c["dir"])] = {"hex": data.hex()}
    return out


def selftest(ctx, res, order, by_cid):
    good = next((jid for jid in order if res[jid]["outcome"] == "error"), None)
    if good is None:
        raise core.Inconclusive("binding self-test: no run that returned an error")
    out = {}
    for name in ("good", "bad"):
        d = ctx.sub("selftest-" + name)
        cid, stage = good.split("|")
        rec = {"case": cid, "fam": by_cid[cid]["fam"], "class": by_cid[cid]["class"], "stage": stage,
               "outcome": "error" if name == "good" else "panic", "ms": int(res[good].get("ms", 0))}
        p = os.path.join(d, "trace.ndjson")
        open(p, "w").write(json.dumps(rec) + "\n")
        r = ctx.run_tlc("MalformedTrace", "MalformedTrace.cfg", workers=1, timeout=300, files={"trace.ndjson": p},
                        constants={"Strict": "TRUE"}, allow_violation=True)
        out[name] = r["violated"]
    if out["good"] or not out["bad"]:
        raise core.Inconclusive("binding self-test failed: good rejected=%s, corrupted rejected=%s" % (out["good"], out["bad"]))
    return "MalformedTrace(Strict) accepts a genuine `error` record and rejects it once the recorded outcome is changed to `panic`"


def replay(ctx, uni):
    rp = json.load(open(ctx.replay))
    r = rp["replay"]
    d = os.path.join(uni.dir, "replay")
    os.makedirs(d)
    # the replay file carries the exact files of the case and the pipeline YAML; paths are re-rooted
    yaml_text = r["yaml_text"]
    old_dirs = set(re.findall(r"(/[^\s'\"]+/c\d{6})(?=[/'\"])", yaml_text)) | set(re.findall(r"(/[^\s'\"]+/_fixed)(?=[/'\"])", yaml_text))
    for rel, data in r["files"].items():
        p = os.path.join(d, rel)
        os.makedirs(os.path.dirname(p), exist_ok=True)
        open(p, "wb").write(bytes.fromhex(data["hex"]) if isinstance(data, dict) else data.encode())
    fixed_needed = "_fixed" in yaml_text
    if fixed_needed:
        rr = ctx.run_tlc("MalformedMC", "MalformedMC.cfg", workers=4, timeout=600, constants={"Families": '{"jsonschema","openapi"}'})
        bases = {c["fam"]: c["doc"] for c in core.tagged_lines(rr["out"], "CASE") if c["class"] == "as-is" and c["base"] == 1}
        uni.write_fixed(bases)
    for od in old_dirs:
        yaml_text = yaml_text.replace(od, uni.fixed if od.endswith("_fixed") else d)
    yp = os.path.join(d, "replay.yaml")
    open(yp, "w").write(yaml_text)
    res = run_jobs(ctx, [{"id": "replay|" + r["stage"], "yaml": yp}], uni.dir, nproc=1)
    rec = res["replay|" + r["stage"]]
    sig, what = signature(rec)
    if sig:
        ctx.fail(sig, "%s: %s" % (rec["outcome"], str(what)[:300]), r)
    return ctx.finish("exploration", {"evaluations": 1, "distinct_nontrivial": 0, "rule": "replay of one recorded run",
                                      "samples": [{"outcome": rec["outcome"], "err": rec.get("err")}]}, [])


ASSUMPTIONS = [
    "structural universe: spec/MalformedMC.tla - every object member / array element of the well-formed base documents (JSON Schema draft-07, "
    "OpenAPI 3.0, pipeline YAML, one file per schema transformation, one file per builder / option rule) removed, or replaced by every value of "
    "the family's alphabet (other JSON kinds; empty, negative, dangling, cyclic, tuple-form and wrong-keyword spellings); the reference-cycle "
    "documents as they stand; for CUE an alphabet of expressions at every structural position; quick runs a seeded 1/12 slice",
    "arbitrary byte sequences cannot be enumerated by TLC: a seeded byte-level sample (truncation, bit flips, deletions, duplications, "
    "insertions) of the well-formed renderings is run on top and counted separately (sampling)",
    "output settings: first no output language (parsers, consolidation, transformations), then - only for cases on which that stage returns, since "
    "Run loads the schemas before it looks at any language - every language separately with all output kinds and generation flags on; "
    "thorough adds the complementary flag setting (any_as_interface, skip_runtime and therefore no builders); builder-transformation cases "
    "run for the five languages that have builders",
    "bounded time = 20 s per run (typical 30 ms), reported only when the same input times out twice; the worker's maximum goroutine stack "
    "is lowered to 64 MB so that runaway recursion is observed as a stack overflow within seconds",
    "OpenAPI documents are run with validation on and (thorough: all, quick: half) with no_validate",
    "YAML configuration is written in YAML's JSON subset; remote inputs (url:) are not exercised (no network)",
]
